(* C09 - proofs. *)
From Coq Require Import List Arith NArith Bool Lia.
Import ListNotations.
From SygmaV Require Import Model.C09.

Lemma upd_same : forall A (f : nat -> A) t x, upd f t x t = x.
Proof. intros A f t x. unfold upd. now rewrite Nat.eqb_refl. Qed.

Lemma upd_other : forall A (f : nat -> A) t x u, u <> t -> upd f t x u = f u.
Proof. intros A f t x u Hne. unfold upd. destruct (Nat.eqb_spec u t); [contradiction|reflexivity]. Qed.

Ltac ucase u t :=
  let Heq := fresh "Heq" in
  destruct (Nat.eq_dec u t) as [Heq|Heq];
  [subst u; repeat rewrite upd_same in * | repeat (rewrite (upd_other _ _ t _ u) in * by exact Heq)].

(* ------------------------------------------------------------------------------------------ *)
(* Part 1: the repaired admission protocol.                                                     *)
Section Admission.
  Variable sid : nat -> nat.

  Record Inv (st : state) : Prop := mkInv {
    iL1 : forall t, in_cs (pcs st t) = true -> lock st = Some t;
    iL2 : forall t, lock st = Some t -> in_cs (pcs st t) = true;
    iB  : forall t, pcs st t = PSet -> pend st (sid t) = false;
    iA1 : forall t, claims (pcs st t) = true -> pend st (sid t) = true;
    iA2 : forall s, pend st s = true -> exists t, sid t = s /\ claims (pcs st t) = true;
    iU  : forall t1 t2, sid t1 = sid t2 -> claims (pcs st t1) = true -> claims (pcs st t2) = true -> t1 = t2;
    iD  : all_locked (acc st) = true;
    iN  : forall t, pcs st t <> PCheck0
  }.

  Lemma inv_init : Inv (init New).
  Proof.
    constructor; cbn; intros; try discriminate; try reflexivity.
  Qed.

  Lemma holds_in_cs : forall st t, Inv st -> in_cs (pcs st t) = true -> holds st t = true.
  Proof.
    intros st t HI Hcs. unfold holds. rewrite (iL1 st HI t Hcs). apply Nat.eqb_refl.
  Qed.

  (* a step that only moves thread t between two pcs of the same kind *)
  Lemma inv_move : forall st t p' a',
    Inv st ->
    in_cs p' = in_cs (pcs st t) -> claims p' = claims (pcs st t) ->
    (p' = PSet -> pend st (sid t) = false) -> p' <> PCheck0 ->
    all_locked a' = true ->
    Inv (mk (upd (pcs st) t p') (pend st) (lock st) a').
  Proof.
    intros st t p' a' HI Hcs Hcl Hset Hn0 Ha.
    constructor; cbn.
    - intros u Hu. ucase u t.
      + apply (iL1 st HI). now rewrite <- Hcs.
      + now apply (iL1 st HI).
    - intros u Hu. ucase u t.
      + rewrite Hcs. now apply (iL2 st HI).
      + now apply (iL2 st HI).
    - intros u Hu. ucase u t.
      + now apply Hset.
      + now apply (iB st HI).
    - intros u Hu. ucase u t.
      + apply (iA1 st HI). now rewrite <- Hcl.
      + now apply (iA1 st HI).
    - intros s Hs. destruct (iA2 st HI s Hs) as [t0 [Hs0 Hc0]].
      exists t0. split; [exact Hs0|]. ucase t0 t.
      + now rewrite Hcl.
      + exact Hc0.
    - intros t1 t2 Hs H1 H2. apply (iU st HI t1 t2 Hs).
      + ucase t1 t; [now rewrite <- Hcl | exact H1].
      + ucase t2 t; [now rewrite <- Hcl | exact H2].
    - exact Ha.
    - intros u Hu. ucase u t; [now apply Hn0 | now apply (iN st HI u)].
  Qed.

  (* taking the free lock *)
  Lemma inv_take : forall st t p',
    Inv st -> lock st = None ->
    in_cs (pcs st t) = false -> in_cs p' = true ->
    claims p' = claims (pcs st t) -> p' <> PSet -> p' <> PCheck0 ->
    Inv (mk (upd (pcs st) t p') (pend st) (Some t) (acc st)).
  Proof.
    intros st t p' HI Hfree Hncs Hcs Hcl Hns Hn0.
    constructor; cbn.
    - intros u Hu. ucase u t; [reflexivity|].
      pose proof (iL1 st HI u Hu) as HL. rewrite Hfree in HL. discriminate.
    - intros u Hu. injection Hu as Hu. subst u. now rewrite upd_same.
    - intros u Hu. ucase u t; [contradiction | now apply (iB st HI)].
    - intros u Hu. ucase u t.
      + apply (iA1 st HI). now rewrite <- Hcl.
      + now apply (iA1 st HI).
    - intros s Hs. destruct (iA2 st HI s Hs) as [t0 [Hs0 Hc0]].
      exists t0. split; [exact Hs0|]. ucase t0 t; [now rewrite Hcl | exact Hc0].
    - intros t1 t2 Hs H1 H2. apply (iU st HI t1 t2 Hs).
      + ucase t1 t; [now rewrite <- Hcl | exact H1].
      + ucase t2 t; [now rewrite <- Hcl | exact H2].
    - apply (iD st HI).
    - intros u Hu. ucase u t; [now apply Hn0 | now apply (iN st HI u)].
  Qed.

  (* releasing the lock one holds *)
  Lemma inv_release : forall st t p',
    Inv st -> in_cs (pcs st t) = true -> in_cs p' = false ->
    claims p' = claims (pcs st t) -> p' <> PCheck0 ->
    Inv (mk (upd (pcs st) t p') (pend st) None (acc st)).
  Proof.
    intros st t p' HI Hcs Hncs Hcl Hn0.
    pose proof (iL1 st HI t Hcs) as Hown.
    constructor; cbn.
    - intros u Hu. ucase u t; [rewrite Hncs in Hu; discriminate|].
      pose proof (iL1 st HI u Hu) as HL. rewrite Hown in HL. injection HL as HL. congruence.
    - intros u Hu. discriminate.
    - intros u Hu. ucase u t.
      + subst p'. discriminate.
      + now apply (iB st HI).
    - intros u Hu. ucase u t.
      + apply (iA1 st HI). now rewrite <- Hcl.
      + now apply (iA1 st HI).
    - intros s Hs. destruct (iA2 st HI s Hs) as [t0 [Hs0 Hc0]].
      exists t0. split; [exact Hs0|]. ucase t0 t; [now rewrite Hcl | exact Hc0].
    - intros t1 t2 Hs H1 H2. apply (iU st HI t1 t2 Hs).
      + ucase t1 t; [now rewrite <- Hcl | exact H1].
      + ucase t2 t; [now rewrite <- Hcl | exact H2].
    - apply (iD st HI).
    - intros u Hu. ucase u t; [now apply Hn0 | now apply (iN st HI u)].
  Qed.

  Lemma only_one_in_cs : forall st t u, Inv st ->
    in_cs (pcs st t) = true -> in_cs (pcs st u) = true -> u = t.
  Proof.
    intros st t u HI Ht Hu.
    pose proof (iL1 st HI t Ht) as H1. pose proof (iL1 st HI u Hu) as H2. congruence.
  Qed.

  Lemma inv_set : forall st t,
    Inv st -> pcs st t = PSet ->
    Inv (mk (upd (pcs st) t PUnlock) (upd (pend st) (sid t) true) (lock st) ((t, holds st t) :: acc st)).
  Proof.
    intros st t HI Hpc.
    assert (Hcs : in_cs (pcs st t) = true) by now rewrite Hpc.
    pose proof (iB st HI t Hpc) as Hfree.
    constructor; cbn.
    - intros u Hu. ucase u t; [now apply (iL1 st HI)| now apply (iL1 st HI)].
    - intros u Hu. ucase u t; [reflexivity | now apply (iL2 st HI)].
    - intros u Hu. ucase u t; [discriminate|].
      exfalso. apply Heq. apply (only_one_in_cs st t u HI Hcs). now rewrite Hu.
    - intros u Hu. ucase u t.
      + reflexivity.
      + unfold upd. destruct (Nat.eqb (sid u) (sid t)); [reflexivity | now apply (iA1 st HI)].
    - intros s Hs. destruct (Nat.eq_dec s (sid t)) as [He|He].
      + exists t. split; [now symmetry|]. now rewrite upd_same.
      + rewrite upd_other in Hs by exact He.
        destruct (iA2 st HI s Hs) as [t0 [Hs0 Hc0]]. exists t0. split; [exact Hs0|].
        ucase t0 t; [reflexivity | exact Hc0].
    - intros t1 t2 Hs H1 H2.
      ucase t1 t; ucase t2 t; try reflexivity.
      + pose proof (iA1 st HI t2 H2) as HP. rewrite <- Hs in HP. congruence.
      + pose proof (iA1 st HI t1 H1) as HP. rewrite Hs in HP. congruence.
      + now apply (iU st HI).
    - rewrite (holds_in_cs st t HI Hcs). apply (iD st HI).
    - intros u Hu. ucase u t; [discriminate | now apply (iN st HI u)].
  Qed.

  Lemma inv_cwrite : forall st t,
    Inv st -> pcs st t = PCWrite ->
    Inv (mk (upd (pcs st) t PCUnlock) (upd (pend st) (sid t) false) (lock st) ((t, holds st t) :: acc st)).
  Proof.
    intros st t HI Hpc.
    assert (Hcs : in_cs (pcs st t) = true) by now rewrite Hpc.
    assert (Hcl : claims (pcs st t) = true) by now rewrite Hpc.
    constructor; cbn.
    - intros u Hu. ucase u t; [now apply (iL1 st HI)| now apply (iL1 st HI)].
    - intros u Hu. ucase u t; [reflexivity | now apply (iL2 st HI)].
    - intros u Hu. ucase u t; [discriminate|].
      exfalso. apply Heq. apply (only_one_in_cs st t u HI Hcs). now rewrite Hu.
    - intros u Hu. ucase u t; [discriminate|].
      rewrite upd_other; [now apply (iA1 st HI)|].
      intro He. apply Heq. now apply (iU st HI u t He).
    - intros s Hs. destruct (Nat.eq_dec s (sid t)) as [He|He].
      + subst s. rewrite upd_same in Hs. discriminate.
      + rewrite upd_other in Hs by exact He.
        destruct (iA2 st HI s Hs) as [t0 [Hs0 Hc0]]. exists t0. split; [exact Hs0|].
        ucase t0 t; [congruence | exact Hc0].
    - intros t1 t2 Hs H1 H2.
      ucase t1 t; [discriminate|]. ucase t2 t; [discriminate|]. now apply (iU st HI).
    - rewrite (holds_in_cs st t HI Hcs). apply (iD st HI).
    - intros u Hu. ucase u t; [discriminate | now apply (iN st HI u)].
  Qed.

  Lemma step_inv : forall e st, Inv st -> Inv (step New sid e st).
  Proof.
    intros e st HI. destruct e as [t|t]; cbn.
    - destruct (pcs st t) eqn:Hpc; try exact HI.
      + exfalso. now apply (iN st HI t).
      + (* PLock *)
        destruct (lock st) eqn:Hl; [exact HI|].
        apply inv_take; auto; rewrite ?Hpc; try reflexivity; discriminate.
      + (* PCheck *)
        assert (Hcs : in_cs (pcs st t) = true) by now rewrite Hpc.
        destruct (pend st (sid t)) eqn:Hp.
        * apply inv_move; auto; rewrite ?Hpc; try reflexivity; try discriminate.
          cbn. rewrite (holds_in_cs st t HI Hcs). apply (iD st HI).
        * apply inv_move; auto; rewrite ?Hpc; try reflexivity; try discriminate.
          cbn. rewrite (holds_in_cs st t HI Hcs). apply (iD st HI).
      + now apply inv_set.
      + apply inv_release; auto; rewrite ?Hpc; try reflexivity; discriminate.
      + apply inv_release; auto; rewrite ?Hpc; try reflexivity; discriminate.
      + destruct (lock st) eqn:Hl; [exact HI|].
        apply inv_take; auto; rewrite ?Hpc; try reflexivity; discriminate.
      + now apply inv_cwrite.
      + apply inv_release; auto; rewrite ?Hpc; try reflexivity; discriminate.
    - destruct (pcs st t) eqn:Hpc; try exact HI.
      apply inv_move; auto; rewrite ?Hpc; try reflexivity; try discriminate. apply (iD st HI).
  Qed.

  Lemma exec_inv : forall sched st, Inv st -> Inv (exec New sid sched st).
  Proof.
    induction sched as [|e r IH]; intros st HI; [exact HI|]. cbn. apply IH. now apply step_inv.
  Qed.

  Lemma reachable_inv : forall sched, Inv (exec New sid sched (init New)).
  Proof. intro sched. apply exec_inv. apply inv_init. Qed.

  (* --- at most one live session per session id, in every reachable state --- *)
  Lemma at_most_one_live : forall sched t1 t2,
    let st := exec New sid sched (init New) in
    sid t1 = sid t2 -> pcs st t1 = PRun -> pcs st t2 = PRun -> t1 = t2.
  Proof.
    intros sched t1 t2 st Hs H1 H2.
    apply (iU st (reachable_inv sched) t1 t2 Hs); [now rewrite H1 | now rewrite H2].
  Qed.

  Lemma lock_discipline : forall sched, all_locked (acc (exec New sid sched (init New))) = true.
  Proof. intro sched. apply (iD _ (reachable_inv sched)). Qed.

  Lemma mutual_exclusion : forall sched t1 t2,
    let st := exec New sid sched (init New) in
    in_cs (pcs st t1) = true -> in_cs (pcs st t2) = true -> t1 = t2.
  Proof.
    intros sched t1 t2 st H1 H2. apply (only_one_in_cs st t2 t1 (reachable_inv sched)); assumption.
  Qed.

  (* --- as long as no session of the id has ended: exactly one of the decided requests runs --- *)
  (* extra invariant of schedules without Fin events (for the session id s) *)
  Record InvNF (s : nat) (st : state) : Prop := mkNF {
    nF : forall t, sid t = s -> match pcs st t with PCLock | PCWrite | PCUnlock | PDone => False | _ => True end;
    nR : forall t, sid t = s -> (pcs st t = PRefused \/ pcs st t = PUnlockRef) -> pend st s = true
  }.

  Definition no_fin_for (s : nat) (sched : list sev) : Prop :=
    Forall (fun e => match e with Fin t => sid t <> s | Step _ => True end) sched.

  Lemma step_nf : forall s e st, Inv st -> InvNF s st ->
    match e with Fin t => sid t <> s | Step _ => True end -> InvNF s (step New sid e st).
  Proof.
    intros s e st HI HN He. destruct e as [t|t]; cbn.
    - destruct (pcs st t) eqn:Hpc; try exact HN.
      + exfalso. now apply (iN st HI t).
      + destruct (lock st); [exact HN|].
        constructor; cbn.
        * intros u Hu. ucase u t; [exact I | now apply (nF s st HN)].
        * intros u Hu Hr. ucase u t; [destruct Hr; discriminate | now apply (nR s st HN u)].
      + constructor; cbn.
        * intros u Hu. ucase u t; [now destruct (pend st (sid t)) | now apply (nF s st HN)].
        * intros u Hu Hr. ucase u t; [| now apply (nR s st HN u)].
          destruct (pend st (sid t)) eqn:Hp; [congruence | destruct Hr; discriminate].
      + constructor; cbn.
        * intros u Hu. ucase u t; [exact I | now apply (nF s st HN)].
        * intros u Hu Hr. ucase u t; [destruct Hr; discriminate|].
          unfold upd. destruct (Nat.eqb s (sid t)); [reflexivity | now apply (nR s st HN u)].
      + constructor; cbn.
        * intros u Hu. ucase u t; [exact I | now apply (nF s st HN)].
        * intros u Hu Hr. ucase u t; [destruct Hr; discriminate | now apply (nR s st HN u)].
      + constructor; cbn.
        * intros u Hu. ucase u t; [exact I | now apply (nF s st HN)].
        * intros u Hu Hr. ucase u t; [| now apply (nR s st HN u)].
          apply (nR s st HN t Hu). right. exact Hpc.
      + (* PCLock: impossible for sid s, harmless otherwise *)
        destruct (lock st); [exact HN|].
        constructor; cbn.
        * intros u Hu. ucase u t; [| now apply (nF s st HN)].
          pose proof (nF s st HN t Hu) as HF. now rewrite Hpc in HF.
        * intros u Hu Hr. ucase u t; [destruct Hr; discriminate | now apply (nR s st HN u)].
      + constructor; cbn.
        * intros u Hu. ucase u t; [| now apply (nF s st HN)].
          pose proof (nF s st HN t Hu) as HF. now rewrite Hpc in HF.
        * intros u Hu Hr. ucase u t; [destruct Hr; discriminate|].
          rewrite upd_other; [now apply (nR s st HN u)|].
          intro Hs. pose proof (nF s st HN t (eq_sym Hs)) as HF. now rewrite Hpc in HF.
      + constructor; cbn.
        * intros u Hu. ucase u t; [| now apply (nF s st HN)].
          pose proof (nF s st HN t Hu) as HF. now rewrite Hpc in HF.
        * intros u Hu Hr. ucase u t; [destruct Hr; discriminate | now apply (nR s st HN u)].
    - destruct (pcs st t) eqn:Hpc; try exact HN.
      constructor; cbn.
      + intros u Hu. ucase u t; [congruence | now apply (nF s st HN)].
      + intros u Hu Hr. ucase u t; [destruct Hr; discriminate | now apply (nR s st HN u)].
  Qed.

  Lemma exec_nf : forall s sched st, Inv st -> InvNF s st -> no_fin_for s sched ->
    InvNF s (exec New sid sched st).
  Proof.
    intros s sched. induction sched as [|e r IH]; intros st HI HN HF; [exact HN|].
    inversion HF as [|? ? He Hr]; subst. cbn. apply IH; [now apply step_inv | now apply step_nf | exact Hr].
  Qed.

  Lemma nf_init : forall s, InvNF s (init New).
  Proof. intro s. constructor; cbn; intros; [exact I | destruct H0; discriminate]. Qed.

  (* n requests (threads 0..n-1); those for session id s have all been decided (each is running
     or was refused), no session of s has ended yet: exactly one of them runs. *)
  Lemma exactly_one_admitted : forall n sched s,
    no_fin_for s sched ->
    let st := exec New sid sched (init New) in
    (exists t, t < n /\ sid t = s) ->
    (forall t, sid t = s -> t < n -> decided (pcs st t) = true) ->
    (forall t, sid t = s -> n <= t -> claims (pcs st t) = false) ->
    exists t, (t < n /\ sid t = s /\ pcs st t = PRun) /\
              forall u, sid u = s -> pcs st u = PRun -> u = t.
  Proof.
    intros n sched s HNF st [t0 [Ht0 Hs0]] Hdec Hout.
    pose proof (reachable_inv sched) as HI. fold st in HI.
    pose proof (exec_nf s sched (init New) inv_init (nf_init s) HNF) as HN. fold st in HN.
    assert (Hex : exists t, sid t = s /\ claims (pcs st t) = true).
    { pose proof (Hdec t0 Hs0 Ht0) as Hd. destruct (pcs st t0) eqn:Hpc; try discriminate.
      - exists t0. split; [exact Hs0 | now rewrite Hpc].
      - apply (iA2 st HI). apply (nR s st HN t0 Hs0). now left. }
    destruct Hex as [t [Hs Hc]].
    assert (Hlt : t < n).
    { destruct (Nat.lt_ge_cases t n) as [Hl|Hg]; [exact Hl|].
      rewrite (Hout t Hs Hg) in Hc. discriminate. }
    assert (Hrun : pcs st t = PRun).
    { pose proof (Hdec t Hs Hlt) as Hd. destruct (pcs st t); try discriminate; reflexivity. }
    exists t. split; [now repeat split|].
    intros u Hu Hpu. apply (iU st HI u t); [congruence | now rewrite Hpu | exact Hc].
  Qed.

  (* --- the session id becomes usable again --- *)
  Lemma free_when_unclaimed : forall sched s,
    let st := exec New sid sched (init New) in
    (forall t, sid t = s -> claims (pcs st t) = false) -> pend st s = false.
  Proof.
    intros sched s st Hno. destruct (pend st s) eqn:Hp; [|reflexivity].
    destruct (iA2 st (reachable_inv sched) s Hp) as [t [Hs Hc]]. rewrite (Hno t Hs) in Hc. discriminate.
  Qed.

  Lemma reusable : forall sched s t0,
    let st := exec New sid sched (init New) in
    (forall t, sid t = s -> claims (pcs st t) = false) ->
    (forall t, in_cs (pcs st t) = false) ->
    sid t0 = s -> pcs st t0 = PLock ->
    pcs (exec New sid [Step t0; Step t0; Step t0; Step t0] st) t0 = PRun.
  Proof.
    intros sched s t0 st Hno Hcs Hs Hpc.
    pose proof (reachable_inv sched) as HI. fold st in HI.
    assert (Hl : lock st = None).
    { destruct (lock st) as [o|] eqn:Hl; [|reflexivity].
      pose proof (iL2 st HI o Hl) as Hc. rewrite (Hcs o) in Hc. discriminate. }
    assert (Hp : pend st (sid t0) = false) by (rewrite Hs; now apply free_when_unclaimed).
    cbn. rewrite Hpc, Hl. cbn. rewrite upd_same. cbn. rewrite Hp. cbn. rewrite upd_same. cbn.
    rewrite upd_same. cbn. now rewrite upd_same.
  Qed.
End Admission.

(* ------------------------------------------------------------------------------------------ *)
(* The code as found: the witness schedule  1.Check 2.Check 1.Lock 1.Set 1.Unlock 2.Lock 2.Set
   2.Unlock  admits both requests for the same session id, and the checks read the map without
   the lock. *)
Definition old_witness : list sev :=
  [Step 0; Step 1; Step 0; Step 0; Step 0; Step 1; Step 1; Step 1].

Lemma old_two_live :
  let st := exec Old (fun _ => 0) old_witness (init Old) in
  pcs st 0 = PRun /\ pcs st 1 = PRun /\ all_locked (acc st) = false.
Proof. vm_compute. repeat split. Qed.

(* ------------------------------------------------------------------------------------------ *)
(* Part 2: cleanup of one session.                                                              *)
Lemma count_ev_app : forall f a b, count_ev f (a ++ b) = count_ev f a + count_ev f b.
Proof. intros f a b. unfold count_ev. now rewrite filter_app, app_length. Qed.

Ltac blia := repeat match goal with
      | H : (_ <=? _) = true |- _ => apply Nat.leb_le in H
      | H : (_ <=? _) = false |- _ => apply Nat.leb_gt in H
      | H : (_ <? _) = true |- _ => apply Nat.ltb_lt in H
      | H : (_ <? _) = false |- _ => apply Nat.ltb_ge in H
      end; try lia.

Lemma count_map_seq_other : forall f g, (forall p, f (g p) = false) ->
  forall n k, count_ev f (map g (seq k n)) = 0.
Proof.
  intros f g H. unfold count_ev. induction n as [|n IH]; intro k; cbn [map seq filter length]; [reflexivity|].
  rewrite H. apply IH.
Qed.

Lemma count_map_seq_eq : forall f g p, (forall q, f (g q) = Nat.eqb p q) ->
  forall n k, count_ev f (map g (seq k n)) = if (k <=? p) && (p <? k + n) then 1 else 0.
Proof.
  intros f g p H. unfold count_ev. induction n as [|n IH]; intro k; cbn [map seq filter length].
  - destruct (k <=? p) eqn:H1; destruct (p <? k + 0) eqn:H2; try reflexivity. blia.
  - rewrite H. destruct (Nat.eqb_spec p k) as [He|He]; cbn [length]; rewrite IH.
    + subst.
      destruct (S k <=? k) eqn:H1; destruct (k <=? k) eqn:H2;
      destruct (k <? S k + n) eqn:H3; destruct (k <? k + S n) eqn:H4; cbn; try reflexivity; blia.
    + destruct (S k <=? p) eqn:H1; destruct (k <=? p) eqn:H2;
      destruct (p <? S k + n) eqn:H3; destruct (p <? k + S n) eqn:H4; cbn; try reflexivity; blia.
Qed.

Lemma last_pend_app : forall a b, last_pend (a ++ b) =
  match last_pend b with Some x => Some x | None => last_pend a end.
Proof.
  induction a as [|e a IH]; intro b; cbn [app last_pend].
  - now destruct (last_pend b).
  - rewrite IH. destruct (last_pend b); [reflexivity|]. reflexivity.
Qed.

Lemma last_pend_map_stop : forall l, last_pend (map EStop l) = None.
Proof. induction l as [|x l IH]; cbn; [reflexivity | now rewrite IH]. Qed.

(* the number of (un)subscriptions does not depend on whether the processes were run *)
Lemma count_start_sub : forall m r run np,
  count_ev (is_sub m) (start_trace r run np) = count_ev (is_unsub m) (start_trace r run np).
Proof.
  intros m r run np. unfold start_trace, seq_ev.
  destruct r; repeat rewrite count_ev_app;
  destruct run; repeat (rewrite count_map_seq_other by reflexivity); destruct m; reflexivity.
Qed.

Lemma cleanup_complete : forall r o ph np, cleanup_ok np (session_trace r o ph np) = true.
Proof.
  intros r o ph np. unfold cleanup_ok, session_trace.
  apply andb_true_intro; split; [apply andb_true_intro; split; [apply andb_true_intro; split|]|].
  - (* subscriptions = unsubscriptions, per message type *)
    apply forallb_forall. intros m _. apply Nat.eqb_eq.
    repeat rewrite count_ev_app. rewrite count_start_sub. unfold seq_ev.
    rewrite (count_map_seq_other (is_sub m) EStop) by reflexivity.
    rewrite (count_map_seq_other (is_unsub m) EStop) by reflexivity.
    destruct m; cbn; lia.
  - (* CloseSession exactly once *)
    apply orb_true_intro. left.
    apply Nat.eqb_eq. repeat rewrite count_ev_app. unfold start_trace, seq_ev.
    rewrite (count_map_seq_other is_close EStop) by reflexivity.
    destruct r; repeat rewrite count_ev_app; destruct (runs _ o ph);
    repeat (rewrite (count_map_seq_other is_close ERun) by reflexivity); reflexivity.
  - (* every process stopped exactly once, run at most once *)
    apply forallb_forall. intros p Hp. apply in_seq in Hp.
    apply andb_true_intro; split.
    + apply Nat.eqb_eq. repeat rewrite count_ev_app. unfold start_trace, seq_ev.
      rewrite (count_map_seq_eq (is_stop p) EStop p) by reflexivity.
      replace (0 <=? p) with true by (symmetry; apply Nat.leb_le; lia).
      replace (p <? 0 + np) with true by (symmetry; apply Nat.ltb_lt; lia).
      destruct r; repeat rewrite count_ev_app; destruct (runs _ o ph);
      repeat (rewrite (count_map_seq_other (is_stop p) ERun) by reflexivity); reflexivity.
    + apply Nat.leb_le. repeat rewrite count_ev_app. unfold start_trace, seq_ev.
      rewrite (count_map_seq_other (is_run p) EStop) by reflexivity.
      destruct r; repeat rewrite count_ev_app; destruct (runs _ o ph);
      repeat (rewrite (count_map_seq_eq (is_run p) ERun p) by reflexivity);
      cbn [count_ev filter is_run length app];
      try destruct ((0 <=? p) && (p <? 0 + np)); cbn; lia.
  - (* the pending flag is false in the end *)
    repeat rewrite last_pend_app. unfold seq_ev. rewrite last_pend_map_stop. reflexivity.
Qed.

(* what the boolean predicate means *)
Lemma cleanup_ok_sound : forall np l, cleanup_ok np l = true ->
  (forall m, count_ev (is_sub m) l = count_ev (is_unsub m) l) /\
  (count_ev is_close l = 1 \/
   (count_ev is_close l = 0 /\ (forall m, count_ev (is_sub m) l = 0) /\
    (forall p, p < np -> count_ev (is_run p) l = 0))) /\
  (forall p, p < np -> count_ev (is_stop p) l = 1 /\ count_ev (is_run p) l <= 1) /\
  last_pend l = Some false.
Proof.
  intros np l H. unfold cleanup_ok in H.
  apply andb_prop in H. destruct H as [H H4].
  apply andb_prop in H. destruct H as [H H3].
  apply andb_prop in H. destruct H as [H1 H2].
  split; [|split; [|split; [split|]]].
  - intro m. rewrite forallb_forall in H1. apply Nat.eqb_eq. apply H1. destruct m; cbn; tauto.
  - apply orb_prop in H2. destruct H2 as [H2|H2]; [left; now apply Nat.eqb_eq|right].
    apply andb_prop in H2. destruct H2 as [H20 HS]. unfold silent_session in HS.
    apply andb_prop in HS. destruct HS as [HS1 HS2].
    split; [now apply Nat.eqb_eq|]. split.
    + intro m. rewrite forallb_forall in HS1. apply Nat.eqb_eq. apply HS1. destruct m; cbn; tauto.
    + intros p Hp. rewrite forallb_forall in HS2. apply Nat.eqb_eq. apply HS2. apply in_seq. lia.
  - rewrite forallb_forall in H3. specialize (H3 p). rewrite in_seq in H3.
    assert (Hin : 0 <= p < 0 + np) by lia. apply H3 in Hin. apply andb_prop in Hin.
    now apply Nat.eqb_eq.
  - rewrite forallb_forall in H3. specialize (H3 p). rewrite in_seq in H3.
    assert (Hin : 0 <= p < 0 + np) by lia. apply H3 in Hin. apply andb_prop in Hin.
    now apply Nat.leb_le.
  - destruct (last_pend l) as [[|]|]; try discriminate. reflexivity.
Qed.

(* ------------------------------------------------------------------------------------------ *)
(* Part 3: the stream map.                                                                      *)
Lemma release_none_retained : forall P m s p, sm_get (fst (sm_release P m s)) s p = None.
Proof. intros. cbn. now rewrite Nat.eqb_refl. Qed.

Lemma release_others_untouched : forall P m s s' p, s' <> s ->
  sm_get (fst (sm_release P m s)) s' p = sm_get m s' p.
Proof. intros P m s s' p H. cbn. destruct (Nat.eqb_spec s' s); [contradiction|reflexivity]. Qed.

Lemma in_somes : forall x l, In x (somes l) <-> In (Some x) l.
Proof.
  intros x l. unfold somes. rewrite in_flat_map. split.
  - intros [o [Ho Hx]]. destruct o as [y|]; cbn in Hx; [|contradiction].
    destruct Hx as [Hx|[]]. now subst.
  - intro H. exists (Some x). split; [exact H | now left].
Qed.

(* every stream registered for s under a peer < P is among the closed ones, and vice versa *)
Lemma release_closes_registered : forall P m s x,
  In x (snd (sm_release P m s)) <-> exists p, p < P /\ sm_get m s p = Some x.
Proof.
  intros P m s x. cbn. unfold row. rewrite in_somes, in_map_iff. split.
  - intros [p [Hp Hin]]. apply in_seq in Hin. exists p. split; [lia | exact Hp].
  - intros [p [Hp Hg]]. exists p. split; [exact Hg | apply in_seq; lia].
Qed.

Lemma add_get_same : forall m s p x,
  sm_get (sm_add m s p x) s p = match sm_get m s p with Some y => Some y | None => Some x end.
Proof.
  intros m s p x. unfold sm_add, sm_get. destruct (m s p) eqn:H; [exact H|].
  now rewrite !Nat.eqb_refl.
Qed.

Lemma add_get_other : forall m s p x s' p', (s', p') <> (s, p) ->
  sm_get (sm_add m s p x) s' p' = sm_get m s' p'.
Proof.
  intros m s p x s' p' H. unfold sm_add, sm_get. destruct (m s p); [reflexivity|].
  destruct (Nat.eqb_spec s' s); destruct (Nat.eqb_spec p' p); cbn; try reflexivity.
  subst. contradiction.
Qed.

(* whatever Close returns on the streams of s: nothing of s is retained, and a stream registered
   for (s, p) afterwards - the next run of the same session id - is the one handed out *)
Lemma release_any_close_result : forall fails P m s p x,
  sm_get (fst (sm_release_f fails P m s)) s p = None /\
  sm_get (sm_add (fst (sm_release_f fails P m s)) s p x) s p = Some x.
Proof.
  intros fails P m s p x. unfold sm_release_f. split; [apply release_none_retained|].
  rewrite add_get_same. now rewrite release_none_retained.
Qed.

Lemma nth_map_seq : forall A (f : nat -> A) d n k, k < n -> nth k (map f (seq 0 n)) d = f k.
Proof.
  intros A f d n k H. rewrite (nth_indep _ d (f 0)) by (rewrite map_length, seq_length; exact H).
  rewrite map_nth. now rewrite seq_nth.
Qed.

Lemma get2_snap : forall S P m s p, s < S -> p < P -> get2 (snap S P m) s p = m s p.
Proof.
  intros S P m s p Hs Hp. unfold get2, snap. rewrite (nth_map_seq _ _ [] S s Hs).
  now apply nth_map_seq.
Qed.

(* the model's ReleaseStreams satisfies the specification predicate used as judge *)
Lemma release_ok_model : forall S P X s m cl, s < S ->
  let st' := sm_step P (m, cl) (ORelease s) in
  release_ok S P X s (snap S P m) (snap S P (fst st')) (cvec X cl) (cvec X (snd st')) = true.
Proof.
  intros S P X s m cl Hs. cbn. unfold release_ok. apply andb_true_intro; split.
  - apply forallb_forall. intros s' Hs'. apply in_seq in Hs'.
    apply forallb_forall. intros p Hp. apply in_seq in Hp.
    rewrite !get2_snap by lia. destruct (Nat.eqb s' s); [reflexivity|].
    destruct (m s' p); cbn; [apply Nat.eqb_refl | reflexivity].
  - apply forallb_forall. intros x Hx. apply in_seq in Hx. apply Nat.eqb_eq.
    unfold cvec. rewrite !nth_map_seq by lia. unfold snap. rewrite (nth_map_seq _ _ [] S s Hs).
    reflexivity.
Qed.

Lemma opt_eqb_eq : forall a b, opt_eqb a b = true -> a = b.
Proof.
  intros [x|] [y|] H; cbn in H; try discriminate; [|reflexivity].
  apply Nat.eqb_eq in H. now subst.
Qed.

(* and what that predicate means *)
Lemma release_ok_sound : forall S P X s b a cb ca, release_ok S P X s b a cb ca = true ->
  (forall p, s < S -> p < P -> get2 a s p = None) /\
  (forall s' p, s' < S -> p < P -> s' <> s -> get2 a s' p = get2 b s' p) /\
  (forall x, x < X -> nth x ca 0 = nth x cb 0 + count_occ Nat.eq_dec (somes (nth s b [])) x).
Proof.
  intros S P X s b a cb ca H. unfold release_ok in H. apply andb_prop in H. destruct H as [H1 H2].
  rewrite forallb_forall in H1. rewrite forallb_forall in H2. repeat split.
  - intros p Hs Hp. assert (Hin : In s (seq 0 S)) by (apply in_seq; lia).
    specialize (H1 s Hin). rewrite forallb_forall in H1.
    assert (Hip : In p (seq 0 P)) by (apply in_seq; lia). specialize (H1 p Hip).
    rewrite Nat.eqb_refl in H1. now apply opt_eqb_eq in H1.
  - intros s' p Hs Hp Hne. assert (Hin : In s' (seq 0 S)) by (apply in_seq; lia).
    specialize (H1 s' Hin). rewrite forallb_forall in H1.
    assert (Hip : In p (seq 0 P)) by (apply in_seq; lia). specialize (H1 p Hip).
    destruct (Nat.eqb_spec s' s); [contradiction|]. now apply opt_eqb_eq in H1.
  - intros x Hx. assert (Hin : In x (seq 0 X)) by (apply in_seq; lia).
    specialize (H2 x Hin). now apply Nat.eqb_eq in H2.
Qed.

Lemma streams_ok_model : forall S P X ops st, releases_below S ops = true ->
  streams_ok S P X ops (model_sobs S P X st ops) = true.
Proof.
  intros S P X ops. induction ops as [|o ops IH]; intros st H; [reflexivity|].
  cbn [releases_below forallb] in H. apply andb_prop in H. destruct H as [Ho Hr].
  cbn [model_sobs streams_ok]. apply andb_true_intro. split; [| now apply IH].
  destruct o as [s p x|s p|s]; try reflexivity.
  rewrite Ho. cbn [andb]. destruct st as [m cl]. apply Nat.ltb_lt in Ho.
  now apply release_ok_model.
Qed.

(* ------------------------------------------------------------------------------------------ *)
(* The admission judge: accepted on the model, and what it means.                               *)
Lemma step_other_thread : forall v sid e st t, thread_of e <> t -> pcs (step v sid e st) t = pcs st t.
Proof.
  intros v sid e st t H. destruct e as [u|u]; cbn in *.
  - destruct (pcs st u); try reflexivity; cbn; try (now rewrite upd_other by congruence);
    destruct (lock st); cbn; try reflexivity; now rewrite upd_other by congruence.
  - destruct (pcs st u); try reflexivity. cbn. now rewrite upd_other by congruence.
Qed.

Lemma exec_unscheduled : forall v sid sched st t,
  Forall (fun e => thread_of e <> t) sched -> pcs (exec v sid sched st) t = pcs st t.
Proof.
  intros v sid sched. induction sched as [|e r IH]; intros st t H; [reflexivity|].
  inversion H as [|? ? He Hr]; subst.
  transitivity (pcs (step v sid e st) t); [apply (IH (step v sid e st) t Hr) | now apply step_other_thread].
Qed.

Lemma steps_below_spec : forall n sched, steps_below n sched = true ->
  Forall (fun e => match e with Step t => t < n | Fin _ => False end) sched.
Proof.
  intros n sched H. unfold steps_below in H. rewrite forallb_forall in H.
  apply Forall_forall. intros e He. specialize (H e He). destruct e; [now apply Nat.ltb_lt | discriminate].
Qed.

Lemma conc_ok_model : forall sid n sched,
  steps_below n sched = true ->
  let st := exec New sid sched (init New) in
  all_decided n st = true ->
  conc_ok n sid (fun t => pc_eqb (pcs st t) PRun) = true.
Proof.
  intros sid n sched Hsb st Hdec.
  pose proof (steps_below_spec n sched Hsb) as HF.
  assert (Hnf : forall s, no_fin_for sid s sched).
  { intro s. unfold no_fin_for. eapply Forall_impl; [|exact HF]. intros [t|t] H; [exact I | contradiction]. }
  assert (Hout : forall t, n <= t -> pcs st t = PLock).
  { intros t Ht. unfold st. rewrite exec_unscheduled; [reflexivity|].
    eapply Forall_impl; [|exact HF]. intros [u|u] H; cbn; [lia | contradiction]. }
  unfold all_decided in Hdec. rewrite forallb_forall in Hdec.
  assert (Hdec' : forall s t, sid t = s -> t < n -> decided (pcs st t) = true).
  { intros s t _ Ht. apply Hdec. apply in_seq. lia. }
  unfold conc_ok. apply andb_true_intro; split.
  - apply forallb_forall. intros t Ht. apply in_seq in Ht.
    destruct (exactly_one_admitted sid n sched (sid t) (Hnf (sid t))) as [u [[Hu [Hsu Hpu]] _]].
    + exists t. split; [lia | reflexivity].
    + intros w Hw Hlt. now apply (Hdec' (sid t)).
    + intros w _ Hge. fold st. now rewrite (Hout w Hge).
    + apply existsb_exists. exists u. split; [apply in_seq; lia|].
      fold st in Hpu. rewrite Hsu, Nat.eqb_refl, Hpu. reflexivity.
  - apply forallb_forall. intros u Hu. apply forallb_forall. intros w Hw.
    destruct (Nat.eqb_spec (sid u) (sid w)) as [Hs|Hs]; [|reflexivity].
    destruct (pcs st u) eqn:Hpu; try reflexivity.
    destruct (pcs st w) eqn:Hpw; try reflexivity. cbn.
    apply Nat.eqb_eq. now apply (at_most_one_live sid sched u w Hs).
Qed.

Lemma conc_ok_sound : forall n sid adm, conc_ok n sid adm = true ->
  (forall t, t < n -> exists u, u < n /\ sid u = sid t /\ adm u = true) /\
  (forall u w, u < n -> w < n -> sid u = sid w -> adm u = true -> adm w = true -> u = w).
Proof.
  intros n sid adm H. unfold conc_ok in H. apply andb_prop in H. destruct H as [H1 H2].
  rewrite forallb_forall in H1. rewrite forallb_forall in H2. split.
  - intros t Ht. assert (Hin : In t (seq 0 n)) by (apply in_seq; lia).
    specialize (H1 t Hin). apply existsb_exists in H1. destruct H1 as [u [Hu Hb]].
    apply in_seq in Hu. apply andb_prop in Hb. destruct Hb as [Hb1 Hb2].
    apply Nat.eqb_eq in Hb1. exists u. repeat split; [lia | exact Hb1 | exact Hb2].
  - intros u w Hu Hw Hs Hau Haw. assert (Hin : In u (seq 0 n)) by (apply in_seq; lia).
    specialize (H2 u Hin). rewrite forallb_forall in H2.
    assert (Hiw : In w (seq 0 n)) by (apply in_seq; lia). specialize (H2 w Hiw).
    rewrite Hs, Nat.eqb_refl, Hau, Haw in H2. cbn in H2. now apply Nat.eqb_eq.
Qed.

(* ------------------------------------------------------------------------------------------ *)
(* Part 4: Libp2pCommunication over the stream map.                                             *)
Lemma memb_In : forall x l, memb x l = true <-> In x l.
Proof.
  intros x l. unfold memb. rewrite existsb_exists. split.
  - intros [y [Hy He]]. apply Nat.eqb_eq in He. now subst.
  - intro H. exists x. split; [exact H | apply Nat.eqb_refl].
Qed.

Lemma memb_false : forall x l, memb x l = false <-> ~ In x l.
Proof.
  intros x l. rewrite <- memb_In. destruct (memb x l); split; intro H; try reflexivity;
    try discriminate; try (intro H'; discriminate). now exfalso; apply H.
Qed.

Lemma in_row : forall P m s x, In x (row P m s) <-> exists p, p < P /\ m s p = Some x.
Proof. intros P m s x. exact (release_closes_registered P m s x). Qed.

(* the invariant that ties the model state (m, nx) to the state (cl, live) the judge keeps *)
Record CommInv (P : nat) (m : smap) (nx : nat) (cl : list nat) (live : nat -> list nat) : Prop := {
  ci_open   : forall s p x, m s p = Some x -> ~ In x cl;
  ci_closed : forall x, In x cl -> x < nx;
  ci_live   : forall s x, In x (live s) -> exists p, p < P /\ m s p = Some x;
  ci_fresh  : forall s p x, m s p = Some x -> x < nx;
  ci_once   : forall s p s' p' x, m s p = Some x -> m s' p' = Some x -> s = s' /\ p = p'
}.

Lemma comm_ok_model_gen : forall P ops m nx cl live,
  CommInv P m nx cl live -> peers_below P ops = true ->
  comm_ok cl live ops (model_cobs P (m, nx) ops) = true.
Proof.
  intros P ops. induction ops as [|o ops IH]; intros m nx cl live HI HP; [reflexivity|].
  cbn [peers_below forallb] in HP. apply andb_prop in HP. destruct HP as [Hp HP].
  destruct HI as [HA HB HC HE HD].
  destruct o as [s p | s].
  - apply Nat.ltb_lt in Hp. cbn [model_cobs comm_step]. unfold sm_get.
    destruct (m s p) as [x|] eqn:Hm.
    + cbn [comm_ok]. apply andb_true_intro. split.
      * apply negb_true_iff, memb_false. now apply (HA s p).
      * apply IH; [|exact HP]. constructor; try assumption.
        intros s1 x1 Hin. unfold upd in Hin. destruct (Nat.eqb_spec s1 s) as [->|Hne].
        -- destruct Hin as [<-|Hin]; [exists p; now split | now apply HC].
        -- now apply HC.
    + cbn [comm_ok]. apply andb_true_intro. split.
      * apply negb_true_iff, memb_false. intro Hin. apply HB in Hin. lia.
      * apply IH; [|exact HP].
        assert (Hget : forall s1 p1 x1, sm_add m s p nx s1 p1 = Some x1 ->
                  (s1 = s /\ p1 = p /\ x1 = nx) \/ ((s1, p1) <> (s, p) /\ m s1 p1 = Some x1)).
        { intros s1 p1 x1 H1. unfold sm_add in H1. rewrite Hm in H1.
          destruct (Nat.eqb_spec s1 s) as [->|Hs]; destruct (Nat.eqb_spec p1 p) as [->|Hq]; cbn in H1.
          - left. injection H1 as <-. now repeat split.
          - right. split; [intro Hc; injection Hc as Hc; contradiction | exact H1].
          - right. split; [intro Hc; injection Hc as Hc; contradiction | exact H1].
          - right. split; [intro Hc; injection Hc as Hc; contradiction | exact H1]. }
        assert (Hkeep : forall s1 p1 x1, m s1 p1 = Some x1 -> sm_add m s p nx s1 p1 = Some x1).
        { intros s1 p1 x1 H1. change (sm_get (sm_add m s p nx) s1 p1 = Some x1).
          rewrite add_get_other; [exact H1|]. intro Hc. injection Hc as -> ->. rewrite Hm in H1. discriminate. }
        assert (Hnew : sm_add m s p nx s p = Some nx).
        { change (sm_get (sm_add m s p nx) s p = Some nx). rewrite add_get_same. unfold sm_get. now rewrite Hm. }
        constructor.
        -- intros s1 p1 x1 H1. destruct (Hget _ _ _ H1) as [[_ [_ ->]] | [_ H2]].
           ++ intro Hin. apply HB in Hin. lia.
           ++ now apply (HA s1 p1).
        -- intros x Hin. apply HB in Hin. lia.
        -- intros s1 x1 Hin. unfold upd in Hin. destruct (Nat.eqb_spec s1 s) as [->|Hne].
           ++ destruct Hin as [<-|Hin]; [exists p; now split|].
              destruct (HC _ _ Hin) as [p0 [Hp0 Hm0]]. exists p0. split; [exact Hp0 | now apply Hkeep].
           ++ destruct (HC _ _ Hin) as [p0 [Hp0 Hm0]]. exists p0. split; [exact Hp0 | now apply Hkeep].
        -- intros s1 p1 x1 H1. destruct (Hget _ _ _ H1) as [[_ [_ ->]] | [_ H2]]; [lia|].
           apply HE in H2. lia.
        -- intros s1 p1 s2 p2 x H1 H2.
           destruct (Hget _ _ _ H1) as [[-> [-> ->]] | [_ H1']];
             destruct (Hget _ _ _ H2) as [[-> [-> Hx]] | [_ H2']].
           ++ now split.
           ++ apply HE in H2'. lia.
           ++ subst x. apply HE in H1'. lia.
           ++ now apply (HD s1 p1 s2 p2 x).
  - cbn [model_cobs comm_step]. cbn [sm_release]. cbn [comm_ok].
    apply andb_true_intro. split.
    + apply forallb_forall. intros x Hin. apply memb_In, in_row. now apply HC.
    + apply IH; [|exact HP].
      assert (Hrel : forall s1 p1 x1,
                (if Nat.eqb s1 s then None else m s1 p1) = Some x1 -> s1 <> s /\ m s1 p1 = Some x1).
      { intros s1 p1 x1 H1. destruct (Nat.eqb_spec s1 s); [discriminate | now split]. }
      constructor.
      * intros s1 p1 x1 H1. apply Hrel in H1. destruct H1 as [Hne H1]. intro Hin.
        apply in_app_or in Hin. destruct Hin as [Hin|Hin]; [|now apply (HA s1 p1 x1)].
        apply in_row in Hin. destruct Hin as [p0 [_ Hm0]].
        destruct (HD _ _ _ _ _ H1 Hm0) as [Heq _]. contradiction.
      * intros x Hin. apply in_app_or in Hin. destruct Hin as [Hin|Hin]; [|now apply HB].
        apply in_row in Hin. destruct Hin as [p0 [_ Hm0]]. now apply (HE s p0).
      * intros s1 x1 Hin. unfold upd in Hin. destruct (Nat.eqb_spec s1 s) as [->|Hne]; [destruct Hin|].
        destruct (HC _ _ Hin) as [p0 [Hp0 Hm0]]. exists p0. split; [exact Hp0|].
        destruct (Nat.eqb_spec s1 s); [contradiction | exact Hm0].
      * intros s1 p1 x1 H1. apply Hrel in H1. now apply (HE s1 p1).
      * intros s1 p1 s2 p2 x H1 H2. apply Hrel in H1. apply Hrel in H2.
        now apply (HD s1 p1 s2 p2 x).
Qed.

Lemma comm_ok_model : forall P ops, peers_below P ops = true ->
  comm_ok [] (fun _ => []) ops (model_cobs P (sm_empty, 0) ops) = true.
Proof.
  intros P ops H. apply comm_ok_model_gen; [|exact H].
  constructor; unfold sm_empty; intros; try discriminate; try contradiction.
Qed.

(* what the judge means, for the two things the property asks of the streams: after CloseSession s
   (observed as the second of two consecutive operations here, the general case is the recursion
   of comm_ok) every stream the session used is among the closed ones, and a message sent after a
   stream was closed is never written to that stream *)
Lemma comm_ok_sound_close : forall cl live s ops xs obs,
  comm_ok cl live (CClose s :: ops) (CClosed xs :: obs) = true ->
  (forall x, In x (live s) -> In x xs) /\ comm_ok (xs ++ cl) (upd live s []) ops obs = true.
Proof.
  intros cl live s ops xs obs H. cbn [comm_ok] in H. apply andb_prop in H. destruct H as [H1 H2].
  split; [|exact H2]. intros x Hin. rewrite forallb_forall in H1. now apply memb_In, H1.
Qed.

Lemma comm_ok_sound_send : forall cl live s p ops x obs,
  comm_ok cl live (CSend s p :: ops) (CWrote x :: obs) = true ->
  ~ In x cl /\ comm_ok cl (upd live s (x :: live s)) ops obs = true.
Proof.
  intros cl live s p ops x obs H. cbn [comm_ok] in H. apply andb_prop in H. destruct H as [H1 H2].
  split; [|exact H2]. now apply memb_false, negb_true_iff.
Qed.

(* ------------------------------------------------------------------------------------------ *)
(* Part 5: admission versus teardown.                                                           *)
Lemma trun_stops : forall l st,
  t_closed (trun st (map TStop l)) = t_closed st /\
  t_pend (trun st (map TStop l)) = t_pend st /\
  t_stops (trun st (map TStop l)) = rev l ++ t_stops st.
Proof.
  induction l as [|p l IH]; intro st; [now repeat split|].
  cbn [map trun fold_left]. change (fold_left tdo (map TStop l) (tdo st (TStop p))) with (trun (tdo st (TStop p)) (map TStop l)).
  destruct (IH (tdo st (TStop p))) as [H1 [H2 H3]]. rewrite H1, H2, H3. cbn [tdo t_closed t_pend t_stops rev].
  repeat split. now rewrite <- app_assoc.
Qed.

Lemma filter_tclose_stops : forall l, filter is_tclose (map TStop l) = [].
Proof. induction l as [|p l IH]; [reflexivity | exact IH]. Qed.

Lemma firstn_map_stop : forall k l, firstn k (map TStop l) = map TStop (firstn k l).
Proof. intros k l. apply firstn_map. Qed.

Lemma skipn_map_stop : forall k l, skipn k (map TStop l) = map TStop (skipn k l).
Proof. intros k l. apply skipn_map. Qed.

Lemma count_occ_rev_seq : forall n p, p < n -> count_occ Nat.eq_dec (rev (seq 0 n)) p = 1.
Proof.
  intros n p Hp.
  assert (Hnd : NoDup (rev (seq 0 n))) by (apply NoDup_rev, seq_NoDup).
  assert (Hin : In p (rev (seq 0 n))) by (apply in_rev; rewrite rev_involutive; apply in_seq; lia).
  pose proof (proj1 (NoDup_count_occ Nat.eq_dec _) Hnd p) as Hle.
  pose proof (proj1 (count_occ_In Nat.eq_dec _ p) Hin) as Hge. lia.
Qed.

Lemma stops_vec_final : forall np st, t_stops st = rev (seq 0 np) -> stops_vec np st = repeat 1 np.
Proof.
  intros np st Hs. unfold stops_vec. rewrite Hs.
  assert (H : forall l, (forall p, In p l -> p < np) ->
              map (fun p => count_occ Nat.eq_dec (rev (seq 0 np)) p) l = repeat 1 (length l)).
  { induction l as [|q l IH]; intro Hl; [reflexivity|]. cbn [map length repeat].
    rewrite count_occ_rev_seq by (apply Hl; now left). f_equal. apply IH. intros p Hp. apply Hl. now right. }
  rewrite H; [now rewrite seq_length|]. intros p Hp. apply in_seq in Hp. lia.
Qed.

Lemma teardown_final : forall np,
  let fin := trun tinit (code_teardown np) in
  t_closed fin = 1 /\ t_pend fin = false /\ t_stops fin = rev (seq 0 np).
Proof.
  intro np. cbv zeta. unfold code_teardown. cbn [trun fold_left].
  change (fold_left tdo (map TStop (seq 0 np)) (tdo (tdo tinit TClose) TClear))
    with (trun (tdo (tdo tinit TClose) TClear) (map TStop (seq 0 np))).
  destruct (trun_stops (seq 0 np) (tdo (tdo tinit TClose) TClear)) as [H1 [H2 H3]].
  rewrite H1, H2, H3. cbn. repeat split. now rewrite app_nil_r.
Qed.

(* the order the code performs: a request arriving before the flag is cleared (inside CloseSession
   or before) is refused; one that is admitted finds the session closed and no CloseSession of the
   old run still to come; in the end: closed once, flag clear, every process stopped exactly once *)
Lemma teardown_order : forall np k,
  let st := arrive (code_teardown np) k in
  (k <= 1 -> admitted_at (code_teardown np) k = false) /\
  (t_pend st = true -> admitted_at (code_teardown np) k = false) /\
  (admitted_at (code_teardown np) k = true ->
     t_closed st = 1 /\ late_closes (code_teardown np) k = 0) /\
  (let fin := trun tinit (code_teardown np) in
   t_closed fin = 1 /\ t_pend fin = false /\ forall p, p < np -> count_occ Nat.eq_dec (t_stops fin) p = 1).
Proof.
  intros np k. cbv zeta. split; [|split; [|split]].
  - intro Hk. destruct k as [|[|k]]; [reflexivity | reflexivity | lia].
  - intro Hp. unfold admitted_at. now rewrite Hp.
  - destruct k as [|[|k]]; [discriminate | discriminate |]. intros _.
    unfold arrive, late_closes, code_teardown. cbn [firstn skipn trun fold_left].
    rewrite firstn_map_stop, skipn_map_stop, filter_tclose_stops.
    change (fold_left tdo (map TStop (firstn k (seq 0 np))) (tdo (tdo tinit TClose) TClear))
      with (trun (tdo (tdo tinit TClose) TClear) (map TStop (firstn k (seq 0 np)))).
    destruct (trun_stops (firstn k (seq 0 np)) (tdo (tdo tinit TClose) TClear)) as [H1 _].
    rewrite H1. now split.
  - destruct (teardown_final np) as [H1 [H2 H3]]. split; [exact H1|]. split; [exact H2|].
    intros p Hp. rewrite H3. now apply count_occ_rev_seq.
Qed.

(* any order of teardown steps in which every CloseSession precedes the clearing of the flag is
   safe: whenever a request is admitted no CloseSession of the old run is still to come *)
Lemma cbc_safe_gen : forall order st k, t_pend st = true -> closes_before_clear order = true ->
  t_pend (trun st (firstn k order)) = false -> length (filter is_tclose (skipn k order)) = 0.
Proof.
  induction order as [|s r IH]; intros st k Hp Hc Ha.
  - destruct k; cbn in Ha; congruence.
  - destruct k as [|k]; [cbn in Ha; congruence|].
    cbn [firstn skipn trun fold_left] in *.
    destruct s as [| |p].
    + apply (IH (tdo st TClose) k); [exact Hp | exact Hc | exact Ha].
    + cbn [closes_before_clear] in Hc. apply negb_true_iff in Hc.
      clear -Hc. revert k. induction r as [|s r IHr]; intro k; [now destruct k|].
      cbn [existsb] in Hc. apply orb_false_iff in Hc. destruct Hc as [Hs Hr].
      destruct k as [|k]; cbn [skipn filter].
      * rewrite Hs. apply (IHr Hr 0).
      * now apply IHr.
    + apply (IH (tdo st (TStop p)) k); [exact Hp | exact Hc | exact Ha].
Qed.

Lemma closes_before_clear_safe : forall order k, closes_before_clear order = true ->
  admitted_at order k = true -> late_closes order k = 0.
Proof.
  intros order k Hc Ha. unfold admitted_at, arrive in Ha. apply negb_true_iff in Ha.
  unfold late_closes. now apply (cbc_safe_gen order tinit k).
Qed.

(* ... and every other order is unsafe: some request is admitted with a CloseSession of the old run
   still to come *)
Lemma cbc_unsafe_gen : forall order st, t_pend st = true -> closes_before_clear order = false ->
  exists k, t_pend (trun st (firstn k order)) = false /\ 1 <= length (filter is_tclose (skipn k order)).
Proof.
  induction order as [|s r IH]; intros st Hp Hc; [discriminate|].
  destruct s as [| |p].
  - destruct (IH (tdo st TClose) Hp Hc) as [k [H1 H2]]. exists (S k). now split.
  - cbn [closes_before_clear] in Hc. apply negb_false_iff in Hc. exists 1. split; [reflexivity|].
    cbn [skipn]. clear -Hc. induction r as [|s r IHr]; [discriminate|].
    cbn [existsb] in Hc. cbn [filter]. destruct (is_tclose s); [cbn; lia | now apply IHr].
  - destruct (IH (tdo st (TStop p)) Hp Hc) as [k [H1 H2]]. exists (S k). now split.
Qed.

Lemma not_closes_before_clear_unsafe : forall order, closes_before_clear order = false ->
  exists k, admitted_at order k = true /\ 1 <= late_closes order k.
Proof.
  intros order Hc. destruct (cbc_unsafe_gen order tinit eq_refl Hc) as [k [H1 H2]].
  exists k. unfold admitted_at, arrive, late_closes. rewrite H1. now split.
Qed.

Lemma teardown_safe_iff_close_first : forall order,
  (closes_before_clear order = true ->
     forall k, admitted_at order k = true -> late_closes order k = 0) /\
  (closes_before_clear order = false ->
     exists k, admitted_at order k = true /\ 1 <= late_closes order k).
Proof.
  intro order. split; [intros H k; now apply closes_before_clear_safe | apply not_closes_before_clear_unsafe].
Qed.

(* the flag cleared first: a request arriving right after that is admitted, the session is not
   closed yet and the old run's CloseSession comes after it *)
Lemma early_clear_refuted : forall np,
  admitted_at (early_clear_teardown np) 1 = true /\
  t_closed (arrive (early_clear_teardown np) 1) = 0 /\
  late_closes (early_clear_teardown np) 1 = 1.
Proof.
  intro np. split; [reflexivity|]. split; [reflexivity|].
  unfold late_closes, early_clear_teardown. cbn [skipn filter is_tclose length].
  now rewrite filter_tclose_stops.
Qed.

Lemma natl_eqb_refl : forall l, natl_eqb l l = true.
Proof. induction l as [|x l IH]; [reflexivity|]. cbn. now rewrite Nat.eqb_refl. Qed.

Lemma natl_eqb_eq : forall a b, natl_eqb a b = true -> a = b.
Proof.
  induction a as [|x a IH]; destruct b as [|y b]; intro H; try discriminate; [reflexivity|].
  cbn in H. apply andb_prop in H. destruct H as [H1 H2]. apply Nat.eqb_eq in H1. f_equal; [exact H1 | now apply IH].
Qed.

(* the judge of the tear cases accepts the model, wherever the teardown is parked *)
Lemma tear_ok_model : forall np at_,
  let order := code_teardown np in
  let k := tear_pos at_ in
  let fin := trun tinit order in
  tear_ok np (model_dec np at_) (model_dec np at_) (t_closed (arrive order k))
          (if admitted_at order k then late_closes order k else 0) 0 false
          (stops_vec np fin) (t_closed fin) true (t_pend fin) = true.
Proof.
  intros np at_. cbv zeta.
  destruct (teardown_final np) as [F1 [F2 F3]].
  destruct (teardown_order np (tear_pos at_)) as [_ [_ [HA _]]].
  unfold tear_ok, model_dec. rewrite F1, F2, (stops_vec_final np _ F3), natl_eqb_refl.
  destruct (admitted_at (code_teardown np) (tear_pos at_)) eqn:Ha.
  - destruct (HA eq_refl) as [H1 H2]. rewrite H1, H2. reflexivity.
  - reflexivity.
Qed.

Lemma tear_ok_sound : forall np dec fin cb late live rp sa cl third pa,
  tear_ok np dec fin cb late live rp sa cl third pa = true ->
  (dec = TAdmitted -> 1 <= cb /\ live = 0) /\
  (fin = TAdmitted -> late = 0) /\ fin <> TWaited /\
  rp = false /\ sa = repeat 1 np /\ 1 <= cl /\ third = true /\ pa = false.
Proof.
  intros np dec fin cb late live rp sa cl third pa H. unfold tear_ok in H.
  repeat (apply andb_prop in H; let H' := fresh "H" in destruct H as [H H']).
  repeat split.
  - subst dec. apply andb_prop in H. destruct H as [H _]. now apply Nat.leb_le.
  - subst dec. apply andb_prop in H. destruct H as [_ H]. now apply Nat.eqb_eq.
  - intro Hf. subst fin. now apply Nat.eqb_eq.
  - intro Hf. subst fin. discriminate.
  - now apply negb_true_iff.
  - now apply natl_eqb_eq.
  - now apply Nat.leb_le.
  - assumption.
  - now apply negb_true_iff.
Qed.

(* ------------------------------------------------------------------------------------------ *)
(* Part 6: Libp2pCommunication with faults at the streams.                                      *)
Lemma none_in_spec : forall xs cl, none_in xs cl = true <-> forall x, In x xs -> ~ In x cl.
Proof.
  intros xs cl. unfold none_in. rewrite forallb_forall. split.
  - intros H x Hx. now apply memb_false, negb_true_iff, H.
  - intros H x Hx. now apply negb_true_iff, memb_false, H.
Qed.

Lemma wcomm_ok_model_gen : forall wf P S ops m nx cl rl live,
  CommInv P m nx cl live -> wpeers_below P ops = true ->
  wcomm_ok S cl rl live ops (model_wobs RegOnOpen wf P (m, nx) ops) = true.
Proof.
  intros wf P S ops. induction ops as [|o ops IH]; intros m nx cl rl live HI HP; [reflexivity|].
  cbn [wpeers_below forallb] in HP. apply andb_prop in HP. destruct HP as [Hp HP].
  destruct HI as [HA HB HC HE HD].
  destruct o as [s p ofail | s].
  - apply Nat.ltb_lt in Hp. cbn [model_wobs wstep]. unfold sm_get.
    destruct (m s p) as [x|] eqn:Hm.
    + cbn [wcomm_ok]. apply andb_true_intro. split; [apply andb_true_intro; split|].
      * apply none_in_spec. intros y [<-|[]]. now apply (HA s p).
      * reflexivity.
      * cbn [app]. apply IH; [|exact HP]. constructor; try assumption.
        intros s1 x1 Hin. unfold upd in Hin. destruct (Nat.eqb_spec s1 s) as [->|Hne].
        -- destruct Hin as [<-|Hin]; [exists p; now split | now apply HC].
        -- now apply HC.
    + destruct ofail.
      * cbn [wcomm_ok]. cbn [app none_in forallb andb].
        apply IH; [|exact HP]. constructor; try assumption.
        intros s1 x1 Hin. unfold upd in Hin. destruct (Nat.eqb_spec s1 s) as [->|Hne]; now apply HC.
      * cbn [wcomm_ok]. apply andb_true_intro. split; [apply andb_true_intro; split|].
        -- apply none_in_spec. intros y [<-|[]] Hin. apply HB in Hin. lia.
        -- apply none_in_spec. intros y [<-|[]] Hin. apply HB in Hin. lia.
        -- cbn [app]. apply IH; [|exact HP].
           assert (Hget : forall s1 p1 x1, sm_add m s p nx s1 p1 = Some x1 ->
                     (s1 = s /\ p1 = p /\ x1 = nx) \/ ((s1, p1) <> (s, p) /\ m s1 p1 = Some x1)).
           { intros s1 p1 x1 H1. unfold sm_add in H1. rewrite Hm in H1.
             destruct (Nat.eqb_spec s1 s) as [->|Hs]; destruct (Nat.eqb_spec p1 p) as [->|Hq]; cbn in H1.
             - left. injection H1 as <-. now repeat split.
             - right. split; [intro Hc; injection Hc as Hc; contradiction | exact H1].
             - right. split; [intro Hc; injection Hc as Hc; contradiction | exact H1].
             - right. split; [intro Hc; injection Hc as Hc; contradiction | exact H1]. }
           assert (Hkeep : forall s1 p1 x1, m s1 p1 = Some x1 -> sm_add m s p nx s1 p1 = Some x1).
           { intros s1 p1 x1 H1. change (sm_get (sm_add m s p nx) s1 p1 = Some x1).
             rewrite add_get_other; [exact H1|]. intro Hc. injection Hc as -> ->. rewrite Hm in H1. discriminate. }
           constructor.
           ++ intros s1 p1 x1 H1. destruct (Hget _ _ _ H1) as [[_ [_ ->]] | [_ H2]].
              ** intro Hin. apply HB in Hin. lia.
              ** now apply (HA s1 p1).
           ++ intros x Hin. apply HB in Hin. lia.
           ++ intros s1 x1 Hin. unfold upd in Hin. destruct (Nat.eqb_spec s1 s) as [->|Hne].
              ** assert (Hnew : sm_add m s p nx s p = Some nx).
                 { change (sm_get (sm_add m s p nx) s p = Some nx). rewrite add_get_same. unfold sm_get. now rewrite Hm. }
                 destruct Hin as [<-|[<-|Hin]]; [exists p; now split | exists p; now split |].
                 destruct (HC _ _ Hin) as [p0 [Hp0 Hm0]]. exists p0. split; [exact Hp0 | now apply Hkeep].
              ** destruct (HC _ _ Hin) as [p0 [Hp0 Hm0]]. exists p0. split; [exact Hp0 | now apply Hkeep].
           ++ intros s1 p1 x1 H1. destruct (Hget _ _ _ H1) as [[_ [_ ->]] | [_ H2]]; [lia|].
              apply HE in H2. lia.
           ++ intros s1 p1 s2 p2 x H1 H2.
              destruct (Hget _ _ _ H1) as [[-> [-> ->]] | [_ H1']];
                destruct (Hget _ _ _ H2) as [[-> [-> Hx]] | [_ H2']].
              ** now split.
              ** apply HE in H2'. lia.
              ** subst x. apply HE in H1'. lia.
              ** now apply (HD s1 p1 s2 p2 x).
  - cbn [model_wobs wstep]. cbn [sm_release]. cbn [wcomm_ok].
    apply andb_true_intro. split; [apply andb_true_intro; split|].
    + apply forallb_forall. intros x Hin. apply orb_true_iff. left. apply orb_true_iff. left.
      apply memb_In, in_row. now apply HC.
    + apply forallb_forall. intros s' _. destruct (Nat.eqb_spec s' s) as [->|Hne]; [reflexivity|].
      cbn [orb]. apply none_in_spec. intros x Hx Hin. apply in_row in Hin. destruct Hin as [p0 [_ Hm0]].
      destruct (HC _ _ Hx) as [p1 [_ Hm1]]. destruct (HD _ _ _ _ _ Hm1 Hm0) as [Heq _]. contradiction.
    + apply IH; [|exact HP].
      assert (Hrel : forall s1 p1 x1,
                (if Nat.eqb s1 s then None else m s1 p1) = Some x1 -> s1 <> s /\ m s1 p1 = Some x1).
      { intros s1 p1 x1 H1. destruct (Nat.eqb_spec s1 s); [discriminate | now split]. }
      constructor.
      * intros s1 p1 x1 H1. apply Hrel in H1. destruct H1 as [Hne H1]. intro Hin.
        apply in_app_or in Hin. destruct Hin as [Hin|Hin]; [|now apply (HA s1 p1 x1)].
        apply in_row in Hin. destruct Hin as [p0 [_ Hm0]].
        destruct (HD _ _ _ _ _ H1 Hm0) as [Heq _]. contradiction.
      * intros x Hin. apply in_app_or in Hin. destruct Hin as [Hin|Hin]; [|now apply HB].
        apply in_row in Hin. destruct Hin as [p0 [_ Hm0]]. now apply (HE s p0).
      * intros s1 x1 Hin. unfold upd in Hin. destruct (Nat.eqb_spec s1 s) as [->|Hne]; [destruct Hin|].
        destruct (HC _ _ Hin) as [p0 [Hp0 Hm0]]. exists p0. split; [exact Hp0|].
        destruct (Nat.eqb_spec s1 s); [contradiction | exact Hm0].
      * intros s1 p1 x1 H1. apply Hrel in H1. now apply (HE s1 p1).
      * intros s1 p1 s2 p2 x H1 H2. apply Hrel in H1. apply Hrel in H2.
        now apply (HD s1 p1 s2 p2 x).
Qed.

(* whatever the first write on each stream does (wf), whichever NewStream calls fail *)
Lemma wcomm_ok_model : forall wf P S ops, wpeers_below P ops = true ->
  wcomm_ok S [] [] (fun _ => []) ops (model_wobs RegOnOpen wf P (sm_empty, 0) ops) = true.
Proof.
  intros wf P S ops H. apply wcomm_ok_model_gen; [|exact H].
  constructor; unfold sm_empty; intros; try discriminate; try contradiction.
Qed.

(* registering a fresh stream only after its first write succeeded: a stream whose first write
   fails is never released *)
Lemma reg_after_write_refuted :
  exists wf ops, wpeers_below 2 ops = true /\
    wcomm_ok 1 [] [] (fun _ => []) ops (model_wobs RegAfterWrite wf 2 (sm_empty, 0) ops) = false.
Proof. exists (fun _ => true), [WSend 0 1 false; WClose 0]. split; reflexivity. Qed.

Lemma wcomm_ok_sound_close : forall S cl rl live s ops xs obs,
  wcomm_ok S cl rl live (WClose s :: ops) (WClosed xs :: obs) = true ->
  (forall x, In x (live s) -> In x xs \/ In x cl \/ In x rl) /\
  (forall s' x, s' < S -> s' <> s -> In x (live s') -> ~ In x xs) /\
  wcomm_ok S (xs ++ cl) rl (upd live s []) ops obs = true.
Proof.
  intros S cl rl live s ops xs obs H. cbn [wcomm_ok] in H.
  apply andb_prop in H. destruct H as [H H3]. apply andb_prop in H. destruct H as [H1 H2].
  split; [|split; [|exact H3]].
  - intros x Hin. rewrite forallb_forall in H1. specialize (H1 x Hin). apply orb_true_iff in H1.
    destruct H1 as [H1|H1]; [apply orb_true_iff in H1; destruct H1 as [H1|H1]; [left | right; left] | right; right];
      now apply memb_In.
  - intros s' x Hs Hne Hin. rewrite forallb_forall in H2.
    assert (Hseq : In s' (seq 0 S)) by (apply in_seq; lia). specialize (H2 s' Hseq).
    destruct (Nat.eqb_spec s' s); [contradiction|]. cbn [orb] in H2.
    now apply (proj1 (none_in_spec _ _) H2).
Qed.

Lemma wcomm_ok_sound_send : forall S cl rl live s p f ops o w r obs,
  wcomm_ok S cl rl live (WSend s p f :: ops) (WSent o w r :: obs) = true ->
  (forall x, In x w \/ In x o -> ~ In x cl) /\
  wcomm_ok S cl (r ++ rl) (upd live s (o ++ w ++ live s)) ops obs = true.
Proof.
  intros S cl rl live s p f ops o w r obs H. cbn [wcomm_ok] in H.
  apply andb_prop in H. destruct H as [H H3]. apply andb_prop in H. destruct H as [H1 H2].
  split; [|exact H3]. intros x [Hx|Hx]; [now apply (proj1 (none_in_spec _ _) H1) | now apply (proj1 (none_in_spec _ _) H2)].
Qed.

(* the context is already cancelled (or past its deadline) when Execute is entered: the session is
   admitted and torn down like one cancelled before start - nothing is run, everything is released,
   Execute returns nil *)
Lemma cancelled_before_entry : forall r np,
  session_trace r Cancelled BeforeEntry np = session_trace r Cancelled BeforeStart np /\
  runs r Cancelled BeforeEntry = false /\
  session_ret r Cancelled BeforeEntry = RNil /\
  cleanup_ok np (session_trace r Cancelled BeforeEntry np) = true.
Proof.
  intros r np. repeat split. apply cleanup_complete.
Qed.

(* ------------------------------------------------------------------------------------------ *)
(* Part 7: registration concurrent with release - every order of the operations.               *)
Record RInv (S P : nat) (st : sst) (acc : list nat) : Prop := {
  ri_below : forall s p x, fst st s p = Some x -> s < S /\ p < P;
  ri_acc   : forall x, In x acc -> (exists s p, fst st s p = Some x) \/ 1 <= snd st x
}.

Definition op_below (S P : nat) (o : sop) : bool :=
  match o with OAdd s p _ => Nat.ltb s S && Nat.ltb p P | _ => true end.

Lemma rinv_step : forall S P st acc o, op_below S P o = true -> RInv S P st acc ->
  RInv S P (sm_step P st o) (acc ++ accepts (fst st) o).
Proof.
  intros S P [m cl] acc o Hb [Hbel Hacc]. cbn [fst snd] in *. destruct o as [s p x|s p|s].
  - (* AddStream *)
    cbn in Hb. apply andb_prop in Hb. destruct Hb as [Hs Hp].
    apply Nat.ltb_lt in Hs. apply Nat.ltb_lt in Hp.
    cbn [sm_step accepts]. unfold sm_add. destruct (m s p) as [y|] eqn:Hm.
    + rewrite app_nil_r. constructor; cbn [fst snd]; assumption.
    + constructor; cbn [fst snd].
      * intros s' p' x' H. destruct (Nat.eqb s' s && Nat.eqb p' p) eqn:He.
        -- apply andb_prop in He. destruct He as [H1 H2].
           apply Nat.eqb_eq in H1. apply Nat.eqb_eq in H2. subst. now split.
        -- now apply (Hbel s' p' x').
      * intros x' Hin. apply in_app_or in Hin. destruct Hin as [Hin|[<-|[]]].
        -- destruct (Hacc x' Hin) as [[s0 [p0 H0]]|Hc]; [left | now right].
           exists s0, p0. destruct (Nat.eqb s0 s && Nat.eqb p0 p) eqn:He; [|exact H0].
           apply andb_prop in He. destruct He as [H1 H2].
           apply Nat.eqb_eq in H1. apply Nat.eqb_eq in H2. subst. congruence.
        -- left. exists s, p. now rewrite !Nat.eqb_refl.
  - (* Stream *)
    cbn [sm_step accepts]. rewrite app_nil_r. constructor; cbn [fst snd]; assumption.
  - (* ReleaseStreams *)
    cbn [sm_step accepts sm_release]. rewrite app_nil_r. constructor; cbn [fst snd].
    + intros s' p' x' H. destruct (Nat.eqb s' s); [discriminate | now apply (Hbel s' p' x')].
    + intros x' Hin. destruct (Hacc x' Hin) as [[s0 [p0 H0]]|Hc]; [|right; lia].
      destruct (Nat.eqb_spec s0 s) as [->|Hne].
      * right. destruct (Hbel s p0 x' H0) as [_ Hp0].
        assert (Hr : In x' (row P m s)) by (apply in_row; now exists p0).
        apply (count_occ_In Nat.eq_dec) in Hr. lia.
      * left. exists s0, p0. destruct (Nat.eqb_spec s0 s); [contradiction | exact H0].
Qed.

Lemma adds_below_cons : forall S P o ops, adds_below S P (o :: ops) = true ->
  op_below S P o = true /\ adds_below S P ops = true.
Proof. intros S P o ops H. unfold adds_below in H. cbn in H. now apply andb_prop in H. Qed.

Lemma rinv_exec : forall S P ops st acc, adds_below S P ops = true -> RInv S P st acc ->
  RInv S P (sm_exec P st ops) (acc ++ accepted P st ops).
Proof.
  intros S P ops. induction ops as [|o r IH]; intros st acc Hb HI; cbn.
  - now rewrite app_nil_r.
  - apply adds_below_cons in Hb. destruct Hb as [Ho Hr].
    rewrite app_assoc. apply IH; [exact Hr | now apply rinv_step].
Qed.

Lemma rinv_init : forall S P, RInv S P sst0 [].
Proof. intros S P. constructor; cbn; [discriminate | contradiction]. Qed.

Lemma adds_below_release_all : forall S P, adds_below S P (release_all S) = true.
Proof.
  intros S P. unfold adds_below, release_all. apply forallb_forall. intros o Ho.
  apply in_map_iff in Ho. destruct Ho as [s [<- _]]. reflexivity.
Qed.

(* a list of releases empties the sessions it names and registers nothing *)
Lemma exec_releases : forall P l st,
  let st' := sm_exec P st (map ORelease l) in
  (forall s p, In s l -> fst st' s p = None) /\
  (forall s p, fst st s p = None -> fst st' s p = None).
Proof.
  intros P l. induction l as [|a r IH]; intros st; cbn.
  - split; [contradiction | auto].
  - destruct st as [m cl]. cbn [sm_step sm_release].
    specialize (IH (fun s' p' => if Nat.eqb s' a then None else m s' p',
                    fun x => cl x + count_occ Nat.eq_dec (row P m a) x)).
    cbn zeta in IH. destruct IH as [IH1 IH2]. split.
    + intros s p [<-|Hin]; [|now apply IH1].
      apply IH2. cbn. now rewrite Nat.eqb_refl.
    + intros s p Hn. apply IH2. cbn. destruct (Nat.eqb s a); [reflexivity | exact Hn].
Qed.

(* EVERY sequence of operations (every order in which overlapping AddStream / Stream / ReleaseStreams
   calls can take effect), followed by a last release of every session: every stream that was ever
   registered has been closed, and the registry is empty *)
Lemma srace_model : forall S P ops, adds_below S P ops = true ->
  let st := sm_exec P sst0 (ops ++ release_all S) in
  (forall x, In x (accepted P sst0 ops) -> 1 <= snd st x) /\
  (forall s p, fst st s p = None).
Proof.
  intros S P ops Hb st.
  pose proof (rinv_exec S P ops sst0 [] Hb (rinv_init S P)) as H1. cbn [app] in H1.
  pose proof (rinv_exec S P (release_all S) _ _ (adds_below_release_all S P) H1) as H2.
  unfold sm_exec in st, H1, H2. rewrite <- fold_left_app in H2. fold st in H2.
  assert (Hempty : forall s p, fst st s p = None).
  { intros s p. destruct (fst st s p) as [x|] eqn:Hx; [|reflexivity].
    destruct (ri_below _ _ _ _ H2 s p x Hx) as [Hs _].
    unfold st in Hx. rewrite fold_left_app in Hx.
    destruct (exec_releases P (seq 0 S) (fold_left (sm_step P) ops sst0)) as [Hr _].
    unfold sm_exec, release_all in Hr. unfold release_all in Hx.
    rewrite (Hr s p) in Hx; [discriminate | apply in_seq; lia]. }
  split; [|exact Hempty].
  intros x Hin. destruct (ri_acc _ _ _ _ H2 x) as [[s [p Hx]]|Hc]; [apply in_or_app; now left | | exact Hc].
  rewrite Hempty in Hx. discriminate.
Qed.

Lemma forallb_map_seq : forall (f : nat -> bool) n, (forall k, k < n -> f k = true) ->
  forallb f (seq 0 n) = true.
Proof.
  intros f n H. apply forallb_forall. intros k Hk. apply in_seq in Hk. apply H. lia.
Qed.

(* the judge accepts what the model shows at the end, whenever every stream 0..X-1 was registered *)
Lemma srace_ok_model : forall S P X ops, adds_below S P ops = true -> all_accepted P X ops = true ->
  let st := sm_exec P sst0 (ops ++ release_all S) in
  srace_ok (cvec X (snd st)) (snap S P (fst st)) = true.
Proof.
  intros S P X ops Hb Ha st. destruct (srace_model S P ops Hb) as [Hc He]. fold st in Hc, He.
  unfold srace_ok. apply andb_true_intro. split.
  - unfold cvec. rewrite forallb_forall. intros c Hin. apply in_map_iff in Hin.
    destruct Hin as [x [<- Hx]]. apply Nat.leb_le. apply Hc.
    unfold all_accepted in Ha. rewrite forallb_forall in Ha. apply memb_In. now apply Ha.
  - unfold snap. rewrite forallb_forall. intros row Hin. apply in_map_iff in Hin.
    destruct Hin as [s [<- _]]. rewrite forallb_forall. intros o Ho. apply in_map_iff in Ho.
    destruct Ho as [p [<- _]]. now rewrite He.
Qed.

Lemma srace_ok_sound : forall closed left, srace_ok closed left = true ->
  (forall c, In c closed -> 1 <= c) /\ (forall row o, In row left -> In o row -> o = None).
Proof.
  intros closed left H. unfold srace_ok in H. apply andb_prop in H. destruct H as [H1 H2].
  rewrite forallb_forall in H1, H2. split.
  - intros c Hc. apply Nat.leb_le. now apply H1.
  - intros row o Hr Ho. specialize (H2 row Hr). rewrite forallb_forall in H2.
    specialize (H2 o Ho). now destruct o.
Qed.

(* closing a snapshot outside the lock and forgetting the session afterwards - "closing can block on
   a slow peer" - loses a stream that is registered in between: a model of that variant *)
Definition sm_release_late_forget (P : nat) (m : smap) (s : nat) (during : list sop) : sst -> sst :=
  fun st =>
    let snapshot := row P (fst st) s in
    let st1 := sm_exec P st during in           (* what takes effect while the snapshot is being closed *)
    (fun s' p' => if Nat.eqb s' s then None else fst st1 s' p',
     fun x => snd st1 x + count_occ Nat.eq_dec snapshot x).

Lemma late_forget_refuted :
  let st := sm_exec 3 sst0 [OAdd 0 1 0] in
  let st' := sm_release_late_forget 3 (fst st) 0 [OAdd 0 2 1] st in
  let fin := sm_exec 3 st' (release_all 1) in
  srace_ok (cvec 2 (snd fin)) (snap 1 3 (fst fin)) = false.
Proof. vm_compute. reflexivity. Qed.

(* ------------------------------------------------------------------------------------------ *)
(* Part 8: a live session keeps duplicates out, however long it lives.                          *)
Lemma run_stays : forall sid e st t, e <> Fin t -> pcs st t = PRun -> pcs (step New sid e st) t = PRun.
Proof.
  intros sid e st t Hne Hr. destruct (Nat.eq_dec (thread_of e) t) as [Ht|Ht].
  - destruct e as [u|u]; cbn in Ht; subst u.
    + cbn. now rewrite Hr.
    + contradiction.
  - now rewrite step_other_thread.
Qed.

Lemma live_session_keeps_out_duplicates : forall (sid : nat -> nat) sched1 sched2 t u,
  pcs (exec New sid sched1 (init New)) t = PRun ->
  Forall (fun e => e <> Fin t) sched2 ->
  sid u = sid t -> u <> t ->
  let st := exec New sid (sched1 ++ sched2) (init New) in
  pcs st t = PRun /\ pcs st u <> PRun.
Proof.
  intros sid sched1 sched2 t u Hr Hnf Hs Hne st.
  assert (Ht : pcs st t = PRun).
  { unfold st, exec. rewrite fold_left_app. fold (exec New sid sched1 (init New)).
    generalize dependent (exec New sid sched1 (init New)).
    induction sched2 as [|e r IH]; intros s0 H0; [exact H0|].
    inversion Hnf as [|? ? He Hr']; subst. cbn. apply IH; [exact Hr' | now apply run_stays]. }
  split; [exact Ht|]. intro Hu. apply Hne.
  apply (at_most_one_live sid (sched1 ++ sched2) u t Hs Hu Ht).
Qed.

Lemma long_dup_refused_true : long_dup_refused = true.
Proof. vm_compute. reflexivity. Qed.

Lemma long_ok_sound : forall fl da ml pa ru, long_ok fl da ml pa ru = true ->
  (fl = true -> da = false) /\ ml <= 1 /\ pa = false /\ ru = true.
Proof.
  intros fl da ml pa ru H. unfold long_ok in H.
  apply andb_prop in H. destruct H as [H H4]. apply andb_prop in H. destruct H as [H H3].
  apply andb_prop in H. destruct H as [H1 H2].
  repeat split.
  - intro Hf. subst. now destruct da.
  - now apply Nat.leb_le.
  - now destruct pa.
  - exact H4.
Qed.
