(* C06 proofs. *)
From Coq Require Import List NArith Bool Lia.
Import ListNotations.
From SygmaV Require Import Model.C06.
Local Open Scope N_scope.

(* ---- groups ------------------------------------------------------------------------------- *)

Lemma get_add : forall m g k,
  get k (add m g) = if N.eqb (dest m) k then get k g ++ [m] else get k g.
Proof.
  intros m g k. induction g as [|[k' l] r IH]; cbn [add get].
  - rewrite (N.eqb_sym k (dest m)). destruct (N.eqb (dest m) k); reflexivity.
  - destruct (N.eqb (dest m) k') eqn:E1; cbn [get].
    + apply N.eqb_eq in E1. subst k'.
      rewrite (N.eqb_sym k (dest m)). destruct (N.eqb (dest m) k); reflexivity.
    + destruct (N.eqb k k') eqn:E2.
      * apply N.eqb_eq in E2. subst k'. rewrite E1. reflexivity.
      * exact IH.
Qed.

Lemma for_dest_app : forall k a b, for_dest k (a ++ b) = for_dest k a ++ for_dest k b.
Proof. intros. unfold for_dest. apply filter_app. Qed.

Lemma get_add_for_dest : forall m g k, get k (add m g) = get k g ++ for_dest k [m].
Proof.
  intros. rewrite get_add. unfold for_dest. cbn [filter].
  destruct (N.eqb (dest m) k); [reflexivity | now rewrite app_nil_r].
Qed.

(* ---- every (repaired) per-event loop appends exactly the emitted messages ---------------------- *)

Definition linear (p : path) (ev : list (deposit * status) -> groups -> groups) : Prop :=
  forall l g k, get k (ev l g) = get k g ++ for_dest k (filter_map (emits p) l).

Lemma rv1_event_linear : linear EvmRetryV1 rv1_event.
Proof.
  intros l. induction l as [|[d st] r IH]; intros g k; cbn [rv1_event filter_map].
  - unfold for_dest. cbn. now rewrite app_nil_r.
  - unfold emits at 1. cbn [fst snd uses_status].
    destruct (handle d) as [m| | |]; try apply IH.
    destruct st; try apply IH.
    rewrite IH, get_add_for_dest, <- app_assoc. f_equal.
    change (m :: filter_map (emits EvmRetryV1) r) with ([m] ++ filter_map (emits EvmRetryV1) r).
    now rewrite for_dest_app.
Qed.

Lemma sub_block_linear : linear SubRetry sub_block.
Proof.
  intros l. induction l as [|[d st] r IH]; intros g k; cbn [sub_block filter_map].
  - unfold for_dest. cbn. now rewrite app_nil_r.
  - unfold emits at 1. cbn [fst snd uses_status].
    destruct (handle d) as [m| | |]; try apply IH.
    rewrite IH, get_add_for_dest, <- app_assoc. f_equal.
    change (m :: filter_map (emits SubRetry) r) with ([m] ++ filter_map (emits SubRetry) r).
    now rewrite for_dest_app.
Qed.

Lemma process_deposits_linear : forall p, uses_status p = false ->
  linear p (fun l g => process_deposits (map fst l) g).
Proof.
  intros p Hp l. induction l as [|[d st] r IH]; intros g k; cbn [process_deposits map fst filter_map].
  - unfold for_dest. cbn. now rewrite app_nil_r.
  - unfold emits at 1. cbn [fst snd]. rewrite Hp.
    destruct (handle d) as [m| | |]; try apply IH.
    rewrite IH, get_add_for_dest, <- app_assoc. f_equal.
    change (m :: filter_map (emits p) r) with ([m] ++ filter_map (emits p) r).
    now rewrite for_dest_app.
Qed.

Lemma filter_map_app : forall {A B} (f : A -> option B) a b,
  filter_map f (a ++ b) = filter_map f a ++ filter_map f b.
Proof.
  intros A B f a b. induction a as [|x r IH]; cbn [filter_map app]; [reflexivity|].
  destruct (f x); cbn; now rewrite IH.
Qed.

Lemma retry_gen_linear : forall p ev, linear p ev ->
  forall es g k, get k (retry_v1_gen ev es g) = get k g ++ for_dest k (filter_map (emits p) (flat es)).
Proof.
  intros p ev Hev es. induction es as [|e r IH]; intros g k; cbn [retry_v1_gen].
  - unfold flat, for_dest. cbn. now rewrite app_nil_r.
  - destruct e as [|l].
    + rewrite IH. reflexivity.
    + rewrite IH, Hev, <- app_assoc. f_equal.
      unfold flat. cbn [flat_map]. now rewrite filter_map_app, for_dest_app.
Qed.

(* ---- the five paths ------------------------------------------------------------------------ *)

Lemma run_total : forall p es, exists g, run p es = Done g.
Proof. intros p es. destruct p; cbn; eexists; reflexivity. Qed.

Lemma run_exact : forall p es g k, run p es = Done g -> get k g = all_emitted p es k.
Proof.
  intros p es g k H. unfold all_emitted.
  destruct p; cbn in H; injection H as <-.
  - exact (process_deposits_linear EvmDeposits eq_refl (flat es) [] k).
  - exact (process_deposits_linear SubDeposits eq_refl (flat es) [] k).
  - exact (process_deposits_linear BtcDeposits eq_refl (flat es) [] k).
  - exact (retry_gen_linear EvmRetryV1 _ rv1_event_linear es [] k).
  - exact (retry_gen_linear SubRetry _ sub_block_linear es [] k).
Qed.

(* Subsequence as a relation. *)
Inductive Subseq {A} : list A -> list A -> Prop :=
| Sub_nil : forall l, Subseq [] l
| Sub_skip : forall l x l', Subseq l l' -> Subseq l (x :: l')
| Sub_take : forall x l l', Subseq l l' -> Subseq (x :: l) (x :: l').

Lemma Subseq_refl : forall {A} (l : list A), Subseq l l.
Proof. induction l; constructor; assumption. Qed.

Lemma Subseq_filter : forall {A} (f : A -> bool) l l', Subseq l l' -> Subseq (filter f l) (filter f l').
Proof.
  intros A f l l' H. induction H as [l|l x l' H IH|x l l' H IH]; cbn [filter].
  - constructor.
  - destruct (f x); [constructor|]; assumption.
  - destruct (f x); [constructor|]; assumption.
Qed.

Lemma Subseq_In : forall {A} (l l' : list A) x, Subseq l l' -> In x l -> In x l'.
Proof.
  intros A l l' x H. induction H as [l|l y l' H IH|y l l' H IH]; intros Hin.
  - destruct Hin.
  - right. auto.
  - destruct Hin as [->|Hin]; [now left | right; auto].
Qed.

Lemma owed_emits : forall p x m, owed p x = Some m -> emits p x = Some m.
Proof. intros p [d st] m. unfold owed. cbn [fst]. destruct d; [auto | discriminate]. Qed.

Lemma owed_sub_emits : forall p l, Subseq (filter_map (owed p) l) (filter_map (emits p) l).
Proof.
  intros p l. induction l as [|x r IH]; cbn [filter_map]; [constructor|].
  destruct (owed p x) as [m|] eqn:E.
  - rewrite (owed_emits _ _ _ E). now constructor.
  - destruct (emits p x); [constructor|]; assumption.
Qed.

Lemma healthy_sub_all : forall p es k, Subseq (healthy p es k) (all_emitted p es k).
Proof. intros. unfold healthy, all_emitted, for_dest. apply Subseq_filter, owed_sub_emits. Qed.

(* neighbours_survive: the healthy messages of destination k form a subsequence of group k. *)
Lemma neighbours_survive : forall p es g k,
  run p es = Done g -> Subseq (healthy p es k) (get k g).
Proof. intros p es g k H. rewrite (run_exact _ _ _ k H). apply healthy_sub_all. Qed.

(* the same, element-wise and with the well-formed deposit named *)
Lemma In_filter_map : forall {A B} (f : A -> option B) l x b, In x l -> f x = Some b -> In b (filter_map f l).
Proof.
  intros A B f l x b. induction l as [|a r IH]; intros Hin Hf; [destruct Hin|].
  cbn [filter_map]. destruct Hin as [->|Hin].
  - rewrite Hf. now left.
  - destruct (f a); [right|]; auto.
Qed.

Lemma good_deposit_delivered : forall p es g m st,
  run p es = Done g -> In (Good m, st) (flat es) ->
  (uses_status p = true -> st = StNew) ->
  In m (get (dest m) g).
Proof.
  intros p es g m st H Hin Hst.
  apply (Subseq_In _ _ m (neighbours_survive p es g (dest m) H)).
  unfold healthy, for_dest. apply filter_In. split; [|apply N.eqb_refl].
  apply (In_filter_map _ _ (Good m, st)); [assumption|].
  unfold owed, emits. cbn [fst snd handle].
  destruct (uses_status p); [rewrite Hst|]; reflexivity.
Qed.

(* ---- the judge ------------------------------------------------------------------------------- *)

Lemma msg_eqb_eq : forall a b, msg_eqb a b = true <-> a = b.
Proof.
  intros [a1 a2] [b1 b2]. unfold msg_eqb. cbn [fst snd].
  rewrite andb_true_iff, !N.eqb_eq. split; [intros [-> ->]; reflexivity | intros H; injection H; auto].
Qed.

Lemma mem_In : forall m l, mem m l = true <-> In m l.
Proof.
  intros m l. induction l as [|x r IH]; cbn [mem In]; [split; [discriminate | tauto]|].
  rewrite orb_true_iff, msg_eqb_eq, IH. split; intros [H|H]; auto.
Qed.

Lemma spec_ok_model : forall p es, spec_ok p es false (run p es) = true.
Proof.
  intros p es. unfold spec_ok. cbn [negb andb].
  destruct (run_total p es) as [g Hg]. rewrite Hg.
  apply forallb_forall. intros m Hm. apply mem_In.
  apply (Subseq_In _ _ m (neighbours_survive p es g (dest m) Hg)).
  unfold healthy, for_dest. apply filter_In. split; [assumption | apply N.eqb_refl].
Qed.

Lemma spec_ok_sound : forall p es crashed r,
  spec_ok p es crashed r = true ->
  crashed = false /\
  forall m st, In (Good m, st) (flat es) -> (uses_status p = true -> st = StNew) ->
    exists g, r = Done g /\ In m (get (dest m) g).
Proof.
  intros p es crashed r H. unfold spec_ok in H. apply andb_true_iff in H. destruct H as [Hc Hall].
  split; [now destruct crashed|].
  intros m st Hin Hst.
  assert (Hm : In m (filter_map (owed p) (flat es))).
  { apply (In_filter_map _ _ (Good m, st)); [assumption|].
    unfold owed, emits. cbn [fst snd handle]. destruct (uses_status p); [rewrite Hst|]; reflexivity. }
  rewrite forallb_forall in Hall. specialize (Hall m Hm).
  destruct r as [g|]; [|discriminate]. exists g. split; [reflexivity | now apply mem_In].
Qed.

(* ---- the tree before the repairs --------------------------------------------------------------- *)

Definition w_good1 : deposit * status := (Good (2, 1), StNew).
Definition w_bad : deposit * status := (Bad Err, StNew).
Definition w_good3 : deposit * status := (Good (2, 3), StNew).

Lemma retry_v1_old_refuted : exists es m st,
  In (Good m, st) (flat es) /\ st = StNew /\
  exists g, run_old EvmRetryV1 es = Done g /\ ~ In m (get (dest m) g).
Proof.
  exists [RDeps [w_good1; w_bad; w_good3]], (2, 3), StNew.
  split; [cbn; auto|]. split; [reflexivity|].
  eexists. split; [vm_compute; reflexivity|].
  cbn. intros [H|[]]. discriminate.
Qed.

Lemma sub_retry_old_refuted_err : exists es m st,
  In (Good m, st) (flat es) /\ run_old SubRetry es = Failed.
Proof.
  exists [RDeps [w_good1; w_bad; w_good3]], (2, 1), StNew.
  split; [cbn; auto | vm_compute; reflexivity].
Qed.

Lemma sub_retry_old_refuted_panic : exists es m st,
  In (Good m, st) (flat es) /\
  exists g, run_old SubRetry es = Done g /\ ~ In m (get (dest m) g).
Proof.
  exists [RDeps [w_good1; (Bad Panic, StNew); w_good3]], (2, 3), StNew.
  split; [cbn; auto|].
  eexists. split; [vm_compute; reflexivity|].
  cbn. intros [H|[]]. discriminate.
Qed.

(* the three ProcessDeposits were right already: run_old = run there *)
Lemma run_old_same : forall p es, uses_status p = false -> p <> SubRetry -> run_old p es = run p es.
Proof. intros p es H1 H2. destruct p; try reflexivity; [discriminate | contradiction]. Qed.
