(* C06 proofs. *)
From Coq Require Import List NArith Bool Lia PeanoNat.
Import ListNotations.
From SygmaV Require Import Model.C06.
Local Open Scope N_scope.

(* ---- groups ------------------------------------------------------------------------------- *)

Lemma get_add : forall m g k,
  get k (add m g) = if N.eqb (dest m) k then get k g ++ [m] else get k g.
Proof.
  intros m g k. induction g as [|[k' l] r IH]; cbn [add get].
  - rewrite (N.eqb_sym k (dest m)). destruct (N.eqb (dest m) k); reflexivity.
  - destruct (N.eqb (dest m) k') eqn:E1; cbn [get].
    + apply N.eqb_eq in E1. subst k'.
      rewrite (N.eqb_sym k (dest m)). destruct (N.eqb (dest m) k); reflexivity.
    + destruct (N.eqb k k') eqn:E2.
      * apply N.eqb_eq in E2. subst k'. rewrite E1. reflexivity.
      * exact IH.
Qed.

Lemma for_dest_app : forall k a b, for_dest k (a ++ b) = for_dest k a ++ for_dest k b.
Proof. intros. unfold for_dest. apply filter_app. Qed.

Lemma get_add_for_dest : forall m g k, get k (add m g) = get k g ++ for_dest k [m].
Proof.
  intros. rewrite get_add. unfold for_dest. cbn [filter].
  destruct (N.eqb (dest m) k); [reflexivity | now rewrite app_nil_r].
Qed.

(* ---- every (repaired) per-event loop appends exactly the emitted messages ---------------------- *)

Definition linear (p : path) (ev : list (deposit * status) -> groups -> groups) : Prop :=
  forall l g k, get k (ev l g) = get k g ++ for_dest k (filter_map (emits p) l).

Lemma rv1_event_linear : linear EvmRetryV1 rv1_event.
Proof.
  intros l. induction l as [|[d st] r IH]; intros g k; cbn [rv1_event filter_map].
  - unfold for_dest. cbn. now rewrite app_nil_r.
  - unfold emits at 1. cbn [fst snd uses_status].
    destruct (handle d) as [m| | |]; try apply IH.
    destruct st; try apply IH.
    rewrite IH, get_add_for_dest, <- app_assoc. f_equal.
    change (m :: filter_map (emits EvmRetryV1) r) with ([m] ++ filter_map (emits EvmRetryV1) r).
    now rewrite for_dest_app.
Qed.

Lemma sub_block_linear : linear SubRetry sub_block.
Proof.
  intros l. induction l as [|[d st] r IH]; intros g k; cbn [sub_block filter_map].
  - unfold for_dest. cbn. now rewrite app_nil_r.
  - unfold emits at 1. cbn [fst snd uses_status].
    destruct (handle d) as [m| | |]; try apply IH.
    rewrite IH, get_add_for_dest, <- app_assoc. f_equal.
    change (m :: filter_map (emits SubRetry) r) with ([m] ++ filter_map (emits SubRetry) r).
    now rewrite for_dest_app.
Qed.

Lemma process_deposits_linear : forall p, uses_status p = false ->
  linear p (fun l g => process_deposits (map fst l) g).
Proof.
  intros p Hp l. induction l as [|[d st] r IH]; intros g k; cbn [process_deposits map fst filter_map].
  - unfold for_dest. cbn. now rewrite app_nil_r.
  - unfold emits at 1. cbn [fst snd]. rewrite Hp.
    destruct (handle d) as [m| | |]; try apply IH.
    rewrite IH, get_add_for_dest, <- app_assoc. f_equal.
    change (m :: filter_map (emits p) r) with ([m] ++ filter_map (emits p) r).
    now rewrite for_dest_app.
Qed.

Lemma filter_map_app : forall {A B} (f : A -> option B) a b,
  filter_map f (a ++ b) = filter_map f a ++ filter_map f b.
Proof.
  intros A B f a b. induction a as [|x r IH]; cbn [filter_map app]; [reflexivity|].
  destruct (f x); cbn; now rewrite IH.
Qed.

Lemma retry_gen_linear : forall p ev, linear p ev ->
  forall es g k, get k (retry_v1_gen ev es g) = get k g ++ for_dest k (filter_map (emits p) (flat es)).
Proof.
  intros p ev Hev es. induction es as [|e r IH]; intros g k; cbn [retry_v1_gen].
  - unfold flat, for_dest. cbn. now rewrite app_nil_r.
  - destruct e as [|l].
    + rewrite IH. reflexivity.
    + rewrite IH, Hev, <- app_assoc. f_equal.
      unfold flat. cbn [flat_map]. now rewrite filter_map_app, for_dest_app.
Qed.

(* ---- the five paths ------------------------------------------------------------------------ *)

Lemma run_total : forall p es, exists g, run p es = Done g.
Proof. intros p es. destruct p; cbn; eexists; reflexivity. Qed.

Lemma run_exact : forall p es g k, run p es = Done g -> get k g = all_emitted p es k.
Proof.
  intros p es g k H. unfold all_emitted.
  destruct p; cbn in H; injection H as <-.
  - exact (process_deposits_linear EvmDeposits eq_refl (flat es) [] k).
  - exact (process_deposits_linear SubDeposits eq_refl (flat es) [] k).
  - exact (process_deposits_linear BtcDeposits eq_refl (flat es) [] k).
  - exact (retry_gen_linear EvmRetryV1 _ rv1_event_linear es [] k).
  - exact (retry_gen_linear SubRetry _ sub_block_linear es [] k).
Qed.

(* Subsequence as a relation. *)
Inductive Subseq {A} : list A -> list A -> Prop :=
| Sub_nil : forall l, Subseq [] l
| Sub_skip : forall l x l', Subseq l l' -> Subseq l (x :: l')
| Sub_take : forall x l l', Subseq l l' -> Subseq (x :: l) (x :: l').

Lemma Subseq_refl : forall {A} (l : list A), Subseq l l.
Proof. induction l; constructor; assumption. Qed.

Lemma Subseq_filter : forall {A} (f : A -> bool) l l', Subseq l l' -> Subseq (filter f l) (filter f l').
Proof.
  intros A f l l' H. induction H as [l|l x l' H IH|x l l' H IH]; cbn [filter].
  - constructor.
  - destruct (f x); [constructor|]; assumption.
  - destruct (f x); [constructor|]; assumption.
Qed.

Lemma Subseq_In : forall {A} (l l' : list A) x, Subseq l l' -> In x l -> In x l'.
Proof.
  intros A l l' x H. induction H as [l|l y l' H IH|y l l' H IH]; intros Hin.
  - destruct Hin.
  - right. auto.
  - destruct Hin as [->|Hin]; [now left | right; auto].
Qed.

Lemma owed_emits : forall p x m, owed p x = Some m -> emits p x = Some m.
Proof. intros p [d st] m. unfold owed. cbn [fst]. destruct d; [auto | discriminate]. Qed.

Lemma owed_sub_emits : forall p l, Subseq (filter_map (owed p) l) (filter_map (emits p) l).
Proof.
  intros p l. induction l as [|x r IH]; cbn [filter_map]; [constructor|].
  destruct (owed p x) as [m|] eqn:E.
  - rewrite (owed_emits _ _ _ E). now constructor.
  - destruct (emits p x); [constructor|]; assumption.
Qed.

Lemma healthy_sub_all : forall p es k, Subseq (healthy p es k) (all_emitted p es k).
Proof. intros. unfold healthy, all_emitted, for_dest. apply Subseq_filter, owed_sub_emits. Qed.

(* neighbours_survive: the healthy messages of destination k form a subsequence of group k. *)
Lemma neighbours_survive : forall p es g k,
  run p es = Done g -> Subseq (healthy p es k) (get k g).
Proof. intros p es g k H. rewrite (run_exact _ _ _ k H). apply healthy_sub_all. Qed.

(* the same, element-wise and with the well-formed deposit named *)
Lemma In_filter_map : forall {A B} (f : A -> option B) l x b, In x l -> f x = Some b -> In b (filter_map f l).
Proof.
  intros A B f l x b. induction l as [|a r IH]; intros Hin Hf; [destruct Hin|].
  cbn [filter_map]. destruct Hin as [->|Hin].
  - rewrite Hf. now left.
  - destruct (f a); [right|]; auto.
Qed.

Lemma good_deposit_delivered : forall p es g m st,
  run p es = Done g -> In (Good m, st) (flat es) ->
  (uses_status p = true -> st = StNew) ->
  In m (get (dest m) g).
Proof.
  intros p es g m st H Hin Hst.
  apply (Subseq_In _ _ m (neighbours_survive p es g (dest m) H)).
  unfold healthy, for_dest. apply filter_In. split; [|apply N.eqb_refl].
  apply (In_filter_map _ _ (Good m, st)); [assumption|].
  unfold owed, emits. cbn [fst snd handle].
  destruct (uses_status p); [rewrite Hst|]; reflexivity.
Qed.

(* ---- the judge ------------------------------------------------------------------------------- *)

Lemma msg_eqb_eq : forall a b, msg_eqb a b = true <-> a = b.
Proof.
  intros [a1 [a2 a3]] [b1 [b2 b3]]. unfold msg_eqb, dest, nonce, content. cbn [fst snd].
  rewrite !andb_true_iff, !N.eqb_eq. split.
  - intros [[-> ->] ->]. reflexivity.
  - intros H. injection H. auto.
Qed.

Lemma msg_eqb_refl : forall a, msg_eqb a a = true.
Proof. intros a. now apply msg_eqb_eq. Qed.

Lemma mem_In : forall m l, mem m l = true <-> In m l.
Proof.
  intros m l. induction l as [|x r IH]; cbn [mem In]; [split; [discriminate | tauto]|].
  rewrite orb_true_iff, msg_eqb_eq, IH. split; intros [H|H]; auto.
Qed.

(* occurrences: each well-formed deposit its own message *)
Lemma count_In : forall m l, (1 <= count m l)%nat <-> In m l.
Proof.
  intros m l. induction l as [|x r IH]; cbn [count In]; [split; [lia | tauto]|].
  destruct (msg_eqb m x) eqn:E.
  - apply msg_eqb_eq in E. subst x. split; [now left | lia].
  - rewrite IH. split; [now right|]. intros [Hx|Hr]; [|exact Hr].
    subst x. rewrite msg_eqb_refl in E. discriminate.
Qed.

Lemma Subseq_count : forall m l l', Subseq l l' -> (count m l <= count m l')%nat.
Proof.
  intros m l l' H. induction H as [l|l x l' H IH|x l l' H IH]; cbn [count].
  - lia.
  - destruct (msg_eqb m x); lia.
  - destruct (msg_eqb m x); lia.
Qed.

Lemma count_for_dest : forall m l, count m (for_dest (dest m) l) = count m l.
Proof.
  intros m l. unfold for_dest. induction l as [|x r IH]; cbn [filter count]; [reflexivity|].
  destruct (N.eqb (dest x) (dest m)) eqn:E; cbn [count]; rewrite IH; [reflexivity|].
  destruct (msg_eqb m x) eqn:E2; [|reflexivity].
  apply msg_eqb_eq in E2. subst x. rewrite N.eqb_refl in E. discriminate.
Qed.

(* the messages owed to the well-formed deposits are in the groups with their multiplicities *)
Lemma each_its_own_message : forall p es g m,
  run p es = Done g ->
  (count m (filter_map (owed p) (flat es)) <= count m (get (dest m) g))%nat.
Proof.
  intros p es g m H. rewrite <- count_for_dest.
  exact (Subseq_count m _ _ (neighbours_survive p es g (dest m) H)).
Qed.

Lemma spec_ok_model : forall p es, spec_ok p es false (run p es) = true.
Proof.
  intros p es. unfold spec_ok. cbn [negb andb].
  destruct (run_total p es) as [g Hg]. rewrite Hg.
  apply forallb_forall. intros m Hm. apply Nat.leb_le.
  exact (each_its_own_message p es g m Hg).
Qed.

Lemma owed_good : forall p m st, (uses_status p = true -> st = StNew) -> owed p (Good m, st) = Some m.
Proof.
  intros p m st Hst. unfold owed, emits. cbn [fst snd handle].
  destruct (uses_status p); [rewrite Hst|]; reflexivity.
Qed.

Lemma spec_ok_sound : forall p es crashed r,
  spec_ok p es crashed r = true ->
  crashed = false /\
  forall m st, In (Good m, st) (flat es) -> (uses_status p = true -> st = StNew) ->
    exists g, r = Done g /\ In m (get (dest m) g) /\
      (count m (filter_map (owed p) (flat es)) <= count m (get (dest m) g))%nat.
Proof.
  intros p es crashed r H. unfold spec_ok in H. apply andb_true_iff in H. destruct H as [Hc Hall].
  split; [now destruct crashed|].
  intros m st Hin Hst.
  assert (Hm : In m (filter_map (owed p) (flat es))).
  { apply (In_filter_map _ _ (Good m, st)); [assumption | now apply owed_good]. }
  rewrite forallb_forall in Hall. specialize (Hall m Hm).
  destruct r as [g|]; [|discriminate]. exists g. apply Nat.leb_le in Hall.
  split; [reflexivity|]. split; [|exact Hall].
  apply count_In. apply count_In in Hm. lia.
Qed.

(* ---- the tree before the repairs --------------------------------------------------------------- *)

Definition w_good1 : deposit * status := (Good (2, (1, 1)), StNew).
Definition w_bad : deposit * status := (Bad Err, StNew).
Definition w_good3 : deposit * status := (Good (2, (3, 1)), StNew).

Lemma retry_v1_old_refuted : exists es m st,
  In (Good m, st) (flat es) /\ st = StNew /\
  exists g, run_old EvmRetryV1 es = Done g /\ ~ In m (get (dest m) g).
Proof.
  exists [RDeps [w_good1; w_bad; w_good3]], (2, (3, 1)), StNew.
  split; [cbn; auto|]. split; [reflexivity|].
  eexists. split; [vm_compute; reflexivity|].
  cbn. intros [H|[]]. discriminate.
Qed.

Lemma sub_retry_old_refuted_err : exists es m st,
  In (Good m, st) (flat es) /\ run_old SubRetry es = Failed.
Proof.
  exists [RDeps [w_good1; w_bad; w_good3]], (2, (1, 1)), StNew.
  split; [cbn; auto | vm_compute; reflexivity].
Qed.

Lemma sub_retry_old_refuted_panic : exists es m st,
  In (Good m, st) (flat es) /\
  exists g, run_old SubRetry es = Done g /\ ~ In m (get (dest m) g).
Proof.
  exists [RDeps [w_good1; (Bad Panic, StNew); w_good3]], (2, (3, 1)), StNew.
  split; [cbn; auto|].
  eexists. split; [vm_compute; reflexivity|].
  cbn. intros [H|[]]. discriminate.
Qed.

(* the three ProcessDeposits were right already: run_old = run there *)
Lemma run_old_same : forall p es, uses_status p = false -> p <> SubRetry -> run_old p es = run p es.
Proof. intros p es H1 H2. destruct p; try reflexivity; [discriminate | contradiction]. Qed.

(* ---- what is handed on to the relayer cannot crash the consumer -------------------------------- *)

(* every group is non-empty and holds only messages of its own destination *)
Definition GInv (g : groups) : Prop :=
  forall k l, In (k, l) g -> l <> [] /\ forall m, In m l -> dest m = k.

Lemma GInv_nil : GInv [].
Proof. intros k l []. Qed.

Lemma add_GInv : forall m g, GInv g -> GInv (add m g).
Proof.
  intros m g. induction g as [|[k' l'] r IH]; intros Hg k l Hin; cbn [add] in Hin.
  - destruct Hin as [Heq|[]]. injection Heq as <- <-. split; [discriminate|].
    intros m' [<-|[]]. reflexivity.
  - destruct (N.eqb (dest m) k') eqn:E.
    + apply N.eqb_eq in E. destruct Hin as [Heq|Hin].
      * injection Heq as <- <-. destruct (Hg k' l' (or_introl eq_refl)) as [_ Hd]. split.
        -- intros Habs. apply app_eq_nil in Habs. destruct Habs as [_ Habs]. discriminate.
        -- intros m' Hm'. apply in_app_or in Hm'. destruct Hm' as [Hm'|[<-|[]]]; [apply Hd; exact Hm'|exact E].
      * apply Hg. right. exact Hin.
    + destruct Hin as [Heq|Hin].
      * apply Hg. left. exact Heq.
      * apply IH; [|exact Hin]. intros k0 l0 H0. apply Hg. right. exact H0.
Qed.

Lemma process_deposits_GInv : forall ds g, GInv g -> GInv (process_deposits ds g).
Proof.
  induction ds as [|d r IH]; intros g Hg; cbn [process_deposits]; [exact Hg|].
  destruct (handle d); apply IH; try exact Hg. apply add_GInv; exact Hg.
Qed.

Lemma rv1_event_GInv : forall l g, GInv g -> GInv (rv1_event l g).
Proof.
  induction l as [|[d st] r IH]; intros g Hg; cbn [rv1_event]; [exact Hg|].
  destruct (handle d); try (apply IH; exact Hg).
  destruct st; apply IH; try exact Hg. apply add_GInv; exact Hg.
Qed.

Lemma sub_block_GInv : forall l g, GInv g -> GInv (sub_block l g).
Proof.
  induction l as [|[d st] r IH]; intros g Hg; cbn [sub_block]; [exact Hg|].
  destruct (handle d); apply IH; try exact Hg. apply add_GInv; exact Hg.
Qed.

Lemma retry_gen_GInv : forall ev, (forall l g, GInv g -> GInv (ev l g)) ->
  forall es g, GInv g -> GInv (retry_v1_gen ev es g).
Proof.
  intros ev Hev es. induction es as [|e r IH]; intros g Hg; cbn [retry_v1_gen]; [exact Hg|].
  destruct e as [|l]; apply IH; [exact Hg | apply Hev; exact Hg].
Qed.

Lemma run_GInv : forall p es g, run p es = Done g -> GInv g.
Proof.
  intros p es g H. destruct p; cbn in H; injection H as <-.
  - apply process_deposits_GInv, GInv_nil.
  - apply process_deposits_GInv, GInv_nil.
  - apply process_deposits_GInv, GInv_nil.
  - apply retry_gen_GInv; [exact rv1_event_GInv | exact GInv_nil].
  - apply retry_gen_GInv; [exact sub_block_GInv | exact GInv_nil].
Qed.

(* no_empty_group: the output groups are non-empty by construction (a group exists only because a
   message was appended to it), and homogeneous *)
Lemma no_empty_group : forall p es g k l,
  run p es = Done g -> In (k, l) g -> l <> [] /\ forall m, In m l -> dest m = k.
Proof. intros p es g k l H Hin. exact (run_GInv p es g H k l Hin). Qed.

Lemma somes_map_Some : forall l, somes (map Some l) = Some l.
Proof. induction l as [|m r IH]; cbn [map somes]; [reflexivity | rewrite IH; reflexivity]. Qed.

(* every batch the model hands on is delivered, whole, to the chain of its destination *)
Lemma groups_routed : forall p es g k l,
  run p es = Done g -> In (k, l) g -> route (map Some l) = Delivered k l.
Proof.
  intros p es g k l H Hin. destruct (no_empty_group p es g k l H Hin) as [Hne Hd].
  destruct l as [|m r]; [contradiction|].
  unfold route. cbn [map]. change (Some m :: map Some r) with (map Some (m :: r)).
  rewrite somes_map_Some. rewrite (Hd m (or_introl eq_refl)). reflexivity.
Qed.

Lemma sent_ok_model : forall p es g, run p es = Done g -> sent_ok (batches_of g) = true.
Proof.
  intros p es g H. unfold sent_ok, batches_of. apply forallb_forall. intros b Hb.
  apply in_map_iff in Hb. destruct Hb as [[k l] [<- Hin]]. cbn [snd].
  unfold batch_ok. rewrite (groups_routed p es g k l H Hin). reflexivity.
Qed.

Lemma somes_no_None : forall b l, somes b = Some l -> ~ In None b.
Proof.
  induction b as [|x r IH]; intros l H; [intros []|].
  destruct x as [m|]; cbn [somes] in H; [|discriminate].
  destruct (somes r) as [l'|] eqn:E; [|discriminate].
  intros [Habs|Hin]; [discriminate | exact (IH l' eq_refl Hin)].
Qed.

Lemma sent_ok_sound : forall bs, sent_ok bs = true ->
  forall b, In b bs -> b <> [] /\ ~ In None b /\ exists k l, route b = Delivered k l.
Proof.
  intros bs H b Hb. unfold sent_ok in H. rewrite forallb_forall in H. specialize (H b Hb).
  unfold batch_ok in H. destruct (route b) as [k l|] eqn:E; [|discriminate].
  split; [intros ->; discriminate|]. split; [|exists k, l; reflexivity].
  unfold route in E. destruct b as [|[m|] r]; try discriminate.
  destruct (somes (Some m :: r)) as [l'|] eqn:Es; [|discriminate].
  exact (somes_no_None _ _ Es).
Qed.

(* ---- downstream of route: the destination chain's message handler --------------------------- *)

Lemma receive_some : forall h l, (forall m, In m l -> h m <> RPanic) ->
  exists w, receive h l = Some w /\ (forall m, In m l -> h m = RProp -> In m w) /\ (forall m, In m w -> In m l /\ h m = RProp).
Proof.
  intros h l. induction l as [|x r IH]; intros Hnp; cbn [receive].
  - exists []. split; [reflexivity|]. split; [intros m []|intros m []].
  - destruct (IH (fun m Hm => Hnp m (or_intror Hm))) as [w [Hw [Hin Hout]]].
    destruct (h x) eqn:E.
    + rewrite Hw. exists (x :: w). split; [reflexivity|]. split.
      * intros m [<-|Hm] Hp; [left; reflexivity | right; exact (Hin m Hm Hp)].
      * intros m [<-|Hm]; [split; [left; reflexivity | exact E]|].
        destruct (Hout m Hm) as [H1 H2]. split; [right; exact H1 | exact H2].
    + exists w. split; [exact Hw|]. split.
      * intros m [<-|Hm] Hp; [rewrite E in Hp; discriminate | exact (Hin m Hm Hp)].
      * intros m Hm. destruct (Hout m Hm) as [H1 H2]. split; [right; exact H1 | exact H2].
    + exfalso. exact (Hnp x (or_introl eq_refl) E).
Qed.

Lemma receive_panic : forall h l m, In m l -> h m = RPanic -> receive h l = None.
Proof.
  intros h l. induction l as [|x r IH]; intros m Hin Hp; [destruct Hin|].
  cbn [receive]. destruct Hin as [<-|Hin].
  - rewrite Hp. reflexivity.
  - rewrite (IH m Hin Hp). destruct (h x); reflexivity.
Qed.

(* a batch of the model none of whose messages makes the destination's handler panic is survived by
   route, and every message of it that the handler turns into a proposal is written - whatever the
   handler does with the others (a garbage message the handler refuses takes no neighbour with it) *)
Lemma route_h_delivers : forall h p es g k l,
  run p es = Done g -> In (k, l) g -> (forall m, In m l -> h m <> RPanic) ->
  exists w, route_h h (map Some l) = Delivered k w /\
    (forall m, In m l -> h m = RProp -> In m w) /\ (forall m, In m w -> In m l /\ h m = RProp).
Proof.
  intros h p es g k l H Hin Hnp. unfold route_h. rewrite (groups_routed p es g k l H Hin).
  destruct (receive_some h l Hnp) as [w [Hw Hrest]]. rewrite Hw. exists w. split; [reflexivity | exact Hrest].
Qed.

(* one message on which the handler panics, anywhere in the batch: the route goroutine dies (and the
   process with it), nothing of the batch is written - that is why the judge rejects any handler panic *)
Lemma route_h_panics : forall h p es g k l m,
  run p es = Done g -> In (k, l) g -> In m l -> h m = RPanic -> route_h h (map Some l) = RoutePanic.
Proof.
  intros h p es g k l m H Hin Hm Hp. unfold route_h. rewrite (groups_routed p es g k l H Hin).
  rewrite (receive_panic h l m Hm Hp). reflexivity.
Qed.

Lemma down_ok_sound : forall hp, down_ok hp = true -> forall x, ~ In x hp.
Proof. intros hp H x Hin. destruct hp; [destruct Hin | discriminate]. Qed.
