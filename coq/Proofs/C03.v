From Coq Require Import List NArith PeanoNat Bool Lia.
From SygmaV Require Import Model.C03.
Import ListNotations.
Local Open Scope N_scope.

(* ---- keys ---- *)

Lemma key_eqb_refl k : key_eqb k k = true.
Proof. unfold key_eqb. rewrite !N.eqb_refl. reflexivity. Qed.

Lemma key_eqb_eq a b : key_eqb a b = true <-> a = b.
Proof.
  unfold key_eqb. destruct a as [a1 a2], b as [b1 b2]; cbn. rewrite andb_true_iff, !N.eqb_eq.
  split; [intros [-> ->]; reflexivity | intros H; inversion H; auto].
Qed.

Lemma key_eqb_neq a b : key_eqb a b = false <-> a <> b.
Proof.
  split; intros H.
  - intros E. apply key_eqb_eq in E. congruence.
  - destruct (key_eqb a b) eqn:E; [apply key_eqb_eq in E; contradiction | reflexivity].
Qed.

Lemma kmem_In k l : kmem k l = true <-> In k l.
Proof.
  induction l as [|x l IH]; cbn; [split; [discriminate | contradiction]|].
  rewrite orb_true_iff, IH, key_eqb_eq. split; intros [H|H]; auto.
Qed.

(* ---- EVM / Substrate: one delivery ---- *)

Lemma evm_select_char d :
  evm_select d = if existsb is_lookup_err d then Err else Ok (map fst (filter not_executed d)).
Proof.
  induction d as [|[k a] r IH]; cbn [evm_select existsb filter]; [reflexivity|].
  unfold is_lookup_err at 1, not_executed at 1. cbn [snd].
  destruct a; cbn [orb].
  - exact IH.
  - rewrite IH. destruct (existsb is_lookup_err r); reflexivity.
  - reflexivity.
Qed.

Lemma sub_select_evm d : sub_select d = evm_select d.
Proof.
  induction d as [|[k a] r IH]; cbn [sub_select evm_select]; [reflexivity|].
  destruct a; rewrite ?IH; reflexivity.
Qed.

Lemma old_sub_select_char d :
  old_sub_select d = if existsb is_lookup_err d then Err else Ok (map fst d).
Proof.
  induction d as [|[k a] r IH]; cbn [old_sub_select existsb map fst]; [reflexivity|].
  unfold is_lookup_err at 1. cbn [snd].
  destruct a; cbn [orb]; rewrite ?IH; try reflexivity; destruct (existsb is_lookup_err r); reflexivity.
Qed.

Section Select.
  Variable sel : list (key * answer) -> res.
  Hypothesis sel_char : forall d,
    sel d = if existsb is_lookup_err d then Err else Ok (map fst (filter not_executed d)).

  (* sound: everything selected was reported not executed (at its own query), in delivery order *)
  Lemma select_sound d l :
    sel d = Ok l ->
    l = map fst (filter not_executed d) /\ forall k, In k l -> In (k, NotExecuted) d.
  Proof.
    rewrite sel_char. destruct (existsb is_lookup_err d); [discriminate|]. intros H; inversion H; subst.
    split; [reflexivity|]. intros k Hin. apply in_map_iff in Hin as [[k' a] [Hk Hin]]. cbn in Hk; subst k'.
    apply filter_In in Hin as [Hin Hne]. unfold not_executed in Hne; cbn in Hne.
    destruct a; try discriminate. exact Hin.
  Qed.

  (* complete: without a lookup error every not-executed proposal of the delivery is selected *)
  Lemma select_complete d :
    (forall k, ~ In (k, LookupErr) d) ->
    sel d = Ok (map fst (filter not_executed d)) /\
    forall k, In (k, NotExecuted) d -> In k (signed_of (sel d)).
  Proof.
    intros Hno. assert (E : existsb is_lookup_err d = false).
    { destruct (existsb is_lookup_err d) eqn:E; [|reflexivity].
      apply existsb_exists in E as [[k a] [Hin He]]. unfold is_lookup_err in He; cbn in He.
      destruct a; try discriminate. exfalso; exact (Hno k Hin). }
    rewrite sel_char, E. split; [reflexivity|]. intros k Hin. cbn [signed_of].
    apply in_map_iff. exists (k, NotExecuted). split; [reflexivity|]. apply filter_In. split; [exact Hin|reflexivity].
  Qed.

  (* a failing lookup: the error is returned and nothing of the delivery is signed *)
  Lemma select_err_signs_nothing d k :
    In (k, LookupErr) d -> sel d = Err /\ signed_of (sel d) = [] /\ sessions_of (sel d) = [].
  Proof.
    intros Hin. assert (E : existsb is_lookup_err d = true).
    { apply existsb_exists. exists (k, LookupErr). split; [exact Hin | reflexivity]. }
    rewrite sel_char, E. repeat split.
  Qed.

  Lemma select_never_panics d : sel d <> Panic.
  Proof. rewrite sel_char. destruct (existsb is_lookup_err d); discriminate. Qed.
End Select.

Lemma sub_select_char d :
  sub_select d = if existsb is_lookup_err d then Err else Ok (map fst (filter not_executed d)).
Proof. rewrite sub_select_evm. apply evm_select_char. Qed.

Lemma sessions_concat r : concat (sessions_of r) = signed_of r.
Proof. destruct r as [[|x l]| |]; cbn; rewrite ?app_nil_r; reflexivity. Qed.

Lemma sessions_nonempty r : forallb (fun l => negb (is_nil l)) (sessions_of r) = true.
Proof. destruct r as [[|x l]| |]; reflexivity. Qed.

(* the loop as it was signs executed transfers again *)
Lemma old_sub_select_refuted :
  exists d k, In (k, Executed) d /\ In k (signed_of (old_sub_select d)) /\ sessions_of (old_sub_select d) <> [].
Proof.
  exists [((1, 0), Executed)], (1, 0). cbn. repeat split; [left; reflexivity | left; reflexivity | discriminate].
Qed.

(* ---- Bitcoin: one delivery ---- *)

Lemma lookup_set s k v k' :
  lookup (set_status s k v) k' = if key_eqb k' k then v else lookup s k'.
Proof. reflexivity. Qed.

Lemma btc_select_untouched d : forall s k,
  executable (lookup s k) = false -> lookup (fst (btc_select s d)) k = lookup s k.
Proof.
  induction d as [|[k0 f] r IH]; intros s k Hk; cbn [btc_select]; [reflexivity|].
  destruct f; try reflexivity.
  - destruct (executable (lookup s k0)) eqn:E0; [|apply IH; exact Hk].
    destruct (btc_select (set_status s k0 Pending) r) as [s' x] eqn:Er. cbn [fst].
    replace s' with (fst (btc_select (set_status s k0 Pending) r)) by (rewrite Er; reflexivity).
    rewrite IH; rewrite lookup_set.
    + destruct (key_eqb k k0) eqn:Ek; [|reflexivity]. apply key_eqb_eq in Ek. subst. congruence.
    + destruct (key_eqb k k0); [reflexivity | exact Hk].
  - destruct (executable (lookup s k0)); [reflexivity | apply IH; exact Hk].
Qed.

Lemma btc_select_sound d : forall s s' l,
  btc_select s d = (s', Ok l) ->
  (forall k, In k l -> executable (lookup s k) = true /\ lookup s' k = Pending /\ In k (keys_of d))
  /\ NoDup l
  /\ (forall k, ~ In k l -> lookup s' k = lookup s k).
Proof.
  induction d as [|[k0 f] r IH]; intros s s' l H; cbn [btc_select] in H.
  - inversion H; subst. repeat split; try contradiction; [constructor].
  - assert (Hskip : executable (lookup s k0) = false -> btc_select s r = (s', Ok l) ->
            (forall k, In k l -> executable (lookup s k) = true /\ lookup s' k = Pending /\ In k (keys_of ((k0, f) :: r)))
            /\ NoDup l /\ (forall k, ~ In k l -> lookup s' k = lookup s k)).
    { intros _ Hr. destruct (IH _ _ _ Hr) as [A [B C]]. split; [|split; assumption].
      intros k Hin. destruct (A k Hin) as [A1 [A2 A3]]. repeat split; try assumption. right; exact A3. }
    destruct f; try discriminate.
    + destruct (executable (lookup s k0)) eqn:E0; [|apply Hskip; [reflexivity | exact H]].
      destruct (btc_select (set_status s k0 Pending) r) as [s1 x] eqn:Er.
      destruct x as [l0| |]; inversion H; subst. clear H.
      destruct (IH _ _ _ Er) as [A [B C]].
      assert (Hk0 : lookup s' k0 = Pending).
      { replace s' with (fst (btc_select (set_status s k0 Pending) r)) by (rewrite Er; reflexivity).
        rewrite btc_select_untouched; rewrite lookup_set, key_eqb_refl; reflexivity. }
      assert (Hnot : ~ In k0 l0).
      { intros Hin. destruct (A k0 Hin) as [A1 _]. rewrite lookup_set, key_eqb_refl in A1. discriminate. }
      split; [|split].
      * intros k [->|Hin]; [repeat split; [exact E0 | exact Hk0 | left; reflexivity]|].
        destruct (A k Hin) as [A1 [A2 A3]]. rewrite lookup_set in A1.
        destruct (key_eqb k k0); [discriminate|]. repeat split; [exact A1 | exact A2 | right; exact A3].
      * constructor; assumption.
      * intros k Hn. rewrite C by (intros Hin; apply Hn; right; exact Hin).
        rewrite lookup_set. destruct (key_eqb k k0) eqn:Ek; [|reflexivity].
        apply key_eqb_eq in Ek. subst. exfalso; apply Hn; left; reflexivity.
    + destruct (executable (lookup s k0)) eqn:E0; [discriminate | apply Hskip; [reflexivity | exact H]].
Qed.

Lemma btc_select_complete d : forall s,
  no_fault d = true ->
  exists s' l, btc_select s d = (s', Ok l) /\
    forall k, In k (keys_of d) -> executable (lookup s k) = true -> In k l.
Proof.
  induction d as [|[k0 f] r IH]; intros s Hnf; cbn [btc_select].
  - exists s, []. split; [reflexivity | intros k []].
  - cbn in Hnf. destruct f; try discriminate. cbn in Hnf.
    destruct (executable (lookup s k0)) eqn:E0.
    + destruct (IH (set_status s k0 Pending) Hnf) as [s' [l [Hs Hc]]]. rewrite Hs.
      exists s', (k0 :: l). split; [reflexivity|]. intros k [Hk|Hk] Hx; [left; exact Hk|].
      destruct (key_eqb k k0) eqn:Ek; [apply key_eqb_eq in Ek; left; auto|].
      right. apply Hc; [exact Hk|]. rewrite lookup_set, Ek. exact Hx.
    + destruct (IH s Hnf) as [s' [l [Hs Hc]]]. exists s', l. split; [exact Hs|].
      intros k [Hk|Hk] Hx; [cbn in Hk; subst; congruence | apply Hc; assumption].
Qed.

Lemma btc_select_err_signs_nothing d : forall s,
  has_read_fault d = true -> snd (btc_select s d) = Err.
Proof.
  induction d as [|[k0 f] r IH]; intros s H; cbn in H; [discriminate|].
  cbn [btc_select]. destruct f; cbn in H; try reflexivity.
  - destruct (executable (lookup s k0)); [|apply IH; exact H].
    specialize (IH (set_status s k0 Pending) H).
    destruct (btc_select (set_status s k0 Pending) r) as [s' x]. cbn in *. subst x. reflexivity.
  - destruct (executable (lookup s k0)); [reflexivity | apply IH; exact H].
Qed.

Lemma btc_select_never_panics d : forall s, snd (btc_select s d) <> Panic.
Proof.
  induction d as [|[k0 f] r IH]; intros s; cbn [btc_select]; [discriminate|].
  destruct f; try discriminate.
  - destruct (executable (lookup s k0)); [|apply IH].
    specialize (IH (set_status s k0 Pending)).
    destruct (btc_select (set_status s k0 Pending) r) as [s' x]. cbn in *. destruct x; congruence.
  - destruct (executable (lookup s k0)); [discriminate | apply IH].
Qed.

Lemma btc_execute_untouched d s k :
  executable (lookup s k) = false -> lookup (fst (btc_execute s d)) k = lookup s k.
Proof. destruct d; [reflexivity | apply btc_select_untouched]. Qed.

Lemma btc_execute_ok d s s' l :
  btc_execute s d = (s', Ok l) -> btc_select s d = (s', Ok l).
Proof. destruct d; [discriminate | auto]. Qed.

(* ---- histories ---- *)

Lemma lookup_set_all b : forall s v k,
  lookup (set_all s b v) k = if kmem k b then v else lookup s k.
Proof.
  unfold set_all. induction b as [|x b IH]; intros s v k; cbn [fold_left kmem]; [reflexivity|].
  rewrite IH, lookup_set. destruct (kmem k b); [rewrite orb_true_r; reflexivity|].
  rewrite orb_false_r. reflexivity.
Qed.

Lemma lookup_fail_all b : forall s k,
  lookup (fail_all s b) k = if kmem k b && negb (is_done (lookup s k)) then Failed else lookup s k.
Proof.
  unfold fail_all. induction b as [|x b IH]; intros s k; cbn [fold_left kmem]; [reflexivity|].
  rewrite IH. destruct (is_done (lookup s x)) eqn:Dx.
  - destruct (key_eqb k x) eqn:Ek; cbn [orb]; [|reflexivity].
    apply key_eqb_eq in Ek; subst. rewrite Dx. cbn [negb]. rewrite !andb_false_r. reflexivity.
  - rewrite lookup_set. destruct (key_eqb k x) eqn:Ek; cbn [orb]; [|reflexivity].
    apply key_eqb_eq in Ek; subst. rewrite Dx. cbn [is_done negb andb].
    destruct (kmem x b); reflexivity.
Qed.

Lemma lookup_release_all b : forall s k,
  lookup (release_all s b) k = if kmem k b && is_pending (lookup s k) then Failed else lookup s k.
Proof.
  unfold release_all. induction b as [|x b IH]; intros s k; cbn [fold_left kmem]; [reflexivity|].
  rewrite IH. destruct (is_pending (lookup s x)) eqn:Px.
  - rewrite lookup_set. destruct (key_eqb k x) eqn:Ek; cbn [orb]; [|reflexivity].
    apply key_eqb_eq in Ek; subst. rewrite Px. cbn [is_pending andb].
    destruct (kmem x b); reflexivity.
  - destruct (key_eqb k x) eqn:Ek; cbn [orb]; [|reflexivity].
    apply key_eqb_eq in Ek; subst. rewrite Px. rewrite !andb_false_r. reflexivity.
Qed.

(* a failed submission never overwrites "executed", a release touches nothing but "pending" *)
Lemma fail_all_done s b k : is_done (lookup s k) = true -> lookup (fail_all s b) k = lookup s k.
Proof. intros H. rewrite lookup_fail_all, H. cbn [negb]. rewrite andb_false_r. reflexivity. Qed.

Lemma release_all_not_pending s b k : is_pending (lookup s k) = false -> lookup (release_all s b) k = lookup s k.
Proof. intros H. rewrite lookup_release_all, H. rewrite andb_false_r. reflexivity. Qed.

Lemma done_not_pending v : is_done v = true -> is_pending v = false.
Proof. destruct v; try discriminate; reflexivity. Qed.

Lemma kmem_remove_all k b l : kmem k (remove_all b l) = kmem k l && negb (kmem k b).
Proof.
  unfold remove_all. induction l as [|x l IH]; cbn [filter kmem]; [reflexivity|].
  destruct (kmem x b) eqn:Ex; cbn [negb].
  - rewrite IH. destruct (key_eqb k x) eqn:Ek; [|reflexivity].
    apply key_eqb_eq in Ek. subst. rewrite Ex. cbn. rewrite andb_false_r. reflexivity.
  - cbn [kmem]. rewrite IH. destruct (key_eqb k x) eqn:Ek; [|reflexivity].
    apply key_eqb_eq in Ek. subst. rewrite Ex. reflexivity.
Qed.

Lemma kmem_app k a b : kmem k (a ++ b) = kmem k a || kmem k b.
Proof. induction a as [|x a IH]; cbn; [reflexivity | rewrite IH, orb_assoc; reflexivity]. Qed.

Lemma subset_kmem b l k : subset b l = true -> kmem k b = true -> kmem k l = true.
Proof.
  unfold subset. intros H Hk. rewrite forallb_forall in H. apply H. apply kmem_In. exact Hk.
Qed.

Lemma eligible_done ds v : is_done v = true -> eligible ds v = false.
Proof. destruct v; try discriminate. destruct ds; reflexivity. Qed.

Lemma existsb_answer s d : existsb is_lookup_err (map (answer_of s) d) = has_read_fault d.
Proof.
  unfold has_read_fault. induction d as [|[k f] r IH]; cbn [map existsb]; [reflexivity|].
  rewrite IH. f_equal. unfold is_lookup_err, answer_of. cbn [fst snd].
  destruct f; try reflexivity; destruct (is_done (lookup s k)); reflexivity.
Qed.

(* what an EVM / Substrate delivery hands to signing, in terms of the destination's flags *)
Lemma chain_select_sound s d l :
  evm_select (map (answer_of s) d) = Ok l ->
  forall k, In k l -> is_done (lookup s k) = false /\ In k (keys_of d).
Proof.
  intros H k Hin. destruct (select_sound evm_select evm_select_char _ _ H) as [_ Hs].
  specialize (Hs k Hin). apply in_map_iff in Hs as [[k' f] [He Hd]].
  unfold answer_of in He. cbn [fst snd] in He. inversion He; subst k'. split.
  - destruct f; try discriminate; destruct (is_done (lookup s k)); try discriminate; reflexivity.
  - apply in_map_iff. exists (k, f). split; [reflexivity | exact Hd].
Qed.

Lemma chain_select_complete s d :
  no_fault d = true ->
  forall k, In k (keys_of d) -> is_done (lookup s k) = false ->
  In k (signed_of (evm_select (map (answer_of s) d))).
Proof.
  intros Hnf k Hin Hnd.
  assert (Hno : forall k', ~ In (k', LookupErr) (map (answer_of s) d)).
  { intros k' Hi. apply in_map_iff in Hi as [[k2 f] [He Hd]]. unfold no_fault in Hnf.
    rewrite forallb_forall in Hnf. specialize (Hnf _ Hd). cbn in Hnf.
    unfold answer_of in He; cbn in He. destruct f; try discriminate.
    destruct (is_done (lookup s k2)); discriminate. }
  destruct (select_complete evm_select evm_select_char _ Hno) as [_ Hc]. apply Hc.
  apply in_map_iff in Hin as [[k2 f] [Hk Hd]]. cbn in Hk; subst k2.
  apply in_map_iff. exists (k, f). split; [|exact Hd].
  unfold answer_of; cbn [fst snd]. unfold no_fault in Hnf. rewrite forallb_forall in Hnf.
  specialize (Hnf _ Hd). cbn in Hnf. destruct f; try discriminate. rewrite Hnd. reflexivity.
Qed.

Lemma deliver_sound ds s d s' r k :
  deliver ds s d = (s', r) -> In k (signed_of r) ->
  eligible ds (lookup s k) = true /\ In k (keys_of d) /\ (ds = BTC -> lookup s' k = Pending).
Proof.
  destruct ds; cbn [deliver]; intros H Hin.
  - inversion H; subst. destruct (evm_select (map (answer_of s') d)) as [l| |] eqn:E; try contradiction.
    destruct (chain_select_sound _ _ _ E k Hin) as [A B]. cbn [eligible]. rewrite A.
    repeat split; [exact B | discriminate].
  - inversion H; subst. rewrite sub_select_evm in *.
    destruct (evm_select (map (answer_of s') d)) as [l| |] eqn:E; try contradiction.
    destruct (chain_select_sound _ _ _ E k Hin) as [A B]. cbn [eligible]. rewrite A.
    repeat split; [exact B | discriminate].
  - destruct r as [l| |]; try contradiction. apply btc_execute_ok in H.
    destruct (btc_select_sound _ _ _ _ H) as [A _]. destruct (A k Hin) as [A1 [A2 A3]].
    cbn [eligible]. repeat split; auto.
Qed.

Lemma deliver_untouched ds s d k :
  eligible ds (lookup s k) = false \/ ds <> BTC ->
  lookup (fst (deliver ds s d)) k = lookup s k.
Proof.
  destruct ds; cbn [deliver fst]; intros H; try reflexivity.
  destruct H as [H|H]; [|congruence]. apply btc_execute_untouched. exact H.
Qed.

(* executed is final: no delivery, session end (successful or failed, of whichever of several
   overlapping sessions), restart or release ever changes a record that says executed *)
Lemma step_done_mono ds s o k :
  is_done (lookup (st s) k) = true -> is_done (lookup (st (fst (step ds s o))) k) = true.
Proof.
  intros Hd. destruct o as [d|b|b| |b]; cbn [step].
  - destruct (deliver ds (st s) d) as [s' r] eqn:Ed. cbn [fst st].
    replace s' with (fst (deliver ds (st s) d)) by (rewrite Ed; reflexivity).
    rewrite deliver_untouched; [exact Hd|]. left. apply eligible_done; exact Hd.
  - assert (A : forall l, is_done (lookup (set_all (st s) l Done) k) = true).
    { intros l. rewrite lookup_set_all. destruct (kmem k l); [reflexivity | exact Hd]. }
    destruct ds; cbn [fst st]; try apply A.
    destruct (subset (keys_of b) (inflight s)); cbn [fst st]; [apply A | exact Hd].
  - destruct ds; cbn [fst st]; try exact Hd.
    destruct (subset (keys_of b) (inflight s)) eqn:Es; cbn [fst st]; [|exact Hd].
    rewrite fail_all_done; exact Hd.
  - exact Hd.
  - destruct ds; cbn [fst st]; try exact Hd.
    rewrite release_all_not_pending; [exact Hd | apply done_not_pending; exact Hd].
Qed.

(* at every step: what is handed to signing was neither executed nor in flight *)
Lemma step_sound ds s o k :
  In k (signed_of (snd (step ds s o))) -> eligible ds (lookup (st s) k) = true.
Proof.
  destruct o as [d|b|b| |b]; cbn [step].
  - destruct (deliver ds (st s) d) as [s' r] eqn:Ed. cbn [snd]. intros Hin.
    exact (proj1 (deliver_sound _ _ _ _ _ _ Ed Hin)).
  - destruct ds; try (cbn; contradiction). destruct (subset (keys_of b) (inflight s)); cbn; contradiction.
  - destruct ds; try (cbn; contradiction). destruct (subset (keys_of b) (inflight s)); cbn; contradiction.
  - cbn; contradiction.
  - destruct ds; cbn; contradiction.
Qed.

Lemma trace_nth ds ops : forall s j sj oj,
  nth_error (trace ds s ops) j = Some (sj, oj) ->
  (exists o, nth_error ops j = Some o /\ oj = snd (step ds sj o)) /\
  forall k, is_done (lookup (st s) k) = true -> is_done (lookup (st sj) k) = true.
Proof.
  induction ops as [|o r IH]; intros s j sj oj Hn; cbn [trace] in Hn; [destruct j; discriminate|].
  destruct (step ds s o) as [s' out] eqn:Es. destruct j as [|j]; cbn in Hn.
  - inversion Hn; subst. split; [|auto].
    exists o. split; [reflexivity | rewrite Es; reflexivity].
  - destruct (IH _ _ _ _ Hn) as [B C]. split; [exact B|].
    intros k Hd. apply C. replace s' with (fst (step ds s o)) by (rewrite Es; reflexivity).
    apply step_done_mono; assumption.
Qed.

Lemma sound_at_every_step ds ops s j sj oj k :
  nth_error (trace ds s ops) j = Some (sj, oj) ->
  eligible ds (lookup (st sj) k) = false -> ~ In k (signed_of oj).
Proof.
  intros Hn He Hin. destruct (trace_nth _ _ _ _ _ _ Hn) as [[o [_ Ho]] _]. subst oj.
  apply step_sound in Hin. congruence.
Qed.

Lemma never_resigned ds ops : forall s i j si oi sj oj k,
  nth_error (trace ds s ops) i = Some (si, oi) -> nth_error (trace ds s ops) j = Some (sj, oj) ->
  (i <= j)%nat -> is_done (lookup (st si) k) = true -> ~ In k (signed_of oj).
Proof.
  induction ops as [|o r IH]; intros s i j si oi sj oj k Hi Hj Hle Hd;
    [destruct i; discriminate|].
  destruct i as [|i].
  - assert (si = s).
    { cbn [trace] in Hi. destruct (step ds s o). cbn in Hi. inversion Hi; reflexivity. }
    subst si. destruct (trace_nth _ _ _ _ _ _ Hj) as [_ C].
    eapply sound_at_every_step; [exact Hj |]. apply eligible_done. apply C. exact Hd.
  - destruct j as [|j]; [lia|]. cbn [trace] in Hi, Hj.
    destruct (step ds s o) as [s' out] eqn:Es. cbn in Hi, Hj.
    eapply (IH s' i j); try eassumption. lia.
Qed.

(* ---- the judge ---- *)

Lemma lookup_view uni s k :
  kmem k uni = true -> lookup (combine uni (snapshot uni s)) k = lookup s k.
Proof.
  unfold snapshot. induction uni as [|x uni IH]; cbn [kmem map combine lookup]; [discriminate|].
  destruct (key_eqb k x) eqn:Ek; [apply key_eqb_eq in Ek; subst; reflexivity|].
  cbn [orb]. exact IH.
Qed.

Lemma forallb_kmem_In l uni : forallb (fun k => kmem k uni) l = true -> forall k, In k l -> kmem k uni = true.
Proof. intros H k Hin. rewrite forallb_forall in H. apply H; exact Hin. Qed.

Lemma step_ok_model ds uni s o :
  forallb (fun k => kmem k uni) (op_keys o) = true ->
  let '(s', out) := step ds s o in
  step_ok ds (combine uni (snapshot uni (st s))) o
          (mkobs (err_code out) (sessions_of out) (snapshot uni (st s'))) = true.
Proof.
  intros Hwf. destruct (step ds s o) as [s' out] eqn:Es. unfold step_ok. cbn [o_sets].
  rewrite sessions_concat.
  destruct o as [d|b|b| |b].
  - cbn [step] in Es. destruct (deliver ds (st s) d) as [s1 r] eqn:Ed. inversion Es; subst s' out. clear Es.
    cbn [op_keys] in Hwf.
    assert (Hs : forall k, In k (signed_of r) -> eligible ds (lookup (st s) k) = true /\ In k (keys_of d)).
    { intros k Hin. destruct (deliver_sound _ _ _ _ _ _ Ed Hin) as [A [B _]]. split; assumption. }
    rewrite sessions_nonempty. cbn [andb].
    repeat (apply andb_true_iff; split).
    + apply forallb_forall. intros k Hin. destruct (Hs k Hin) as [A B].
      rewrite lookup_view; [exact A | eapply forallb_kmem_In; eassumption].
    + apply forallb_forall. intros k Hin. apply kmem_In. exact (proj2 (Hs k Hin)).
    + destruct (has_read_fault d) eqn:Hf; [|reflexivity].
      destruct ds; cbn [deliver] in Ed; inversion Ed; subst.
      * rewrite evm_select_char, existsb_answer, Hf. reflexivity.
      * rewrite sub_select_char, existsb_answer, Hf. reflexivity.
      * destruct d as [|e d']; [discriminate|]. cbn [btc_execute] in *.
        pose proof (btc_select_err_signs_nothing (e :: d') (st s) Hf) as E.
        destruct (btc_select (st s) (e :: d')) as [sx rx]. cbn in E. inversion H0; subst. reflexivity.
    + destruct (no_fault d) eqn:Hnf; [|reflexivity].
      apply forallb_forall. intros k Hin.
      rewrite lookup_view by (eapply forallb_kmem_In; eassumption).
      destruct (eligible ds (lookup (st s) k)) eqn:He; [|reflexivity].
      apply kmem_In.
      destruct ds; cbn [deliver] in Ed; inversion Ed; subst.
      * apply chain_select_complete; [exact Hnf | exact Hin|]. cbn in He. destruct (is_done _); [discriminate|reflexivity].
      * rewrite sub_select_evm. apply chain_select_complete; [exact Hnf | exact Hin|].
        cbn in He. destruct (is_done _); [discriminate|reflexivity].
      * destruct d as [|e d']; [contradiction|]. cbn [btc_execute] in *.
        destruct (btc_select_complete (e :: d') (st s) Hnf) as [sx [lx [Hx Hc]]].
        rewrite Hx in H0. inversion H0; subst. cbn [signed_of]. apply Hc; [exact Hin | exact He].
  - cbn [step] in Es. destruct ds; try (inversion Es; reflexivity).
    destruct (subset (keys_of b) (inflight s)); inversion Es; reflexivity.
  - cbn [step] in Es. destruct ds; try (inversion Es; reflexivity).
    destruct (subset (keys_of b) (inflight s)); inversion Es; reflexivity.
  - inversion Es; reflexivity.
  - cbn [step] in Es. destruct ds; inversion Es; reflexivity.
Qed.

Lemma final_ok_model ds uni s o :
  final_ok uni (combine uni (snapshot uni (st s)))
           (combine uni (snapshot uni (st (fst (step ds s o))))) = true.
Proof.
  unfold final_ok. apply forallb_forall. intros k Hin.
  assert (Hk : kmem k uni = true) by (apply kmem_In; exact Hin).
  rewrite !lookup_view by exact Hk.
  destruct (is_done (lookup (st s) k)) eqn:Hd; [|reflexivity].
  apply step_done_mono; assumption.
Qed.

Lemma hist_ok_model ds uni ops : forall s,
  wf_ops uni ops = true ->
  hist_ok ds uni (combine uni (snapshot uni (st s))) ops (model_obs ds uni s ops) = true.
Proof.
  induction ops as [|o r IH]; intros s Hwf; cbn [hist_ok model_obs]; [reflexivity|].
  cbn [wf_ops forallb] in Hwf. apply andb_true_iff in Hwf as [Hwo Hwr].
  pose proof (step_ok_model ds uni s o Hwo) as Hstep.
  pose proof (final_ok_model ds uni s o) as Hfin.
  destruct (step ds s o) as [s' out] eqn:Es. cbn [fst] in *. cbn [o_snap].
  assert (Hlen : length (snapshot uni (st s')) = length uni) by (unfold snapshot; apply map_length).
  rewrite Hlen, Nat.eqb_refl. cbn [andb].
  rewrite Hstep, Hfin. cbn [andb]. apply IH; assumption.
Qed.

(* reading of an accepted delivery *)
Lemma step_ok_reading ds view d ob :
  step_ok ds view (Deliver d) ob = true ->
  (forall l, In l (o_sets ob) -> l <> []) /\
  (forall k, In k (concat (o_sets ob)) -> eligible ds (lookup view k) = true /\ In k (keys_of d)) /\
  (has_read_fault d = true -> concat (o_sets ob) = []) /\
  (no_fault d = true -> forall k, In k (keys_of d) -> eligible ds (lookup view k) = true ->
                        In k (concat (o_sets ob))).
Proof.
  unfold step_ok. intros H.
  apply andb_true_iff in H as [H H5]. apply andb_true_iff in H as [H H4].
  apply andb_true_iff in H as [H H3]. apply andb_true_iff in H as [H1 H2].
  rewrite forallb_forall in H1, H2, H3. repeat split.
  - intros l Hin E. specialize (H1 l Hin). subst l. discriminate.
  - apply H2; assumption.
  - apply kmem_In. apply H3; assumption.
  - intros Hf. rewrite Hf in H4. destruct (concat (o_sets ob)); [reflexivity | discriminate].
  - intros Hnf k Hin He. rewrite Hnf in H5. rewrite forallb_forall in H5. specialize (H5 k Hin).
    rewrite He in H5. apply kmem_In. exact H5.
Qed.

(* an accepted history never signs what was executed before *)
Lemma hist_ok_never_resigned ds uni ops : forall view os k,
  hist_ok ds uni view ops os = true -> In k uni -> is_done (lookup view k) = true ->
  forall ob, In ob os -> ~ In k (concat (o_sets ob)).
Proof.
  induction ops as [|o r IH]; intros view os k H Hu Hd ob Hin; destruct os as [|ob0 os]; cbn [hist_ok] in H;
    try discriminate; [contradiction|].
  apply andb_true_iff in H as [H Hr]. apply andb_true_iff in H as [H Hf]. apply andb_true_iff in H as [_ Hs].
  destruct Hin as [->|Hin].
  - intros Hk. destruct o as [d|b|b| |b].
    + destruct (step_ok_reading _ _ _ _ Hs) as [_ [A _]]. destruct (A k Hk) as [A1 _].
      rewrite (eligible_done ds _ Hd) in A1. discriminate.
    + cbn in Hs. destruct (concat (o_sets ob)); [contradiction | discriminate].
    + cbn in Hs. destruct (concat (o_sets ob)); [contradiction | discriminate].
    + cbn in Hs. destruct (concat (o_sets ob)); [contradiction | discriminate].
    + cbn in Hs. destruct (concat (o_sets ob)); [contradiction | discriminate].
  - eapply IH; [exact Hr | exact Hu | | exact Hin].
    unfold final_ok in Hf. rewrite forallb_forall in Hf. specialize (Hf k Hu). rewrite Hd in Hf. exact Hf.
Qed.

(* ---- store faults at the status reads / writes of a session end or of a retry release (round 5) ---- *)

Lemma keys_of_plain b : keys_of (plain b) = b.
Proof. unfold keys_of, plain. rewrite map_map. cbn [fst]. apply map_id. Qed.

Lemma filter_plain (f : key * fault -> bool) b :
  (forall k, f (k, NoFault) = true) -> filter f (plain b) = plain b.
Proof.
  intros Hf. unfold plain. induction b as [|x b IH]; cbn [map filter]; [reflexivity|].
  rewrite Hf, IH. reflexivity.
Qed.

Lemma nofault_keys_plain b : nofault_keys (plain b) = b.
Proof. unfold nofault_keys. rewrite filter_plain by reflexivity. apply keys_of_plain. Qed.

Lemma written_keys_plain b : written_keys (plain b) = b.
Proof. unfold written_keys. rewrite filter_plain by reflexivity. apply keys_of_plain. Qed.

Lemma in_nofault_keys b k : In k (nofault_keys b) <-> In (k, NoFault) b.
Proof.
  unfold nofault_keys, keys_of. rewrite in_map_iff. split.
  - intros [[k' f] [Hk Hin]]. cbn in Hk; subst k'. apply filter_In in Hin as [Hin Hf].
    unfold is_nofault in Hf; cbn in Hf. destruct f; try discriminate. exact Hin.
  - intros Hin. exists (k, NoFault). split; [reflexivity|]. apply filter_In. split; [exact Hin | reflexivity].
Qed.

Lemma in_written_keys b k : In k (written_keys b) <-> exists f, In (k, f) b /\ f <> WriteErr.
Proof.
  unfold written_keys, keys_of. rewrite in_map_iff. split.
  - intros [[k' f] [Hk Hin]]. cbn in Hk; subst k'. apply filter_In in Hin as [Hin Hf].
    exists f. split; [exact Hin|]. intros ->. discriminate.
  - intros [f [Hin Hf]]. exists (k, f). split; [reflexivity|]. apply filter_In. split; [exact Hin|].
    unfold not_write_fault; cbn. destruct f; try reflexivity. congruence.
Qed.

Lemma nofault_keys_sub b k : In k (nofault_keys b) -> In k (keys_of b).
Proof. intros H. apply in_nofault_keys in H. apply in_map_iff. exists (k, NoFault). split; [reflexivity | exact H]. Qed.

Lemma written_keys_sub b k : In k (written_keys b) -> In k (keys_of b).
Proof.
  intros H. apply in_written_keys in H as [f [H _]]. apply in_map_iff. exists (k, f). split; [reflexivity | exact H].
Qed.

Lemma kmem_false_notin k l : ~ In k l -> kmem k l = false.
Proof. intros H. destruct (kmem k l) eqn:E; [apply kmem_In in E; contradiction | reflexivity]. Qed.

(* the end of a failing execution, for every placement of read / write faults: a transfer is marked failed
   iff some status read AND the write made for it go through and its record does not say executed; every
   other record - in particular that of a transfer whose guard read fails - stays what it was *)
Lemma failed_end_with_faults s inf b k :
  subset (keys_of b) inf = true ->
  lookup (st (fst (step BTC (mkstate s inf) (ExecFail b)))) k =
  if kmem k (nofault_keys b) && negb (is_done (lookup s k)) then Failed else lookup s k.
Proof. intros Hs. cbn [step st inflight]. rewrite Hs. cbn [fst st]. apply lookup_fail_all. Qed.

Lemma faulted_end_untouched s inf b k :
  (forall f, In (k, f) b -> f <> NoFault) ->
  lookup (st (fst (step BTC (mkstate s inf) (ExecFail b)))) k = lookup s k /\
  lookup (st (fst (step BTC (mkstate s inf) (Release b)))) k = lookup s k.
Proof.
  intros Hf. assert (Hn : kmem k (nofault_keys b) = false).
  { apply kmem_false_notin. intros Hin. apply in_nofault_keys in Hin. exact (Hf _ Hin eq_refl). }
  split; cbn [step st inflight].
  - destruct (subset (keys_of b) inf); cbn [fst st]; [|reflexivity].
    rewrite lookup_fail_all, Hn. reflexivity.
  - cbn [fst st]. rewrite lookup_release_all, Hn. reflexivity.
Qed.

(* the end of a successful execution: recorded executed unless every write made for the transfer fails *)
Lemma ok_end_with_faults s inf b k :
  subset (keys_of b) inf = true ->
  lookup (st (fst (step BTC (mkstate s inf) (ExecOk b)))) k =
  if kmem k (written_keys b) then Done else lookup s k.
Proof. intros Hs. cbn [step st inflight]. rewrite Hs. cbn [fst st]. apply lookup_set_all. Qed.

(* a retry request with faults: releases exactly the pending transfers whose read and write go through *)
Lemma release_with_faults s inf b k :
  lookup (st (fst (step BTC (mkstate s inf) (Release b)))) k =
  if kmem k (nofault_keys b) && is_pending (lookup s k) then Failed else lookup s k.
Proof. cbn [step st inflight fst]. apply lookup_release_all. Qed.

(* the history of the class: [P; Q] in flight, a retry releases P, the overlapping execution of P
   succeeds, the first execution fails and cannot read P's record: P stays executed, only Q is signed again *)
Definition w_read_fault_ops : list op :=
  [Deliver [((1, 7), NoFault); ((1, 8), NoFault)];
   Release (plain [(1, 7)]);
   Deliver [((1, 7), NoFault)];
   ExecOk (plain [(1, 7)]);
   ExecFail [((1, 7), ReadErr); ((1, 8), NoFault)];
   Deliver [((1, 7), NoFault); ((1, 8), NoFault)]].
