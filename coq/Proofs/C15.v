(* C15 - proofs about the decode / process model (axiom-free).  The floating-point exactness
   theorem lives in Proofs/C15_Real.v (it needs the real numbers). *)
From Coq Require Import List ZArith NArith Bool String Ascii Lia.
From SygmaV Require Import Lib.Hex Lib.C15_Sha256 Model.C15.
Import ListNotations.
Local Open Scope Z_scope.

(* ---------------------------------------------------------------------------------------- *)
(* the loop of DecodeDepositEvent in closed form *)

Section Decode.
  Variable cv : Z -> Z.

  Definition cv_sum (f : vout -> bool) (outs : list vout) : Z :=
    fold_right (fun o acc => if f o then cv (o_sat o) + acc else acc) 0 outs.

  Definition payload_step (d : list N) (o : vout) : list N :=
    if is_nulldata o then skipn 2 (fst (hex_decode (bytes_of_string (o_hex o)))) else d.

  Lemma opret_step_wf o data :
    opret_ok o = true -> opret_step o data = inr (payload_step data o).
  Proof.
    unfold opret_ok, opret_step, payload_step. destruct (is_nulldata o); [|reflexivity].
    destruct (hex_decode (bytes_of_string (o_hex o))) as [b ok]. cbn [fst].
    intros H. apply andb_prop in H. destruct H as [Hok Hlen]. subst ok. cbn [negb].
    destruct (List.length b <? 2)%nat eqn:E; [|reflexivity].
    apply Nat.ltb_lt in E. apply Nat.leb_le in Hlen. lia.
  Qed.

  Lemma opret_step_bad o data :
    opret_ok o = false -> opret_step o data = inl DecErr \/ opret_step o data = inl DecPanic.
  Proof.
    unfold opret_ok, opret_step. destruct (is_nulldata o); [|discriminate].
    destruct (hex_decode (bytes_of_string (o_hex o))) as [b ok]. destruct ok; cbn [negb andb].
    - intros H. right. destruct (List.length b <? 2)%nat eqn:E; [reflexivity|].
      apply Nat.ltb_ge in E. apply Nat.leb_gt in H. lia.
    - intros _. left. reflexivity.
  Qed.

  Lemma decode_go_closed r faddr : forall outs amount fee isdep data,
    oprets_wf outs = true ->
    decode_go cv outs r faddr amount fee isdep data =
      if negb (isdep || pays_bridge outs r) || (fee + cv_sum (to_fee faddr) outs <? r_fee r)
      then NotDeposit
      else IsDeposit (amount + cv_sum (fun o => to_bridge r o && is_taproot o) outs)
                     (fold_left payload_step outs data).
  Proof.
    induction outs as [|o rest IH]; intros amount fee isdep data Hwf.
    - cbn [decode_go cv_sum fold_right pays_bridge existsb fold_left].
      rewrite orb_false_r, !Z.add_0_r. reflexivity.
    - cbn [oprets_wf forallb] in Hwf. apply andb_prop in Hwf. destruct Hwf as [Ho Hrest].
      cbn [decode_go]. rewrite (opret_step_wf o data Ho).
      rewrite IH by exact Hrest.
      cbn [cv_sum fold_right pays_bridge existsb fold_left].
      fold (cv_sum (to_fee faddr) rest). fold (cv_sum (fun o => to_bridge r o && is_taproot o) rest).
      fold (pays_bridge rest r).
      rewrite orb_assoc.
      replace ((if to_fee faddr o then fee + cv (o_sat o) else fee) + cv_sum (to_fee faddr) rest)
        with (fee + (if to_fee faddr o then cv (o_sat o) + cv_sum (to_fee faddr) rest
                     else cv_sum (to_fee faddr) rest))
        by (destruct (to_fee faddr o); lia).
      replace ((if to_bridge r o && is_taproot o then amount + cv (o_sat o) else amount)
               + cv_sum (fun o0 => to_bridge r o0 && is_taproot o0) rest)
        with (amount + (if to_bridge r o && is_taproot o
                        then cv (o_sat o) + cv_sum (fun o0 => to_bridge r o0 && is_taproot o0) rest
                        else cv_sum (fun o0 => to_bridge r o0 && is_taproot o0) rest))
        by (destruct (to_bridge r o && is_taproot o); lia).
      reflexivity.
  Qed.

  (* a malformed OP_RETURN output anywhere abandons the transaction, whatever else it contains *)
  Lemma decode_go_malformed r faddr : forall outs amount fee isdep data,
    oprets_wf outs = false ->
    decode_go cv outs r faddr amount fee isdep data = DecErr \/
    decode_go cv outs r faddr amount fee isdep data = DecPanic.
  Proof.
    induction outs as [|o rest IH]; intros amount fee isdep data Hwf; [discriminate|].
    cbn [oprets_wf forallb] in Hwf. cbn [decode_go].
    destruct (opret_ok o) eqn:Ho.
    - rewrite (opret_step_wf o data Ho). apply IH. exact Hwf.
    - destruct (opret_step_bad o data Ho) as [E|E]; rewrite E; auto.
  Qed.

  Lemma decode_closed outs r faddr :
    oprets_wf outs = true ->
    decode cv outs r faddr =
      if pays_bridge outs r && (r_fee r <=? cv_sum (to_fee faddr) outs)
      then IsDeposit (cv_sum (fun o => to_bridge r o && is_taproot o) outs)
                     (fold_left payload_step outs [])
      else NotDeposit.
  Proof.
    intros Hwf. unfold decode. rewrite decode_go_closed by exact Hwf.
    cbn [orb]. rewrite !Z.add_0_l.
    destruct (pays_bridge outs r); cbn [negb orb andb]; [|reflexivity].
    destruct (cv_sum (to_fee faddr) outs <? r_fee r) eqn:E.
    - apply Z.ltb_lt in E. destruct (r_fee r <=? cv_sum (to_fee faddr) outs) eqn:E2; [|reflexivity].
      apply Z.leb_le in E2. lia.
    - apply Z.ltb_ge in E. apply Z.leb_le in E. rewrite E. reflexivity.
  Qed.

  (* exact conversion on the amounts that occur => the sums are the integer sums *)
  Hypothesis cv_exact : forall s, sat_wf s = true -> cv s = s.

  Lemma cv_sum_exact f outs : sats_wf outs = true -> cv_sum f outs = sum_sat f outs.
  Proof.
    induction outs as [|o rest IH]; intros H; [reflexivity|].
    cbn [sats_wf forallb] in H. apply andb_prop in H. destruct H as [Ho Hr].
    cbn [cv_sum sum_sat fold_right]. fold (cv_sum f rest). fold (sum_sat f rest).
    rewrite (IH Hr), (cv_exact _ Ho). reflexivity.
  Qed.

  Lemma last_payload_fold outs : last_payload outs = fold_left payload_step outs [].
  Proof. reflexivity. Qed.

  Lemma decode_exact outs r faddr :
    oprets_wf outs = true -> sats_wf outs = true ->
    decode cv outs r faddr =
      if is_deposit_spec outs r faddr
      then IsDeposit (taproot_sum outs r) (last_payload outs) else NotDeposit.
  Proof.
    intros Hw Hs. rewrite decode_closed by exact Hw.
    rewrite !cv_sum_exact by exact Hs. reflexivity.
  Qed.

  (* deposit_iff *)
  Lemma deposit_iff outs r faddr :
    oprets_wf outs = true -> sats_wf outs = true ->
    ((exists a d, decode cv outs r faddr = IsDeposit a d) <->
     (pays_bridge outs r = true /\ r_fee r <= fee_sum outs faddr)).
  Proof.
    intros Hw Hs. rewrite decode_exact by assumption. unfold is_deposit_spec.
    destruct (pays_bridge outs r); cbn [andb].
    - destruct (r_fee r <=? fee_sum outs faddr) eqn:E.
      + apply Z.leb_le in E. split; [intros _; split; [reflexivity|exact E]|].
        intros _. eexists. eexists. reflexivity.
      + apply Z.leb_gt in E. split; [intros (a & d & H); discriminate|]. intros [_ H]. lia.
    - split; [intros (a & d & H); discriminate|]. intros [H _]. discriminate.
  Qed.

  (* amount_is_taproot_sum *)
  Lemma amount_is_taproot_sum outs r faddr a d :
    oprets_wf outs = true -> sats_wf outs = true ->
    decode cv outs r faddr = IsDeposit a d -> a = taproot_sum outs r /\ d = last_payload outs.
  Proof.
    intros Hw Hs. rewrite decode_exact by assumption.
    destruct (is_deposit_spec outs r faddr); [|discriminate].
    intros H. inversion H. split; reflexivity.
  Qed.

  Lemma bytes_eqb_refl l : bytes_eqb l l = true.
  Proof. induction l as [|x l IH]; [reflexivity|]. cbn [bytes_eqb]. rewrite N.eqb_refl, IH. reflexivity. Qed.

  Lemma bytes_eqb_eq a : forall b, bytes_eqb a b = true -> a = b.
  Proof.
    induction a as [|x a IH]; intros [|y b] H; try discriminate; [reflexivity|].
    cbn [bytes_eqb] in H. apply andb_prop in H. destruct H as [H1 H2].
    apply N.eqb_eq in H1. rewrite (IH _ H2), H1. reflexivity.
  Qed.

  (* the judge accepts the model on every transaction *)
  Lemma decode_ok_model outs r faddr :
    decode_ok outs r faddr (decode cv outs r faddr) = true.
  Proof.
    unfold decode_ok. destruct (oprets_wf outs) eqn:Hw; [|reflexivity].
    destruct (sats_wf outs) eqn:Hs; [|reflexivity]. cbn [andb].
    rewrite decode_exact by assumption.
    destruct (is_deposit_spec outs r faddr) eqn:E.
    - rewrite Z.eqb_refl, bytes_eqb_refl. reflexivity.
    - reflexivity.
  Qed.
End Decode.

(* what the judge accepts is the Prop-level statement *)
Lemma decode_ok_sound outs r faddr obs :
  oprets_wf outs = true -> sats_wf outs = true -> decode_ok outs r faddr obs = true ->
  match obs with
  | IsDeposit a d =>
      pays_bridge outs r = true /\ r_fee r <= fee_sum outs faddr /\
      a = taproot_sum outs r /\ d = last_payload outs
  | NotDeposit => ~ (pays_bridge outs r = true /\ r_fee r <= fee_sum outs faddr)
  | DecErr | DecPanic => False
  end.
Proof.
  intros Hw Hs. unfold decode_ok. rewrite Hw, Hs. cbn [andb]. unfold is_deposit_spec.
  destruct obs as [| | |a d]; intros H; try discriminate.
  - intros [Hp Hf]. rewrite Hp in H. apply Z.leb_le in Hf. rewrite Hf in H. discriminate.
  - apply andb_prop in H. destruct H as [H Hd]. apply andb_prop in H. destruct H as [H Ha].
    apply andb_prop in H. destruct H as [Hp Hf].
    repeat split; [exact Hp|apply Z.leb_le; exact Hf|apply Z.eqb_eq; exact Ha|apply bytes_eqb_eq; exact Hd].
Qed.

(* ---------------------------------------------------------------------------------------- *)
(* ProcessDeposits *)

Section Process.
  Variable cv : Z -> Z.
  Variable nf : N -> string -> N.

  (* the emitted nonce is [nf height txhash], whatever the outputs, resources and fee address *)
  Lemma process_nonce outs faddr h t : forall rs d n rid a rc,
    process cv nf outs rs faddr h t = Msg d n rid a rc -> n = nf h t.
  Proof.
    induction rs as [|r rest IH]; intros d n rid a rc H; [discriminate|].
    cbn [process] in H. destruct (decode cv outs r faddr) as [| | |am da]; try discriminate.
    - eapply IH; exact H.
    - destruct (parse_payload da) as [[dst rcpt]|]; [|discriminate]. inversion H. reflexivity.
  Qed.

  (* [process] asks for at most one nonce: that of its own (height, txhash) *)
  Lemma process_nonce_const outs faddr h t : forall rs,
    process cv (fun _ _ => nf h t) outs rs faddr h t = process cv nf outs rs faddr h t.
  Proof.
    induction rs as [|r rest IH]; [reflexivity|]. cbn [process]. rewrite IH. reflexivity.
  Qed.

  Hypothesis cv_exact : forall s, sat_wf s = true -> cv s = s.

  Lemma not_paid_skipped outs r faddr :
    oprets_wf outs = true -> pays_bridge outs r = false -> decode cv outs r faddr = NotDeposit.
  Proof. intros Hw Hp. rewrite decode_closed by exact Hw. rewrite Hp. reflexivity. Qed.

  (* exactly one configured resource is paid: the outcome is that resource's, wherever it sits
     in the iteration order *)
  Lemma process_ok_model outs faddr h t r : forall rs,
    filter (pays_bridge outs) rs = [r] ->
    process_ok outs r faddr (process cv nf outs rs faddr h t) (nf h t) = true.
  Proof.
    unfold process_ok.
    destruct (oprets_wf outs) eqn:Hw; [|reflexivity].
    destruct (sats_wf outs) eqn:Hs; [|reflexivity]. cbn [andb].
    induction rs as [|r0 rest IH]; intros Hf; [discriminate|].
    cbn [filter] in Hf. cbn [process].
    destruct (pays_bridge outs r0) eqn:Hp.
    - inversion Hf as [[Hr Hrest]]. subst r0.
      rewrite (decode_exact cv cv_exact outs r faddr Hw Hs).
      destruct (is_deposit_spec outs r faddr) eqn:E.
      + destruct (parse_payload (last_payload outs)) as [[dst rcpt]|] eqn:Ep.
        * unfold scale. rewrite Z.eqb_refl, !bytes_eqb_refl, !N.eqb_refl. reflexivity.
        * reflexivity.
      + (* not a deposit for r; the remaining resources are not paid at all *)
        assert (Hno : forall rs', filter (pays_bridge outs) rs' = [] ->
                                  process cv nf outs rs' faddr h t = NoMsg).
        { induction rs' as [|r1 rs' IH']; intros Hn; [reflexivity|].
          cbn [filter] in Hn. cbn [process]. destruct (pays_bridge outs r1) eqn:Hp1; [discriminate|].
          rewrite (not_paid_skipped outs r1 faddr Hw Hp1). apply IH'. exact Hn. }
        rewrite (Hno rest Hrest). reflexivity.
    - rewrite (not_paid_skipped outs r0 faddr Hw Hp). apply IH. exact Hf.
  Qed.

  (* no configured resource is paid: nothing is emitted *)
  Lemma process_none outs faddr h t : forall rs,
    oprets_wf outs = true -> filter (pays_bridge outs) rs = [] ->
    process cv nf outs rs faddr h t = NoMsg.
  Proof.
    intros rs Hw. induction rs as [|r1 rs' IH']; intros Hn; [reflexivity|].
    cbn [filter] in Hn. cbn [process]. destruct (pays_bridge outs r1) eqn:Hp1; [discriminate|].
    rewrite (not_paid_skipped outs r1 faddr Hw Hp1). apply IH'. exact Hn.
  Qed.
End Process.

Lemma process_ok_sound outs r faddr d n rid a rc n0 :
  oprets_wf outs = true -> sats_wf outs = true ->
  process_ok outs r faddr (Msg d n rid a rc) n0 = true ->
  pays_bridge outs r = true /\ r_fee r <= fee_sum outs faddr /\
  a = taproot_sum outs r * 10 ^ 10 /\ rid = r_id r /\ n = n0 /\
  parse_payload (last_payload outs) = Some (d, rc).
Proof.
  intros Hw Hs. unfold process_ok. rewrite Hw, Hs. cbn [andb]. unfold is_deposit_spec. intros H.
  destruct (parse_payload (last_payload outs)) as [[d' rc']|].
  2: { rewrite andb_false_r in H. discriminate. }
  apply andb_prop in H. destruct H as [H Hpl].
  apply andb_prop in H. destruct H as [H Hn].
  apply andb_prop in H. destruct H as [H Hrid].
  apply andb_prop in H. destruct H as [H Ha].
  apply andb_prop in H. destruct H as [Hp Hf].
  apply andb_prop in Hpl. destruct Hpl as [Hd Hrc].
  apply Z.leb_le in Hf. apply Z.eqb_eq in Ha. apply bytes_eqb_eq in Hrid. apply N.eqb_eq in Hn.
  apply N.eqb_eq in Hd. apply bytes_eqb_eq in Hrc. subst. repeat split; auto.
Qed.

(* scaled_exactly: the emitted amount is the satoshi sum times 10^10, and the other fields *)
Lemma scaled_exactly cv nf (cv_exact : forall s, sat_wf s = true -> cv s = s)
      outs faddr h t r rs d n rid a rc :
  oprets_wf outs = true -> sats_wf outs = true -> filter (pays_bridge outs) rs = [r] ->
  process cv nf outs rs faddr h t = Msg d n rid a rc ->
  pays_bridge outs r = true /\ r_fee r <= fee_sum outs faddr /\
  a = taproot_sum outs r * 10 ^ 10 /\ rid = r_id r /\ n = nf h t /\
  parse_payload (last_payload outs) = Some (d, rc).
Proof.
  intros Hw Hs Hf Hp.
  pose proof (process_ok_model cv nf cv_exact outs faddr h t r rs Hf) as Hok.
  rewrite Hp in Hok. exact (process_ok_sound outs r faddr d n rid a rc (nf h t) Hw Hs Hok).
Qed.

(* ---------------------------------------------------------------------------------------- *)
(* the conversion before the repair is not exact *)

Lemma old_credited_refuted : exists s, sat_wf s = true /\ old_credited s <> s.
Proof. exists 29000000. split; [reflexivity|]. vm_compute. discriminate. Qed.

Lemma old_fee_threshold_refuted :
  (* a fee paid exactly at the threshold was rejected *)
  exists outs r faddr,
    oprets_wf outs = true /\ sats_wf outs = true /\ is_deposit_spec outs r faddr = true /\
    decode old_credited outs r faddr = NotDeposit.
Proof.
  exists [Build_vout "witness_v1_taproot" "" "bridge" 100000000; Build_vout "witness_v1_taproot" "" "fee" 58],
         (Build_resource "bridge" 58 []), "fee"%string.
  vm_compute. repeat split.
Qed.
