From Coq Require Import List ZArith NArith Bool Lia Arith.
Import ListNotations.
From SygmaV Require Import Model.C05.
Local Open Scope Z_scope.

(* ---------------------------------------------------------------------------------------------
   Part 0: arithmetic of [align] *)

Lemma align_le s i : 1 <= i -> align s i <= s.
Proof. intros Hi. unfold align. pose proof (Z.mod_pos_bound s i ltac:(lia)). lia. Qed.

Lemma align_gt s i : 1 <= i -> s - i < align s i.
Proof. intros Hi. unfold align. pose proof (Z.mod_pos_bound s i ltac:(lia)). lia. Qed.

Lemma align_eq_mul s i : 1 <= i -> align s i = i * (s / i).
Proof. intros Hi. unfold align. pose proof (Z.div_mod s i ltac:(lia)). lia. Qed.

Lemma align_mono a b i : 1 <= i -> a <= b -> align a i <= align b i.
Proof.
  intros Hi Hab. rewrite !align_eq_mul by assumption.
  apply Z.mul_le_mono_nonneg_l; [lia|]. apply Z.div_le_mono; lia.
Qed.

Lemma align_divides s i : 1 <= i -> (align s i) mod i = 0.
Proof.
  intros Hi. rewrite align_eq_mul by assumption. rewrite Z.mul_comm. apply Z.mod_mul. lia.
Qed.

Lemma align_fix s i : 1 <= i -> s mod i = 0 -> align s i = s.
Proof. intros Hi Hm. unfold align. lia. Qed.

(* ---------------------------------------------------------------------------------------------
   Part 1: the judge is sound: an accepted trace has the Prop-level properties. *)

Lemma cur_life_snoc P o :
  cur_life (P ++ [o]) = match o with OStart _ => [] | _ => cur_life P ++ [o] end.
Proof. unfold cur_life. rewrite fold_left_app. cbn. reflexivity. Qed.

Lemma in_cur_life x P : In x (cur_life P) -> In x P.
Proof.
  induction P as [|o P IH] using rev_ind; [cbn; auto|].
  rewrite cur_life_snoc. intros Hin. apply in_or_app.
  destruct o; try contradiction;
    (apply in_app_or in Hin as [Hin|Hin]; [left; auto | right; exact Hin]).
Qed.

Lemma covered_mono tr tr' k b : (forall x, In x tr -> In x tr') -> covered tr k b -> covered tr' k b.
Proof. intros Hsub (s & e & Hin & Hr). exists s, e. split; auto. Qed.

Lemma full_mono n tr tr' b : (forall x, In x tr -> In x tr') -> full n tr b -> full n tr' b.
Proof. intros Hsub Hf k Hk. eapply covered_mono; eauto. Qed.

Lemma all_handlers_in n got : all_handlers n got = true -> forall k, (k < n)%nat -> In k got.
Proof.
  unfold all_handlers. intros Hall k Hk. rewrite forallb_forall in Hall.
  specialize (Hall k). rewrite in_seq in Hall. specialize (Hall ltac:(lia)).
  apply existsb_exists in Hall as (x & Hx & Heq). apply Nat.eqb_eq in Heq. subst; exact Hx.
Qed.

Lemma all_handlers_of_in n got : (forall k, (k < n)%nat -> In k got) -> all_handlers n got = true.
Proof.
  intros H. unfold all_handlers. apply forallb_forall. intros k Hk. apply in_seq in Hk.
  apply existsb_exists. exists k. split; [apply H; lia | apply Nat.eqb_refl].
Qed.

Lemma all_handlers_cons n got k : all_handlers n got = true -> all_handlers n (k :: got) = true.
Proof.
  intros H. apply all_handlers_of_in. intros k' Hk'. right. eapply all_handlers_in; eauto.
Qed.

(* the invariant of the judge's state w.r.t. the trace [P] consumed so far *)
Definition JI (sp : option Z) (c : cfg) (j : jst) (P : list out) : Prop :=
  (forall sp0, latest c = false -> sp = Some sp0 ->
     exists hi, j_hi j = Some hi
       /\ (forall b, sp0 <= b < hi -> full (nh c) P b)
       /\ (forall l, j_lf j = Some l -> l <= hi)
       /\ (forall s e, j_rng j = Some (s, e) -> s <= hi))
  /\ (forall l, j_lf j = Some l -> forall b, b < l -> visited (cur_life P) b -> full (nh c) (cur_life P) b)
  /\ (j_lf j = None -> forall k s e ok, ~ In (OHandle k s e ok) (cur_life P))
  /\ (forall s e, j_rng j = Some (s, e) ->
        s <= e /\ (forall k, In k (j_got j) -> In (OHandle k s e true) (cur_life P))
        /\ (j_lf j = Some s \/ (j_lf j = Some (e + 1) /\ all_handlers (nh c) (j_got j) = true))).

Lemma JI_init c stored0 : JI (start_point c stored0) c (jinit c stored0) [].
Proof.
  unfold JI, jinit; cbn. split; [|split; [|split]].
  - intros sp0 Hl Hsp. exists sp0. split; [exact Hsp|]. split; [|split; discriminate].
    intros b Hb; lia.
  - discriminate.
  - intros _ k s e ok [].
  - discriminate.
Qed.

Lemma visited_snoc_handle L k s e ok b :
  visited (L ++ [OHandle k s e ok]) b -> visited L b \/ s <= b.
Proof.
  intros (k' & s' & e' & ok' & Hin & Hle). apply in_app_or in Hin as [Hin|[Heq|[]]].
  - left. exists k', s', e', ok'. auto.
  - inversion Heq; subst. right; exact Hle.
Qed.

Lemma visited_snoc_other L o b :
  (forall k s e ok, o <> OHandle k s e ok) -> visited (L ++ [o]) b -> visited L b.
Proof.
  intros Hne (k' & s' & e' & ok' & Hin & Hle). apply in_app_or in Hin as [Hin|[Heq|[]]].
  - exists k', s', e', ok'. auto.
  - exfalso. eapply Hne; eauto.
Qed.

(* opening (or continuing) a round: the state [j1] just before the event is recorded *)
Definition open_round (j : jst) (s e : Z) : option jst :=
  let cont := match j_rng j with Some (s', e') => (s =? s') && (e =? e') | None => false end in
  if cont then Some j
  else if le_opt s (j_lf j) && le_opt s (j_hi j)
       then Some {| j_lf := Some s;
                    j_hi := (match j_hi j with None => Some s | Some h => Some h end);
                    j_rng := Some (s, e); j_got := [] |}
       else None.

Definition close_round (c : cfg) (j1 : jst) (k : nat) (e : Z) (ok : bool) : jst :=
  let got' := if ok then k :: j_got j1 else j_got j1 in
  if all_handlers (nh c) got'
  then {| j_lf := Some (e + 1);
          j_hi := (match j_hi j1 with None => Some (e + 1) | Some h => Some (Z.max h (e + 1)) end);
          j_rng := j_rng j1; j_got := got' |}
  else {| j_lf := j_lf j1; j_hi := j_hi j1; j_rng := j_rng j1; j_got := got' |}.

Lemma jstep_handle c j k s e ok :
  jstep c j (OHandle k s e ok) =
  if negb (s <=? e) then None else
  match open_round j s e with None => None | Some j1 => Some (close_round c j1 k e ok) end.
Proof.
  cbn [jstep]. unfold open_round, close_round.
  destruct (negb (s <=? e)); [reflexivity|].
  destruct (match j_rng j with Some (s', e') => (s =? s') && (e =? e') | None => false end).
  - destruct (all_handlers _ _); reflexivity.
  - destruct (le_opt s (j_lf j) && le_opt s (j_hi j)); [|reflexivity].
    cbn. destruct (all_handlers _ _); reflexivity.
Qed.

Lemma open_round_JI sp c j P s e j1 :
  s <= e -> JI sp c j P -> open_round j s e = Some j1 ->
  JI sp c j1 P /\ j_rng j1 = Some (s, e).
Proof.
  intros Hse (HG & HL & HN & HR) Hopen. unfold open_round in Hopen.
  destruct (match j_rng j with Some (s', e') => (s =? s') && (e =? e') | None => false end) eqn:Hcont.
  - inversion Hopen; subst j1. split; [exact (conj HG (conj HL (conj HN HR)))|].
    destruct (j_rng j) as [[s' e']|]; [|discriminate].
    apply andb_true_iff in Hcont as [H1 H2]. apply Z.eqb_eq in H1, H2. subst; reflexivity.
  - destruct (le_opt s (j_lf j) && le_opt s (j_hi j)) eqn:Hle; [|discriminate].
    apply andb_true_iff in Hle as [Hlf Hhi]. inversion Hopen; subst j1; clear Hopen. cbn.
    split; [|reflexivity]. unfold JI; cbn. split; [|split; [|split]].
    + intros sp0 Hl Hsp. destruct (HG sp0 Hl Hsp) as (hi & Hhi' & Hfull & Hlfhi & Hrng).
      rewrite Hhi' in *. cbn in Hhi. apply Z.leb_le in Hhi. exists hi.
      split; [reflexivity|]. split; [exact Hfull|]. split.
      * intros l Heq; inversion Heq; subst; exact Hhi.
      * intros s0 e0 Heq; inversion Heq; subst; exact Hhi.
    + intros l Heq b Hb Hvis. inversion Heq; subst l.
      destruct (j_lf j) as [l|] eqn:Hjl.
      * cbn in Hlf. apply Z.leb_le in Hlf. apply (HL l eq_refl b); [lia|exact Hvis].
      * exfalso. destruct Hvis as (k' & s' & e' & ok' & Hin & _). eapply HN; eauto.
    + discriminate.
    + intros s0 e0 Heq. inversion Heq; subst s0 e0. split; [exact Hse|]. split.
      * intros k [].
      * left; reflexivity.
Qed.

Lemma close_round_JI sp c j1 P k s e ok :
  s <= e -> JI sp c j1 P -> j_rng j1 = Some (s, e) ->
  JI sp c (close_round c j1 k e ok) (P ++ [OHandle k s e ok]).
Proof.
  intros Hse (HG & HL & HN & HR) Hrng.
  destruct (HR s e Hrng) as (_ & Hgot & Hlf).
  set (ev := OHandle k s e ok). set (L := cur_life P).
  assert (HL' : cur_life (P ++ [ev]) = L ++ [ev]) by (rewrite cur_life_snoc; reflexivity).
  set (got' := if ok then k :: j_got j1 else j_got j1).
  assert (Hgot' : forall k0, In k0 got' -> In (OHandle k0 s e true) (L ++ [ev])).
  { intros k0 Hin. unfold got' in Hin. destruct ok.
    - destruct Hin as [->|Hin]; [apply in_or_app; right; left; reflexivity|].
      apply in_or_app; left; apply Hgot; exact Hin.
    - apply in_or_app; left; apply Hgot; exact Hin. }
  assert (HsubL : forall x, In x L -> In x (L ++ [ev])) by (intros; apply in_or_app; left; assumption).
  assert (HsubP : forall x, In x P -> In x (P ++ [ev])) by (intros; apply in_or_app; left; assumption).
  assert (HLP : forall x, In x (L ++ [ev]) -> In x (P ++ [ev])).
  { intros x Hx. apply in_app_or in Hx as [Hx|Hx]; apply in_or_app; [left; apply in_cur_life; exact Hx | right; exact Hx]. }
  assert (Hfullrng : all_handlers (nh c) got' = true -> forall b, s <= b <= e -> full (nh c) (L ++ [ev]) b).
  { intros Hall b Hb k0 Hk0. exists s, e. split; [|exact Hb]. apply Hgot'. eapply all_handlers_in; eauto. }
  (* the lifetime-local clause for a bound l' that is s or e+1 *)
  assert (Hlocal : forall l', (l' = s \/ (l' = e + 1 /\ all_handlers (nh c) got' = true)) ->
             forall b, b < l' -> visited (L ++ [ev]) b -> full (nh c) (L ++ [ev]) b).
  { intros l' Hl' b Hb Hvis. destruct (Z.lt_ge_cases b s) as [Hbs|Hbs].
    - apply visited_snoc_handle in Hvis as [Hvis|Hsb]; [|lia].
      eapply full_mono; [exact HsubL|].
      destruct Hlf as [Hlf|[Hlf _]].
      + apply (HL s Hlf b); [lia|exact Hvis].
      + apply (HL (e + 1) Hlf b); [lia|exact Hvis].
    - destruct Hl' as [->|[-> Hall]]; [lia|]. apply Hfullrng; [exact Hall|lia]. }
  unfold close_round. fold got'.
  assert (Hrngpart : forall lf' s0 e0, j_rng j1 = Some (s0, e0) ->
            (lf' = Some s \/ (lf' = Some (e + 1) /\ all_handlers (nh c) got' = true)) ->
            s0 <= e0 /\ (forall k0, In k0 got' -> In (OHandle k0 s0 e0 true) (L ++ [ev]))
            /\ (lf' = Some s0 \/ (lf' = Some (e0 + 1) /\ all_handlers (nh c) got' = true))).
  { intros lf' s0 e0 Heq Hlf'. rewrite Hrng in Heq. inversion Heq; subst s0 e0.
    split; [exact Hse|]. split; [exact Hgot'|exact Hlf']. }
  assert (Hallmono : all_handlers (nh c) (j_got j1) = true -> all_handlers (nh c) got' = true).
  { intros Hall1. unfold got'. destruct ok; [apply all_handlers_cons|]; exact Hall1. }
  unfold close_round. fold got'.
  destruct (all_handlers (nh c) got') eqn:Hall; unfold JI; cbn; rewrite HL'; rewrite ?Hall; (split; [|split; [|split]]).
  - intros sp0 Hl Hsp. destruct (HG sp0 Hl Hsp) as (hi & Hhi & Hfull & Hlfhi & Hrnghi).
    rewrite Hhi. exists (Z.max hi (e + 1)). split; [reflexivity|]. split; [|split].
    + intros b Hb. destruct (Z.lt_ge_cases b hi) as [Hlt|Hge].
      * eapply full_mono; [exact HsubP|]. apply Hfull; lia.
      * eapply full_mono; [exact HLP|]. apply Hfullrng; [reflexivity|].
        specialize (Hrnghi s e Hrng). lia.
    + intros l Heq; inversion Heq; lia.
    + intros s0 e0 Heq. specialize (Hrnghi s0 e0 Heq). lia.
  - intros l Heq b Hb Hvis. inversion Heq; subst l. eapply Hlocal; eauto.
  - discriminate.
  - intros s0 e0 Heq. apply (Hrngpart (Some (e + 1)) s0 e0 Heq). right; split; reflexivity.
  - intros sp0 Hl Hsp. destruct (HG sp0 Hl Hsp) as (hi & Hhi & Hfull & Hlfhi & Hrnghi).
    exists hi. split; [exact Hhi|]. split; [|split; [exact Hlfhi|exact Hrnghi]].
    intros b Hb. eapply full_mono; [exact HsubP|]. apply Hfull; exact Hb.
  - intros l Heq b Hb Hvis.
    destruct Hlf as [Hlf|[Hlf Hall1]]; rewrite Hlf in Heq; inversion Heq; subst l.
    + eapply Hlocal; eauto.
    + apply Hallmono in Hall1. congruence.
  - intros Hnone. destruct Hlf as [Hlf|[Hlf _]]; congruence.
  - intros s0 e0 Heq. apply (Hrngpart (j_lf j1) s0 e0 Heq).
    destruct Hlf as [Hlf|[Hlf Hall1]]; [left; exact Hlf|].
    apply Hallmono in Hall1. congruence.
Qed.

Lemma jstep_JI sp c j P o j' :
  JI sp c j P -> jstep c j o = Some j' -> JI sp c j' (P ++ [o]).
Proof.
  intros HJ Hstep. destruct o as [cur|k s e ok|v ok].
  - (* OStart *)
    destruct HJ as (HG & HL & HN & HR). cbn in Hstep. inversion Hstep; subst j'; clear Hstep.
    unfold JI; cbn. rewrite cur_life_snoc. split; [|split; [|split]].
    + intros sp0 Hl Hsp. rewrite Hl. destruct (HG sp0 Hl Hsp) as (hi & Hhi & Hfull & _).
      exists hi. split; [exact Hhi|]. split; [|split; discriminate].
      intros b Hb. eapply full_mono; [|apply Hfull; exact Hb]. intros; apply in_or_app; left; assumption.
    + discriminate.
    + intros _ k s e ok [].
    + discriminate.
  - (* OHandle *)
    rewrite jstep_handle in Hstep.
    destruct (s <=? e) eqn:Hse; cbn in Hstep; [|discriminate]. apply Z.leb_le in Hse.
    destruct (open_round j s e) as [j1|] eqn:Hopen; [|discriminate].
    inversion Hstep; subst j'; clear Hstep.
    destruct (open_round_JI _ _ _ _ _ _ _ Hse HJ Hopen) as [HJ1 Hrng].
    apply close_round_JI; assumption.
  - (* OStore *)
    destruct HJ as (HG & HL & HN & HR). cbn in Hstep.
    destruct (le_opt v (j_lf j) && le_opt v (j_hi j)); [|discriminate].
    inversion Hstep; subst j'; clear Hstep.
    assert (Hsub : forall x, In x (cur_life P) -> In x (cur_life P ++ [OStore v ok]))
      by (intros; apply in_or_app; left; assumption).
    unfold JI; cbn. rewrite cur_life_snoc. split; [|split; [|split]].
    + intros sp0 Hl Hsp. destruct (HG sp0 Hl Hsp) as (hi & Hhi & Hfull & Hlfhi & _).
      exists hi. split; [exact Hhi|]. split; [|split; [exact Hlfhi|discriminate]].
      intros b Hb. eapply full_mono; [|apply Hfull; exact Hb]. intros; apply in_or_app; left; assumption.
    + intros l Hl b Hb Hvis. eapply full_mono; [exact Hsub|]. eapply HL; eauto.
      eapply visited_snoc_other; [|exact Hvis]. intros; discriminate.
    + intros Hnone k s e ok' Hin. apply in_app_or in Hin as [Hin|[Heq|[]]]; [|discriminate].
      eapply HN; eauto.
    + discriminate.
Qed.

Lemma jrun_app c j a b : jrun c j (a ++ b) = match jrun c j a with Some j' => jrun c j' b | None => None end.
Proof.
  revert j; induction a as [|o a IH]; intros j; cbn; [reflexivity|].
  destruct (jstep c j o); [apply IH|reflexivity].
Qed.

Lemma jrun_JI sp c j P obs j' :
  JI sp c j P -> jrun c j obs = Some j' -> JI sp c j' (P ++ obs).
Proof.
  revert j P; induction obs as [|o r IH]; intros j P HJ Hrun; cbn in Hrun.
  - inversion Hrun; subst. rewrite app_nil_r. exact HJ.
  - destruct (jstep c j o) as [j1|] eqn:Hs; [|discriminate].
    replace (P ++ o :: r) with ((P ++ [o]) ++ r) by (rewrite <- app_assoc; reflexivity).
    eapply IH; [eapply jstep_JI; eauto | exact Hrun].
Qed.

(* the judge state reached just before an event of an accepted trace *)
Lemma accepted_split c stored0 pre o post :
  trace_ok c stored0 (pre ++ o :: post) = true ->
  exists j1 j2, JI (start_point c stored0) c j1 pre /\ jstep c j1 o = Some j2.
Proof.
  unfold trace_ok. rewrite jrun_app.
  destruct (jrun c (jinit c stored0) pre) as [j1|] eqn:Hpre; [|discriminate].
  cbn. destruct (jstep c j1 o) as [j2|] eqn:Hs; [|discriminate]. intros _.
  exists j1, j2. split; [|exact Hs].
  pose proof (jrun_JI _ _ _ [] _ _ (JI_init c stored0) Hpre) as H. exact H.
Qed.

(* No gap, across all lifetimes: whenever a range starting at s is handed to any handler, every
   block from the starting point up to s has already been handled successfully by every handler;
   likewise below every value handed to the block store. *)
Lemma trace_ok_no_gap c stored0 sp pre k s e ok post :
  latest c = false -> start_point c stored0 = Some sp ->
  trace_ok c stored0 (pre ++ OHandle k s e ok :: post) = true ->
  forall b, sp <= b < s -> full (nh c) pre b.
Proof.
  intros Hl Hsp Hok b Hb. destruct (accepted_split _ _ _ _ _ Hok) as (j1 & j2 & HJ & Hs).
  destruct HJ as (HG & _ & _ & _). destruct (HG sp Hl Hsp) as (hi & Hhi & Hfull & _ & Hrnghi).
  apply Hfull. split; [lia|].
  rewrite jstep_handle in Hs. destruct (negb (s <=? e)); [discriminate|].
  unfold open_round in Hs.
  destruct (j_rng j1) as [[s' e']|] eqn:Hr.
  - destruct ((s =? s') && (e =? e')) eqn:Hc.
    + apply andb_true_iff in Hc as [H1 _]. apply Z.eqb_eq in H1; subst s'.
      specialize (Hrnghi s e' eq_refl). lia.
    + destruct (le_opt s (j_lf j1) && le_opt s (j_hi j1)) eqn:Hle; [|discriminate].
      apply andb_true_iff in Hle as [_ Hle]. rewrite Hhi in Hle. cbn in Hle. apply Z.leb_le in Hle. lia.
  - destruct (le_opt s (j_lf j1) && le_opt s (j_hi j1)) eqn:Hle; [|discriminate].
    apply andb_true_iff in Hle as [_ Hle]. rewrite Hhi in Hle. cbn in Hle. apply Z.leb_le in Hle. lia.
Qed.

Lemma trace_ok_store_behind c stored0 sp pre v ok post :
  latest c = false -> start_point c stored0 = Some sp ->
  trace_ok c stored0 (pre ++ OStore v ok :: post) = true ->
  forall b, sp <= b < v -> full (nh c) pre b.
Proof.
  intros Hl Hsp Hok b Hb. destruct (accepted_split _ _ _ _ _ Hok) as (j1 & j2 & HJ & Hs).
  destruct HJ as (HG & _ & _ & _). destruct (HG sp Hl Hsp) as (hi & Hhi & Hfull & _ & _).
  apply Hfull. split; [lia|]. cbn in Hs.
  destruct (le_opt v (j_lf j1) && le_opt v (j_hi j1)) eqn:Hle; [|discriminate].
  apply andb_true_iff in Hle as [_ Hle]. rewrite Hhi in Hle. cbn in Hle. apply Z.leb_le in Hle. lia.
Qed.

(* Within one lifetime (any flags): when a range starting at s is looked at, or v is persisted,
   every block below it that lies at or above some range start visited in this lifetime - in
   particular the start of any range on which a handler failed - has been handled successfully by
   every handler in this lifetime: the cursor never moves past an unfinished range. *)
Lemma trace_ok_cursor_handle c stored0 pre k s e ok post :
  trace_ok c stored0 (pre ++ OHandle k s e ok :: post) = true ->
  forall b, b < s -> visited (cur_life pre) b -> full (nh c) (cur_life pre) b.
Proof.
  intros Hok b Hb Hvis. destruct (accepted_split _ _ _ _ _ Hok) as (j1 & j2 & HJ & Hs).
  destruct HJ as (_ & HL & HN & HR).
  rewrite jstep_handle in Hs. destruct (negb (s <=? e)); [discriminate|].
  unfold open_round in Hs.
  assert (Hnew : le_opt s (j_lf j1) && le_opt s (j_hi j1) = true -> full (nh c) (cur_life pre) b).
  { intros Hle. apply andb_true_iff in Hle as [Hle _].
    destruct (j_lf j1) as [l|] eqn:Hjl.
    - cbn in Hle. apply Z.leb_le in Hle. eapply HL; eauto. lia.
    - exfalso. destruct Hvis as (k' & s' & e' & ok' & Hin & _). eapply HN; eauto. }
  destruct (j_rng j1) as [[s' e']|] eqn:Hr.
  - destruct ((s =? s') && (e =? e')) eqn:Hc.
    + apply andb_true_iff in Hc as [H1 H2]. apply Z.eqb_eq in H1, H2; subst s' e'.
      destruct (HR s e eq_refl) as (Hse & _ & [Hlf|[Hlf _]]); eapply HL; eauto; lia.
    + destruct (le_opt s (j_lf j1) && le_opt s (j_hi j1)) eqn:Hle; [|discriminate]. auto.
  - destruct (le_opt s (j_lf j1) && le_opt s (j_hi j1)) eqn:Hle; [|discriminate]. auto.
Qed.

Lemma trace_ok_cursor_store c stored0 pre v ok post :
  trace_ok c stored0 (pre ++ OStore v ok :: post) = true ->
  forall b, b < v -> visited (cur_life pre) b -> full (nh c) (cur_life pre) b.
Proof.
  intros Hok b Hb Hvis. destruct (accepted_split _ _ _ _ _ Hok) as (j1 & j2 & HJ & Hs).
  destruct HJ as (_ & HL & HN & _). cbn in Hs.
  destruct (le_opt v (j_lf j1) && le_opt v (j_hi j1)) eqn:Hle; [|discriminate].
  apply andb_true_iff in Hle as [Hle _].
  destruct (j_lf j1) as [l|] eqn:Hjl.
  - cbn in Hle. apply Z.leb_le in Hle. eapply HL; eauto. lia.
  - exfalso. destruct Hvis as (k' & s' & e' & ok' & Hin & _). eapply HN; eauto.
Qed.

(* ---------------------------------------------------------------------------------------------
   Part 2: for every wiring that reads the stored cursor and hands it to the listener, the model's
   trace is accepted by the judge - for ALL event lists (faults and crash points anywhere). *)

Lemma stp_pos c : wf_cfg c = true -> 1 <= stp c.
Proof.
  unfold wf_cfg, stp. intros H. apply andb_true_iff in H as [H _]. apply Z.leb_le in H.
  destruct (kd c); lia.
Qed.

Lemma nh_pos c : wf_cfg c = true -> (0 < nh c)%nat.
Proof.
  unfold wf_cfg. intros H. apply andb_true_iff in H as [_ H]. apply negb_true_iff, Nat.eqb_neq in H. lia.
Qed.

Lemma ival_pos c : wf_cfg c = true -> 1 <= ival c.
Proof. unfold wf_cfg. intros H. apply andb_true_iff in H as [H _]. apply Z.leb_le in H. exact H. Qed.

Lemma pv_le_next c b : wf_cfg c = true -> pv c b <= b + stp c.
Proof. intros Hwf. pose proof (ival_pos c Hwf). unfold pv, stp. destruct (kd c); lia. Qed.

Lemma align_by_le w c v : wf_cfg c = true -> align_by w c v <= v.
Proof.
  intros Hwf. unfold align_by. destruct (align_arg w); try lia.
  - apply align_le, ival_pos; exact Hwf.
  - destruct (1 <=? conf c) eqn:Hc; [|lia]. apply Z.leb_le in Hc. apply align_le; exact Hc.
Qed.

Lemma align_by_mono w c a b : wf_cfg c = true -> a <= b -> align_by w c a <= align_by w c b.
Proof.
  intros Hwf Hab. unfold align_by. destruct (align_arg w); try lia.
  - apply align_mono; [apply ival_pos; exact Hwf|exact Hab].
  - destruct (1 <=? conf c) eqn:Hc; [|lia]. apply Z.leb_le in Hc. apply align_mono; [exact Hc|exact Hab].
Qed.

Lemma app_align_le w c v : wf_cfg c = true -> app_align w c v <= v.
Proof.
  intros Hwf. unfold app_align. destruct (aligns_known w); [|lia]. apply align_by_le; exact Hwf.
Qed.

Lemma app_align_mono w c a b : wf_cfg c = true -> a <= b -> app_align w c a <= app_align w c b.
Proof.
  intros Hwf Hab. unfold app_align. destruct (aligns_known w); [|lia]. apply align_by_mono; assumption.
Qed.

(* where a (re)start lands, for a wiring that reads the store and passes the result on *)
Definition rp (w : wiring) (c : cfg) (stored : option Z) : Z :=
  app_align w c (if fresh c then cstart c
                 else if stored_or0 stored >? cstart c then stored_or0 stored else cstart c).

Lemma boot_ok w c stored :
  wiring_ok w = true -> latest c = false -> boot w c stored = BReady (Some (rp w c stored)).
Proof.
  unfold wiring_ok, boot, rp, get_start_block, to_chain, passes_start_to_chain, align_safe, align_dead.
  intros Hw Hl.
  apply andb_true_iff in Hw as [Hw _]. apply andb_true_iff in Hw as [Hw Hs].
  apply andb_true_iff in Hw as [Hr Hp]. rewrite Hr, Hl.
  destruct (chain_arg w); try discriminate.
  destruct (align_arg w); try discriminate; rewrite andb_false_r;
    (destruct (fresh c); [reflexivity|]; destruct (stored_or0 stored >? cstart c); reflexivity).
Qed.

Lemma rp_ge_min w c stored : wf_cfg c = true -> app_align w c (cstart c) <= rp w c stored.
Proof.
  intros Hwf. unfold rp. apply app_align_mono; [exact Hwf|].
  destruct (fresh c); [lia|]. destruct (stored_or0 stored >? cstart c) eqn:Hgt; [|lia].
  apply Z.gtb_lt in Hgt. lia.
Qed.

Lemma rp_start_point w c stored0 sp :
  wf_cfg c = true -> start_point c stored0 = Some sp -> rp w c stored0 <= sp.
Proof.
  intros Hwf. unfold start_point, rp. destruct (latest c); [discriminate|].
  intros Heq; inversion Heq; subst sp; clear Heq.
  destruct (fresh c); [apply app_align_le; exact Hwf|].
  destruct (stored_or0 stored0 >? cstart c) eqn:Hgt.
  - apply Z.gtb_lt in Hgt. etransitivity; [apply app_align_le; exact Hwf|lia].
  - etransitivity; [apply app_align_le; exact Hwf|lia].
Qed.

Lemma rp_pv w c b :
  wf_cfg c = true -> app_align w c (cstart c) <= b -> rp w c (Some (pv c b)) <= b + stp c.
Proof.
  intros Hwf Hmin. pose proof (stp_pos c Hwf) as Hs. pose proof (pv_le_next c b Hwf) as Hpv.
  unfold rp. cbn [stored_or0]. destruct (fresh c); [lia|].
  destruct (pv c b >? cstart c).
  - pose proof (app_align_le w c (pv c b) Hwf). lia.
  - lia.
Qed.

Definition notlast (c : cfg) (got : list nat) : Prop := forall x, In x got -> (S x < nh c)%nat.

Lemma notlast_not_all c got : (0 < nh c)%nat -> notlast c got -> all_handlers (nh c) got = false.
Proof.
  intros Hn Hnl. destruct (all_handlers (nh c) got) eqn:Hall; [|reflexivity].
  exfalso. pose proof (all_handlers_in _ _ Hall (nh c - 1)%nat ltac:(lia)) as Hin.
  apply Hnl in Hin. lia.
Qed.

Definition idle (c : cfg) (b : Z) (j : jst) (k : nat) : Prop :=
  (j_rng j = None /\ k = 0%nat /\ (j_lf j = None \/ j_lf j = Some b))
  \/ (j_rng j = Some (b, b + stp c - 1) /\ j_lf j = Some b /\ notlast c (j_got j)
      /\ forall k', (k' < k)%nat -> In k' (j_got j)).

Definition SI (w : wiring) (c : cfg) (s : st) (j : jst) : Prop :=
  exists b hi, s_cur s = Some b /\ j_hi j = Some hi /\ b <= hi
    /\ app_align w c (cstart c) <= b
    /\ rp w c (s_stored s) <= b
    /\ match s_pc s with
       | PPoll => idle c b j 0
       | PHandle k => (k < nh c)%nat /\ idle c b j k
       | PStore => j_lf j = Some (b + stp c) /\ b + stp c <= hi
       | _ => False
       end.

Lemma SI_cur_le_hi w c s j : wf_cfg c = true -> SI w c s j ->
  exists b hi, s_cur s = Some b /\ j_hi j = Some hi /\ b <= hi /\ rp w c (s_stored s) <= b.
Proof. intros _ (b & hi & H1 & H2 & H3 & _ & H5 & _). exists b, hi. auto. Qed.

Lemma sim_crash w c s j :
  wiring_ok w = true -> wf_cfg c = true -> latest c = false -> SI w c s j ->
  exists j', jrun c j (snd (reboot w c (s_stored s))) = Some j' /\ SI w c (fst (reboot w c (s_stored s))) j'.
Proof.
  intros Hw Hwf Hl (b & hi & Hcur & Hhi & Hle & Hmin & Hrp & _).
  unfold reboot. rewrite (boot_ok w c _ Hw Hl). cbn. rewrite Hl.
  eexists; split; [reflexivity|].
  exists (rp w c (s_stored s)), hi. cbn. repeat split; try lia; try assumption.
  - apply rp_ge_min; exact Hwf.
  - left. auto.
Qed.

Lemma sim_step w c s j e :
  wiring_ok w = true -> wf_cfg c = true -> latest c = false -> SI w c s j ->
  exists j', jrun c j (snd (step w c s e)) = Some j' /\ SI w c (fst (step w c s e)) j'.
Proof.
  intros Hw Hwf Hl HSI.
  pose proof (stp_pos c Hwf) as Hstp. pose proof (nh_pos c Hwf) as Hnh.
  pose proof HSI as HSI0.
  destruct e as [|h|ok|ok|]; try (unfold step; apply sim_crash; assumption).
  - (* RpcFail *)
    destruct HSI as (b & hi & Hcur & Hhi & Hle & Hmin & Hrp & Hpc).
    unfold step. destruct (s_pc s); try contradiction; cbn; (exists j; split; [reflexivity|exact HSI0]).
  - (* Head *)
    destruct HSI as (b & hi & Hcur & Hhi & Hle & Hmin & Hrp & Hpc).
    unfold step. destruct (s_pc s) eqn:Hp; try contradiction.
    + (* PPoll *)
      rewrite Hcur. destruct (ready c h b); cbn; eexists; (split; [reflexivity|]); exists b, hi; cbn.
      * replace (Nat.eqb (nh c) 0) with false by (symmetry; apply Nat.eqb_neq; lia).
        repeat split; try assumption.
      * repeat split; assumption.
    + cbn; (exists j; split; [reflexivity|exact HSI0]).
    + cbn; (exists j; split; [reflexivity|exact HSI0]).
  - (* Handler *)
    destruct HSI as (b & hi & Hcur & Hhi & Hle & Hmin & Hrp & Hpc).
    unfold step. destruct (s_pc s) eqn:Hp; try contradiction.
    + cbn; (exists j; split; [reflexivity|exact HSI0]).
    + (* PHandle k *)
      destruct Hpc as [Hk Hidle]. rewrite Hcur. cbn [snd fst jrun].
      set (e := b + stp c - 1).
      rewrite jstep_handle. replace (negb (b <=? e)) with false
        by (symmetry; apply negb_false_iff, Z.leb_le; unfold e; lia).
      (* the round state before the event *)
      assert (Hopen : exists j1, open_round j b e = Some j1 /\ j_rng j1 = Some (b, e) /\ j_lf j1 = Some b
                        /\ j_hi j1 = Some hi /\ notlast c (j_got j1)
                        /\ (forall k', (k' < k)%nat -> In k' (j_got j1))).
      { unfold open_round. destruct Hidle as [(Hr & Hk0 & Hlf)|(Hr & Hlf & Hnl & Hall)].
        - rewrite Hr. replace (le_opt b (j_lf j) && le_opt b (j_hi j)) with true.
          + eexists; split; [reflexivity|]. cbn. rewrite Hhi. repeat split; auto.
            * intros x [].
            * intros k' Hk'; lia.
          + symmetry. apply andb_true_iff. split.
            * destruct Hlf as [->| ->]; cbn; [reflexivity|apply Z.leb_le; lia].
            * rewrite Hhi; cbn; apply Z.leb_le; lia.
        - rewrite Hr. fold e. rewrite !Z.eqb_refl. cbn. exists j. repeat split; auto. }
      destruct Hopen as (j1 & -> & Hr1 & Hlf1 & Hhi1 & Hnl1 & Hall1).
      unfold close_round. destruct ok.
      * (* the handler returned nil *)
        destruct (Nat.eqb (S k) (nh c)) eqn:Hlast.
        -- apply Nat.eqb_eq in Hlast.
           replace (all_handlers (nh c) (k :: j_got j1)) with true.
           2:{ symmetry. apply all_handlers_of_in. intros k' Hk'.
               destruct (Nat.eq_dec k' k) as [->|Hne]; [left; reflexivity|right; apply Hall1; lia]. }
           rewrite Hhi1. eexists; split; [reflexivity|].
           exists b, (Z.max hi (e + 1)). cbn. repeat split; try assumption; try lia.
           all: try (unfold e; lia); try (f_equal; unfold e; lia).
        -- apply Nat.eqb_neq in Hlast.
           assert (Hnl' : notlast c (k :: j_got j1)).
           { intros x [<-|Hx]; [lia|apply Hnl1; exact Hx]. }
           rewrite (notlast_not_all c _ Hnh Hnl').
           eexists; split; [reflexivity|]. exists b, hi. cbn. repeat split; try assumption; try lia.
           right. cbn. repeat split; try assumption.
           intros k' Hk'. destruct (Nat.eq_dec k' k) as [->|Hne]; [left; reflexivity|right; apply Hall1; lia].
      * (* the handler failed: same cursor, poll again *)
        rewrite (notlast_not_all c _ Hnh Hnl1).
        eexists; split; [reflexivity|]. exists b, hi. cbn. repeat split; try assumption.
        right. cbn. repeat split; try assumption. intros k' Hk'; lia.
    + cbn; (exists j; split; [reflexivity|exact HSI0]).
  - (* Store *)
    destruct HSI as (b & hi & Hcur & Hhi & Hle & Hmin & Hrp & Hpc).
    unfold step. destruct (s_pc s) eqn:Hp; try contradiction.
    + cbn; (exists j; split; [reflexivity|exact HSI0]).
    + cbn; (exists j; split; [reflexivity|exact HSI0]).
    + (* PStore *)
      destruct Hpc as [Hlf Hnext]. rewrite Hcur. cbn [snd fst jrun jstep].
      pose proof (pv_le_next c b Hwf) as Hpv.
      replace (le_opt (pv c b) (j_lf j) && le_opt (pv c b) (j_hi j)) with true.
      2:{ symmetry. rewrite Hlf, Hhi. cbn. apply andb_true_iff; split; apply Z.leb_le; lia. }
      eexists; split; [reflexivity|]. exists (b + stp c), hi. cbn.
      repeat split; try assumption; try lia.
      * destruct ok; [apply rp_pv; assumption|lia].
      * left. auto.
Qed.

Lemma sim_run w c s j evs :
  wiring_ok w = true -> wf_cfg c = true -> latest c = false -> SI w c s j ->
  exists j', jrun c j (run_from w c s evs) = Some j'.
Proof.
  intros Hw Hwf Hl. revert s j; induction evs as [|e r IH]; intros s j HSI; cbn.
  - exists j; reflexivity.
  - destruct (sim_step w c s j e Hw Hwf Hl HSI) as (j1 & Hrun & HSI1).
    destruct (step w c s e) as [s' o]. cbn in *. rewrite jrun_app, Hrun. apply IH; exact HSI1.
Qed.

Lemma model_trace_ok w c stored0 evs :
  wiring_ok w = true -> wf_cfg c = true -> latest c = false ->
  trace_ok c stored0 (run w c stored0 evs) = true.
Proof.
  intros Hw Hwf Hl. unfold trace_ok, run, reboot. rewrite (boot_ok w c _ Hw Hl). cbn [fst snd app jrun jstep].
  rewrite Hl.
  destruct (start_point c stored0) as [sp|] eqn:Hsp.
  2:{ unfold start_point in Hsp. rewrite Hl in Hsp. discriminate. }
  match goal with |- context [jrun c ?j0 (run_from w c ?s0 evs)] =>
    destruct (sim_run w c s0 j0 evs Hw Hwf Hl) as (j' & ->); [|reflexivity] end.
  exists (rp w c stored0), sp. cbn. unfold jinit. cbn. repeat split; try assumption; try lia.
  - apply rp_start_point; assumption.
  - apply rp_ge_min; exact Hwf.
  - left. auto.
Qed.

(* ---------------------------------------------------------------------------------------------
   Part 2b: with the [latest] flag every lifetime starts at the head by the operator's choice; the
   specification then speaks about each lifetime separately, and the model satisfies it for EVERY
   wiring. *)

Definition core (c : cfg) (b : Z) (j : jst) (p : pc) : Prop :=
  le_opt b (j_hi j) = true
  /\ match p with
     | PPoll => idle c b j 0
     | PHandle k => (k < nh c)%nat /\ idle c b j k
     | PStore => j_lf j = Some (b + stp c) /\ exists hi, j_hi j = Some hi /\ b + stp c <= hi
     | _ => False
     end.

Lemma core_handler c b j k ok :
  wf_cfg c = true -> core c b j (PHandle k) ->
  exists j', jstep c j (OHandle k b (b + stp c - 1) ok) = Some j'
    /\ core c b j' (if ok then (if Nat.eqb (S k) (nh c) then PStore else PHandle (S k)) else PPoll).
Proof.
  intros Hwf [Hle [Hk Hidle]].
  pose proof (stp_pos c Hwf) as Hstp. pose proof (nh_pos c Hwf) as Hnh.
  set (e := b + stp c - 1).
  rewrite jstep_handle. replace (negb (b <=? e)) with false
    by (symmetry; apply negb_false_iff, Z.leb_le; unfold e; lia).
  assert (Hopen : exists j1, open_round j b e = Some j1 /\ j_rng j1 = Some (b, e) /\ j_lf j1 = Some b
                    /\ le_opt b (j_hi j1) = true /\ notlast c (j_got j1)
                    /\ (forall k', (k' < k)%nat -> In k' (j_got j1))).
  { unfold open_round. destruct Hidle as [(Hr & Hk0 & Hlf)|(Hr & Hlf & Hnl & Hall)].
    - rewrite Hr. replace (le_opt b (j_lf j) && le_opt b (j_hi j)) with true.
      + eexists; split; [reflexivity|]. cbn. repeat split; auto.
        * destruct (j_hi j); cbn; [exact Hle|apply Z.leb_le; lia].
        * intros x [].
        * intros k' Hk'; lia.
      + symmetry. apply andb_true_iff. split; [|exact Hle].
        destruct Hlf as [->| ->]; cbn; [reflexivity|apply Z.leb_le; lia].
    - rewrite Hr. fold e. rewrite !Z.eqb_refl. cbn. exists j. repeat split; auto. }
  destruct Hopen as (j1 & -> & Hr1 & Hlf1 & Hhi1 & Hnl1 & Hall1).
  unfold close_round. destruct ok.
  - destruct (Nat.eqb (S k) (nh c)) eqn:Hlast.
    + apply Nat.eqb_eq in Hlast.
      replace (all_handlers (nh c) (k :: j_got j1)) with true.
      2:{ symmetry. apply all_handlers_of_in. intros k' Hk'.
          destruct (Nat.eq_dec k' k) as [->|Hne]; [left; reflexivity|right; apply Hall1; lia]. }
      eexists; split; [reflexivity|]. unfold core; cbn.
      destruct (j_hi j1) as [h|]; cbn in *.
      * apply Z.leb_le in Hhi1. split; [apply Z.leb_le; lia|]. split; [f_equal; unfold e; lia|].
        exists (Z.max h (e + 1)). split; [reflexivity|unfold e; lia].
      * split; [apply Z.leb_le; unfold e; lia|]. split; [f_equal; unfold e; lia|].
        exists (e + 1). split; [reflexivity|unfold e; lia].
    + apply Nat.eqb_neq in Hlast.
      assert (Hnl' : notlast c (k :: j_got j1)).
      { intros x [<-|Hx]; [lia|apply Hnl1; exact Hx]. }
      rewrite (notlast_not_all c _ Hnh Hnl').
      eexists; split; [reflexivity|]. unfold core; cbn. split; [exact Hhi1|]. split; [lia|].
      right. cbn. repeat split; try assumption.
      intros k' Hk'. destruct (Nat.eq_dec k' k) as [->|Hne]; [left; reflexivity|right; apply Hall1; lia].
  - rewrite (notlast_not_all c _ Hnh Hnl1).
    eexists; split; [reflexivity|]. unfold core; cbn. split; [exact Hhi1|].
    right. cbn. repeat split; try assumption. intros k' Hk'; lia.
Qed.

Lemma core_store c b j ok :
  wf_cfg c = true -> core c b j PStore ->
  exists j', jstep c j (OStore (pv c b) ok) = Some j' /\ core c (b + stp c) j' PPoll.
Proof.
  intros Hwf [Hle [Hlf (hi & Hhi & Hnext)]].
  pose proof (pv_le_next c b Hwf) as Hpv. cbn [jstep].
  replace (le_opt (pv c b) (j_lf j) && le_opt (pv c b) (j_hi j)) with true.
  2:{ symmetry. rewrite Hlf, Hhi. cbn. apply andb_true_iff; split; apply Z.leb_le; lia. }
  eexists; split; [reflexivity|]. unfold core; cbn. rewrite Hhi. cbn.
  split; [apply Z.leb_le; lia|]. left. auto.
Qed.

Definition SIL (c : cfg) (s : st) (j : jst) : Prop :=
  match s_pc s, s_cur s with
  | PDead, _ => True
  | PBoot, _ => True
  | PPoll, None => j_lf j = None /\ j_hi j = None /\ j_rng j = None
  | p, Some b => core c b j p
  | _, None => False
  end.

Lemma sil_crash w c stored j :
  latest c = true ->
  exists j', jrun c j (snd (reboot w c stored)) = Some j' /\ SIL c (fst (reboot w c stored)) j'.
Proof.
  intros Hl. unfold reboot. destruct (boot w c stored) as [[v|]| |]; cbn; rewrite ?Hl.
  - eexists; split; [reflexivity|]. unfold SIL, core; cbn. split; [reflexivity|]. left. auto.
  - eexists; split; [reflexivity|]. unfold SIL; cbn. auto.
  - exists j. split; [reflexivity|exact I].
  - exists j. split; [reflexivity|exact I].
Qed.

Lemma sil_step w c s j e :
  wf_cfg c = true -> latest c = true -> SIL c s j ->
  exists j', jrun c j (snd (step w c s e)) = Some j' /\ SIL c (fst (step w c s e)) j'.
Proof.
  intros Hwf Hl HS.
  pose proof (nh_pos c Hwf) as Hnh.
  assert (Hstay : exists j', jrun c j [] = Some j' /\ SIL c s j') by (exists j; split; [reflexivity|exact HS]).
  destruct e as [|h|ok|ok|]; unfold step; try (apply sil_crash; exact Hl).
  - destruct (s_pc s); exact Hstay.
  - (* Head *)
    destruct (s_pc s) eqn:Hp; try exact Hstay.
    + (* PBoot *)
      destruct (aligns_head w && align_dead w c); [exists j; split; [reflexivity|exact I]|].
      cbn. rewrite Hl. eexists; split; [reflexivity|].
      destruct (to_chain w c (Some (app_align_head w c h))) as [v|]; unfold SIL, core; cbn; auto.
      split; [reflexivity|]. left. auto.
    + (* PPoll *)
      unfold SIL in HS. rewrite Hp in HS.
      destruct (s_cur s) as [b|] eqn:Hc.
      * destruct HS as [Hle Hidle].
        destruct (ready c h b); cbn; (exists j; split; [reflexivity|]); unfold SIL, core; cbn.
        -- replace (Nat.eqb (nh c) 0) with false by (symmetry; apply Nat.eqb_neq; lia). auto.
        -- auto.
      * destruct HS as (Hlf & Hhi & Hr).
        assert (Hcore : le_opt h (j_hi j) = true /\ idle c h j 0).
        { rewrite Hhi. split; [reflexivity|]. left. auto. }
        destruct (ready c h h); cbn; (exists j; split; [reflexivity|]); unfold SIL, core; cbn.
        -- replace (Nat.eqb (nh c) 0) with false by (symmetry; apply Nat.eqb_neq; lia).
           destruct Hcore; auto.
        -- exact Hcore.
  - (* Handler *)
    destruct (s_pc s) eqn:Hp; try exact Hstay.
    unfold SIL in HS. rewrite Hp in HS.
    destruct (s_cur s) as [b|] eqn:Hc; [|contradiction].
    destruct (core_handler c b j k ok Hwf HS) as (j' & Hj & Hcore).
    cbn [snd fst jrun]. rewrite Hj. exists j'. split; [reflexivity|].
    unfold SIL. cbn [fst s_pc s_cur].
    destruct ok; [destruct (Nat.eqb (S k) (nh c))|]; exact Hcore.
  - (* Store *)
    destruct (s_pc s) eqn:Hp; try exact Hstay.
    unfold SIL in HS. rewrite Hp in HS.
    destruct (s_cur s) as [b|] eqn:Hc; [|contradiction].
    destruct (core_store c b j ok Hwf HS) as (j' & Hj & Hcore).
    cbn [snd fst jrun]. rewrite Hj. exists j'. split; [reflexivity|]. exact Hcore.
Qed.

Lemma sil_run w c s j evs :
  wf_cfg c = true -> latest c = true -> SIL c s j ->
  exists j', jrun c j (run_from w c s evs) = Some j'.
Proof.
  intros Hwf Hl. revert s j; induction evs as [|e r IH]; intros s j HS; cbn.
  - exists j; reflexivity.
  - destruct (sil_step w c s j e Hwf Hl HS) as (j1 & Hrun & HS1).
    destruct (step w c s e) as [s' o]. cbn in *. rewrite jrun_app, Hrun. apply IH; exact HS1.
Qed.

Lemma model_trace_ok_latest w c stored0 evs :
  wf_cfg c = true -> latest c = true ->
  trace_ok c stored0 (run w c stored0 evs) = true.
Proof.
  intros Hwf Hl. unfold trace_ok, run. rewrite jrun_app.
  destruct (sil_crash w c stored0 (jinit c stored0) Hl) as (j1 & -> & HS).
  destruct (sil_run w c _ j1 evs Hwf Hl HS) as (j' & ->). reflexivity.
Qed.

Lemma model_trace_ok_all w c stored0 evs :
  wf_cfg c = true -> (wiring_ok w = true \/ latest c = true) ->
  trace_ok c stored0 (run w c stored0 evs) = true.
Proof.
  intros Hwf [Hw|Hl].
  - destruct (latest c) eqn:Hl; [apply model_trace_ok_latest|apply model_trace_ok]; assumption.
  - apply model_trace_ok_latest; assumption.
Qed.

(* ---------------------------------------------------------------------------------------------
   Part 3: the property, stated on the model's own traces (corollaries of parts 1 and 2). *)

Lemma no_gap_across_restarts w c stored0 sp evs pre k s e ok post :
  wiring_ok w = true -> wf_cfg c = true -> latest c = false ->
  start_point c stored0 = Some sp ->
  run w c stored0 evs = pre ++ OHandle k s e ok :: post ->
  forall b, sp <= b < s -> full (nh c) pre b.
Proof.
  intros Hw Hwf Hl Hsp Hrun. eapply trace_ok_no_gap; eauto.
  rewrite <- Hrun. apply model_trace_ok; assumption.
Qed.

Lemma persisted_cursor_behind w c stored0 sp evs pre v ok post :
  wiring_ok w = true -> wf_cfg c = true -> latest c = false ->
  start_point c stored0 = Some sp ->
  run w c stored0 evs = pre ++ OStore v ok :: post ->
  forall b, sp <= b < v -> full (nh c) pre b.
Proof.
  intros Hw Hwf Hl Hsp Hrun. eapply trace_ok_store_behind; eauto.
  rewrite <- Hrun. apply model_trace_ok; assumption.
Qed.

Lemma handled_contiguous w c stored0 evs pre k s e ok post :
  wf_cfg c = true -> (wiring_ok w = true \/ latest c = true) ->
  run w c stored0 evs = pre ++ OHandle k s e ok :: post ->
  forall b, b < s -> visited (cur_life pre) b -> full (nh c) (cur_life pre) b.
Proof.
  intros Hwf Hw Hrun. eapply trace_ok_cursor_handle.
  rewrite <- Hrun. apply model_trace_ok_all; assumption.
Qed.

(* a handler failed on the range starting at s0 earlier in this lifetime: the loop looks at a later
   range, or persists a later cursor, only after every handler has succeeded on block s0 *)
Lemma cursor_never_passes_failure w c stored0 evs pre x post k0 s0 e0 :
  wf_cfg c = true -> (wiring_ok w = true \/ latest c = true) ->
  run w c stored0 evs = pre ++ x :: post ->
  In (OHandle k0 s0 e0 false) (cur_life pre) ->
  (forall k s e ok, x = OHandle k s e ok -> s0 < s -> full (nh c) (cur_life pre) s0)
  /\ (forall v ok, x = OStore v ok -> s0 < v -> full (nh c) (cur_life pre) s0).
Proof.
  intros Hwf Hw Hrun Hfail.
  assert (Hvis : visited (cur_life pre) s0) by (exists k0, s0, e0, false; split; [exact Hfail|lia]).
  pose proof (model_trace_ok_all w c stored0 evs Hwf Hw) as Hok. rewrite Hrun in Hok.
  split.
  - intros k s e ok -> Hlt. eapply trace_ok_cursor_handle; eauto.
  - intros v ok -> Hlt. eapply trace_ok_cursor_store; eauto.
Qed.

(* the wiring app.Run had for Bitcoin before the repair: nothing is read, nothing is passed *)
Definition old_btc_wiring : wiring :=
  {| reads_store := false; head_if_nil := false; align_arg := AlignNone; aligns_known := false; aligns_head := false;
     chain_arg := ChainNil; steps_by_interval := true |}.

Definition refute_cfg : cfg :=
  {| kd := Btc; ival := 5; conf := 1; nh := 1; cstart := 0; latest := false; fresh := false |}.

Lemma old_btc_wiring_refuted :
  exists c stored0 evs, wf_cfg c = true /\ latest c = false /\
    trace_ok c stored0 (run old_btc_wiring c stored0 evs) = false.
Proof.
  exists refute_cfg, (Some 50), [Head 100; Head 101; Handler true]. vm_compute. repeat split.
Qed.

Lemma propagate_model fetch_ok : propagate_ok fetch_ok (handler_returns_err fetch_ok) = true.
Proof. destruct fetch_ok; reflexivity. Qed.

(* ---------------------------------------------------------------------------------------------
   Reads: a successful call has asked for its whole range *)

Lemma zrange_In n : forall s b, s <= b < s + Z.of_nat n -> In b (zrange s n).
Proof.
  induction n as [|n IHn]; intros s b Hb.
  - cbn in Hb. lia.
  - cbn [zrange]. destruct (Z.eq_dec s b) as [Heq|Hne].
    + left. exact Heq.
    + right. apply IHn. rewrite Nat2Z.inj_succ in Hb. lia.
Qed.

Lemma asked_b_spec asked b :
  asked_b asked b = true -> exists a c, In (a, c) asked /\ a <= b <= c.
Proof.
  unfold asked_b. intros H. apply existsb_exists in H. destruct H as [[a c] [Hin Hb]].
  cbn [fst snd] in Hb. apply andb_true_iff in Hb. destruct Hb as [H1 H2].
  apply Z.leb_le in H1. apply Z.leb_le in H2. exists a, c. split; [exact Hin | lia].
Qed.

Lemma covers_spec s e asked :
  covers s e asked = true ->
  forall b, s <= b <= e -> exists a c, In (a, c) asked /\ a <= b <= c.
Proof.
  unfold covers. intros H b Hb. rewrite forallb_forall in H.
  apply asked_b_spec. apply H. apply zrange_In. rewrite Z2Nat.id by lia. lia.
Qed.

Lemma covers_self s e : covers s e (handler_asks s e) = true.
Proof.
  unfold covers, handler_asks. remember (Z.to_nat (e - s + 1)) as n eqn:Hn.
  assert (Hle : s + Z.of_nat n <= Z.max (e + 1) s) by lia. clear Hn.
  assert (Hgen : forall m t, s <= t -> t + Z.of_nat m <= Z.max (e + 1) s ->
                 forallb (asked_b [(s, e)]) (zrange t m) = true).
  { induction m as [|m IHm]; intros t Hst Ht; [reflexivity|].
    cbn [zrange forallb]. rewrite Nat2Z.inj_succ in Ht. apply andb_true_iff. split.
    - unfold asked_b. cbn [existsb fst snd]. rewrite orb_false_r. apply andb_true_iff.
      split; apply Z.leb_le; lia.
    - apply IHm; lia. }
  apply Hgen; [lia | exact Hle].
Qed.

Lemma reads_model s e fired :
  reads_ok s e fired (handler_asks s e) (handler_returns_err (negb fired)) = true.
Proof.
  unfold reads_ok. rewrite propagate_model. rewrite covers_self. rewrite orb_true_r. reflexivity.
Qed.

Lemma reads_ok_sound s e fired asked err :
  reads_ok s e fired asked err = true ->
  (fired = true -> err = true) /\
  (err = false -> forall b, s <= b <= e -> exists a c, In (a, c) asked /\ a <= b <= c).
Proof.
  unfold reads_ok, propagate_ok. intros H. apply andb_true_iff in H. destruct H as [H1 H2]. split.
  - intros Hf. subst fired. cbn in H1. exact H1.
  - intros He. subst err. cbn in H2. apply covers_spec. exact H2.
Qed.
