(* C07 - proofs about the model in Model/C07.v *)
From Coq Require Import List ZArith NArith Bool Lia Permutation Sorted Arith.
From Coq Require Import ZifyBool ZifyN ZifyNat.
Import ListNotations.
From SygmaV Require Import Model.C07.

Lemma memb_In : forall p l, memb p l = true <-> In p l.
Proof.
  intros p l. unfold memb. rewrite existsb_exists. split.
  - intros [x [Hin Heq]]. apply N.eqb_eq in Heq. subst. exact Hin.
  - intros Hin. exists p. split; [exact Hin | apply N.eqb_refl].
Qed.

Lemma memb_false_In : forall p l, memb p l = false <-> ~ In p l.
Proof.
  intros p l. rewrite <- memb_In. destruct (memb p l); split; congruence.
Qed.

Lemma nodupb_NoDup : forall l, nodupb l = true <-> NoDup l.
Proof.
  induction l as [|x r IH]; cbn [nodupb].
  - split; [constructor | reflexivity].
  - rewrite andb_true_iff, negb_true_iff, memb_false_In, IH. split.
    + intros [Hx Hr]. constructor; assumption.
    + intros Hnd. inversion Hnd; subst. split; assumption.
Qed.

Lemma list_peer_eqb_eq : forall a b, list_peer_eqb a b = true <-> a = b.
Proof.
  unfold list_peer_eqb.
  induction a as [|x a IH]; destruct b as [|y b]; split; intros H; try reflexivity; try discriminate.
  - apply andb_true_iff in H. destruct H as [Hx Hr]. apply N.eqb_eq in Hx. apply IH in Hr. congruence.
  - inversion H; subst. apply andb_true_iff. split; [apply N.eqb_refl | apply IH; reflexivity].
Qed.

Lemma NoDup_snoc : forall (l : list peer) f, NoDup l -> ~ In f l -> NoDup (l ++ [f]).
Proof.
  induction l as [|x r IH]; intros f Hnd Hf; cbn [app].
  - constructor; [intros [] | constructor].
  - inversion Hnd as [|? ? Hx Hr]; subst. constructor.
    + intros Hin. apply in_app_or in Hin. destruct Hin as [Hin|[Hin|[]]]; [auto|].
      subst. apply Hf. left. reflexivity.
    + apply IH; [exact Hr|]. intros Hin. apply Hf. right. exact Hin.
Qed.

Section Election.
  Variable key : peer -> N.

  Definition ge_key (p q : peer) : Prop := (key q <= key p)%N.

  Definition inj_on (l : list peer) : Prop :=
    forall p q, In p l -> In q l -> key p = key q -> p = q.

  Lemma insert_perm : forall p l, Permutation (insert key p l) (p :: l).
  Proof.
    intros p l. induction l as [|q r IH]; cbn [insert].
    - apply Permutation_refl.
    - destruct (less key p q).
      + apply Permutation_refl.
      + eapply Permutation_trans; [apply perm_skip; exact IH | apply perm_swap].
  Qed.

  Lemma sort_perm : forall l, Permutation (sort_peers key l) l.
  Proof.
    induction l as [|x r IH]; cbn [sort_peers fold_right].
    - apply Permutation_refl.
    - eapply Permutation_trans; [apply insert_perm | apply perm_skip; exact IH].
  Qed.

  Lemma insert_sorted : forall p l,
    StronglySorted ge_key l -> StronglySorted ge_key (insert key p l).
  Proof.
    intros p l Hs. induction Hs as [|q r Hr IH Hall]; cbn [insert].
    - constructor; constructor.
    - unfold less. destruct (key q <? key p)%N eqn:Hlt.
      + constructor.
        * constructor; assumption.
        * constructor.
          -- unfold ge_key. lia.
          -- rewrite Forall_forall in *. intros x Hx. specialize (Hall x Hx). unfold ge_key in *. lia.
      + constructor; [exact IH|].
        rewrite Forall_forall in *. intros x Hx.
        apply (Permutation_in _ (insert_perm p r)) in Hx. destruct Hx as [Hx|Hx].
        * subst x. unfold ge_key. lia.
        * apply Hall; exact Hx.
  Qed.

  Lemma sort_sorted : forall l, StronglySorted ge_key (sort_peers key l).
  Proof.
    induction l as [|x r IH]; cbn [sort_peers fold_right].
    - constructor.
    - apply insert_sorted. exact IH.
  Qed.

  Lemma sorted_perm_unique : forall a b,
    StronglySorted ge_key a -> StronglySorted ge_key b -> Permutation a b -> inj_on a -> a = b.
  Proof.
    induction a as [|x a IH]; intros b Ha Hb Hperm Hinj.
    - apply Permutation_nil in Hperm. subst. reflexivity.
    - destruct b as [|y b].
      + apply Permutation_sym, Permutation_nil in Hperm. discriminate.
      + inversion Ha as [|? ? Ha' Hxa]; subst. inversion Hb as [|? ? Hb' Hyb]; subst.
        assert (Hxy : x = y).
        { assert (Hyin : In y (x :: a)) by (apply (Permutation_in _ (Permutation_sym Hperm)); left; reflexivity).
          assert (Hxin : In x (y :: b)) by (apply (Permutation_in _ Hperm); left; reflexivity).
          destruct Hyin as [Hyin|Hyin]; [congruence|].
          destruct Hxin as [Hxin|Hxin]; [congruence|].
          rewrite Forall_forall in Hxa, Hyb.
          specialize (Hxa y Hyin). specialize (Hyb x Hxin). unfold ge_key in *.
          apply Hinj; [left; reflexivity | right; exact Hyin | lia]. }
        subst y. f_equal. apply IH; try assumption.
        * apply Permutation_cons_inv in Hperm. exact Hperm.
        * intros p q Hp Hq. apply Hinj; right; assumption.
  Qed.

  (* Whatever (correct) sorting procedure the implementation uses, its result is the model's. *)
  Lemma sort_unique : forall l s,
    Permutation l s -> StronglySorted ge_key s -> inj_on l -> s = sort_peers key l.
  Proof.
    intros l s Hperm Hs Hinj. symmetry. apply sorted_perm_unique.
    - apply sort_sorted.
    - exact Hs.
    - eapply Permutation_trans; [apply sort_perm | exact Hperm].
    - intros p q Hp Hq. apply Hinj; apply (Permutation_in _ (sort_perm l)); assumption.
  Qed.

  Lemma sort_perm_invariant : forall l l',
    inj_on l -> Permutation l l' -> sort_peers key l = sort_peers key l'.
  Proof.
    intros l l' Hinj Hperm. symmetry. apply sort_unique.
    - eapply Permutation_trans; [exact Hperm | apply Permutation_sym, sort_perm].
    - apply sort_sorted.
    - exact Hinj.
  Qed.

  Lemma coordinator_perm_invariant : forall l l',
    inj_on l -> Permutation l l' -> coordinator key l = coordinator key l'.
  Proof.
    intros l l' Hinj Hperm. unfold coordinator. rewrite (sort_perm_invariant l l' Hinj Hperm). reflexivity.
  Qed.

  Lemma NoDup_keys_inj_on : forall l, NoDup (map key l) -> inj_on l.
  Proof.
    induction l as [|x r IH]; intros Hnd p q Hp Hq Hk.
    - destruct Hp.
    - cbn [map] in Hnd. inversion Hnd as [|? ? Hx Hr]; subst.
      destruct Hp as [Hp|Hp]; destruct Hq as [Hq|Hq]; subst.
      + reflexivity.
      + exfalso. apply Hx. rewrite Hk. apply in_map. exact Hq.
      + exfalso. apply Hx. rewrite <- Hk. apply in_map. exact Hp.
      + apply IH; assumption.
  Qed.

  Lemma coordinator_perm_invariant_nodup : forall l l',
    NoDup (map key l) -> Permutation l l' -> coordinator key l = coordinator key l'.
  Proof. intros l l' H. apply coordinator_perm_invariant. apply NoDup_keys_inj_on. exact H. Qed.

  (* The coordinator is a candidate with the largest key. *)
  Lemma coordinator_is_max : forall l c,
    coordinator key l = Some c -> In c l /\ forall p, In p l -> (key p <= key c)%N.
  Proof.
    intros l c Hc. unfold coordinator in Hc.
    pose proof (sort_sorted l) as Hs. pose proof (sort_perm l) as Hp.
    destruct (sort_peers key l) as [|x r] eqn:Hsort; cbn [hd_error] in Hc; [discriminate|].
    inversion Hc; subst x. split.
    - apply (Permutation_in _ Hp). left. reflexivity.
    - intros p Hin. apply (Permutation_in _ (Permutation_sym Hp)) in Hin.
      inversion Hs as [|? ? Hr Hall]; subst. destruct Hin as [Hin|Hin].
      + subst. lia.
      + rewrite Forall_forall in Hall. apply Hall. exact Hin.
  Qed.

  Lemma coordinator_none : forall l, coordinator key l = None <-> l = [].
  Proof.
    intros l. unfold coordinator. pose proof (sort_perm l) as Hp. split.
    - intros H. destruct (sort_peers key l) eqn:E; [|discriminate].
      apply Permutation_nil in Hp. exact Hp.
    - intros ->. reflexivity.
  Qed.

  (* ------------------------------------------------------------------------------------------ *)

  Lemma take_until_all : forall n l cnt,
    (cnt + Z.of_nat (length l) = n)%Z -> take_until n cnt l = l.
  Proof.
    intros n. induction l as [|x r IH]; intros cnt Hlen; cbn [take_until].
    - reflexivity.
    - cbn [length] in Hlen. destruct (cnt + 1 =? n)%Z eqn:E.
      + destruct r; [reflexivity | cbn [length] in Hlen; lia].
      + f_equal. apply IH. lia.
  Qed.

  (* take_until is a prefix of at most n elements (n >= 1) - general shape, used for Params cases *)
  Lemma take_until_prefix : forall n l cnt, exists k, take_until n cnt l = firstn k l.
  Proof.
    intros n. induction l as [|x r IH]; intros cnt; cbn [take_until].
    - exists 0%nat. reflexivity.
    - destruct (cnt + 1 =? n)%Z.
      + exists 1%nat. reflexivity.
      + destruct (IH (cnt + 1)%Z) as [k Hk]. exists (S k). cbn [firstn]. rewrite Hk. reflexivity.
  Qed.

  Lemma start_params_when_ready : forall holders t ready,
    is_ready holders t ready = true ->
    start_params key holders t ready = sort_peers key (ready_participants holders ready).
  Proof.
    intros holders t ready Hr. unfold start_params, is_ready in *.
    apply take_until_all.
    rewrite (Permutation_length (sort_perm _)). lia.
  Qed.

  Lemma add_ready_inv : forall excluded ready f,
    NoDup ready -> (forall p, In p ready -> ~ In p excluded) ->
    NoDup (add_ready excluded ready f)
    /\ (forall p, In p (add_ready excluded ready f) -> ~ In p excluded)
    /\ (forall p, In p ready -> In p (add_ready excluded ready f))
    /\ (forall p, In p (add_ready excluded ready f) -> In p ready \/ p = f).
  Proof.
    intros excluded ready f Hnd Hex. unfold add_ready.
    destruct (memb f excluded) eqn:He; cbn [orb].
    - repeat split; auto.
    - destruct (memb f ready) eqn:Hr.
      + repeat split; auto.
      + apply memb_false_In in He. apply memb_false_In in Hr. repeat split.
        * apply NoDup_snoc; assumption.
        * intros p Hp. apply in_app_or in Hp. destruct Hp as [Hp|[Hp|[]]]; [auto | subst; exact He].
        * intros p Hp. apply in_or_app. left. exact Hp.
        * intros p Hp. apply in_app_or in Hp. destruct Hp as [Hp|[Hp|[]]]; auto.
  Qed.

  Definition subset_spec (holders : list peer) (t : Z) (excluded : list peer) (self : peer)
             (senders S : list peer) : Prop :=
    Z.of_nat (length S) = (t + 1)%Z /\ NoDup S /\ (forall p, In p S -> In p holders)
    /\ (forall p, In p S -> p = self \/ In p senders) /\ In self S
    /\ (forall p, In p S -> ~ In p excluded).

  Lemma initiate_announced_gen : forall holders t excluded self msgs ready calls S pre,
    In self holders -> In self ready -> NoDup ready ->
    (forall p, In p ready -> ~ In p excluded) ->
    (forall p, In p ready -> p = self \/ In p pre) ->
    initiate key holders t excluded ready msgs = (calls, Some S) ->
    subset_spec holders t excluded self (pre ++ msgs) S.
  Proof.
    intros holders t excluded self. induction msgs as [|f r IH];
      intros ready calls S pre Hsh Hsr Hnd Hex Hfrom Hinit; cbn [initiate] in Hinit.
    - discriminate.
    - destruct (add_ready_inv excluded ready f Hnd Hex) as [Hnd' [Hex' [Hmono Hnew]]].
      set (ready' := add_ready excluded ready f) in *.
      destruct (is_ready holders t ready') eqn:Hr.
      + inversion Hinit; subst calls S. clear Hinit.
        rewrite (start_params_when_ready _ _ _ Hr).
        pose proof (sort_perm (ready_participants holders ready')) as Hp.
        assert (HinS : forall p, In p (sort_peers key (ready_participants holders ready'))
                                 <-> In p ready' /\ In p holders).
        { intros p. split.
          - intros Hin. apply (Permutation_in _ Hp) in Hin. unfold ready_participants in Hin.
            apply filter_In in Hin. destruct Hin as [H1 H2]. apply memb_In in H2. auto.
          - intros [H1 H2]. apply (Permutation_in _ (Permutation_sym Hp)).
            unfold ready_participants. apply filter_In. split; [exact H1 | apply memb_In; exact H2]. }
        unfold subset_spec. repeat split.
        * unfold is_ready in Hr. rewrite (Permutation_length Hp). lia.
        * apply (Permutation_NoDup (Permutation_sym Hp)). unfold ready_participants.
          apply NoDup_filter. exact Hnd'.
        * intros p Hin. apply HinS in Hin. tauto.
        * intros p Hin. apply HinS in Hin. destruct Hin as [Hin _]. apply Hnew in Hin.
          destruct Hin as [Hin| ->].
          -- apply Hfrom in Hin. destruct Hin as [Hin|Hin]; [left; exact Hin | right; apply in_or_app; left; exact Hin].
          -- right. apply in_or_app. right. left. reflexivity.
        * apply HinS. split; [apply Hmono; exact Hsr | exact Hsh].
        * intros p Hin. apply HinS in Hin. apply Hex'. tauto.
      + destruct (initiate key holders t excluded ready' r) as [cs a] eqn:Hrec.
        inversion Hinit; subst calls a. clear Hinit.
        specialize (IH ready' cs S (pre ++ [f]) Hsh (Hmono _ Hsr) Hnd' Hex').
        rewrite <- app_assoc in IH. cbn [app] in IH. apply IH; [|exact Hrec].
        intros p Hin. apply Hnew in Hin. destruct Hin as [Hin| ->].
        * apply Hfrom in Hin. destruct Hin as [Hin|Hin]; [left; exact Hin | right; apply in_or_app; left; exact Hin].
        * right. apply in_or_app. right. left. reflexivity.
  Qed.

  Lemma announced_subset_spec : forall holders t excluded self msgs calls S,
    In self holders -> ~ In self excluded ->
    initiate key holders t excluded [self] msgs = (calls, Some S) ->
    subset_spec holders t excluded self msgs S.
  Proof.
    intros holders t excluded self msgs calls S Hsh Hse Hinit.
    apply (initiate_announced_gen holders t excluded self msgs [self] calls S [] Hsh); try exact Hinit.
    - left. reflexivity.
    - constructor; [intros [] | constructor].
    - intros p [<-|[]]. exact Hse.
    - intros p [<-|[]]. left. reflexivity.
  Qed.

  Lemma subset_ok_iff : forall holders t excluded self senders S,
    subset_ok holders t excluded self senders S = true <-> subset_spec holders t excluded self senders S.
  Proof.
    intros. unfold subset_ok, subset_spec.
    repeat rewrite andb_true_iff. rewrite Z.eqb_eq, nodupb_NoDup, memb_In.
    repeat rewrite forallb_forall.
    split.
    - intros [[[[[H1 H2] H3] H4] H5] H6]. repeat split; try assumption.
      + intros p Hp. apply memb_In. apply H3. exact Hp.
      + intros p Hp. specialize (H4 p Hp). apply orb_true_iff in H4. destruct H4 as [H4|H4].
        * left. apply N.eqb_eq. exact H4.
        * right. apply memb_In. exact H4.
      + intros p Hp. specialize (H6 p Hp). apply negb_true_iff in H6. apply memb_false_In. exact H6.
    - intros [H1 [H2 [H3 [H4 [H5 H6]]]]]. repeat split; try assumption.
      + intros p Hp. apply memb_In. apply H3. exact Hp.
      + intros p Hp. apply orb_true_iff. destruct (H4 p Hp) as [->|Hin].
        * left. apply N.eqb_refl.
        * right. apply memb_In. exact Hin.
      + intros p Hp. apply negb_true_iff. apply memb_false_In. apply H6. exact Hp.
  Qed.

  Lemma announced_subset_ok : forall holders t excluded self msgs calls S,
    In self holders -> ~ In self excluded ->
    initiate key holders t excluded [self] msgs = (calls, Some S) ->
    subset_ok holders t excluded self msgs S = true.
  Proof.
    intros. apply subset_ok_iff. eapply announced_subset_spec; eassumption.
  Qed.
End Election.

(* ---------------------------------------------------------------------------------------------- *)
(* Only the coordinator's messages move a relayer. *)

Lemma wait_step_foreign : forall c st m,
  from_is c m = false -> wait_step (Some c) st m = (st, []).
Proof.
  intros c st m Hf. unfold from_is in Hf.
  destruct st; destruct m as [f|f ps|f]; cbn [wait_step msg_from from_ok fail_ok] in *;
    try rewrite Hf; reflexivity.
Qed.

Lemma only_coordinator_moves : forall c msgs st,
  run_wait (Some c) st msgs = run_wait (Some c) st (filter (from_is c) msgs).
Proof.
  intros c. induction msgs as [|m r IH]; intros st; cbn [run_wait filter].
  - reflexivity.
  - destruct (from_is c m) eqn:Hf.
    + cbn [run_wait]. destruct (wait_step (Some c) st m) as [st' o]. rewrite IH. reflexivity.
    + rewrite (wait_step_foreign c st m Hf). rewrite IH.
      destruct (run_wait (Some c) st (filter (from_is c) r)). reflexivity.
Qed.

Corollary forged_only_nothing : forall c msgs st,
  (forall m, In m msgs -> from_is c m = false) -> run_wait (Some c) st msgs = (st, []).
Proof.
  intros c msgs st Hall. rewrite only_coordinator_moves.
  replace (filter (from_is c) msgs) with (@nil wmsg); [reflexivity|].
  symmetry. induction msgs as [|m r IH]; cbn [filter]; [reflexivity|].
  rewrite (Hall m (or_introl eq_refl)). apply IH. intros m' Hm'. apply Hall. right. exact Hm'.
Qed.

(* Prop-level reading of [caused] *)
Definition caused_spec (c : peer) (msgs : list wmsg) (o : wout) : Prop :=
  match o with
  | OReady p => p = c /\ In (MInitiate c) msgs
  | ORun l => In (MStart c (Some l)) msgs
  | OBadStart => In (MStart c None) msgs
  | OAbort => In (MFail c) msgs
  end.

Lemma caused_sound : forall c msgs o, caused c msgs o = true -> caused_spec c msgs o.
Proof.
  intros c msgs o H. destruct o as [p|l| |]; cbn [caused caused_spec] in *.
  - apply andb_true_iff in H. destruct H as [Hp Hex]. apply N.eqb_eq in Hp. split; [exact Hp|].
    apply existsb_exists in Hex. destruct Hex as [m [Hin Hm]]. destruct m; try discriminate.
    apply N.eqb_eq in Hm. subst. exact Hin.
  - apply existsb_exists in H. destruct H as [m [Hin Hm]]. destruct m as [|f [l'|]|]; try discriminate.
    apply andb_true_iff in Hm. destruct Hm as [Hf Hl]. apply N.eqb_eq in Hf. apply list_peer_eqb_eq in Hl.
    subst. exact Hin.
  - apply existsb_exists in H. destruct H as [m [Hin Hm]]. destruct m as [|f [l'|]|]; try discriminate.
    apply N.eqb_eq in Hm. subst. exact Hin.
  - apply existsb_exists in H. destruct H as [m [Hin Hm]]. destruct m; try discriminate.
    apply N.eqb_eq in Hm. subst. exact Hin.
Qed.

Lemma caused_complete : forall c msgs o, caused_spec c msgs o -> caused c msgs o = true.
Proof.
  intros c msgs o H. destruct o as [p|l| |]; cbn [caused caused_spec] in *.
  - destruct H as [-> Hin]. rewrite N.eqb_refl. cbn [andb]. apply existsb_exists.
    exists (MInitiate c). split; [exact Hin | apply N.eqb_refl].
  - apply existsb_exists. exists (MStart c (Some l)). split; [exact H|].
    rewrite N.eqb_refl. cbn [andb]. apply list_peer_eqb_eq. reflexivity.
  - apply existsb_exists. exists (MStart c None). split; [exact H | apply N.eqb_refl].
  - apply existsb_exists. exists (MFail c). split; [exact H | apply N.eqb_refl].
Qed.

Lemma caused_spec_cons : forall c m msgs o, caused_spec c msgs o -> caused_spec c (m :: msgs) o.
Proof.
  intros c m msgs o H. destruct o; cbn [caused_spec] in *; try (right; exact H).
  destruct H as [Hp Hin]. split; [exact Hp | right; exact Hin].
Qed.

Lemma wait_step_caused : forall c st m st' o,
  wait_step (Some c) st m = (st', o) -> forall x, In x o -> caused_spec c [m] x.
Proof.
  intros c st m st' o Hstep x Hx.
  destruct st; destruct m as [f|f ps|f]; cbn [wait_step from_ok fail_ok] in Hstep;
    try (inversion Hstep; subst; destruct Hx; fail).
  - destruct (N.eqb f c) eqn:E; inversion Hstep; subst; [|destruct Hx].
    apply N.eqb_eq in E. subst. destruct Hx as [<-|[]]. cbn. split; [reflexivity | left; reflexivity].
  - destruct (N.eqb f c) eqn:E; [|inversion Hstep; subst; destruct Hx].
    apply N.eqb_eq in E. subst. destruct ps as [l|]; inversion Hstep; subst; destruct Hx as [<-|[]]; cbn; left; reflexivity.
  - destruct (N.eqb f c) eqn:E; inversion Hstep; subst; [|destruct Hx].
    apply N.eqb_eq in E. subst. destruct Hx as [<-|[]]. cbn. left. reflexivity.
  - destruct (N.eqb f c) eqn:E; inversion Hstep; subst; [|destruct Hx].
    apply N.eqb_eq in E. subst. destruct Hx as [<-|[]]. cbn. left. reflexivity.
Qed.

Lemma caused_spec_weaken : forall c m msgs o, caused_spec c [m] o -> caused_spec c (m :: msgs) o.
Proof.
  intros c m msgs o H. destruct o; cbn [caused_spec] in *.
  - destruct H as [Hp [Hin|[]]]. split; [exact Hp | left; exact Hin].
  - destruct H as [H|[]]. left; exact H.
  - destruct H as [H|[]]. left; exact H.
  - destruct H as [H|[]]. left; exact H.
Qed.

Lemma run_wait_caused : forall c msgs st st' outs,
  run_wait (Some c) st msgs = (st', outs) -> forall x, In x outs -> caused_spec c msgs x.
Proof.
  intros c. induction msgs as [|m r IH]; intros st st' outs Hrun x Hx; cbn [run_wait] in Hrun.
  - inversion Hrun; subst. destruct Hx.
  - destruct (wait_step (Some c) st m) as [st1 o] eqn:Hstep.
    destruct (run_wait (Some c) st1 r) as [st2 o'] eqn:Hrec.
    inversion Hrun; subst. apply in_app_or in Hx. destruct Hx as [Hx|Hx].
    + apply caused_spec_weaken. eapply wait_step_caused; eassumption.
    + apply caused_spec_cons. eapply IH; eassumption.
Qed.

Lemma count_ready_app : forall a b, count_ready (a ++ b) = (count_ready a + count_ready b)%nat.
Proof. intros. unfold count_ready. rewrite filter_app, app_length. reflexivity. Qed.
Lemma count_runs_app : forall a b, count_runs (a ++ b) = (count_runs a + count_runs b)%nat.
Proof. intros. unfold count_runs. rewrite filter_app, app_length. reflexivity. Qed.

Lemma run_wait_counts : forall c msgs st st' outs,
  run_wait (Some c) st msgs = (st', outs) ->
  (count_ready outs <= count_initiates c msgs)%nat
  /\ (count_runs outs <= match st with Waiting => 1 | _ => 0 end)%nat.
Proof.
  intros c. induction msgs as [|m r IH]; intros st st' outs Hrun; cbn [run_wait] in Hrun.
  - injection Hrun as Hs Ho. subst outs. cbn. split; [lia | destruct st; lia].
  - destruct (wait_step (Some c) st m) as [st1 o] eqn:Hstep.
    destruct (run_wait (Some c) st1 r) as [st2 o'] eqn:Hrec.
    injection Hrun as Hs Ho. subst outs. specialize (IH _ _ _ Hrec). destruct IH as [IH1 IH2].
    rewrite count_ready_app, count_runs_app.
    unfold count_initiates in *. cbn [filter].
    destruct st; destruct m as [f|f ps|f]; cbn [wait_step from_ok fail_ok] in Hstep;
      try (destruct (N.eqb f c) eqn:E); try (destruct ps);
      inversion Hstep; subst; cbn [count_ready count_runs filter length Nat.add] in *;
      try rewrite E; cbn [length]; split; lia.
Qed.

Lemma outs_justified_model : forall c msgs,
  outs_justified c msgs (snd (run_wait (Some c) Waiting msgs)) = true.
Proof.
  intros c msgs. destruct (run_wait (Some c) Waiting msgs) as [st' outs] eqn:Hrun. cbn [snd].
  unfold outs_justified. repeat rewrite andb_true_iff. repeat split.
  - apply forallb_forall. intros x Hx. apply caused_complete. eapply run_wait_caused; eassumption.
  - apply Nat.leb_le. apply (run_wait_counts _ _ _ _ _ Hrun).
  - apply Nat.leb_le. apply (run_wait_counts _ _ _ _ _ Hrun).
Qed.

Lemma outs_justified_sound : forall c msgs outs,
  outs_justified c msgs outs = true ->
  (forall o, In o outs -> caused_spec c msgs o)
  /\ (count_ready outs <= count_initiates c msgs)%nat /\ (count_runs outs <= 1)%nat.
Proof.
  intros c msgs outs H. unfold outs_justified in H. repeat rewrite andb_true_iff in H.
  destruct H as [[H1 H2] H3]. repeat split.
  - intros o Ho. apply caused_sound. rewrite forallb_forall in H1. apply H1. exact Ho.
  - apply Nat.leb_le. exact H2.
  - apply Nat.leb_le. exact H3.
Qed.

(* If every message comes from someone else, a justified observation is empty. *)
Lemma outs_justified_forged_only : forall c msgs outs,
  (forall m, In m msgs -> from_is c m = false) -> outs_justified c msgs outs = true -> outs = [].
Proof.
  intros c msgs outs Hall Hj. apply outs_justified_sound in Hj. destruct Hj as [Hc _].
  destruct outs as [|o r]; [reflexivity|]. exfalso.
  specialize (Hc o (or_introl eq_refl)).
  assert (Hno : forall m, In m msgs -> msg_from m <> c).
  { intros m Hm. specialize (Hall m Hm). unfold from_is in Hall. apply N.eqb_neq. exact Hall. }
  destruct o; cbn [caused_spec] in Hc.
  - destruct Hc as [_ Hin]. apply (Hno _ Hin). reflexivity.
  - apply (Hno _ Hc). reflexivity.
  - apply (Hno _ Hc). reflexivity.
  - apply (Hno _ Hc). reflexivity.
Qed.

(* ---------------------------------------------------------------------------------------------- *)
(* The retried attempt: the watcher is told [wc] (the empty id as coded), waitForStart the
   re-elected coordinator [c]. *)

Lemma wait_step2_same : forall c st m, wait_step2 c c st m = wait_step c st m.
Proof. intros c st m. destruct st; destruct m; reflexivity. Qed.

Lemma run_wait2_same : forall c msgs st, run_wait2 c c st msgs = run_wait c st msgs.
Proof.
  intros c. induction msgs as [|m r IH]; intros st; cbn [run_wait2 run_wait]; [reflexivity|].
  rewrite wait_step2_same. destruct (wait_step c st m) as [st' o]. rewrite IH. reflexivity.
Qed.

Definition watcher_told (wc : option peer) (c : peer) : Prop := wc = None \/ wc = Some c.

Lemma fail_ok_told : forall wc c f, watcher_told wc c -> fail_ok wc f = true -> f = c.
Proof.
  intros wc c f [-> | ->] H; cbn [fail_ok] in H; [discriminate | apply N.eqb_eq; exact H].
Qed.

Lemma wait_step2_foreign : forall wc c st m,
  watcher_told wc c -> from_is c m = false -> wait_step2 wc (Some c) st m = (st, []).
Proof.
  intros wc c st m Hwc Hf. unfold from_is in Hf.
  destruct st; destruct m as [f|f ps|f]; cbn [wait_step2 msg_from from_ok] in *;
    try rewrite Hf; try reflexivity.
  - destruct (fail_ok wc f) eqn:E; [|reflexivity].
    apply (fail_ok_told wc c f Hwc) in E. subst. rewrite N.eqb_refl in Hf. discriminate.
  - destruct (fail_ok wc f) eqn:E; [|reflexivity].
    apply (fail_ok_told wc c f Hwc) in E. subst. rewrite N.eqb_refl in Hf. discriminate.
Qed.

Lemma retry_only_coordinator_moves : forall wc c msgs st,
  watcher_told wc c ->
  run_wait2 wc (Some c) st msgs = run_wait2 wc (Some c) st (filter (from_is c) msgs).
Proof.
  intros wc c msgs st Hwc. revert st. induction msgs as [|m r IH]; intros st; cbn [run_wait2 filter].
  - reflexivity.
  - destruct (from_is c m) eqn:Hf.
    + cbn [run_wait2]. destruct (wait_step2 wc (Some c) st m) as [st' o]. rewrite IH. reflexivity.
    + rewrite (wait_step2_foreign wc c st m Hwc Hf). rewrite IH.
      destruct (run_wait2 wc (Some c) st (filter (from_is c) r)). reflexivity.
Qed.

Corollary retry_forged_only_nothing : forall wc c msgs st,
  watcher_told wc c ->
  (forall m, In m msgs -> from_is c m = false) -> run_wait2 wc (Some c) st msgs = (st, []).
Proof.
  intros wc c msgs st Hwc Hall. rewrite (retry_only_coordinator_moves wc c msgs st Hwc).
  replace (filter (from_is c) msgs) with (@nil wmsg); [reflexivity|].
  symmetry. induction msgs as [|m r IH]; cbn [filter]; [reflexivity|].
  rewrite (Hall m (or_introl eq_refl)). apply IH. intros m' Hm'. apply Hall. right. exact Hm'.
Qed.

(* as coded (empty id): no fail message at all ends the retried attempt *)
Lemma wait_step2_none_no_abort : forall c st m st' o,
  wait_step2 None c st m = (st', o) -> ~ In OAbort o.
Proof.
  intros c st m st' o H Hin.
  destruct st; destruct m as [f|f ps|f]; cbn [wait_step2 fail_ok] in H;
    try (destruct (from_ok c f)); try (destruct ps);
    inversion H; subst; cbn [In] in Hin; repeat (destruct Hin as [Hin|Hin]; try discriminate); exact Hin.
Qed.

Lemma retry_as_coded_never_aborts : forall c msgs st,
  ~ In OAbort (snd (run_wait2 None c st msgs)).
Proof.
  intros c. induction msgs as [|m r IH]; intros st; cbn [run_wait2].
  - cbn. tauto.
  - destruct (wait_step2 None c st m) as [st1 o] eqn:Hstep.
    specialize (IH st1). destruct (run_wait2 None c st1 r) as [st2 o']. cbn [snd] in *.
    intros Hin. apply in_app_or in Hin. destruct Hin as [Hin|Hin]; [|exact (IH Hin)].
    exact (wait_step2_none_no_abort _ _ _ _ _ Hstep Hin).
Qed.

Lemma wait_step2_caused : forall wc c st m st' o,
  watcher_told wc c ->
  wait_step2 wc (Some c) st m = (st', o) -> forall x, In x o -> caused_spec c [m] x.
Proof.
  intros wc c st m st' o Hwc Hstep x Hx.
  destruct st; destruct m as [f|f ps|f]; cbn [wait_step2 from_ok] in Hstep;
    try (inversion Hstep; subst; destruct Hx; fail).
  - destruct (N.eqb f c) eqn:E; inversion Hstep; subst; [|destruct Hx].
    apply N.eqb_eq in E. subst. destruct Hx as [<-|[]]. cbn. split; [reflexivity | left; reflexivity].
  - destruct (N.eqb f c) eqn:E; [|inversion Hstep; subst; destruct Hx].
    apply N.eqb_eq in E. subst. destruct ps as [l|]; inversion Hstep; subst; destruct Hx as [<-|[]]; cbn; left; reflexivity.
  - destruct (fail_ok wc f) eqn:E; inversion Hstep; subst; [|destruct Hx].
    apply (fail_ok_told wc c f Hwc) in E. subst. destruct Hx as [<-|[]]. cbn. left. reflexivity.
  - destruct (fail_ok wc f) eqn:E; inversion Hstep; subst; [|destruct Hx].
    apply (fail_ok_told wc c f Hwc) in E. subst. destruct Hx as [<-|[]]. cbn. left. reflexivity.
Qed.

Lemma run_wait2_caused : forall wc c msgs st st' outs,
  watcher_told wc c ->
  run_wait2 wc (Some c) st msgs = (st', outs) -> forall x, In x outs -> caused_spec c msgs x.
Proof.
  intros wc c msgs st st' outs Hwc. revert st st' outs.
  induction msgs as [|m r IH]; intros st st' outs Hrun x Hx; cbn [run_wait2] in Hrun.
  - inversion Hrun; subst. destruct Hx.
  - destruct (wait_step2 wc (Some c) st m) as [st1 o] eqn:Hstep.
    destruct (run_wait2 wc (Some c) st1 r) as [st2 o'] eqn:Hrec.
    inversion Hrun; subst. apply in_app_or in Hx. destruct Hx as [Hx|Hx].
    + apply caused_spec_weaken. eapply wait_step2_caused; eassumption.
    + apply caused_spec_cons. eapply IH; eassumption.
Qed.

Lemma run_wait2_counts : forall wc c msgs st st' outs,
  run_wait2 wc (Some c) st msgs = (st', outs) ->
  (count_ready outs <= count_initiates c msgs)%nat
  /\ (count_runs outs <= match st with Waiting => 1 | _ => 0 end)%nat.
Proof.
  intros wc c. induction msgs as [|m r IH]; intros st st' outs Hrun; cbn [run_wait2] in Hrun.
  - injection Hrun as Hs Ho. subst outs. cbn. split; [lia | destruct st; lia].
  - destruct (wait_step2 wc (Some c) st m) as [st1 o] eqn:Hstep.
    destruct (run_wait2 wc (Some c) st1 r) as [st2 o'] eqn:Hrec.
    injection Hrun as Hs Ho. subst outs. specialize (IH _ _ _ Hrec). destruct IH as [IH1 IH2].
    rewrite count_ready_app, count_runs_app.
    unfold count_initiates in *. cbn [filter].
    destruct st; destruct m as [f|f ps|f]; cbn [wait_step2 from_ok] in Hstep;
      try (destruct (N.eqb f c) eqn:E); try (destruct (fail_ok wc f)); try (destruct ps);
      inversion Hstep; subst; cbn [count_ready count_runs filter length Nat.add] in *;
      try rewrite E; cbn [length]; split; lia.
Qed.

Lemma outs_justified_retry_model : forall wc c msgs,
  watcher_told wc c ->
  outs_justified c msgs (snd (run_wait2 wc (Some c) Waiting msgs)) = true.
Proof.
  intros wc c msgs Hwc. destruct (run_wait2 wc (Some c) Waiting msgs) as [st' outs] eqn:Hrun. cbn [snd].
  unfold outs_justified. repeat rewrite andb_true_iff. repeat split.
  - apply forallb_forall. intros x Hx. apply caused_complete. eapply run_wait2_caused; eassumption.
  - apply Nat.leb_le. apply (run_wait2_counts _ _ _ _ _ _ Hrun).
  - apply Nat.leb_le. apply (run_wait2_counts _ _ _ _ _ _ Hrun).
Qed.

Lemma retry_wait_judge_model : forall c2 msgs, outs_justified c2 msgs (snd (retry_wait c2 msgs)) = true.
Proof. intros c2 msgs. unfold retry_wait. apply outs_justified_retry_model. left. reflexivity. Qed.

(* what the judge's acceptance means for fail messages: without a fail message of the attempt's
   coordinator the session was not aborted *)
Lemma outs_justified_no_foreign_abort : forall c msgs outs,
  outs_justified c msgs outs = true -> ~ In (MFail c) msgs -> ~ In OAbort outs.
Proof.
  intros c msgs outs Hj Hno Hin. apply outs_justified_sound in Hj. destruct Hj as [Hc _].
  specialize (Hc OAbort Hin). cbn [caused_spec] in Hc. exact (Hno Hc).
Qed.

(* the coordinator's side of the retried attempt *)
Lemma ev_fails_In : forall evs p, In p (ev_fails evs) <-> In (false, p) evs.
Proof.
  induction evs as [|[b q] r IH]; intros p; cbn [ev_fails flat_map fst snd]; [tauto|].
  fold (ev_fails r). destruct b; cbn [app In].
  - rewrite IH. split; [intros H; right; exact H | intros [H|H]; [discriminate | exact H]].
  - rewrite IH. split; intros [H|H]; auto; [left; subst; reflexivity | inversion H; left; reflexivity].
Qed.

Lemma ev_readies_In : forall evs p, In p (ev_readies evs) <-> In (true, p) evs.
Proof.
  induction evs as [|[b q] r IH]; intros p; cbn [ev_readies flat_map fst snd]; [tauto|].
  fold (ev_readies r). destruct b; cbn [app In].
  - rewrite IH. split; intros [H|H]; auto; [left; subst; reflexivity | inversion H; left; reflexivity].
  - rewrite IH. split; [intros H; right; exact H | intros [H|H]; [discriminate | exact H]].
Qed.

Lemma retry_coord_never_aborts : forall key holders t excluded self evs,
  snd (retry_coord key holders t excluded self evs) = false.
Proof.
  intros. unfold retry_coord. cbn [snd]. induction (ev_fails evs) as [|f r IH]; [reflexivity | exact IH].
Qed.

Lemma retry_coord_ok_model : forall key holders t excluded self evs,
  In self holders -> ~ In self excluded ->
  retry_coord_ok holders t excluded self evs
    (fst (retry_coord key holders t excluded self evs)) (snd (retry_coord key holders t excluded self evs)) = true.
Proof.
  intros key holders t excluded self evs Hh He. unfold retry_coord_ok.
  rewrite retry_coord_never_aborts. cbn [andb]. unfold retry_coord. cbn [fst].
  destruct (initiate key holders t excluded [self] (ev_readies evs)) as [calls ann] eqn:Hinit. cbn [snd].
  destruct ann as [sub|]; [|reflexivity].
  eapply announced_subset_ok; eassumption.
Qed.

Lemma retry_coord_ok_sound : forall holders t excluded self evs run aborted,
  retry_coord_ok holders t excluded self evs run aborted = true ->
  (aborted = true -> In (false, self) evs)
  /\ (forall S, run = Some S ->
        Z.of_nat (length S) = (t + 1)%Z /\ NoDup S /\ (forall p, In p S -> In p holders)
        /\ (forall p, In p S -> p = self \/ In (true, p) evs) /\ In self S
        /\ (forall p, In p S -> ~ In p excluded)).
Proof.
  intros holders t excluded self evs run aborted H. unfold retry_coord_ok in H.
  apply andb_true_iff in H. destruct H as [Ha Hr]. split.
  - intros ->. apply ev_fails_In. apply memb_In. exact Ha.
  - intros S ->. apply subset_ok_iff in Hr.
    destruct Hr as [H1 [H2 [H3 [H4 [H5 H6]]]]]. repeat split; try assumption.
    intros p Hp. destruct (H4 p Hp) as [->|Hin]; [left; reflexivity | right; apply ev_readies_In; exact Hin].
Qed.

(* ---------------------------------------------------------------------------------------------- *)
(* The waits with time: messages of other peers neither move the relayer nor keep it waiting. *)

Lemma rearm_foreign : forall c cto deadline st at_ m,
  from_is c m = false -> rearm (Some c) cto deadline st at_ m = deadline.
Proof.
  intros c cto deadline st at_ m Hf. unfold rearm, from_is in *.
  destruct st; destruct m as [f|f ps|f]; try reflexivity.
  cbn [msg_from] in Hf. cbn [from_ok]. rewrite Hf. reflexivity.
Qed.

(* once the ticker of the present state has fired, whatever arrives later finds the wait over *)
Lemma tw_run_expired : forall wc c cto tto horizon deadline st l,
  st <> Finished ->
  (forall x, In x l -> (fst (expiry deadline tto st) <= fst x)%N) ->
  (fst (expiry deadline tto st) < horizon)%N ->
  tw_run wc c cto tto horizon deadline st l = ([], snd (expiry deadline tto st)).
Proof.
  intros wc c cto tto horizon deadline st l Hst Hall Hh.
  destruct l as [|[at_ m] r]; cbn [tw_run].
  - destruct st; try congruence; destruct (expiry deadline tto _) as [e k]; cbn [fst snd] in *;
      (assert (Hlt : (e <? horizon)%N = true) by (apply N.ltb_lt; exact Hh)); rewrite Hlt; reflexivity.
  - specialize (Hall (at_, m) (or_introl eq_refl)). cbn [fst] in Hall.
    destruct st; try congruence; destruct (expiry deadline tto _) as [e k]; cbn [fst snd] in *;
      (assert (Hle : (e <=? at_)%N = true) by (apply N.leb_le; exact Hall)); rewrite Hle; reflexivity.
Qed.

Lemma sorted_times_cons : forall x r, sorted_times (x :: r) = true ->
  (forall y, In y r -> (fst x <= fst y)%N) /\ sorted_times r = true.
Proof.
  intros x r H. cbn [sorted_times] in H. apply andb_true_iff in H. destruct H as [Ha Hs]. split; [|exact Hs].
  intros y Hy. rewrite forallb_forall in Ha. apply N.leb_le. exact (Ha y Hy).
Qed.

Lemma timed_only_coordinator_moves : forall wc c cto tto horizon msgs deadline st,
  watcher_told wc c ->
  sorted_times msgs = true -> in_horizon horizon msgs = true ->
  tw_run wc (Some c) cto tto horizon deadline st msgs
  = tw_run wc (Some c) cto tto horizon deadline st (own_msgs c msgs).
Proof.
  intros wc c cto tto horizon msgs deadline st Hwc. revert deadline st.
  induction msgs as [|[at_ m] r IH]; intros deadline st Hs Hh; [reflexivity|].
  apply sorted_times_cons in Hs. destruct Hs as [Hle Hs].
  cbn [in_horizon forallb fst] in Hh. apply andb_true_iff in Hh. destruct Hh as [Hat Hh].
  fold (in_horizon horizon r) in Hh. apply N.ltb_lt in Hat.
  unfold own_msgs. cbn [filter snd]. fold (own_msgs c r).
  destruct (from_is c m) eqn:Hf.
  - (* the coordinator's own message: both sides take the same step *)
    cbn [tw_run]. destruct st; try reflexivity;
      destruct (expiry deadline tto _) as [e k]; destruct (e <=? at_)%N; try reflexivity;
      destruct (wait_step2 wc (Some c) _ m) as [st' o]; rewrite (IH _ st' Hs Hh); reflexivity.
  - (* a message of another peer *)
    destruct st.
    + (* Waiting *)
      cbn [tw_run]. destruct (expiry deadline tto Waiting) as [e k] eqn:He.
      destruct (e <=? at_)%N eqn:Hexp.
      * apply N.leb_le in Hexp. symmetry.
        pose proof (tw_run_expired wc (Some c) cto tto horizon deadline Waiting (own_msgs c r)) as Hx.
        rewrite He in Hx. cbn [fst snd] in Hx. apply Hx; [discriminate | | lia].
        intros x Hin. unfold own_msgs in Hin. apply filter_In in Hin. destruct Hin as [Hin _].
        specialize (Hle x Hin). cbn [fst] in Hle. lia.
      * rewrite (wait_step2_foreign wc c Waiting m Hwc Hf). rewrite (rearm_foreign c cto deadline Waiting at_ m Hf).
        rewrite (IH deadline Waiting Hs Hh).
        destruct (tw_run wc (Some c) cto tto horizon deadline Waiting (own_msgs c r)). reflexivity.
    + (* Running *)
      cbn [tw_run]. destruct (expiry deadline tto Running) as [e k] eqn:He.
      destruct (e <=? at_)%N eqn:Hexp.
      * apply N.leb_le in Hexp. symmetry.
        pose proof (tw_run_expired wc (Some c) cto tto horizon deadline Running (own_msgs c r)) as Hx.
        rewrite He in Hx. cbn [fst snd] in Hx. apply Hx; [discriminate | | lia].
        intros x Hin. unfold own_msgs in Hin. apply filter_In in Hin. destruct Hin as [Hin _].
        specialize (Hle x Hin). cbn [fst] in Hle. lia.
      * rewrite (wait_step2_foreign wc c Running m Hwc Hf). rewrite (rearm_foreign c cto deadline Running at_ m Hf).
        rewrite (IH deadline Running Hs Hh).
        destruct (tw_run wc (Some c) cto tto horizon deadline Running (own_msgs c r)). reflexivity.
    + (* Finished *)
      cbn [tw_run]. destruct (own_msgs c r) as [|[a' m'] r']; reflexivity.
Qed.

Lemma own_msgs_none : forall c msgs,
  (forall x, In x msgs -> from_is c (snd x) = false) -> own_msgs c msgs = [].
Proof.
  intros c. induction msgs as [|x r IH]; intros H; [reflexivity|].
  unfold own_msgs. cbn [filter]. rewrite (H x (or_introl eq_refl)). apply IH. intros y Hy. apply H. right. exact Hy.
Qed.

(* only messages of other peers: nothing is done, and the wait ends exactly as if nothing had arrived -
   by the coordinator-timeout ticker at its ORIGINAL deadline (or by the watcher's) *)
Corollary timed_forged_only : forall wc c cto tto horizon msgs deadline st,
  watcher_told wc c ->
  sorted_times msgs = true -> in_horizon horizon msgs = true ->
  (forall x, In x msgs -> from_is c (snd x) = false) ->
  tw_run wc (Some c) cto tto horizon deadline st msgs = tw_run wc (Some c) cto tto horizon deadline st [].
Proof.
  intros wc c cto tto horizon msgs deadline st Hwc Hs Hh Hall.
  rewrite (timed_only_coordinator_moves wc c cto tto horizon msgs deadline st Hwc Hs Hh).
  rewrite (own_msgs_none c msgs Hall). reflexivity.
Qed.

(* a silent coordinator in the middle of any traffic of other peers: CoordinatorError at the
   coordinator timeout, provided the relayer is watched that long *)
Corollary timed_silent_coordinator : forall c cto tto horizon msgs,
  sorted_times msgs = true -> in_horizon horizon msgs = true ->
  (forall x, In x msgs -> from_is c (snd x) = false) ->
  (cto < tto)%N -> (cto < horizon)%N ->
  timed_first c cto tto horizon msgs = ([], TCoordTimeout).
Proof.
  intros c cto tto horizon msgs Hs Hh Hall Ht Hz. unfold timed_first.
  rewrite (timed_forged_only (Some c) c cto tto horizon msgs cto Waiting (or_intror eq_refl) Hs Hh Hall).
  cbn [tw_run expiry]. apply N.ltb_lt in Ht. rewrite Ht. apply N.ltb_lt in Hz. rewrite Hz. reflexivity.
Qed.

Lemma caused_spec_app_l : forall c a b o, caused_spec c a o -> caused_spec c (a ++ b) o.
Proof.
  intros c a b o H. destruct o; cbn [caused_spec] in *; try (apply in_or_app; left; exact H).
  destruct H as [H1 H2]. split; [exact H1 | apply in_or_app; left; exact H2].
Qed.

Lemma tw_run_caused : forall wc c cto tto horizon msgs deadline st outs k,
  watcher_told wc c ->
  tw_run wc (Some c) cto tto horizon deadline st msgs = (outs, k) ->
  forall x, In x outs -> caused_spec c (map snd msgs) x.
Proof.
  intros wc c cto tto horizon msgs. induction msgs as [|[at_ m] r IH]; intros deadline st outs k Hwc Hrun x Hx.
  - cbn [tw_run] in Hrun. destruct st; try destruct (expiry deadline tto _) as [e k0];
      inversion Hrun; subst; destruct Hx.
  - cbn [tw_run] in Hrun. cbn [map snd].
    destruct st; try (inversion Hrun; subst; destruct Hx; fail).
    + destruct (expiry deadline tto Waiting) as [e k0]. destruct (e <=? at_)%N; [inversion Hrun; subst; destruct Hx|].
      destruct (wait_step2 wc (Some c) Waiting m) as [st1 o] eqn:Hstep.
      destruct (tw_run wc (Some c) cto tto horizon (rearm (Some c) cto deadline Waiting at_ m) st1 r) as [o' k'] eqn:Hrec.
      inversion Hrun; subst. apply in_app_or in Hx. destruct Hx as [Hx|Hx].
      * apply caused_spec_weaken. eapply wait_step2_caused; eassumption.
      * apply caused_spec_cons. eapply IH; eassumption.
    + destruct (expiry deadline tto Running) as [e k0]. destruct (e <=? at_)%N; [inversion Hrun; subst; destruct Hx|].
      destruct (wait_step2 wc (Some c) Running m) as [st1 o] eqn:Hstep.
      destruct (tw_run wc (Some c) cto tto horizon (rearm (Some c) cto deadline Running at_ m) st1 r) as [o' k'] eqn:Hrec.
      inversion Hrun; subst. apply in_app_or in Hx. destruct Hx as [Hx|Hx].
      * apply caused_spec_weaken. eapply wait_step2_caused; eassumption.
      * apply caused_spec_cons. eapply IH; eassumption.
Qed.

Lemma tw_run_counts : forall wc c cto tto horizon msgs deadline st outs k,
  tw_run wc (Some c) cto tto horizon deadline st msgs = (outs, k) ->
  (count_ready outs <= count_initiates c (map snd msgs))%nat
  /\ (count_runs outs <= match st with Waiting => 1 | _ => 0 end)%nat.
Proof.
  intros wc c cto tto horizon msgs. induction msgs as [|[at_ m] r IH]; intros deadline st outs k Hrun.
  - cbn [tw_run] in Hrun. destruct st; try destruct (expiry deadline tto _) as [e k0];
      inversion Hrun; subst; cbn; split; lia.
  - cbn [tw_run] in Hrun. cbn [map snd].
    assert (Hnil : outs = [] ->
              (count_ready outs <= count_initiates c (m :: map snd r))%nat
              /\ (count_runs outs <= match st with Waiting => 1 | _ => 0 end)%nat).
    { intros ->. cbn. split; [lia | destruct st; lia]. }
    destruct st; try (apply Hnil; inversion Hrun; reflexivity).
    + destruct (expiry deadline tto Waiting) as [e k0]. destruct (e <=? at_)%N; [apply Hnil; inversion Hrun; reflexivity|].
      destruct (wait_step2 wc (Some c) Waiting m) as [st1 o] eqn:Hstep.
      destruct (tw_run wc (Some c) cto tto horizon (rearm (Some c) cto deadline Waiting at_ m) st1 r) as [o' k'] eqn:Hrec.
      injection Hrun as Ho Hk. subst outs. specialize (IH _ _ _ _ Hrec). destruct IH as [IH1 IH2].
      rewrite count_ready_app, count_runs_app. unfold count_initiates in *. cbn [filter].
      destruct m as [f|f ps|f]; cbn [wait_step2 from_ok] in Hstep;
        try (destruct (N.eqb f c) eqn:E); try (destruct (fail_ok wc f)); try (destruct ps);
        inversion Hstep; subst; cbn [count_ready count_runs filter length Nat.add] in *;
        try rewrite E; cbn [length]; split; lia.
    + destruct (expiry deadline tto Running) as [e k0]. destruct (e <=? at_)%N; [apply Hnil; inversion Hrun; reflexivity|].
      destruct (wait_step2 wc (Some c) Running m) as [st1 o] eqn:Hstep.
      destruct (tw_run wc (Some c) cto tto horizon (rearm (Some c) cto deadline Running at_ m) st1 r) as [o' k'] eqn:Hrec.
      injection Hrun as Ho Hk. subst outs. specialize (IH _ _ _ _ Hrec). destruct IH as [IH1 IH2].
      rewrite count_ready_app, count_runs_app. unfold count_initiates in *. cbn [filter].
      destruct m as [f|f ps|f]; cbn [wait_step2 from_ok] in Hstep;
        try (destruct (N.eqb f c) eqn:E); try (destruct (fail_ok wc f)); try (destruct ps);
        inversion Hstep; subst; cbn [count_ready count_runs filter length Nat.add] in *;
        try rewrite E; cbn [length]; split; lia.
Qed.

Lemma tw_run_justified : forall wc c cto tto horizon msgs deadline,
  watcher_told wc c ->
  outs_justified c (map snd msgs) (fst (tw_run wc (Some c) cto tto horizon deadline Waiting msgs)) = true.
Proof.
  intros wc c cto tto horizon msgs deadline Hwc.
  destruct (tw_run wc (Some c) cto tto horizon deadline Waiting msgs) as [outs k] eqn:Hrun. cbn [fst].
  unfold outs_justified. repeat rewrite andb_true_iff. repeat split.
  - apply forallb_forall. intros x Hx. apply caused_complete. eapply tw_run_caused; eassumption.
  - apply Nat.leb_le. apply (tw_run_counts _ _ _ _ _ _ _ _ _ _ Hrun).
  - apply Nat.leb_le. apply (tw_run_counts _ _ _ _ _ _ _ _ _ _ Hrun).
Qed.

Lemma wout_eqb_eq : forall a b, wout_eqb a b = true <-> a = b.
Proof.
  intros a b. destruct a, b; cbn [wout_eqb]; split; intros H; try discriminate; try reflexivity.
  - apply N.eqb_eq in H. subst. reflexivity.
  - inversion H; subst. apply N.eqb_refl.
  - apply list_peer_eqb_eq in H. subst. reflexivity.
  - inversion H; subst. apply list_peer_eqb_eq. reflexivity.
Qed.

Lemma wouts_eqb_eq : forall a b, wouts_eqb a b = true <-> a = b.
Proof.
  induction a as [|x a IH]; destruct b as [|y b]; cbn [wouts_eqb]; split; intros H; try discriminate; try reflexivity.
  - apply andb_true_iff in H. destruct H as [H1 H2]. apply wout_eqb_eq in H1. apply IH in H2. subst. reflexivity.
  - inversion H; subst. apply andb_true_iff. split; [apply wout_eqb_eq | apply IH]; reflexivity.
Qed.

Lemma tobs_eqb_eq : forall a b, tobs_eqb a b = true <-> a = b.
Proof.
  intros [o k] [o' k']. unfold tobs_eqb. cbn [fst snd]. rewrite andb_true_iff, wouts_eqb_eq. split.
  - intros [-> H]. destruct k, k'; try discriminate; reflexivity.
  - intros H. inversion H; subst. split; [reflexivity | destruct k'; reflexivity].
Qed.

(* the judge of the timed cases accepts the model (first and retried attempt) for all timed streams *)
Lemma timed_ignored_model : forall wc c cto tto horizon msgs,
  watcher_told wc c ->
  timed_ignored c horizon msgs
    (tw_run wc (Some c) cto tto horizon cto Waiting msgs)
    (tw_run wc (Some c) cto tto horizon cto Waiting (own_msgs c msgs)) = true.
Proof.
  intros wc c cto tto horizon msgs Hwc. unfold timed_ignored.
  destruct (sorted_times msgs && in_horizon horizon msgs) eqn:Hwf; [|reflexivity].
  apply andb_true_iff in Hwf. destruct Hwf as [Hs Hh].
  apply andb_true_iff. split.
  - apply tobs_eqb_eq. apply timed_only_coordinator_moves; assumption.
  - apply tw_run_justified. exact Hwc.
Qed.

(* what the judge's acceptance means: the same actions and the same end - whether and by which ticker
   the wait timed out within the horizon - with and without the messages of other peers *)
Lemma timed_ignored_sound : forall c horizon msgs a b,
  timed_ignored c horizon msgs a b = true ->
  sorted_times msgs = true -> in_horizon horizon msgs = true ->
  a = b /\ (forall o, In o (fst a) -> caused_spec c (map snd msgs) o).
Proof.
  intros c horizon msgs a b H Hs Hh. unfold timed_ignored in H. rewrite Hs, Hh in H. cbn [andb] in H.
  apply andb_true_iff in H. destruct H as [He Hj]. split; [apply tobs_eqb_eq; exact He|].
  apply outs_justified_sound in Hj. destruct Hj as [Hc _]. exact Hc.
Qed.

(* ---------------------------------------------------------------------------------------------- *)
(* the role a relayer takes *)

Lemma role_iff_elected : forall c self,
  takes_coordinator_role c self = true <-> c = Some self.
Proof.
  intros [c|] self; cbn [takes_coordinator_role].
  - rewrite N.eqb_eq. split; [intros ->; reflexivity | intros H; inversion H; reflexivity].
  - split; discriminate.
Qed.

Lemma role_only_elected : forall c self p,
  c = Some p -> self <> p -> takes_coordinator_role c self = false.
Proof.
  intros c self p -> Hne. cbn [takes_coordinator_role].
  apply N.eqb_neq. intros H. apply Hne. symmetry. exact H.
Qed.

Lemma one_coordinator_role : forall (key : peer -> N) l l' p q,
  inj_on key l -> Permutation l l' ->
  takes_coordinator_role (coordinator key l) p = true ->
  takes_coordinator_role (coordinator key l') q = true -> p = q.
Proof.
  intros key l l' p q Hinj Hperm Hp Hq.
  apply role_iff_elected in Hp. apply role_iff_elected in Hq.
  rewrite (coordinator_perm_invariant key l l' Hinj Hperm) in Hp.
  rewrite Hp in Hq. inversion Hq. reflexivity.
Qed.

(* ---------------------------------------------------------------------------------------------- *)
(* several sessions on one relayer *)

Lemma of_session_app : forall (A : Type) s (a b : list (session * A)),
  of_session s (a ++ b) = of_session s a ++ of_session s b.
Proof.
  intros A s a b. unfold of_session. rewrite filter_app, map_app. reflexivity.
Qed.

Lemma of_session_tagged_same : forall (A : Type) (s : session) (o : list A),
  of_session s (map (pair s) o) = o.
Proof.
  intros A s o. unfold of_session. induction o as [|x r IH]; cbn [map filter fst]; [reflexivity|].
  rewrite N.eqb_refl. cbn [map snd]. f_equal. exact IH.
Qed.

Lemma of_session_tagged_other : forall (A : Type) (s s' : session) (o : list A),
  N.eqb s' s = false -> of_session s (map (pair s') o) = [].
Proof.
  intros A s s' o Hne. unfold of_session. induction o as [|x r IH]; cbn [map filter fst]; [reflexivity|].
  rewrite Hne. exact IH.
Qed.

(* PROJECTION: what the relayer does in session s, whatever else goes on in its other sessions and however
   the events of the sessions interleave, is what a relayer serving s alone does on s's own events *)
Lemma multi_projection2 : forall wcs cs script st s,
  of_session s (multi_run2 wcs cs st script) = snd (run_wait2 (wcs s) (cs s) (st s) (of_session s script)).
Proof.
  intros wcs cs. induction script as [|[s0 m] r IH]; intros st s.
  - reflexivity.
  - cbn [multi_run2]. destruct (wait_step2 (wcs s0) (cs s0) (st s0) m) as [st' o] eqn:Hstep.
    rewrite of_session_app. rewrite IH.
    destruct (N.eqb s0 s) eqn:Hs.
    + apply N.eqb_eq in Hs. subst s0.
      rewrite of_session_tagged_same.
      unfold of_session at 2. cbn [filter fst]. rewrite N.eqb_refl. cbn [map snd run_wait2].
      rewrite Hstep. unfold upd. rewrite N.eqb_refl.
      fold (of_session s r).
      destruct (run_wait2 (wcs s) (cs s) st' (of_session s r)) as [st'' o']. reflexivity.
    + rewrite (of_session_tagged_other _ s s0 o Hs). cbn [app].
      unfold of_session at 2. cbn [filter fst]. rewrite Hs. fold (of_session s r).
      unfold upd. rewrite N.eqb_sym in Hs. rewrite Hs. reflexivity.
Qed.

Lemma multi_projection : forall cs script st s,
  of_session s (multi_run cs st script) = snd (run_wait (cs s) (st s) (of_session s script)).
Proof.
  intros cs script st s. unfold multi_run. rewrite multi_projection2. rewrite run_wait2_same. reflexivity.
Qed.

Lemma of_session_own_events : forall cs script s,
  of_session s (own_events cs script)
  = match cs s with
    | Some c => filter (from_is c) (of_session s script)
    | None => of_session s script
    end.
Proof.
  intros cs script s. unfold own_events, of_session.
  induction script as [|[s0 m] r IH]; cbn [filter map fst snd].
  - destruct (cs s); reflexivity.
  - destruct (N.eqb s0 s) eqn:Hs.
    + apply N.eqb_eq in Hs. subst s0.
      destruct (cs s) as [c|] eqn:Hc.
      * destruct (from_is c m) eqn:Hf; cbn [filter map fst snd]; rewrite ?N.eqb_refl;
          cbn [filter map fst snd]; rewrite ?Hf; [f_equal|]; exact IH.
      * cbn [filter map fst snd]. rewrite N.eqb_refl. cbn [map snd]. f_equal. exact IH.
    + destruct (match cs s0 with Some c => from_is c m | None => true end);
        cbn [filter map fst snd]; rewrite ?Hs; exact IH.
Qed.

(* every watcher was told the coordinator of its session's attempt, or nothing *)
Definition watchers_told (wcs cs : session -> option peer) : Prop :=
  forall s c, cs s = Some c -> watcher_told (wcs s) c.

(* a session is moved by the messages of ITS OWN coordinator only: messages of any other peer - the
   coordinators of the relayer's other sessions included - change nothing in any session *)
Lemma multi_only_own_coordinator2 : forall wcs cs script st s,
  watchers_told wcs cs ->
  of_session s (multi_run2 wcs cs st script) = of_session s (multi_run2 wcs cs st (own_events cs script)).
Proof.
  intros wcs cs script st s Htold. rewrite !multi_projection2. rewrite of_session_own_events.
  destruct (cs s) as [c|] eqn:Hc; [|reflexivity].
  rewrite (retry_only_coordinator_moves (wcs s) c (of_session s script) (st s) (Htold s c Hc)). reflexivity.
Qed.

Lemma multi_only_own_coordinator : forall cs script st s,
  of_session s (multi_run cs st script) = of_session s (multi_run cs st (own_events cs script)).
Proof.
  intros cs script st s. unfold multi_run. apply multi_only_own_coordinator2.
  intros s' c Hc. right. exact Hc.
Qed.

Lemma multi_judge_model2 : forall wcs cs script s c,
  watchers_told wcs cs -> cs s = Some c ->
  outs_justified c (of_session s script) (of_session s (multi_run2 wcs cs all_waiting script)) = true.
Proof.
  intros wcs cs script s c Htold Hc. rewrite multi_projection2. rewrite Hc. unfold all_waiting.
  apply outs_justified_retry_model. apply Htold. exact Hc.
Qed.

Lemma multi_judge_model : forall cs script s c,
  cs s = Some c ->
  outs_justified c (of_session s script) (of_session s (multi_run cs all_waiting script)) = true.
Proof.
  intros cs script s c Hc. unfold multi_run. apply multi_judge_model2; [|exact Hc].
  intros s' c' Hc'. right. exact Hc'.
Qed.

(* a message for session s from the coordinator of ANOTHER session (or anybody else) does nothing *)
Lemma multi_foreign_event_nothing2 : forall wcs cs st s c m r,
  watchers_told wcs cs -> cs s = Some c -> from_is c m = false ->
  multi_run2 wcs cs st ((s, m) :: r) = multi_run2 wcs cs st r.
Proof.
  intros wcs cs st s c m r Htold Hc Hf. cbn [multi_run2]. rewrite Hc.
  rewrite (wait_step2_foreign (wcs s) c (st s) m (Htold s c Hc) Hf). cbn [map app].
  (* upd st s (st s) is st, pointwise; multi_run2 only ever applies the state *)
  assert (Hext : forall script st1 st2, (forall k, st1 k = st2 k) ->
                   multi_run2 wcs cs st1 script = multi_run2 wcs cs st2 script).
  { induction script as [|[s0 m0] r0 IH]; intros st1 st2 Heq; [reflexivity|].
    cbn [multi_run2]. rewrite (Heq s0). destruct (wait_step2 (wcs s0) (cs s0) (st2 s0) m0) as [st' o].
    f_equal. apply IH. intros k. unfold upd. destruct (N.eqb k s0); [reflexivity | apply Heq]. }
  apply Hext. intros k. unfold upd. destruct (N.eqb k s) eqn:Hk; [|reflexivity].
  apply N.eqb_eq in Hk. subst k. reflexivity.
Qed.

Lemma multi_foreign_event_nothing : forall cs st s c m r,
  cs s = Some c -> from_is c m = false ->
  multi_run cs st ((s, m) :: r) = multi_run cs st r.
Proof.
  intros cs st s c m r Hc Hf. unfold multi_run. apply (multi_foreign_event_nothing2 cs cs st s c m r); try assumption.
  intros s' c' Hc'. right. exact Hc'.
Qed.

(* as coded the watcher of a retried attempt is told nothing: no session in its retried attempt is ever
   aborted by a fail message *)
Lemma multi_retried_never_aborts : forall wcs cs script st s,
  wcs s = None -> ~ In OAbort (of_session s (multi_run2 wcs cs st script)).
Proof.
  intros wcs cs script st s Hw. rewrite multi_projection2. rewrite Hw. apply retry_as_coded_never_aborts.
Qed.
