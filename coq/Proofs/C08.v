(* C08 - proofs about the plain-Gallina part of the model (glue of this repository, list helpers,
   the boolean judges).  The field-level algebra is in Proofs/C08_Lagrange.v, its bridge to the
   executable reconstruct_Zq in Proofs/C08_Bridge.v. *)
From Coq Require Import List ZArith NArith Bool Lia Permutation Sorted.
Import ListNotations.
From SygmaV Require Import Model.C08.
Local Open Scope Z_scope.

(* ------------------------------------------------------------------------------------------------ *)
(* sublists *)

Lemma sublists_length : forall A (l : list A) k s, In s (sublists k l) -> length s = k.
Proof.
  intros A l; induction l as [|x r IH]; intros [|k] s Hin; cbn in Hin.
  - destruct Hin as [<-|[]]; reflexivity.
  - contradiction.
  - destruct Hin as [<-|[]]; reflexivity.
  - apply in_app_or in Hin; destruct Hin as [Hin|Hin]; [|eauto].
    apply in_map_iff in Hin; destruct Hin as [s' [<- Hs']]; cbn; f_equal; eauto.
Qed.

Lemma sublists_incl : forall A (l : list A) k s x, In s (sublists k l) -> In x s -> In x l.
Proof.
  intros A l; induction l as [|y r IH]; intros [|k] s x Hin Hx; cbn in Hin.
  - destruct Hin as [<-|[]]; contradiction.
  - contradiction.
  - destruct Hin as [<-|[]]; contradiction.
  - apply in_app_or in Hin; destruct Hin as [Hin|Hin]; [|right; eauto].
    apply in_map_iff in Hin; destruct Hin as [s' [<- Hs']].
    destruct Hx as [<-|Hx]; [left; reflexivity|right; eauto].
Qed.

Lemma sublists_map : forall A B (f : A -> B) (l : list A) k,
  sublists k (map f l) = map (map f) (sublists k l).
Proof.
  intros A B f l; induction l as [|x r IH]; intros [|k]; try reflexivity.
  cbn [sublists map]. rewrite map_app, !IH, !map_map. reflexivity.
Qed.

Lemma existsb_mod_incl : forall q i (s l : list Z),
  (forall x, In x s -> In x l) ->
  existsb (fun j => j mod q =? i mod q) s = true -> existsb (fun j => j mod q =? i mod q) l = true.
Proof.
  intros q i s l Hincl H. apply existsb_exists in H. destruct H as [x [Hx Hq]].
  apply existsb_exists. exists x; auto.
Qed.

Lemma sublists_distinct : forall q (l : list Z) k s,
  In s (sublists k l) -> distinct_mod q l = true -> distinct_mod q s = true.
Proof.
  intros q l; induction l as [|y r IH]; intros [|k] s Hin Hd; cbn in Hin.
  - destruct Hin as [<-|[]]; reflexivity.
  - contradiction.
  - destruct Hin as [<-|[]]; reflexivity.
  - cbn in Hd. apply andb_true_iff in Hd. destruct Hd as [Hy Hr].
    apply in_app_or in Hin; destruct Hin as [Hin|Hin]; [|eauto].
    apply in_map_iff in Hin; destruct Hin as [s' [<- Hs']].
    cbn. apply andb_true_iff; split; [|eauto].
    apply negb_true_iff. apply negb_true_iff in Hy.
    destruct (existsb (fun j => j mod q =? y mod q) s') eqn:E; [|reflexivity].
    rewrite (existsb_mod_incl q y s' r) in Hy; [discriminate| |exact E].
    intros x Hx. eapply sublists_incl; eauto.
Qed.

(* what the judge says, in Prop *)
Lemma shares_ok_spec : forall q t pts x,
  shares_ok q t pts x = true ->
  distinct_mod q (map fst pts) = true /\ (S t <= length pts)%nat /\
  forall s, In s (sublists (S t) pts) -> reconstruct_Zq q s = x.
Proof.
  intros q t pts x H. unfold shares_ok in H.
  apply andb_true_iff in H; destruct H as [H H3].
  apply andb_true_iff in H; destruct H as [H1 H2].
  split; [exact H1|]. split; [apply Nat.leb_le; exact H2|].
  intros s Hs. rewrite forallb_forall in H3. apply Z.eqb_eq. auto.
Qed.

(* ... in particular any two qualified subsets of the holders agree *)
Lemma shares_ok_agree : forall q t pts x s1 s2,
  shares_ok q t pts x = true -> In s1 (sublists (S t) pts) -> In s2 (sublists (S t) pts) ->
  reconstruct_Zq q s1 = reconstruct_Zq q s2.
Proof.
  intros q t pts x s1 s2 H H1 H2. apply shares_ok_spec in H. destruct H as [_ [_ H]].
  rewrite (H s1 H1), (H s2 H2). reflexivity.
Qed.

(* ------------------------------------------------------------------------------------------------ *)
(* release: only the coordinator's process puts the signature on the result channel *)

Lemma release_some : forall S (c : bool) (sig s : S), release c sig = Some s -> c = true /\ s = sig.
Proof. intros S c sig s H. destruct c; cbn in H; [inversion H; auto|discriminate]. Qed.

Lemma session_release_nth : forall S n coord (sig : S) i,
  (i < n)%nat ->
  nth i (session_release n coord sig) None = if Nat.eqb i coord then Some sig else None.
Proof.
  intros S n coord sig i Hi. unfold session_release.
  rewrite nth_indep with (d' := release (Nat.eqb n coord) sig) by (rewrite map_length, seq_length; exact Hi).
  rewrite (map_nth (fun i => release (Nat.eqb i coord) sig) (seq 0 n) n i).
  rewrite seq_nth by exact Hi. cbn. unfold release. reflexivity.
Qed.

Theorem ecdsa_only_coordinator_releases : forall S n coord (sig s : S) i,
  nth_error (session_release n coord sig) i = Some (Some s) -> i = coord /\ s = sig.
Proof.
  intros S n coord sig s i H.
  assert (Hi : (i < n)%nat).
  { assert (Hl : (i < length (session_release n coord sig))%nat) by (apply nth_error_Some; congruence).
    unfold session_release in Hl. rewrite map_length, seq_length in Hl. exact Hl. }
  apply nth_error_nth with (d := None) in H. rewrite session_release_nth in H by exact Hi.
  destruct (Nat.eqb_spec i coord); [|discriminate]. inversion H; auto.
Qed.

Theorem ecdsa_coordinator_does_release : forall S n coord (sig : S),
  (coord < n)%nat -> nth_error (session_release n coord sig) coord = Some (Some sig).
Proof.
  intros S n coord sig Hc.
  assert (Hl : (coord < length (session_release n coord sig))%nat)
    by (unfold session_release; rewrite map_length, seq_length; exact Hc).
  destruct (nth_error (session_release n coord sig) coord) eqn:E; [|apply nth_error_None in E; lia].
  apply nth_error_nth with (d := None) in E. rewrite session_release_nth in E by exact Hc.
  rewrite Nat.eqb_refl in E. congruence.
Qed.

(* ---- the result channel: a blocking send reaches the reader whenever it reads ------------------- *)

Lemma reader_receives_empty : forall (V : Type) (k : nat), @reader_receives V Empty k = [].
Proof. intros V k; induction k as [|k IH]; cbn; auto. Qed.

Theorem result_reaches_reader : forall (S : Type) (coordinator : bool) (sig : S) (cap n : nat),
  (1 <= n)%nat -> result_channel coordinator sig cap n = [release coordinator sig].
Proof.
  intros S c sig cap n Hn. destruct n as [|k]; [lia|].
  unfold result_channel, send_blocking. destruct (0 <? cap)%nat; cbn [reader_receives recv];
    rewrite reader_receives_empty; reflexivity.
Qed.

Theorem release_ok_model : forall (S : Type) (coordinator : bool) (sig : S) (cap n : nat),
  (1 <= n)%nat -> release_ok coordinator (got_sig (result_channel coordinator sig cap n)) = true.
Proof.
  intros S c sig cap n Hn. rewrite result_reaches_reader by exact Hn. destruct c; reflexivity.
Qed.

Theorem release_ok_sound : forall coordinator got, release_ok coordinator got = true -> (got = true <-> coordinator = true).
Proof. intros [] []; cbn; intuition congruence. Qed.

Theorem ecdsa_session_reader_gets : forall (S : Type) (coord : nat) (sig : S) (i cap n : nat),
  (1 <= n)%nat -> got_sig (result_channel (Nat.eqb i coord) sig cap n) = Nat.eqb i coord.
Proof.
  intros S coord sig i cap n Hn. rewrite result_reaches_reader by exact Hn.
  destruct (Nat.eqb i coord); reflexivity.
Qed.

(* the model tells a blocking send from one that gives up: on an unbuffered channel whose reader is
   not parked the latter loses the value, however often the reader receives afterwards *)
Theorem nonblocking_send_loses : forall (V : Type) (v : V) (n : nat),
  reader_receives (send_nonblocking 0 false v) n = [].
Proof. intros V v n. apply reader_receives_empty. Qed.

(* ---- FROST: a retried attempt signs with the same (once-tweaked) share --------------------------- *)

Theorem frost_retry_same_share : forall q neg share tweak k,
  frost_attempt_share q neg share tweak k = derive_share q neg share tweak.
Proof. reflexivity. Qed.

Theorem derive_in_run_differs :
  derive_in_run_share 7 false 3 2 1 <> frost_attempt_share 7 false 3 2 1.
Proof. vm_compute. discriminate. Qed.

(* the judge's view: [only_at] holds of a released-vector iff it is the coordinator's alone *)
Lemma only_at_spec : forall coord released i0,
  only_at coord i0 released = true ->
  forall k, (k < length released)%nat -> nth k released false = Nat.eqb (i0 + k) coord.
Proof.
  intros coord released; induction released as [|b r IH]; intros i0 H k Hk; cbn in Hk; [lia|].
  cbn in H. apply andb_true_iff in H. destruct H as [Hb Hr].
  destruct k as [|k]; cbn.
  - rewrite Nat.add_0_r. apply eqb_prop in Hb. exact Hb.
  - rewrite (IH (S i0) Hr k ltac:(lia)). f_equal. lia.
Qed.

Lemma only_at_model : forall n coord i0,
  only_at coord i0 (map (fun i => Nat.eqb i coord) (seq i0 n)) = true.
Proof.
  induction n as [|n IH]; intros coord i0; [reflexivity|].
  cbn. rewrite eqb_reflx. cbn. apply IH.
Qed.

(* ------------------------------------------------------------------------------------------------ *)
(* party keys: the key of a party is the big-endian value of its peer-id string; injective on
   strings without a leading NUL byte (base58 peer ids never have one) *)

Definition pk_step (acc : Z) (b : N) : Z := acc * 256 + Z.of_N b.

Lemma fold_pk_acc : forall l acc,
  fold_left pk_step l acc = acc * 256 ^ Z.of_nat (length l) + fold_left pk_step l 0.
Proof.
  induction l as [|b r IH]; intros acc.
  - cbn. lia.
  - cbn [fold_left length]. rewrite IH, (IH (pk_step 0 b)). unfold pk_step.
    rewrite Nat2Z.inj_succ, Z.pow_succ_r by lia. ring.
Qed.

Lemma party_key_cons : forall b r,
  party_key (b :: r) = Z.of_N b * 256 ^ Z.of_nat (length r) + party_key r.
Proof.
  intros b r. unfold party_key. fold pk_step. cbn [fold_left]. rewrite fold_pk_acc.
  unfold pk_step. f_equal.
Qed.

Lemma party_key_range : forall l,
  forallb (fun b => (b <? 256)%N) l = true -> 0 <= party_key l < 256 ^ Z.of_nat (length l).
Proof.
  induction l as [|b r IH]; intros H.
  - cbn. lia.
  - cbn in H. apply andb_true_iff in H. destruct H as [Hb Hr].
    apply N.ltb_lt in Hb. specialize (IH Hr).
    rewrite party_key_cons. cbn [length]. rewrite Nat2Z.inj_succ, Z.pow_succ_r by lia.
    assert (0 < 256 ^ Z.of_nat (length r)) by (apply Z.pow_pos_nonneg; lia).
    nia.
Qed.

Lemma party_key_inj_len : forall l1 l2,
  length l1 = length l2 ->
  forallb (fun b => (b <? 256)%N) l1 = true -> forallb (fun b => (b <? 256)%N) l2 = true ->
  party_key l1 = party_key l2 -> l1 = l2.
Proof.
  induction l1 as [|b1 r1 IH]; intros [|b2 r2] Hlen H1 H2 Hk; cbn in Hlen; try discriminate; [reflexivity|].
  cbn in H1, H2. apply andb_true_iff in H1. apply andb_true_iff in H2.
  destruct H1 as [Hb1 Hr1]. destruct H2 as [Hb2 Hr2].
  rewrite !party_key_cons in Hk. injection Hlen as Hlen. rewrite Hlen in Hk.
  pose proof (party_key_range r1 Hr1) as R1. pose proof (party_key_range r2 Hr2) as R2.
  rewrite Hlen in R1.
  assert (0 < 256 ^ Z.of_nat (length r2)) by (apply Z.pow_pos_nonneg; lia).
  assert (Z.of_N b1 = Z.of_N b2) by nia.
  assert (party_key r1 = party_key r2) by nia.
  f_equal; [lia|]. apply IH; auto.
Qed.

Lemma party_key_lower : forall l, wf_id l = true -> 256 ^ (Z.of_nat (length l) - 1) <= party_key l.
Proof.
  intros [|b r] H; unfold wf_id in H; apply andb_true_iff in H; destruct H as [Hall Hb]; [discriminate|].
  cbn in Hall. apply andb_true_iff in Hall. destruct Hall as [_ Hr].
  apply negb_true_iff, N.eqb_neq in Hb.
  rewrite party_key_cons. cbn [length]. rewrite Nat2Z.inj_succ.
  replace (Z.succ (Z.of_nat (length r)) - 1) with (Z.of_nat (length r)) by lia.
  pose proof (party_key_range r Hr).
  assert (0 < 256 ^ Z.of_nat (length r)) by (apply Z.pow_pos_nonneg; lia).
  assert (1 <= Z.of_N b) by lia. nia.
Qed.

Theorem party_key_inj : forall l1 l2,
  wf_id l1 = true -> wf_id l2 = true -> party_key l1 = party_key l2 -> l1 = l2.
Proof.
  intros l1 l2 W1 W2 Hk.
  assert (A1 : forallb (fun b => (b <? 256)%N) l1 = true)
    by (unfold wf_id in W1; apply andb_true_iff in W1; tauto).
  assert (A2 : forallb (fun b => (b <? 256)%N) l2 = true)
    by (unfold wf_id in W2; apply andb_true_iff in W2; tauto).
  pose proof (party_key_range l1 A1) as R1. pose proof (party_key_range l2 A2) as R2.
  pose proof (party_key_lower l1 W1) as L1. pose proof (party_key_lower l2 W2) as L2.
  assert (Hlen : length l1 = length l2).
  { destruct (Nat.lt_trichotomy (length l1) (length l2)) as [Hlt|[Heq|Hgt]]; [exfalso|exact Heq|exfalso].
    - assert (256 ^ Z.of_nat (length l1) <= 256 ^ (Z.of_nat (length l2) - 1))
        by (apply Z.pow_le_mono_r; lia). lia.
    - assert (256 ^ Z.of_nat (length l2) <= 256 ^ (Z.of_nat (length l1) - 1))
        by (apply Z.pow_le_mono_r; lia). lia. }
  apply party_key_inj_len; auto.
Qed.

(* ------------------------------------------------------------------------------------------------ *)
(* sort_keys = tss.SortPartyIDs on the keys *)

Lemma insert_key_perm : forall k l, Permutation (insert_key k l) (k :: l).
Proof.
  intros k l; induction l as [|h t IH]; cbn; [apply Permutation_refl|].
  destruct (k <=? h); [apply Permutation_refl|].
  eapply perm_trans; [apply perm_skip, IH|apply perm_swap].
Qed.

Theorem sort_keys_perm : forall l, Permutation (sort_keys l) l.
Proof.
  induction l as [|k l IH]; cbn; [constructor|].
  eapply perm_trans; [apply insert_key_perm|apply perm_skip, IH].
Qed.

Lemma insert_key_sorted : forall k l, Sorted Z.le l -> Sorted Z.le (insert_key k l).
Proof.
  intros k l; induction l as [|h t IH]; intros Hs; cbn.
  - repeat constructor.
  - destruct (Z.leb_spec k h).
    + constructor; [exact Hs|constructor; exact H].
    + inversion Hs as [|? ? Hst Hhd]; subst. constructor; [auto|].
      destruct t as [|h' t']; cbn.
      * constructor; lia.
      * destruct (Z.leb_spec k h'); constructor; try lia. inversion Hhd; subst; assumption.
Qed.

Theorem sort_keys_sorted : forall l, Sorted Z.le (sort_keys l).
Proof. induction l as [|k l IH]; cbn; [constructor|apply insert_key_sorted, IH]. Qed.

(* ------------------------------------------------------------------------------------------------ *)
(* sort_parties *)

Lemma memZ_In : forall k l, memZ k l = true <-> In k l.
Proof.
  intros k l. unfold memZ. rewrite existsb_exists. split.
  - intros [x [Hx He]]. apply Z.eqb_eq in He. subst; assumption.
  - intros H. exists k. split; [assumption|apply Z.eqb_refl].
Qed.

Lemma distinct_mod0_NoDup : forall l, distinct_mod 0 l = true -> NoDup l.
Proof.
  induction l as [|x r IH]; intros H; [constructor|].
  cbn in H. apply andb_true_iff in H. destruct H as [Hx Hr].
  constructor; [|auto].
  intros Hin. apply negb_true_iff in Hx.
  assert (existsb (fun j => j mod 0 =? x mod 0) r = true).
  { apply existsb_exists. exists x. split; [assumption|apply Z.eqb_refl]. }
  congruence.
Qed.

Lemma NoDup_app_disj : forall (a b : list Z),
  NoDup a -> NoDup b -> (forall x, In x a -> ~ In x b) -> NoDup (a ++ b).
Proof.
  induction a as [|x a IH]; intros b Ha Hb Hd; cbn; [exact Hb|].
  inversion Ha; subst. constructor.
  - rewrite in_app_iff. intros [H|H]; [contradiction|]. apply (Hd x); [left; reflexivity|exact H].
  - apply IH; auto. intros y Hy. apply Hd. right; exact Hy.
Qed.

Lemma sort_parties_perm_aux : forall parties old,
  wf_sort_parties parties old = true ->
  Permutation (old ++ filter (fun p => negb (memZ p old)) parties) parties.
Proof.
  intros parties old W. unfold wf_sort_parties in W.
  apply andb_true_iff in W. destruct W as [W Hdo].
  apply andb_true_iff in W. destruct W as [Hsub Hdp].
  apply distinct_mod0_NoDup in Hdo. apply distinct_mod0_NoDup in Hdp.
  rewrite forallb_forall in Hsub.
  apply NoDup_Permutation.
  - apply NoDup_app_disj; [exact Hdo|apply NoDup_filter; exact Hdp|].
    intros x Hx Hf. apply filter_In in Hf. destruct Hf as [_ Hf].
    apply memZ_In in Hx. rewrite Hx in Hf. discriminate.
  - exact Hdp.
  - intros x. rewrite in_app_iff, filter_In. split.
    + intros [Hx|[Hx _]]; [apply memZ_In, Hsub, Hx|exact Hx].
    + intros Hx. destruct (memZ x old) eqn:E; [left; apply memZ_In; exact E|right; split; [exact Hx|reflexivity]].
Qed.

Lemma firstn_app_exact : forall (a b : list Z), firstn (length a) (a ++ b) = a.
Proof. intros a b. rewrite firstn_app, Nat.sub_diag, firstn_all. cbn. apply app_nil_r. Qed.

(* resharing keeps the old indexes: with old a duplicate-free subset of the committee, the result is
   exactly old ++ (the new members in committee order); entry k has Index k, so every old party
   keeps the index it has in the old committee and new parties get the indexes after them. *)
Theorem sort_parties_ok_wf : forall parties old,
  wf_sort_parties parties old = true ->
  sort_parties parties old = SpOk (old ++ filter (fun p => negb (memZ p old)) parties).
Proof.
  intros parties old W.
  pose proof (sort_parties_perm_aux parties old W) as P.
  apply Permutation_length in P. rewrite app_length in P.
  unfold sort_parties.
  destruct (filter (fun p => negb (memZ p old)) parties) as [|x news] eqn:E.
  - cbn in P. rewrite Nat.add_0_r in P. rewrite P, Nat.ltb_irrefl, app_nil_r.
    rewrite <- P, firstn_all. reflexivity.
  - rewrite P, Nat.ltb_irrefl. reflexivity.
Qed.

Theorem sort_parties_perm : forall parties old l,
  wf_sort_parties parties old = true -> sort_parties parties old = SpOk l -> Permutation l parties.
Proof.
  intros parties old l W H. rewrite (sort_parties_ok_wf _ _ W) in H. inversion H; subst.
  apply sort_parties_perm_aux; exact W.
Qed.

Theorem sort_parties_old_prefix : forall parties old l,
  wf_sort_parties parties old = true -> sort_parties parties old = SpOk l ->
  firstn (length old) l = old /\
  (forall k o, nth_error old k = Some o -> nth_error l k = Some o).
Proof.
  intros parties old l W H. rewrite (sort_parties_ok_wf _ _ W) in H. inversion H; subst.
  split; [apply firstn_app_exact|].
  intros k o Hk. rewrite nth_error_app1; [exact Hk|]. apply nth_error_Some. congruence.
Qed.

Lemma list_eqb_eq : forall a b, list_eqb a b = true <-> a = b.
Proof.
  induction a as [|x a IH]; intros [|y b]; cbn; split; intros H; try discriminate; try reflexivity.
  - apply andb_true_iff in H. destruct H as [H1 H2]. apply Z.eqb_eq in H1. apply IH in H2. congruence.
  - inversion H; subst. rewrite Z.eqb_refl. cbn. apply IH. reflexivity.
Qed.

(* the judge accepts the model ... *)
Theorem sort_parties_ok_model : forall parties old,
  sort_parties_ok parties old (sort_parties parties old) = true.
Proof.
  intros parties old. unfold sort_parties_ok.
  destruct (wf_sort_parties parties old) eqn:W; [|reflexivity].
  rewrite (sort_parties_ok_wf _ _ W).
  pose proof (sort_parties_perm_aux parties old W) as P.
  rewrite firstn_app_exact.
  repeat (apply andb_true_iff; split).
  - apply list_eqb_eq. reflexivity.
  - apply Nat.eqb_eq. apply Permutation_length. exact P.
  - apply forallb_forall. intros x Hx. apply memZ_In. eapply Permutation_in; [apply Permutation_sym; exact P|exact Hx].
  - apply forallb_forall. intros x Hx. apply memZ_In. eapply Permutation_in; [exact P|exact Hx].
Qed.

(* ... and whatever it accepts keeps the old parties in place and rearranges the committee *)
Theorem sort_parties_ok_sound : forall parties old res,
  wf_sort_parties parties old = true -> sort_parties_ok parties old res = true ->
  exists l, res = SpOk l /\ firstn (length old) l = old /\ length l = length parties /\
            (forall p, In p parties <-> In p l).
Proof.
  intros parties old res W H. unfold sort_parties_ok in H. rewrite W in H.
  destruct res as [l| |]; try discriminate.
  apply andb_true_iff in H. destruct H as [H H4].
  apply andb_true_iff in H. destruct H as [H H3].
  apply andb_true_iff in H. destruct H as [H1 H2].
  exists l. split; [reflexivity|]. split; [apply list_eqb_eq; exact H1|].
  split; [apply Nat.eqb_eq; exact H2|].
  rewrite forallb_forall in H3, H4. intros p. split; intros Hp; apply memZ_In; auto.
Qed.

(* ------------------------------------------------------------------------------------------------ *)
(* validate_start_params *)

Lemma count_Z_insert : forall x k l, count_Z x (insert_key k l) = count_Z x (k :: l).
Proof.
  intros x k l. unfold count_Z. induction l as [|h t IH]; [reflexivity|].
  cbn [insert_key]. destruct (k <=? h); [reflexivity|].
  cbn [filter] in *. destruct (x =? h); destruct (x =? k); cbn [length] in *; lia.
Qed.

Lemma count_Z_sort : forall x l, count_Z x (sort_keys l) = count_Z x l.
Proof.
  intros x l; induction l as [|k l IH]; [reflexivity|].
  cbn [sort_keys fold_right]. fold (sort_keys l). rewrite count_Z_insert.
  unfold count_Z in *. cbn [filter]. destruct (x =? k); cbn [length]; lia.
Qed.

Lemma count_Z_filter : forall x f l,
  count_Z x (filter f l) = if f x then count_Z x l else 0%nat.
Proof.
  intros x f l. unfold count_Z. induction l as [|h t IH].
  - destruct (f x); reflexivity.
  - cbn [filter]. destruct (f h) eqn:Fh; cbn [filter]; destruct (Z.eqb_spec x h).
    + subst. rewrite Fh in *. cbn [length]. lia.
    + exact IH.
    + subst. rewrite Fh in *. exact IH.
    + exact IH.
Qed.

Lemma count_Z_pos_In : forall x l, (0 < count_Z x l)%nat <-> In x l.
Proof.
  intros x l. unfold count_Z. induction l as [|h t IH]; cbn; [split; [lia|tauto]|].
  destruct (Z.eqb_spec x h); cbn [length].
  - subst. split; [left; reflexivity|lia].
  - rewrite IH. split; [tauto|]. intros [H|H]; [congruence|exact H].
Qed.

Lemma sorted_filter : forall f l, Sorted Z.le l -> Sorted Z.le (filter f l).
Proof.
  intros f l Hs. apply Sorted_StronglySorted in Hs; [|intros a b c; apply Z.le_trans].
  apply StronglySorted_Sorted.
  induction Hs as [|h t Hs IH Hall]; cbn; [constructor|].
  destruct (f h); [|exact IH].
  constructor; [exact IH|].
  rewrite Forall_forall in *. intros y Hy. apply filter_In in Hy. apply Hall. tauto.
Qed.

(* two sorted lists with the same multiset of elements are equal *)
Lemma sorted_count_eq : forall a b,
  Sorted Z.le a -> Sorted Z.le b -> (forall x, count_Z x a = count_Z x b) -> a = b.
Proof.
  intros a b Ha Hb.
  apply Sorted_StronglySorted in Ha; [|intros x y z; apply Z.le_trans].
  apply Sorted_StronglySorted in Hb; [|intros x y z; apply Z.le_trans].
  revert b Hb. induction Ha as [|x a Ha IH Hax]; intros b Hb Hc.
  - destruct b as [|y b]; [reflexivity|]. specialize (Hc y). unfold count_Z in Hc. cbn in Hc.
    rewrite Z.eqb_refl in Hc. discriminate.
  - destruct b as [|y b].
    + specialize (Hc x). unfold count_Z in Hc. cbn in Hc. rewrite Z.eqb_refl in Hc. discriminate.
    + inversion Hb as [|? ? Hb' Hby]; subst.
      rewrite Forall_forall in Hax, Hby.
      assert (Hxy : x = y).
      { assert (Ix : In x (y :: b)).
        { apply count_Z_pos_In. rewrite <- Hc. apply count_Z_pos_In. left; reflexivity. }
        assert (Iy : In y (x :: a)).
        { apply count_Z_pos_In. rewrite Hc. apply count_Z_pos_In. left; reflexivity. }
        destruct Ix as [Ix|Ix]; [congruence|]. destruct Iy as [Iy|Iy]; [congruence|].
        apply Hby in Ix. apply Hax in Iy. lia. }
      subst y. f_equal. apply IH; [exact Hb'|].
      intros z. specialize (Hc z). unfold count_Z in *. cbn [filter] in Hc.
      destruct (z =? x); cbn [length] in Hc; lia.
Qed.

Lemma same_members_spec : forall a b,
  same_members a b = true <-> (forall x, count_Z x a = count_Z x b).
Proof.
  intros a b. unfold same_members. rewrite forallb_forall. split.
  - intros H x.
    destruct (in_dec Z.eq_dec x (a ++ b)) as [Hin|Hnin]; [apply Nat.eqb_eq, H, Hin|].
    assert (Na : ~ In x a) by (intros Hx; apply Hnin, in_or_app; left; exact Hx).
    assert (Nb : ~ In x b) by (intros Hx; apply Hnin, in_or_app; right; exact Hx).
    rewrite <- count_Z_pos_In in Na, Nb. lia.
  - intros H x _. apply Nat.eqb_eq, H.
Qed.

Lemma same_members_perm : forall a b, same_members a b = true <-> Permutation a b.
Proof.
  intros a b. rewrite same_members_spec. split.
  - intros H. apply (Permutation_count_occ Z.eq_dec). intros x. specialize (H x).
    assert (C : forall l, count_occ Z.eq_dec l x = count_Z x l).
    { intros l. unfold count_Z. induction l as [|h t IHl]; [reflexivity|].
      cbn. destruct (Z.eq_dec h x); destruct (Z.eqb_spec x h); subst; cbn; try congruence. }
    rewrite !C. exact H.
  - intros P x. unfold count_Z. induction P; cbn; try lia.
    + destruct (x =? x0); cbn; lia.
    + destruct (x =? y); destruct (x =? x0); cbn; lia.
Qed.

(* validateStartParams accepts exactly when 0 < old_t <= |sub| and, on a key holder, sub is a
   rearrangement of the holder's old committee restricted to the peers it knows *)
Theorem validate_start_params_spec : forall old_t sub key_peers store,
  validate_start_params old_t sub key_peers store = VOk <->
  validate_accepts old_t sub key_peers store = true.
Proof.
  intros old_t sub key_peers store. unfold validate_start_params, validate_accepts.
  destruct (Z.leb_spec old_t 0) as [H0|H0].
  - replace (0 <? old_t) with false by (symmetry; apply Z.ltb_ge; lia). cbn. split; discriminate.
  - replace (0 <? old_t) with true by (symmetry; apply Z.ltb_lt; lia). cbn [andb].
    destruct (Z.ltb_spec (Z.of_nat (length sub)) old_t) as [H1|H1].
    + replace (old_t <=? Z.of_nat (length sub)) with false by (symmetry; apply Z.leb_gt; lia).
      cbn. split; discriminate.
    + replace (old_t <=? Z.of_nat (length sub)) with true by (symmetry; apply Z.leb_le; lia).
      cbn [andb].
      destruct key_peers as [|kp kps]; [cbn; tauto|].
      cbn [is_nil negb andb orb].
      set (kp' := kp :: kps).
      set (f := fun p => memZ p store).
      assert (E : list_eqb (sort_keys sub) (filter f (sort_keys kp')) = same_members sub (filter f kp')).
      { apply eq_true_iff_eq. rewrite list_eqb_eq, same_members_spec. split.
        - intros Heq x. rewrite <- (count_Z_sort x sub), Heq, !count_Z_filter, count_Z_sort. reflexivity.
        - intros Hc. apply sorted_count_eq.
          + apply sort_keys_sorted.
          + apply sorted_filter, sort_keys_sorted.
          + intros x. rewrite count_Z_sort, Hc, !count_Z_filter, count_Z_sort. reflexivity. }
      rewrite E. destruct (same_members sub (filter f kp')); cbn; split; congruence.
Qed.

Corollary validate_start_params_ok : forall old_t sub key_peers store,
  validate_start_params old_t sub key_peers store = VOk ->
  0 < old_t <= Z.of_nat (length sub) /\
  (key_peers = [] \/ Permutation sub (filter (fun p => memZ p store) key_peers)).
Proof.
  intros old_t sub key_peers store H. apply validate_start_params_spec in H.
  unfold validate_accepts in H.
  apply andb_true_iff in H. destruct H as [H H3].
  apply andb_true_iff in H. destruct H as [H1 H2].
  apply Z.ltb_lt in H1. apply Z.leb_le in H2. split; [lia|].
  apply orb_true_iff in H3. destruct H3 as [H3|H3].
  - left. destruct key_peers; [reflexivity|discriminate].
  - right. apply same_members_perm. exact H3.
Qed.

Theorem validate_ok_model : forall old_t sub key_peers store,
  validate_ok old_t sub key_peers store
    (vres_eqb (validate_start_params old_t sub key_peers store) VOk) = true.
Proof.
  intros old_t sub key_peers store. unfold validate_ok.
  pose proof (validate_start_params_spec old_t sub key_peers store) as Hs.
  destruct (validate_accepts old_t sub key_peers store) eqn:A.
  - rewrite (proj2 Hs eq_refl). cbn. rewrite implb_true_r. reflexivity.
  - assert (R : validate_required old_t sub key_peers store = false).
    { unfold validate_required, validate_accepts in *.
      destruct (0 <? old_t); [|reflexivity]. cbn [andb] in *.
      destruct (Z.ltb_spec old_t (Z.of_nat (length sub))); [|reflexivity].
      replace (old_t <=? Z.of_nat (length sub)) with true in A by (symmetry; apply Z.leb_le; lia).
      cbn [andb] in *. exact A. }
    rewrite R. cbn [implb].
    destruct (validate_start_params old_t sub key_peers store) eqn:V; try reflexivity.
    pose proof (proj1 Hs eq_refl). congruence.
Qed.

(* ------------------------------------------------------------------------------------------------ *)
(* the judge of a signing session *)

Theorem sign_ok_sound : forall ecdsa must coord completed released valid,
  sign_ok ecdsa must coord completed released valid = true ->
  (completed = true ->
     (exists i, nth_error released i = Some true) /\
     (forall v, In v valid -> v = true) /\
     (ecdsa = true -> forall k, (k < length released)%nat -> nth k released false = Nat.eqb k coord))
  /\ (must = true -> completed = true).
Proof.
  intros ecdsa must coord completed released valid H. unfold sign_ok in H.
  destruct completed.
  - split; [intros _|reflexivity].
    apply andb_true_iff in H. destruct H as [H H4].
    apply andb_true_iff in H. destruct H as [H H3].
    apply andb_true_iff in H. destruct H as [H1 H2].
    split; [|split].
    + apply existsb_exists in H1. destruct H1 as [b [Hb ->]].
      apply In_nth_error in Hb. exact Hb.
    + intros v Hv. rewrite forallb_forall in H2. apply H2. exact Hv.
    + intros ->. intros k Hk. apply (only_at_spec coord released 0 H4 k Hk).
  - split; [discriminate|]. intros ->. discriminate.
Qed.

(* ------------------------------------------------------------------------------------------------ *)
(* What the FROST refresh of this code base does to the shares, on the executable model: concrete
   witnesses (the general statement is frost_refresh_join / frost_refresh_join_wrong in
   Proofs/C08_Lagrange.v). *)

Lemma shares_ok_two_values : forall q t pts s1 s2,
  In s1 (sublists (S t) pts) -> In s2 (sublists (S t) pts) ->
  reconstruct_Zq q s1 <> reconstruct_Zq q s2 -> forall x, shares_ok q t pts x = false.
Proof.
  intros q t pts s1 s2 H1 H2 Hne x.
  destruct (shares_ok q t pts x) eqn:E; [|reflexivity].
  exfalso. apply Hne. eapply shares_ok_agree; eauto.
Qed.

(* a member JOINS (old committee {1,2}, t = 1, secret 3; joiner 3): the old members still agree on
   the secret, every pair containing the joiner reconstructs something else *)
Theorem frost_refresh_join_refuted :
  exists q old gs new_ids t x,
    shares_ok q t old x = true /\
    (forall x', shares_ok q t (frost_refresh_Zq q old gs new_ids) x' = false).
Proof.
  exists 7, (share_pts 7 [3; 1] [1; 2]), [2], [1; 2; 3], 1%nat, 3.
  split; [vm_compute; reflexivity|].
  apply (shares_ok_two_values 7 1 _ [(1, 6); (2, 2)] [(1, 6); (3, 6)]);
    vm_compute; [tauto|tauto|discriminate].
Qed.

(* the threshold is LOWERED (committee {1,2,3}, t = 2 -> 1): the refreshed shares still lie on a
   polynomial of the OLD degree, so t'+1 = 2 holders do not determine the secret *)
Theorem frost_refresh_threshold_down_refuted :
  exists q old gs new_ids t t' x,
    shares_ok q t old x = true /\ (t' < t)%nat /\
    (forall x', shares_ok q t' (frost_refresh_Zq q old gs new_ids) x' = false).
Proof.
  exists 7, (share_pts 7 [3; 1; 1] [1; 2; 3]), [2], [1; 2; 3], 2%nat, 1%nat, 3.
  split; [vm_compute; reflexivity|]. split; [lia|].
  apply (shares_ok_two_values 7 1 _ [(1, 0); (2, 6)] [(1, 0); (3, 0)]);
    vm_compute; [tauto|tauto|discriminate].
Qed.

(* ------------------------------------------------------------------------------------------------ *)
(* the scenario judge *)

Lemma scn_ok_prev : forall q e obs prev x',
  scn_ok q e prev obs = true -> prev = Some x' -> forall x, In x (secrets obs) -> x = x'.
Proof.
  intros q e obs; induction obs as [|o r IH]; intros prev x' H Hp x Hx; [contradiction|].
  destruct o as [t pts x0 pub old|m c comp rel val]; cbn in H, Hx.
  - apply andb_true_iff in H. destruct H as [H Hr].
    apply andb_true_iff in H. destruct H as [_ Hprev]. subst prev.
    apply Z.eqb_eq in Hprev. destruct Hx as [<-|Hx]; [exact Hprev|].
    rewrite <- Hprev. eapply IH; eauto.
  - apply andb_true_iff in H. destruct H as [_ Hr]. eapply IH; eauto.
Qed.

(* whatever the scenario judge accepts: every stage's shares satisfy shares_ok (every t+1 holders
   reconstruct x) with a secret that Go checked against the stored public key, the secret is the same
   at every stage (key generation -> refresh -> refresh ...), every signing session satisfies sign_ok *)
Theorem scn_ok_sound : forall q e obs prev,
  scn_ok q e prev obs = true ->
  (forall t pts x pub old, In (OShares t pts x pub old) obs -> shares_ok q t pts x = true /\ pub = true) /\
  (forall m c comp rel val, In (OSign m c comp rel val) obs -> sign_ok e m c comp rel val = true) /\
  (forall x y, In x (secrets obs) -> In y (secrets obs) -> x = y).
Proof.
  intros q e obs; induction obs as [|o r IH]; intros prev H.
  - repeat split; intros; contradiction.
  - destruct o as [t pts x0 pub old|m c comp rel val]; cbn in H.
    + apply andb_true_iff in H. destruct H as [H Hr].
      apply andb_true_iff in H. destruct H as [H _].
      apply andb_true_iff in H. destruct H as [Hs Hp].
      destruct (IH _ Hr) as [I1 [I2 I3]].
      split; [|split].
      * intros t' pts' x' pub' old' [E|Hin]; [inversion E; subst; auto|eauto].
      * intros m c comp rel val [E|Hin]; [discriminate|eauto].
      * assert (A : forall x, In x (secrets r) -> x = x0) by (eapply scn_ok_prev; eauto).
        intros x y [Ex|Hx] [Ey|Hy]; subst; try reflexivity;
          [symmetry; auto|auto|rewrite (A x Hx), (A y Hy); reflexivity].
    + apply andb_true_iff in H. destruct H as [Hs Hr].
      destruct (IH _ Hr) as [I1 [I2 I3]].
      split; [|split].
      * intros t' pts' x' pub' old' [E|Hin]; [discriminate|eauto].
      * intros m' c' comp' rel' val' [E|Hin]; [inversion E; subst; auto|eauto].
      * exact I3.
Qed.

Lemma count_eqb_seq : forall n a coord,
  length (filter (fun b : bool => b) (map (fun i => Nat.eqb i coord) (seq a n))) =
  if (a <=? coord)%nat && (coord <? a + n)%nat then 1%nat else 0%nat.
Proof.
  induction n as [|n IH]; intros a coord.
  - cbn [seq map filter length]. destruct (a <=? coord)%nat eqn:E1; destruct (coord <? a + 0)%nat eqn:E2; try reflexivity.
    apply Nat.leb_le in E1. apply Nat.ltb_lt in E2. lia.
  - cbn [seq map filter].
    destruct (Nat.eqb_spec a coord) as [->|Hne]; cbn [length]; rewrite IH.
    + replace (S coord <=? coord)%nat with false by (symmetry; apply Nat.leb_gt; lia).
      rewrite Nat.leb_refl. replace (coord <? coord + S n)%nat with true by (symmetry; apply Nat.ltb_lt; lia).
      reflexivity.
    + destruct (a <=? coord)%nat eqn:E1; destruct (S a <=? coord)%nat eqn:E2;
        destruct (coord <? S a + n)%nat eqn:E3; destruct (coord <? a + S n)%nat eqn:E4; cbn; try reflexivity;
        repeat match goal with
               | H : (_ <=? _)%nat = true |- _ => apply Nat.leb_le in H
               | H : (_ <=? _)%nat = false |- _ => apply Nat.leb_gt in H
               | H : (_ <? _)%nat = true |- _ => apply Nat.ltb_lt in H
               | H : (_ <? _)%nat = false |- _ => apply Nat.ltb_ge in H
               end; lia.
Qed.

Theorem sign_ok_model : forall ecdsa must n coord,
  (coord < n)%nat ->
  match ideal_sign ecdsa must n coord with
  | OSign m c comp rel val => sign_ok ecdsa m c comp rel val = true
  | _ => False
  end.
Proof.
  intros ecdsa must n coord Hc. unfold ideal_sign, sign_ok.
  destruct ecdsa.
  - rewrite count_eqb_seq. cbn [Nat.leb andb].
    replace (coord <? 0 + n)%nat with true by (symmetry; apply Nat.ltb_lt; lia).
    rewrite only_at_model. cbn.
    rewrite !andb_true_r. apply existsb_exists. exists true. split; [|reflexivity].
    apply in_map_iff. exists coord. split; [apply Nat.eqb_refl|apply in_seq; lia].
  - destruct n as [|n]; [lia|].
    assert (F : filter (fun b : bool => b) (repeat true (S n)) = repeat true (S n)).
    { generalize (S n). induction n0 as [|k IHk]; [reflexivity|]. cbn. f_equal. exact IHk. }
    rewrite F, Nat.eqb_refl. cbn [repeat existsb orb andb].
    rewrite !andb_true_r. clear F Hc. induction n as [|k IHk]; [reflexivity|]. cbn in *. exact IHk.
Qed.

Lemma scn_ok_sign : forall q e prev m c comp rel val r,
  scn_ok q e prev (OSign m c comp rel val :: r) = sign_ok e m c comp rel val && scn_ok q e prev r.
Proof. reflexivity. Qed.
