(* C15 round 5 - HandleEvents: the batches sent on the message channel carry every message of the block
   exactly once.  Closed under the global context. *)
From Coq Require Import List ZArith NArith Bool String Permutation Lia.
From SygmaV Require Import Lib.Hex Model.C15.
Import ListNotations.

Lemma add_to_dest_perm d m g :
  Permutation (List.concat (map snd (add_to_dest d m g))) (m :: List.concat (map snd g)).
Proof.
  induction g as [|[d' l] r IH]; cbn [add_to_dest map snd List.concat].
  - cbn. apply Permutation_refl.
  - destruct (N.eqb d d'); cbn [map snd List.concat].
    + rewrite <- app_assoc. cbn [app]. apply Permutation_sym, Permutation_middle.
    + eapply Permutation_trans; [apply Permutation_app_head; exact IH|].
      apply Permutation_sym, Permutation_middle.
Qed.

Lemma by_dest_acc ms : forall g,
  Permutation
    (List.concat (map snd (fold_left (fun g m => match m with Msg d _ _ _ _ => add_to_dest d m g | NoMsg => g end) ms g)))
    (List.concat (map snd g) ++ filter is_msg ms).
Proof.
  induction ms as [|m ms IH]; intros g; cbn [fold_left filter].
  - rewrite app_nil_r. apply Permutation_refl.
  - destruct m as [|d n r a rc]; cbn [is_msg].
    + apply IH.
    + eapply Permutation_trans; [apply IH|].
      eapply Permutation_trans; [apply Permutation_app_tail; apply add_to_dest_perm|].
      cbn [app]. apply Permutation_middle.
Qed.

(* no loss, no duplication *)
Lemma sent_batches_perm ms : Permutation (List.concat (sent_batches ms)) (filter is_msg ms).
Proof. unfold sent_batches, by_dest. exact (by_dest_acc ms []). Qed.

Lemma sent_batches_in ms m : In m (List.concat (sent_batches ms)) <-> (In m ms /\ is_msg m = true).
Proof.
  rewrite <- filter_In. split; apply Permutation_in; [|apply Permutation_sym]; apply sent_batches_perm.
Qed.

Lemma sent_batches_count (eq_dec : forall x y : pres, {x = y} + {x <> y}) ms m :
  count_occ eq_dec (List.concat (sent_batches ms)) m = count_occ eq_dec (filter is_msg ms) m.
Proof. apply Permutation_count_occ. apply sent_batches_perm. Qed.

(* every batch is for one destination domain *)
Lemma add_to_dest_one_dest d m g :
  msg_dest m = Some d ->
  (forall d' l, In (d', l) g -> forall x, In x l -> msg_dest x = Some d') ->
  forall d' l, In (d', l) (add_to_dest d m g) -> forall x, In x l -> msg_dest x = Some d'.
Proof.
  intros Hm. induction g as [|[e l0] r IH]; intros Hg d' l Hin x Hx; cbn [add_to_dest] in Hin.
  - destruct Hin as [E|[]]. inversion E; subst. destruct Hx as [<-|[]]. exact Hm.
  - destruct (N.eqb d e) eqn:Ede.
    + apply N.eqb_eq in Ede. subst e. destruct Hin as [E|Hin].
      * inversion E; subst. apply in_app_or in Hx as [Hx|[<-|[]]]; [|exact Hm].
        exact (Hg d' l0 (or_introl eq_refl) x Hx).
      * exact (Hg d' l (or_intror Hin) x Hx).
    + destruct Hin as [E|Hin].
      * inversion E; subst. exact (Hg d' l (or_introl eq_refl) x Hx).
      * apply (IH (fun d'' l' H' => Hg d'' l' (or_intror H')) d' l Hin x Hx).
Qed.

Lemma by_dest_one_dest ms : forall g,
  (forall d' l, In (d', l) g -> forall x, In x l -> msg_dest x = Some d') ->
  forall d' l,
    In (d', l) (fold_left (fun g m => match m with Msg d _ _ _ _ => add_to_dest d m g | NoMsg => g end) ms g) ->
    forall x, In x l -> msg_dest x = Some d'.
Proof.
  induction ms as [|m ms IH]; intros g Hg; cbn [fold_left]; [exact Hg|].
  destruct m as [|d n r a rc]; [exact (IH g Hg)|].
  apply IH. apply add_to_dest_one_dest; [reflexivity|exact Hg].
Qed.

Lemma sent_batches_one_dest ms b :
  In b (sent_batches ms) -> exists d, forall x, In x b -> msg_dest x = Some d.
Proof.
  unfold sent_batches. intros Hin. apply in_map_iff in Hin as [[d l] [<- Hin]]. exists d.
  cbn [snd]. intros x Hx.
  exact (by_dest_one_dest ms [] (fun _ _ H => match H with end) d l Hin x Hx).
Qed.

(* the shared loop variable: with two destinations one message is lost and the other one sent twice *)
Lemma shared_var_refuted :
  exists ms m m', In m ms /\ is_msg m = true /\ ~ In m (List.concat (shared_var_batches ms)) /\
                  List.concat (shared_var_batches ms) = [m'; m'].
Proof.
  exists [Msg 2 5 [] 1 []; Msg 3 6 [] 1 []], (Msg 2 5 [] 1 []), (Msg 3 6 [] 1 []).
  split; [left; reflexivity|]. split; [reflexivity|]. split.
  - vm_compute. intros [H|[H|[]]]; discriminate H.
  - reflexivity.
Qed.
