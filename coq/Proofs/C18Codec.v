(* C18 - proofs about the topology codec Model/C18Codec.v *)
From Coq Require Import List NArith Bool String Ascii DecimalString DecimalN DecimalPos Lia.
Import ListNotations.
From SygmaV Require Import Model.C18Codec.
Local Open Scope string_scope.
Local Open Scope list_scope.

(* ---- strings ---- *)

Lemma sapp_assoc : forall a b c : string, ((a ++ b) ++ c = a ++ (b ++ c))%string.
Proof. induction a as [|x a IH]; intros; cbn; [reflexivity|]. now rewrite IH. Qed.

Lemma sapp_nil_r : forall a : string, (a ++ "")%string = a.
Proof. induction a as [|x a IH]; cbn; [reflexivity|]. now rewrite IH. Qed.

(* ---- token lists the printer corresponds to ---- *)

Fixpoint tk_strs (l : list string) : list token :=
  match l with
  | [] => [TRBrack]
  | s :: r => match r with
              | [] => [TStr s; TRBrack]
              | _ => TStr s :: TComma :: tk_strs r
              end
  end.

Definition tk_peer (p : peer) : list token :=
  [TLBrace; TStr "ID"; TColon; TStr (pid p); TComma; TStr "Addrs"; TColon; TLBrack] ++ tk_strs (paddrs p) ++ [TRBrace].

Fixpoint tk_peers (l : list peer) : list token :=
  match l with
  | [] => [TRBrack]
  | p :: r => match r with
              | [] => tk_peer p ++ [TRBrack]
              | _ => tk_peer p ++ TComma :: tk_peers r
              end
  end.

Definition tk_topo (t : topo) : list token :=
  [TLBrace; TStr "Peers"; TColon; TLBrack] ++ tk_peers (tpeers t)
  ++ [TComma; TStr "Threshold"; TColon; TNum (print_N (tthreshold t)); TRBrace].

(* ---- tokeniser on printed pieces ---- *)

Lemma tok_instr : forall s a rest, no_quote s = true ->
  tok (InStr a) (s ++ dq ++ rest) = TStr (a ++ s)%string :: tok Out rest.
Proof.
  induction s as [|c s IH]; intros a rest H.
  - cbn. now rewrite sapp_nil_r.
  - cbn [no_quote] in H. apply andb_prop in H as [H H3]. apply andb_prop in H as [H1 H2].
    apply negb_true_iff in H1, H2.
    change ((String c s) ++ dq ++ rest)%string with (String c (s ++ dq ++ rest)%string).
    cbn [tok]. rewrite H1, H2. rewrite IH by assumption.
    unfold snoc. now rewrite sapp_assoc.
Qed.

Lemma tok_str : forall s rest, no_quote s = true ->
  tok Out (dq ++ s ++ dq ++ rest) = TStr s :: tok Out rest.
Proof.
  intros s rest H. change (dq ++ s ++ dq ++ rest)%string with (String (ascii_of_N 34) (s ++ dq ++ rest)%string).
  change (tok Out (String (ascii_of_N 34) (s ++ dq ++ rest))) with (tok (InStr "") (s ++ dq ++ rest)).
  rewrite tok_instr by assumption. reflexivity.
Qed.

Lemma tok_strs : forall l rest, forallb no_quote l = true ->
  tok Out (pr_strs l ++ rest) = tk_strs l ++ tok Out rest.
Proof.
  induction l as [|s r IH]; intros rest H.
  - reflexivity.
  - cbn [forallb] in H. apply andb_prop in H as [Hs Hr].
    destruct r as [|s2 r'].
    + cbn [pr_strs tk_strs]. unfold pr_str. rewrite !sapp_assoc. rewrite tok_str by assumption. reflexivity.
    + change (pr_strs (s :: s2 :: r')) with (pr_str s ++ "," ++ pr_strs (s2 :: r'))%string.
      change (tk_strs (s :: s2 :: r')) with (TStr s :: TComma :: tk_strs (s2 :: r')).
      unfold pr_str. rewrite !sapp_assoc. rewrite tok_str by assumption.
      change ("," ++ pr_strs (s2 :: r') ++ rest)%string with (String "," (pr_strs (s2 :: r') ++ rest)%string).
      change (tok Out (String "," (pr_strs (s2 :: r') ++ rest))) with (TComma :: tok Out (pr_strs (s2 :: r') ++ rest)).
      rewrite IH by assumption. reflexivity.
Qed.

Lemma tok_peer : forall p rest, safe_peer p = true ->
  tok Out (pr_peer p ++ rest) = tk_peer p ++ tok Out rest.
Proof.
  intros [id addrs] rest H. unfold safe_peer in H. cbn [pid paddrs] in H. apply andb_prop in H as [Hi Ha].
  unfold pr_peer, tk_peer. cbn [pid paddrs]. unfold pr_str. rewrite !sapp_assoc.
  change ("{" ++ dq ++ "ID" ++ dq ++ ":" ++ dq ++ id ++ dq ++ "," ++ dq ++ "Addrs" ++ dq ++ ":[" ++ pr_strs addrs ++ "}" ++ rest)%string
    with (String "{" (dq ++ "ID" ++ dq ++ String ":" (dq ++ id ++ dq ++ String "," (dq ++ "Addrs" ++ dq ++ String ":" (String "[" (pr_strs addrs ++ String "}" rest))))))%string.
  match goal with |- context [tok Out (String "{" ?x)] => change (tok Out (String "{" x)) with (TLBrace :: tok Out x) end.
  rewrite (tok_str "ID") by reflexivity.
  match goal with |- context [tok Out (String ":" ?x)] => change (tok Out (String ":" x)) with (TColon :: tok Out x) end.
  rewrite (tok_str id) by assumption.
  match goal with |- context [tok Out (String "," ?x)] => change (tok Out (String "," x)) with (TComma :: tok Out x) end.
  rewrite (tok_str "Addrs") by reflexivity.
  match goal with |- context [tok Out (String ":" (String "[" ?x))] =>
    change (tok Out (String ":" (String "[" x))) with (TColon :: TLBrack :: tok Out x) end.
  rewrite tok_strs by assumption.
  match goal with |- context [tok Out (String "}" ?x)] => change (tok Out (String "}" x)) with (TRBrace :: tok Out x) end.
  cbn [app]. rewrite <- !app_assoc. reflexivity.
Qed.

Lemma tok_peers : forall l rest, forallb safe_peer l = true ->
  tok Out (pr_peers l ++ rest) = tk_peers l ++ tok Out rest.
Proof.
  induction l as [|p r IH]; intros rest H.
  - reflexivity.
  - cbn [forallb] in H. apply andb_prop in H as [Hp Hr].
    destruct r as [|p2 r'].
    + cbn [pr_peers tk_peers]. rewrite sapp_assoc, tok_peer by assumption.
      rewrite <- app_assoc. reflexivity.
    + change (pr_peers (p :: p2 :: r')) with (pr_peer p ++ "," ++ pr_peers (p2 :: r'))%string.
      change (tk_peers (p :: p2 :: r')) with (tk_peer p ++ TComma :: tk_peers (p2 :: r')).
      rewrite !sapp_assoc, tok_peer by assumption.
      change ("," ++ pr_peers (p2 :: r') ++ rest)%string with (String "," (pr_peers (p2 :: r') ++ rest)%string).
      change (tok Out (String "," (pr_peers (p2 :: r') ++ rest))) with (TComma :: tok Out (pr_peers (p2 :: r') ++ rest)).
      rewrite IH by assumption. rewrite <- app_assoc. reflexivity.
Qed.

Lemma tok_innum : forall d a c r, is_digit c = false ->
  tok (InNum a) (NilEmpty.string_of_uint d ++ String c r) = TNum (a ++ NilEmpty.string_of_uint d)%string :: tok Out (String c r).
Proof.
  induction d; intros a c r Hc; cbn [NilEmpty.string_of_uint append];
    [ rewrite sapp_nil_r; cbn [tok]; rewrite Hc; reflexivity | .. ];
    (remember (tok Out (String c r)) as K eqn:EK; cbn [tok];
     match goal with |- context [is_digit ?x] => change (is_digit x) with true end;
     cbv iota; rewrite IHd by assumption; subst K; unfold snoc; rewrite sapp_assoc; reflexivity).
Qed.

Lemma tok_num_out : forall d c r, d <> Decimal.Nil -> is_digit c = false ->
  tok Out (NilEmpty.string_of_uint d ++ String c r) = TNum (NilEmpty.string_of_uint d) :: tok Out (String c r).
Proof.
  intros d c r Hd Hc. destruct d; try (now destruct Hd);
    cbn [NilEmpty.string_of_uint append];
    (remember (tok Out (String c r)) as K eqn:EK;
     match goal with |- tok Out (String ?x ?y) = _ => change (tok Out (String x y)) with (tok (InNum (String x "")) y) end;
     rewrite tok_innum by assumption; subst K; reflexivity).
Qed.

Lemma to_uint_nonnil : forall n, N.to_uint n <> Decimal.Nil.
Proof. intros [|p]; cbn; [discriminate|]. apply Unsigned.to_uint_nonnil. Qed.

Lemma tok_topo : forall t, safe_topo t = true -> tok Out (print_topo t) = tk_topo t.
Proof.
  intros [peers th] H. unfold safe_topo in H. cbn [tpeers] in H.
  unfold print_topo, tk_topo. cbn [tpeers tthreshold]. unfold pr_str. rewrite !sapp_assoc.
  change ("{" ++ dq ++ "Peers" ++ dq ++ ":[" ++ pr_peers peers ++ "," ++ dq ++ "Threshold" ++ dq ++ ":" ++ print_N th ++ "}")%string
    with (String "{" (dq ++ "Peers" ++ dq ++ String ":" (String "[" (pr_peers peers ++ String "," (dq ++ "Threshold" ++ dq ++ String ":" (print_N th ++ String "}" ""))))))%string.
  match goal with |- context [tok Out (String "{" ?x)] => change (tok Out (String "{" x)) with (TLBrace :: tok Out x) end.
  rewrite (tok_str "Peers") by reflexivity.
  match goal with |- context [tok Out (String ":" (String "[" ?x))] =>
    change (tok Out (String ":" (String "[" x))) with (TColon :: TLBrack :: tok Out x) end.
  rewrite tok_peers by assumption.
  match goal with |- context [tok Out (String "," ?x)] => change (tok Out (String "," x)) with (TComma :: tok Out x) end.
  rewrite (tok_str "Threshold") by reflexivity.
  match goal with |- context [tok Out (String ":" ?x)] => change (tok Out (String ":" x)) with (TColon :: tok Out x) end.
  unfold print_N. rewrite tok_num_out by (try apply to_uint_nonnil; reflexivity).
  reflexivity.
Qed.

(* ---- parser on those token lists ---- *)

Lemma tk_strs_head : forall s r, exists rest, tk_strs (s :: r) = TStr s :: rest.
Proof. intros s [|s2 r]; eexists; reflexivity. Qed.

Lemma p_strs_tk : forall l rest, p_strs (tk_strs l ++ rest) = Some (l, rest).
Proof.
  induction l as [|s r IH]; intro rest; [reflexivity|].
  destruct r as [|s2 r']; [reflexivity|].
  change (tk_strs (s :: s2 :: r')) with (TStr s :: TComma :: tk_strs (s2 :: r')).
  destruct (tk_strs_head s2 r') as [x Hx].
  cbn [app p_strs]. specialize (IH rest). rewrite Hx in *. cbn [app]. cbn [app] in IH. now rewrite IH.
Qed.

Lemma p_peer_tk : forall p rest, p_peer (tk_peer p ++ rest) = Some (p, rest).
Proof.
  intros [id addrs] rest. unfold tk_peer. cbn [pid paddrs app p_peer].
  change (String.eqb "ID" "ID" && String.eqb "Addrs" "Addrs") with true. cbv iota.
  rewrite <- app_assoc, p_strs_tk. reflexivity.
Qed.

Lemma tk_peer_head : forall p, exists rest, tk_peer p = TLBrace :: rest.
Proof. intro p. eexists. reflexivity. Qed.

Lemma tk_peers_head : forall p r, exists rest, tk_peers (p :: r) = TLBrace :: rest.
Proof. intros p [|p2 r]; eexists; reflexivity. Qed.

Lemma p_peers_tk : forall l fuel rest, (List.length l < fuel)%nat ->
  p_peers fuel (tk_peers l ++ rest) = Some (l, rest).
Proof.
  induction l as [|p r IH]; intros fuel rest Hf.
  - destruct fuel; [lia|]. reflexivity.
  - destruct fuel as [|f]; [lia|]. cbn [List.length] in Hf.
    destruct r as [|p2 r'].
    + cbn [tk_peers]. rewrite <- app_assoc.
      assert (E : p_peer (tk_peer p ++ [TRBrack] ++ rest) = Some (p, TRBrack :: rest)) by apply p_peer_tk.
      unfold tk_peer in *. cbn [app] in *. cbn [p_peers]. rewrite E. reflexivity.
    + change (tk_peers (p :: p2 :: r')) with (tk_peer p ++ TComma :: tk_peers (p2 :: r')).
      rewrite <- app_assoc.
      assert (E : p_peer (tk_peer p ++ (TComma :: tk_peers (p2 :: r')) ++ rest)
                  = Some (p, (TComma :: tk_peers (p2 :: r')) ++ rest)) by apply p_peer_tk.
      specialize (IH f rest ltac:(cbn [List.length] in *; lia)).
      destruct (tk_peers_head p2 r') as [x Hx]. rewrite Hx in *.
      unfold tk_peer in *. cbn [app] in *. cbn [p_peers]. rewrite E. now rewrite IH.
Qed.

Lemma p_num_print : forall n, p_num (print_N n) = Some n.
Proof.
  intro n. unfold p_num, print_N.
  destruct (NilEmpty.string_of_uint (N.to_uint n)) eqn:E.
  - pose proof (to_uint_nonnil n) as H. destruct (N.to_uint n); try discriminate. now destruct H.
  - rewrite <- E, NilEmpty.usu. cbn [option_map]. now rewrite DecimalN.Unsigned.of_to.
Qed.

Lemma tk_peers_length : forall l, (List.length l <= List.length (tk_peers l))%nat.
Proof.
  induction l as [|p r IH]; [cbn; lia|].
  destruct r as [|p2 r'].
  - cbn. lia.
  - change (tk_peers (p :: p2 :: r')) with (tk_peer p ++ TComma :: tk_peers (p2 :: r')).
    rewrite app_length. cbn [List.length] in *. lia.
Qed.

Lemma p_topo_tk : forall t, p_topo (tk_topo t) = Some t.
Proof.
  intros [peers th]. unfold tk_topo. cbn [tpeers tthreshold app p_topo].
  change (String.eqb "Peers" "Peers") with true. cbv iota.
  rewrite p_peers_tk.
  - change (String.eqb "Threshold" "Threshold") with true. cbv iota. now rewrite p_num_print.
  - rewrite app_length. pose proof (tk_peers_length peers). lia.
Qed.

Theorem topology_roundtrip : forall t, safe_topo t = true -> parse_topo (print_topo t) = Some t.
Proof. intros t H. unfold parse_topo. rewrite tok_topo by assumption. apply p_topo_tk. Qed.

(* ---- equality tests ---- *)

Lemma strs_eqb_eq : forall a b, strs_eqb a b = true -> a = b.
Proof.
  induction a as [|x a IH]; intros [|y b] H; try discriminate; [reflexivity|].
  cbn in H. apply andb_prop in H as [H1 H2]. apply String.eqb_eq in H1. subst. f_equal. auto.
Qed.

Lemma peers_eqb_eq : forall a b, peers_eqb a b = true -> a = b.
Proof.
  induction a as [|x a IH]; intros [|y b] H; try discriminate; [reflexivity|].
  cbn in H. apply andb_prop in H as [H1 H2]. unfold peer_eqb in H1. apply andb_prop in H1 as [H3 H4].
  apply String.eqb_eq in H3. apply strs_eqb_eq in H4. destruct x, y. cbn in *. subst. f_equal. auto.
Qed.

Lemma otopo_eqb_eq : forall o t, otopo_eqb o t = true -> o = Some t.
Proof.
  intros [[p n]|] [q m] H; [|discriminate]. unfold otopo_eqb, topo_eqb in H. cbn in H.
  apply andb_prop in H as [H1 H2]. apply peers_eqb_eq in H1. apply N.eqb_eq in H2. now subst.
Qed.

Lemma strs_eqb_refl : forall a, strs_eqb a a = true.
Proof. induction a; cbn; [reflexivity|]. now rewrite String.eqb_refl. Qed.

Lemma peers_eqb_refl : forall a, peers_eqb a a = true.
Proof. induction a as [|x a IH]; cbn; [reflexivity|]. unfold peer_eqb. now rewrite String.eqb_refl, strs_eqb_refl. Qed.

Lemma topo_codec_judge_model : forall t, safe_topo t = true ->
  otopo_eqb (parse_topo (print_topo t)) t = true.
Proof.
  intros t H. rewrite topology_roundtrip by assumption. unfold otopo_eqb, topo_eqb.
  now rewrite peers_eqb_refl, N.eqb_refl.
Qed.
