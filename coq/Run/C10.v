(* Correspondence run for C10: case = input + what the real Go code did. *)
From Coq Require Import List Arith NArith Bool.
Import ListNotations.
From SygmaV Require Export Lib.RunLib Model.C10.

Inductive case :=
(* one freshly constructed real process of kind k driven through the real Coordinator.Execute to
   the outcome o; impl = ledger of the counting store (L/U/Get/Store) and of the wrapper around
   the process (RunBegin/RunEnd).  real: the same session replayed in a child process with the
   real sync.Mutex store: 0 not replayed, 1 completed and a later Lock succeeded, 2 the child died
   with "fatal error: sync: unlock of unlocked mutex", 3 a later Lock blocked (a following
   constructor or the final probe of both stores did not get the mutex);
   sh: the state the key-share file was put in before the constructor ran *)
| Session (k : kind) (o : outcome) (sh : share) (impl : list ev) (real : nat)
(* several sessions one after the other on the same store, each finding the share file in the
   state given; real as above (the whole sequence replayed on the real stores) *)
| Sequence (ss : list (share * (kind * outcome))) (impl : list ev) (real : nat)
(* sessions that OVERLAP on one store whose Lock really blocks: thread 0 holds the lock while the
   others ask for it (and are cancelled / time out / are refused while they wait, or wait in their
   constructor); impl = the merged ledger, read when every goroutine had come to rest, each event
   with the session it belongs to; free: 1 = a Lock after everything had ended succeeded within its
   deadline, 3 = it did not (the mutex was leaked) *)
| Contention (ss : list (kind * outcome)) (impl : list (nat * ev)) (free : nat)
(* the REAL keyshare.ECDSAKeyshareStore / FrostKeyshareStore (frost) object under contention, in a
   child process: [workers] goroutines x [pairs] balanced LockKeyshare / UnlockKeyshare pairs with a
   non-atomic increment of a shared counter inside; dones = pairs completed per worker (a stall
   detector ends the run when nobody makes progress any more), counter = its final value, free: 1 =
   a Lock after everything had ended succeeded within its deadline, 2 = the child died with
   "unlock of unlocked mutex", 3 = the workers stalled / the final Lock did not succeed *)
| StoreStress (frost : bool) (workers pairs : N) (dones : list N) (counter : N) (free : nat)
(* a STARTED Run of a real process of kind k (share file in state sh) is made to fail with an error of
   class f through the real Coordinator.Execute - the error the real Run returned after it had begun
   is replaced by one of that class, or the real first protocol message cannot be broadcast
   (a comm.CommunicationError), or the protocol library itself reports a tss.Error; answered: the peers
   answer the initiate messages of a retry; impl / real as in Session *)
| Failed (k : kind) (f : failure) (answered : bool) (sh : share) (impl : list ev) (real : nat)
(* ONE session with a batch of real processes of the kinds ks, each made by its real constructor on a
   key-share store of its own, driven through the real Coordinator.Execute to the outcome o (the same
   start message reaches every process); impl = one ledger per process (its store's L/U/Get/Store and the
   extent of its Run); real: the same batch replayed in a child process, every process on a REAL store
   (sync.Mutex) of its own: 0 not replayed, 1 completed and every store's lock could be taken afterwards,
   2 the child died with "unlock of unlocked mutex", 3 a store's lock was still held *)
| Batch (ks : list kind) (o : outcome) (impl : list (list ev)) (real : nat).

Definition ev_eqb (a b : ev) : bool :=
  match a, b with
  | L, L | U, U | Get, Get | Store, Store | RunBegin, RunBegin | RunEnd, RunEnd => true
  | _, _ => false
  end.

Fixpoint evs_eqb (a b : list ev) : bool :=
  match a, b with
  | [], [] => true
  | x :: a', y :: b' => ev_eqb x y && evs_eqb a' b'
  | _, _ => false
  end.

Fixpoint threads_agree (i : nat) (ss : list (kind * outcome)) (tr : list (nat * ev)) : bool :=
  match ss with
  | [] => true
  | s :: r => evs_eqb (session_events New (fst s) (snd s)) (proj i tr) && threads_agree (S i) r tr
  end.

Fixpoint evss_eqb (a b : list (list ev)) : bool :=
  match a, b with
  | [], [] => true
  | x :: a', y :: b' => evs_eqb x y && evss_eqb a' b'
  | _, _ => false
  end.

Definition agree (c : case) : bool :=
  match c with
  | Session k o sh impl _ => feasible_in sh k o && evs_eqb (session_events New k o) impl
  | Sequence ss impl _ => all_feasible_in ss && evs_eqb (sessions_events New (map snd ss)) impl
  | Contention ss impl _ =>
      (* whatever the interleaving was: every session's own part of the ledger is the model's *)
      all_feasible ss && threads_agree 0 ss impl
      && forallb (fun x => Nat.ltb (fst x) (length ss)) impl
  | StoreStress _ workers pairs dones counter free =>
      (* the model (C10_store_stress): every worker finishes, the counter is workers * pairs *)
      stress_ok workers pairs dones counter free
  | Failed k f a sh impl _ =>
      feasible_in sh k (failed_outcome k f a) && evs_eqb (session_events New k (failed_outcome k f a)) impl
  | Batch ks o impl _ =>
      Nat.leb 2 (length ks) && batch_feasible ks o && evss_eqb (batch_ledgers PerIteration ks o) impl
  end.

Definition judge (c : case) : bool :=
  match c with
  | Session k o sh impl real => session_ok k impl && Nat.leb real 1
  | Sequence ss impl real => sequence_ok impl && Nat.leb real 1
  | Contention ss impl free => contention_ok ss impl && Nat.leb free 1
  | StoreStress _ workers pairs dones counter free => stress_ok workers pairs dones counter free
  | Failed k f a sh impl real => session_ok k impl && Nat.leb real 1
  | Batch ks o impl real => batch_ledgers_ok ks impl && Nat.leb real 1
  end.

Definition kind_ix (k : kind) : N :=
  match k with EcdsaKeygen => 0 | FrostKeygen => 1 | EcdsaResharing => 2 | FrostResharing => 3
             | EcdsaSigning => 4 | FrostSigning => 5 end.
Definition outcome_ix (o : outcome) : N :=
  match o with NeverSilent => 0 | NeverTimeout => 1 | NeverCancelled => 2 | StartMalformed => 3
             | ParamsRejected => 4 | RanFailed => 5 | RanSucceeded => 6 | Refused => 7
             | ConstructorFails => 8 | Rerun => 9 | CancelledBeforeEntry => 10
             | PanicBeforeStart => 11 | PanicInRunLate => 12 | PanicAfterRun => 13 end.
Definition failure_ix (f : failure) : N :=
  match f with FPlain => 0 | FComm => 1 | FTss => 2 | FSubset => 3 | FCoordinator => 4 end.
Definition share_ix (sh : share) : N :=
  match sh with Readable => 0 | Missing => 1 | Corrupt => 2 | Unreadable => 3 end.

Definition tag (c : case) : N :=
  match c with
  | Session k o sh _ _ => (kind_ix k * 16 + outcome_ix o + 100 * share_ix sh)%N
  | Failed k f a _ _ _ => (4000 + kind_ix k * 10 + failure_ix f * 2 + (if a then 1 else 0))%N
  | Sequence _ _ _ => 1000%N
  | Contention _ _ _ => 2000%N
  | StoreStress frost _ _ _ _ _ => if frost then 3001%N else 3000%N
  | Batch ks o _ _ => (5000 + 16 * N.of_nat (length ks) + outcome_ix o)%N
  end.

Definition check_all := check_cases agree judge tag.
