(* Correspondence run for C05: case = input + what the real Go code did. *)
From Coq Require Import List ZArith NArith Bool.
Import ListNotations.
From SygmaV Require Export Lib.RunLib Model.C05 Gen.C05_Wiring.
Local Open Scope Z_scope.

Inductive case :=
(* a relayer of chain kind k (wired as app/app.go wires that kind: Gen/C05_Wiring.v wiring_of k, and
   GetStartBlock given the arguments app/app.go gives it: start_of k - the runner computes the two
   flags and the start block by the same extracted expressions and hands them to the real
   GetStartBlock) with the given configuration and initial block-store contents, driven through the
   environment script evs;
   obs = the real history: lifetimes' start blocks, handler calls with results, StoreBlock calls *)
| Scan (k : kind) (ival conf : Z) (nh : nat) (cstart : Z) (latest fresh : bool)
       (stored0 : option Z) (evs : list ev) (obs : list out)
(* a real event handler whose fetch of the range succeeds / fails; did it return an error? *)
| Propagate (fetch_ok : bool) (impl_err : bool)
(* one HandleEvents(s, e) call of a real event handler over a node that checks and records the
   arguments of every read: fired = a read of the call could not be served; asked = the bounds of its
   range reads as given; did it return an error? *)
| Reads (s e : Z) (fired : bool) (asked : list (Z * Z)) (impl_err : bool)
(* a Bitcoin / EVM domain of the REAL app.Run (one relayer process, one domain per case: configuration
   file -> GetStartBlock -> head / alignment -> chain object -> listener) over a local node whose head
   is [head] at first and moves on by one with every head read; block store prepared with [stored0];
   obs = the first two ranges of blocks the event handlers asked the node for (fewer: app.Run itself
   ended - panic or return - before; None: the child process gave no observation: no verdict) *)
| AppRun (k : kind) (ival conf cstart : Z) (latest fresh : bool) (stored0 : option Z) (head : Z)
         (obs : option (list (Z * Z))).

Definition optZ_eqb (a b : option Z) : bool :=
  match a, b with Some x, Some y => Z.eqb x y | None, None => true | _, _ => false end.

Definition out_eqb (a b : out) : bool :=
  match a, b with
  | OStart x, OStart y => optZ_eqb x y
  | OHandle k s e ok, OHandle k' s' e' ok' => Nat.eqb k k' && Z.eqb s s' && Z.eqb e e' && Bool.eqb ok ok'
  | OStore v ok, OStore v' ok' => Z.eqb v v' && Bool.eqb ok ok'
  | _, _ => false
  end.

Fixpoint outs_eqb (a b : list out) : bool :=
  match a, b with
  | [], [] => true
  | x :: a', y :: b' => out_eqb x y && outs_eqb a' b'
  | _, _ => false
  end.

Definition mk_cfg k ival conf nh cstart latest fresh : cfg :=
  {| kd := k; ival := ival; conf := conf; nh := nh; cstart := cstart; latest := latest; fresh := fresh |}.

(* the history of the relayer as app.go wires it *)
Definition wired_run (k : kind) (c : cfg) (st : option Z) (evs : list ev) : list out :=
  run (wiring_of k) (sc_cfg (start_of k) c) st evs.

(* the environment of an AppRun case: every head read finds the head one higher, handlers and block
   store never fail *)
Fixpoint app_script (h : Z) (n : nat) : list ev :=
  match n with
  | O => []
  | S n' => Head h :: Handler true :: Store true :: app_script (h + 1) n'
  end.

Definition handled (tr : list out) : list (Z * Z) :=
  flat_map (fun o => match o with OHandle O s e true => [(s, e)] | _ => [] end) tr.

Definition app_model (k : kind) (c : cfg) (st : option Z) (head : Z) : list (Z * Z) :=
  handled (wired_run k c st (app_script head 60)).

Fixpoint ranges_eqb (a b : list (Z * Z)) : bool :=
  match a, b with
  | [], [] => true
  | x :: a', y :: b' => Z.eqb (fst x) (fst y) && Z.eqb (snd x) (snd y) && ranges_eqb a' b'
  | _, _ => false
  end.

Definition agree (c : case) : bool :=
  match c with
  | Scan k i cf n cs l f st evs obs =>
      outs_eqb (wired_run k (mk_cfg k i cf n cs l f) st evs) obs
  | Propagate f e => Bool.eqb (handler_returns_err f) e
  | Reads s e fired asked err =>
      Bool.eqb (handler_returns_err (negb fired)) err &&
      Bool.eqb (err || covers s e (handler_asks s e)) (err || covers s e asked)
  | AppRun k i cf cs l f st head obs =>
      match obs with
      | Some rs => ranges_eqb (firstn 2 (app_model k (mk_cfg k i cf 1 cs l f) st head)) rs
      | None => true
      end
  end.

Definition judge (c : case) : bool :=
  match c with
  | Scan k i cf n cs l f st evs obs => trace_ok (mk_cfg k i cf n cs l f) st obs
  | Propagate f e => propagate_ok f e
  | Reads s e fired asked err => reads_ok s e fired asked err
  (* the blocks the domain's handlers read first, as a trace of a one-handler relayer: the first one is
     not beyond the starting point, the next follows without a gap *)
  | AppRun k i cf cs l f st _ obs =>
      match obs with
      | Some rs => trace_ok (mk_cfg k i cf 1 cs l f) st (map (fun r => OHandle O (fst r) (snd r) true) rs)
      | None => true
      end
  end.

(* model branch: kind x (restarted at least once?) x (anything persisted?) ; propagate x fetch_ok *)
Definition tag (c : case) : N :=
  match c with
  | Scan k i cf n cs l f st evs _ =>
      let tr := wired_run k (mk_cfg k i cf n cs l f) st evs in
      ((match k with Evm => 0 | Sub => 4 | Btc => 8 end)
       + (if Nat.leb 2 (length (filter (fun o => match o with OStart _ => true | _ => false end) tr)) then 2 else 0)
       + (if existsb (fun o => match o with OStore _ true => true | _ => false end) tr then 1 else 0))%N
  | Propagate f _ => if f then 13%N else 12%N
  | Reads _ _ fired _ _ => if fired then 15%N else 14%N
  | AppRun k _ _ _ l f st _ _ =>
      (16 + (match k with Evm => 0 | Sub => 8 | Btc => 16 end) + (if l then 4 else 0) + (if f then 2 else 0)
       + (match st with Some _ => 1 | None => 0 end))%N
  end.

Definition check_all := check_cases agree judge tag.
