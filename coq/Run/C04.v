(* Correspondence run for C04: case = input + what the real Go code did. *)
From Coq Require Import List ZArith NArith Bool.
Import ListNotations.
From SygmaV Require Export Lib.RunLib Model.C04.
Local Open Scope Z_scope.

Inductive case :=
| Single (p : path) (head blk conf : Z) (impl_handled : bool)
| Hist (start : option Z) (conf : Z) (heads : list Z) (impl_obs : list (N * Z)).

Fixpoint obs_eqb (a b : list (N * Z)) : bool :=
  match a, b with
  | [], [] => true
  | (k, x) :: a', (k', x') :: b' => N.eqb k k' && Z.eqb x x' && obs_eqb a' b'
  | _, _ => false
  end.

Definition agree (c : case) : bool :=
  match c with
  | Single p head blk conf h => Bool.eqb (accept p head blk conf) h
  | Hist st conf heads obs => obs_eqb (scan st conf 0%N heads) obs
  end.

Definition judge (c : case) : bool :=
  match c with
  | Single p head blk conf h => single_ok p head blk conf h
  | Hist st conf heads obs => hist_ok st conf 0%N heads obs
  end.

(* branch tag of the model: path x accepted?, history x anything handled? *)
Definition tag (c : case) : N :=
  match c with
  | Single p head blk conf _ =>
      (match p with BtcScan => 0 | EvmRetryTx => 2 | EvmRetryMsg => 4 | BtcRetryMsg => 6
                  | SubRetryMsg => 8 | SubRetryEvt => 10 end
       + if accept p head blk conf then 1 else 0)%N
  | Hist st conf heads _ => match scan st conf 0%N heads with [] => 12%N | _ => 13%N end
  end.

Definition check_all := check_cases agree judge tag.
