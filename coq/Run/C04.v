(* Correspondence run for C04: case = input + what the real Go code did. *)
From Coq Require Import List ZArith NArith Bool.
Import ListNotations.
From SygmaV Require Export Lib.RunLib Model.C04.
From SygmaV Require Proofs.C04.
Local Open Scope Z_scope.

Inductive case :=
(* impl_blocks: the block numbers the implementation handed to processing (empty = rejected) *)
| Single (p : path) (head blk conf : Z) (impl_blocks : list Z)
(* the scan loop over a history of polls; [None] = the head lookup of that poll failed *)
| Hist (start : option Z) (conf : Z) (polls : list (option Z)) (impl_obs : list (N * Z))
(* a sequence of guard evaluations on ONE set of long-lived handler objects that share the
   configured confirmation depth, as app.go wires them: the guards must stay what they are however
   often and in whatever order they have been used before *)
| Seq (conf : Z) (ops : list (path * Z * Z)) (impl_blocks : list (list Z))
(* several evaluations on ONE set of long-lived handler objects - mode 0: one after the other in one
   goroutine (a message batch / the requests of one range), 1: each in its own goroutine under a
   scripted interleaving (the fake RPC client parks calls), 2: each in its own goroutine, free running.
   Every evaluation comes with the head IT was served and the blocks IT handed to processing;
   [None] = the RPC answer carried no number (receipt without block number, head request without
   number). *)
| Multi (mode : N) (conf : Z) (evs : list evaluation) (impl_blocks : list (list Z))
(* ONE call served one head ([None]: its lookup failed) whose range holds several retry requests;
   flat observation *)
| Batch (p : path) (ohead : option Z) (conf : Z) (blks : list Z) (impl_blocks : list Z)
(* evaluations on one long-lived handler whose bound lookups are scripted - the k-th lookup fails, the
   head stalls at / just below the required block, or advances while the call waits; per evaluation:
   the event block ([None]: the receipt lookup failed or the receipt names no block), the answers the
   implementation has been served so far (it decides how often it looks), the blocks it processed *)
| Scripted (p : path) (conf : Z) (script : list (option Z)) (impl_evs : list scripted_eval)
(* the implementation did not answer within the runner's deadline: nothing was observed, so there is
   nothing to judge - but the model always answers, so the correspondence is broken *)
| Unanswered (kind : N)
(* EVM retry by transaction hash: the RetryV1 events of one scanned range through the real event
   handler; per event the indices of the receipt's logs whose deposits became messages *)
| TxBatch (conf : Z) (evs : list txev) (impl_logs : list (list N)).

Fixpoint obs_eqb (a b : list (N * Z)) : bool :=
  match a, b with
  | [], [] => true
  | (k, x) :: a', (k', x') :: b' => N.eqb k k' && Z.eqb x x' && obs_eqb a' b'
  | _, _ => false
  end.

Fixpoint zs_eqb (a b : list Z) : bool :=
  match a, b with
  | [], [] => true
  | x :: a', y :: b' => Z.eqb x y && zs_eqb a' b'
  | _, _ => false
  end.

Fixpoint ns_eqb (a b : list N) : bool :=
  match a, b with
  | [], [] => true
  | x :: a', y :: b' => N.eqb x y && ns_eqb a' b'
  | _, _ => false
  end.

Definition in_domain_opt (p : path) (oh ob : option Z) : bool :=
  match oh, ob with
  | Some h, Some b => in_domain p h b
  | Some h, None => in_domain p h 0
  | None, _ => match p with EvmRetryTx | EvmRetryMsg => true | _ => false end
  end.

(* scripted lookups: a failed lookup ([None]) is possible on every path *)
Definition in_domain_ans (p : path) (a ob : option Z) : bool :=
  in_domain p (match a with Some h => h | None => 0 end) (match ob with Some b => b | None => 0 end).

Fixpoint seq_all (f : path -> Z -> Z -> list Z -> bool) (ops : list (path * Z * Z)) (obs : list (list Z)) : bool :=
  match ops, obs with
  | [], [] => true
  | (p, head, blk) :: ops', h :: obs' => f p head blk h && seq_all f ops' obs'
  | _, _ => false
  end.

Definition agree (c : case) : bool :=
  match c with
  (* the generated inputs are values the Go types of that path can hold *)
  | Single p head blk conf h => in_domain p head blk && zs_eqb (processed p head blk conf) h
  | Hist st conf polls obs =>
      forallb (fun a => match a with Some h => in_int64 h | None => true end) polls && obs_eqb (scan st conf 0%N polls) obs
  | Seq conf ops obs =>
      seq_all (fun p head blk h => in_domain p head blk && zs_eqb (processed p head blk conf) h) ops obs
  | Multi _ conf evs obs =>
      all2 (fun e o => match e with (p, oh, ob) => in_domain_opt p oh ob end && zs_eqb (eval_model conf e) o) evs obs
  | Batch p ohead conf blks obs =>
      forallb (fun b => in_domain_ans p ohead (Some b)) blks && zs_eqb (batch_model_opt p ohead conf blks) obs
  | Scripted p conf script evs =>
      forallb (fun a => forallb (fun e => in_domain_ans p a (fst (fst e))) evs) script
      && all2 zs_eqb (scripted_model p conf script (map (fun e => fst (fst e)) evs)) (map snd evs)
  | Unanswered _ => false
  | TxBatch conf evs obs => all2 (fun e o => ns_eqb (tx_model conf e) o) evs obs
  end.

Definition judge (c : case) : bool :=
  match c with
  | Single p head blk conf h => single_ok p head blk conf h
  | Hist st conf polls obs => hist_ok st None conf 0%N polls obs
  | Seq conf ops obs => seq_all (fun p head blk h => single_ok p head blk conf h) ops obs
  | Multi _ conf evs obs => multi_ok conf evs obs
  | Batch p ohead conf _ obs => bound_ok p ohead conf obs
  | Scripted p conf _ evs => scripted_ok p conf evs
  | Unanswered _ => true
  | TxBatch conf evs obs => txs_ok conf evs obs
  end.

(* branch tag of the model: path x accepted?, history x anything handled? *)
Definition tag (c : case) : N :=
  match c with
  | Single p head blk conf _ =>
      (match p with BtcScan => 0 | EvmRetryTx => 2 | EvmRetryMsg => 4 | BtcRetryMsg => 6
                  | SubRetryMsg => 8 | SubRetryEvt => 10 end
       + if accept p head blk conf then 1 else 0)%N
  | Hist st conf polls _ => match scan st conf 0%N polls with [] => 12%N | _ => 13%N end
  | Seq conf ops _ =>
      if existsb (fun o => match o with (p, head, blk) => accept p head blk conf end) ops then 15%N else 14%N
  | Multi mode conf evs _ =>
      (16 + 2 * N.min mode 2 + if existsb (fun e => negb (is_nil (eval_model conf e))) evs then 1 else 0)%N
  | Batch p ohead conf blks _ => if is_nil (batch_model_opt p ohead conf blks) then 22%N else 23%N
  | Scripted p conf script evs =>
      if forallb is_nil (scripted_model p conf script (map (fun e => fst (fst e)) evs)) then 26%N else 27%N
  | Unanswered _ => 28%N
  | TxBatch conf evs _ => if existsb (fun e => negb (is_nil (tx_model conf e))) evs then 25%N else 24%N
  end.

(* the judge accepts the model's own outputs on every sequence *)
Lemma seq_judge_accepts_model conf ops :
  seq_all (fun p head blk h => single_ok p head blk conf h) ops
          (map (fun o => match o with (p, head, blk) => processed p head blk conf end) ops) = true.
Proof.
  induction ops as [|[[p head] blk] ops IH]; cbn; [reflexivity|].
  rewrite Proofs.C04.single_ok_model. exact IH.
Qed.

Definition check_all := check_cases agree judge tag.
