(* Correspondence run for C04: case = input + what the real Go code did. *)
From Coq Require Import List ZArith NArith Bool.
Import ListNotations.
From SygmaV Require Export Lib.RunLib Model.C04.
From SygmaV Require Proofs.C04.
Local Open Scope Z_scope.

Inductive case :=
(* impl_blocks: the block numbers the implementation handed to processing (empty = rejected) *)
| Single (p : path) (head blk conf : Z) (impl_blocks : list Z)
| Hist (start : option Z) (conf : Z) (heads : list Z) (impl_obs : list (N * Z))
(* a sequence of guard evaluations on ONE set of long-lived handler objects that share the
   configured confirmation depth, as app.go wires them: the guards must stay what they are however
   often and in whatever order they have been used before *)
| Seq (conf : Z) (ops : list (path * Z * Z)) (impl_blocks : list (list Z)).

Fixpoint obs_eqb (a b : list (N * Z)) : bool :=
  match a, b with
  | [], [] => true
  | (k, x) :: a', (k', x') :: b' => N.eqb k k' && Z.eqb x x' && obs_eqb a' b'
  | _, _ => false
  end.

Fixpoint zs_eqb (a b : list Z) : bool :=
  match a, b with
  | [], [] => true
  | x :: a', y :: b' => Z.eqb x y && zs_eqb a' b'
  | _, _ => false
  end.

Fixpoint seq_all (f : path -> Z -> Z -> list Z -> bool) (ops : list (path * Z * Z)) (obs : list (list Z)) : bool :=
  match ops, obs with
  | [], [] => true
  | (p, head, blk) :: ops', h :: obs' => f p head blk h && seq_all f ops' obs'
  | _, _ => false
  end.

Definition agree (c : case) : bool :=
  match c with
  (* the generated inputs are values the Go types of that path can hold *)
  | Single p head blk conf h => in_domain p head blk && zs_eqb (processed p head blk conf) h
  | Hist st conf heads obs => forallb in_int64 heads && obs_eqb (scan st conf 0%N heads) obs
  | Seq conf ops obs =>
      seq_all (fun p head blk h => in_domain p head blk && zs_eqb (processed p head blk conf) h) ops obs
  end.

Definition judge (c : case) : bool :=
  match c with
  | Single p head blk conf h => single_ok p head blk conf h
  | Hist st conf heads obs => hist_ok st conf 0%N heads obs
  | Seq conf ops obs => seq_all (fun p head blk h => single_ok p head blk conf h) ops obs
  end.

(* branch tag of the model: path x accepted?, history x anything handled? *)
Definition tag (c : case) : N :=
  match c with
  | Single p head blk conf _ =>
      (match p with BtcScan => 0 | EvmRetryTx => 2 | EvmRetryMsg => 4 | BtcRetryMsg => 6
                  | SubRetryMsg => 8 | SubRetryEvt => 10 end
       + if accept p head blk conf then 1 else 0)%N
  | Hist st conf heads _ => match scan st conf 0%N heads with [] => 12%N | _ => 13%N end
  | Seq conf ops _ =>
      if existsb (fun o => match o with (p, head, blk) => accept p head blk conf end) ops then 15%N else 14%N
  end.

(* the judge accepts the model's own outputs on every sequence *)
Lemma seq_judge_accepts_model conf ops :
  seq_all (fun p head blk h => single_ok p head blk conf h) ops
          (map (fun o => match o with (p, head, blk) => processed p head blk conf end) ops) = true.
Proof.
  induction ops as [|[[p head] blk] ops IH]; cbn; [reflexivity|].
  rewrite Proofs.C04.single_ok_model. exact IH.
Qed.

Definition check_all := check_cases agree judge tag.
