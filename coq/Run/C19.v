(* Correspondence run for C19: case = input + what the real Go code did. *)
From Coq Require Import List ZArith NArith Bool String.
Import ListNotations.
From SygmaV Require Export Lib.RunLib Lib.Hex Model.C05 Model.C19 Gen.C05_Wiring.
Local Open Scope Z_scope.

(* a deposit on the fake chain: block, destination domain, nonce (Bitcoin: index of the transaction) *)
Definition deposit := (Z * N * N)%type.
Definition d_block (d : deposit) : Z := fst (fst d).
Definition d_dest (d : deposit) : N := snd (fst d).
Definition d_nonce (d : deposit) : N := snd d.

(* a group of messages as sent to the message channel: message id, destination, nonces in order:
   [mgroup] of Model/C19.v *)

(* one relayer: configuration, initial store contents, environment script; what it did *)
Inductive relayer :=
| Rel (conf : Z) (nh : nat) (cstart : Z) (latest fresh : bool) (stored0 : option Z) (evs : list ev)
      (obs : list out) (groups : list mgroup).

Inductive case :=
(* two independently configured relayers of one chain kind and block interval over one chain *)
| Pair (k : kind) (ival : Z) (deps : list deposit) (a b : relayer)
(* Bitcoin ProcessDeposits run 64 times on one block: resource ids, per transaction the resource
   ids it pays; per transaction the distinct credited resources seen (None = no message) *)
| Credit (resources : list N) (txs : list (list N)) (seen : list (list (option N)))
(* CalculateNonce: block, tx hash; SHA-256 oracle (preimage it was asked for, digest); result *)
| NonceOf (b : Z) (txhash : string) (preimage digest_hex : string) (impl_nonce : N)
(* the EVM Executor.Execute on one delivery: message id; the batch list (members per position) the
   real proposalBatches built; per schedule the observed sessions (members hashed, session ids used),
   in order of the first member; per repetition of the run-ahead schedule the member lists hashed *)
| Sess (mid : string) (batches : list (list N)) (runs : list (list (list N * list string)))
       (hashed : list (list (list N)))
(* the Bitcoin Executor.Execute on one delivery: proposals (deposit nonce, resource id) in delivery
   order; per schedule, per goroutine: the nonces it put into its transaction and the resource whose
   UTXOs it asked for (None = none / not a configured resource), in order of the first nonce *)
| Bexec (props : list (N * N)) (runs : list (list (list N * option N)))
(* one delivery handed to several relayers (real Executor.Execute each) of which the first is fault-free
   and every other suffers failing executed-status look-ups at the marked positions.
   EVM: message id, gas cap, transfer gas; per proposal deposit nonce, gasLimit metadata, executed on
   the destination; per relayer its fault mask and the sessions (members, session ids) it started *)
| SessF (mid : string) (cap tg : N) (props : list (N * option N * bool))
        (rels : list (list bool * list (list N * list string)))
(* Substrate: per proposal deposit nonce, executed *)
| SubF (mid : string) (props : list (N * bool)) (rels : list (list bool * list (list N * list string)))
(* Bitcoin: per proposal (deposit nonce, resource id), executed (block-store record); per relayer its
   fault mask and per goroutine the nonces it put into its transaction and the resource it asked for *)
| BexecF (props : list (N * N * bool)) (rels : list (list bool * list (list N * option N)))
(* a retry event handler (EVM RetryV1EventHandler / Substrate RetryEventHandler: ONE long-lived object)
   run 32..64 times on the range [s, e]: per retry event of the range, in log order, the deposits it names
   (destination, nonce, already executed); per repetition the groups sent, sorted by destination *)
| Retry (k : kind) (s e : Z) (evs : list (list rdep)) (runs : list (list mgroup))
(* ONE long-lived deposit event handler (and the retry message handler built over it, as app.go wires them)
   serving several calls: [(s, e, None)] = ProcessDeposits on the range (the listener's scan),
   [(h, h, Some d)] = a retry message for destination d and block h (RetryMessageHandler.HandleMessage);
   [seq] = what every call sent when they were made one after the other, [runs] = the same per further
   sequential repetition and per schedule in which all calls ran at the same time in goroutines of their own
   (GOMAXPROCS 1 and many, fakes that yield at every call, repeated calls); Bitcoin nonces are translated
   back to the number of the transaction (0 = not the nonce of any transaction of the chain) *)
| Conc (k : kind) (deps : list deposit) (calls : list (Z * Z * option N)) (seq : list (list mgroup))
       (runs : list (list (list mgroup)))
(* ONE long-lived executor object (real Executor.Execute) goes through a history of deliveries - the same
   delivery several times, others in between; a relayer restarted in between executes every delivery on a new
   object.  EVM: gas cap, transfer gas; the deliveries (message id; per proposal deposit nonce, gasLimit
   metadata, executed on the destination); [fresh]: per delivery the sessions (members, session ids) the new
   object started; [steps]: per step of the history the index of the delivery and the sessions the long-lived
   object started *)
| SessH (cap tg : N) (dels : list (string * list (N * option N * bool)))
        (fresh : list (list (list N * list string))) (steps : list (nat * list (list N * list string)))
(* Substrate: per proposal deposit nonce, executed *)
| SubH (dels : list (string * list (N * bool)))
       (fresh : list (list (list N * list string))) (steps : list (nat * list (list N * list string)))
(* Bitcoin: per proposal (deposit nonce, resource id), executed record; per goroutine the nonces it put into
   its transaction and the resource it asked for *)
| BexecH (dels : list (list (N * N * bool)))
         (fresh : list (list (list N * option N))) (steps : list (nat * list (list N * option N))).

Definition src_domain : Z := 1.

Definition rel_cfg (k : kind) (i : Z) (r : relayer) : cfg :=
  match r with Rel cf n cs l f _ _ _ _ =>
    {| kd := k; ival := i; conf := cf; nh := n; cstart := cs; latest := l; fresh := f |} end.
Definition rel_obs (r : relayer) := match r with Rel _ _ _ _ _ _ _ o _ => o end.
Definition rel_groups (r : relayer) := match r with Rel _ _ _ _ _ _ _ _ g => g end.
Definition rel_model (k : kind) (i : Z) (r : relayer) : list out :=
  match r with Rel _ _ _ _ _ st evs _ _ => run (wiring_of k) (rel_cfg k i r) st evs end.

Definition eff_step (k : kind) (i : Z) : Z := match k with Btc => 1 | _ => i end.

Definition nlist_eqb (a b : list N) : bool :=
  (Nat.eqb (List.length a) (List.length b)) && forallb (fun p => N.eqb (fst p) (snd p)) (combine a b).

(* the specification of a group: its id is the id of the cell that contains its deposits, and it
   holds exactly the deposits of that cell for that destination, in chain order *)
Definition group_ok (k : kind) (i : Z) (deps : list deposit) (g : mgroup) : bool :=
  let '(id, dst, nonces) := g in
  match nonces with
  | [] => false
  | n0 :: _ =>
      match find (fun d => N.eqb (d_nonce d) n0) deps with
      | None => false
      | Some d0 =>
          let '(s, e) := cell_of (eff_step k i) (d_block d0) in
          let want_id := match k with
                         | Btc => btc_message_id src_domain (Z.of_N dst) s
                         | _ => message_id src_domain (Z.of_N dst) s e
                         end in
          let want := map d_nonce (filter (fun d => N.eqb (d_dest d) dst && (s <=? d_block d) && (d_block d <=? e)) deps) in
          String.eqb id want_id && nlist_eqb nonces want
      end
  end.

Definition cells_ok (k : kind) (i : Z) (obs : list out) : bool :=
  forallb (fun o => match o with OHandle _ s e _ => is_cell (eff_step k i) s e | _ => true end) obs.

(* number of groups the successful handler-0 calls of a trace must have produced *)
Fixpoint distinct_dests (seen : list N) (ds : list deposit) : nat :=
  match ds with
  | [] => 0
  | d :: r => if existsb (N.eqb (d_dest d)) seen then distinct_dests seen r
              else S (distinct_dests (d_dest d :: seen) r)
  end.

Definition expected_groups (deps : list deposit) (tr : list out) : nat :=
  fold_left (fun acc o => match o with
                          | OHandle 0 s e true =>
                              Nat.add acc (distinct_dests [] (filter (fun d => Z.leb s (d_block d) && Z.leb (d_block d) e) deps))
                          | _ => acc end) tr 0%nat.

Definition optN_eqb (a b : option N) : bool :=
  match a, b with Some x, Some y => N.eqb x y | None, None => true | _, _ => false end.

Definition optZ_eqb (a b : option Z) : bool :=
  match a, b with Some x, Some y => Z.eqb x y | None, None => true | _, _ => false end.

Definition out_eqb (a b : out) : bool :=
  match a, b with
  | OStart x, OStart y => optZ_eqb x y
  | OHandle k s e ok, OHandle k' s' e' ok' => Nat.eqb k k' && Z.eqb s s' && Z.eqb e e' && Bool.eqb ok ok'
  | OStore v ok, OStore v' ok' => Z.eqb v v' && Bool.eqb ok ok'
  | _, _ => false
  end.

Fixpoint outs_eqb (a b : list out) : bool :=
  match a, b with
  | [], [] => true
  | x :: a', y :: b' => out_eqb x y && outs_eqb a' b'
  | _, _ => false
  end.

Definition rel_agree (k : kind) (i : Z) (deps : list deposit) (r : relayer) : bool :=
  outs_eqb (rel_model k i r) (rel_obs r)
  && Nat.eqb (List.length (rel_groups r)) (expected_groups deps (rel_model k i r)).

Definition rel_judge (k : kind) (i : Z) (deps : list deposit) (r : relayer) : bool :=
  cells_ok k i (rel_obs r) && forallb (group_ok k i deps) (rel_groups r).

(* the fault-free relayer's observation (the first relayer of a faulty-relayer case) *)
Definition ref_of {X : Type} (rels : list (list bool * list X)) : list X :=
  match rels with (_, r) :: _ => r | [] => [] end.

Definition first_clean {X : Type} (rels : list (list bool * list X)) : bool :=
  match rels with (m, _) :: _ => negb (existsb (fun b => b) m) | [] => false end.

(* what one call of a concurrent case must send: the deposits of its range grouped by destination in chain
   order under the id of the range, destinations ascending; a retry message keeps its destination's group *)
Definition call_model (k : kind) (deps : list deposit) (c : Z * Z * option N) : list mgroup :=
  let '(s, e, od) := c in
  let ds := filter (fun d => (s <=? d_block d) && (d_block d <=? e)) deps in
  let all := map (fun dst => (match k with
                              | Btc => btc_message_id src_domain (Z.of_N dst) s
                              | _ => message_id src_domain (Z.of_N dst) s e
                              end, dst, map d_nonce (lookup dst (group d_dest ds))))
                 (dests_sorted (map d_dest ds)) in
  match od with
  | None => all
  | Some d => filter (fun g : mgroup => N.eqb (snd (fst g)) d) all
  end.

Definition agree (c : case) : bool :=
  match c with
  | Pair k i deps a b => rel_agree k i deps a && rel_agree k i deps b
  | Credit res txs seen =>
      (Nat.eqb (List.length txs) (List.length seen))
      && forallb (fun p => match snd p with [o] => optN_eqb o (credit_run res (fst p)) | _ => false end)
                 (combine txs seen)
  | NonceOf b tx pre dg n => String.eqb (nonce_preimage b tx) pre && N.eqb (xor_fold (unhex dg)) n
  | Sess mid bs runs hashed =>
      forallb (fun r => sess_eqb (evm_sessions mid bs) r) runs
      && forallb (fun h => nll_eqb (evm_hashed bs) h) hashed
  | Bexec props runs => forallb (fun r => bgroups_eqb (bexec_spec props) r) runs
  | SessF mid cap tg props rels =>
      first_clean rels && forallb (fun r => sess_eqb (evm_exec mid cap tg (mark props (fst r))) (snd r)) rels
  | SubF mid props rels =>
      first_clean rels && forallb (fun r => sess_eqb (sub_exec mid (mark props (fst r))) (snd r)) rels
  | BexecF props rels =>
      first_clean rels && forallb (fun r => bgroups_eqb (btc_exec (mark props (fst r))) (snd r)) rels
  (* chain order, as the model says *)
  | Retry k s e evs runs => match runs with r :: _ => mgl_eqb (retry_model src_domain s e evs) r | [] => false end
  | Conc k deps calls seq runs => mgll_eqb (map (call_model k deps) calls) seq
  (* the restarted relayer does what the model says (the steps are the judge's business) *)
  | SessH cap tg dels fresh _ =>
      list_eqb sess_eqb (map (fun d => evm_exec (fst d) cap tg (mark (snd d) [])) dels) fresh
  | SubH dels fresh _ => list_eqb sess_eqb (map (fun d => sub_exec (fst d) (mark (snd d) [])) dels) fresh
  | BexecH dels fresh _ => list_eqb bgroups_eqb (map (fun d => btc_exec (mark d [])) dels) fresh
  end.

Definition judge (c : case) : bool :=
  match c with
  | Pair k i deps a b => rel_judge k i deps a && rel_judge k i deps b
  | Credit res txs seen =>
      (* depends on chain data only: one and the same outcome in every repetition *)
      forallb (fun s => match s with [_] => true | _ => false end) seen
  | NonceOf b tx pre dg n => String.eqb (nonce_preimage b tx) pre && N.eqb (xor_fold (unhex dg)) n
  | Sess mid bs runs hashed => sess_ok mid bs runs hashed
  | Bexec props runs => bexec_ok props runs
  (* every session a relayer with failing look-ups started is one of its fault-free peer's *)
  | SessF _ _ _ _ rels => faulty_ok sess1_eqb (ref_of rels) (map snd rels)
  | SubF _ _ rels => faulty_ok sess1_eqb (ref_of rels) (map snd rels)
  | BexecF _ rels => faulty_ok bgroup1_eqb (ref_of rels) (map snd rels)
  (* never on map iteration order: the same groups, in the same order, in every repetition *)
  | Retry _ _ _ _ runs => reps_ok runs
  (* never on timing: every call sends under every schedule what it sends when the calls do not overlap *)
  | Conc _ _ _ seq runs => conc_ok seq runs
  (* never on what the long-lived object did before: every session it starts at any step of its history is
     one the restarted relayer starts for that delivery *)
  | SessH _ _ _ fresh steps => hist_ok sess1_eqb fresh steps
  | SubH _ fresh steps => hist_ok sess1_eqb fresh steps
  | BexecH _ fresh steps => hist_ok bgroup1_eqb fresh steps
  end.

Definition tag (c : case) : N :=
  match c with
  | Pair k _ _ a _ =>
      ((match k with Evm => 0 | Sub => 2 | Btc => 4 end) + (match rel_groups a with [] => 0 | _ => 1 end))%N
  | Credit res txs _ =>
      if existsb (fun tx => Nat.leb 2 (List.length (filter (fun r => existsb (N.eqb r) tx) res))) txs then 7%N else 6%N
  | NonceOf _ _ _ _ _ => 8%N
  | Sess _ bs _ _ => match evm_hashed bs with [] => 9%N | [_] => 10%N | _ => 11%N end
  | Bexec props _ => match bexec_spec props with [] => 12%N | [_] => 13%N | [_; _] => 14%N | _ => 15%N end
  | SessF mid cap tg props _ => match evm_exec mid cap tg (mark props []) with [] => 16%N | [_] => 17%N | _ => 18%N end
  | SubF mid props _ => match sub_exec mid (mark props []) with [] => 19%N | _ => 20%N end
  | BexecF props _ => match btc_exec (mark props []) with [] => 21%N | [_] => 22%N | _ => 23%N end
  | Retry k _ _ evs _ =>
      ((match k with Evm => 24 | _ => 26 end)
       + (if existsb (fun g : N * list rdep => Nat.leb 2 (List.length (snd g))) (retry_groups evs) then 1 else 0))%N
  | Conc k _ _ _ _ => match k with Evm => 28%N | Sub => 29%N | Btc => 30%N end
  | SessH _ _ _ _ steps => (31 + N.min 1 (N.of_nat (List.length steps) / 5))%N
  | SubH _ _ steps => (33 + N.min 1 (N.of_nat (List.length steps) / 5))%N
  | BexecH _ _ steps => (35 + N.min 1 (N.of_nat (List.length steps) / 5))%N
  end.

Definition check_all := check_cases agree judge tag.
