(* Correspondence run for C08: case = input + what the real Go code did.
   Glue cases drive the repository's helper functions; Scenario cases carry what REAL protocol runs
   (keygen / resharing / signing of tss/ecdsa and tss/frost over an in-process transport) left in the
   key-share files and put on the result channels.  Elliptic-curve checks (x*G = stored public key,
   ecrecover / BIP-340 verification) are done by Go and enter as booleans: EC arithmetic is not
   modelled. *)
From Coq Require Import List ZArith NArith Bool String.
Import ListNotations.
From SygmaV Require Export Lib.RunLib Lib.Hex Model.C08.
Local Open Scope Z_scope.

(* order of the secp256k1 group (both protocols of this code base use it).  That it is prime is NOT
   proved in Coq - trusted base. *)
Definition secp256k1_n : Z := 0xFFFFFFFFFFFFFFFFFFFFFFFFFFFFFFFEBAAEDCE6AF48A03BBFD25E8CD0364141.

Inductive case :=
| Release (coordinator : bool) (cap : nat) (late : bool) (impl_sig impl_nil : bool) (impl_count : nat)
| Parties (ids : list string) (impl : list (string * Z * Z))
| SortP (peers old : list string) (impl_kind : N) (impl : list (string * Z))
| Validate (old_t : Z) (sub key_peers store : list string) (impl : N)
(* whom the REAL process of kind k (0 keygen, 1 signing, 2 resharing; ECDSA and FROST) names as candidates
   for the session's coordinator (ValidCoordinators), its stored key share listing key_peers and its
   host's peerstore holding store (peer ids as hex) *)
| Coords (k : N) (key_peers store impl : list string)
| Scenario (ecdsa : bool) (obs : list sobs)
(* the REAL BTC executor's watchExecution on a transaction with n Taproot inputs, fed the results rs
   ([None] = a nil value, [Some id] = the signature of input id's signing process - a real BIP-340
   signature over that input's signature hash under the tweaked key); sent = transactions that
   reached the (fake) node, valids[i] = the witness of input i verifies in btcd's script engine in
   every one of them *)
| BtcWatch (n : nat) (rs : list (option nat)) (sent : nat) (valids : list bool)
(* the COMPLETE BTC executor (Executor.Execute: transaction assembly, one signature hash and one real
   FROST signing process per input, the real tss.Coordinator, watchExecution, sendTx) on the three
   fixture relayers, threshold 1, for a transfer that needs n of the bridge's UTXOs (in general every
   one of another value); per relayer: transactions that reached its node and, per input, whether the
   witness verifies in all of them - against the outputs AS THE CHAIN HAS THEM (amount and script of
   every spent output), not against what the executor took them to be;
   must_sign: the relayers' FROST shares were refreshed (same committee and threshold, the real
   resharing processes) before the execution - the new committee can sign: the transfer is broadcast *)
| BtcExec (must_sign : bool) (n : nat) (relayers : list (nat * list bool)).

Definition pk (s : string) : Z := party_key (bytes_of_string s).
Definition pcode (hex : string) : Z := peer_code (unhex hex).

Fixpoint idx_ok (i : Z) (l : list Z) : bool :=
  match l with [] => true | x :: r => (x =? i) && idx_ok (i + 1) r end.

Fixpoint strict_asc (l : list Z) : bool :=
  match l with
  | x :: ((y :: _) as r) => (x <? y) && strict_asc r
  | _ => true
  end.

Definition sp_of_impl (kind : N) (impl : list (string * Z)) : sp_result :=
  match kind with
  | 0%N => SpOk (map (fun e => pk (fst e)) impl)
  | 1%N => SpNilEntries
  | _ => SpPanic
  end.

Definition sp_eqb (a b : sp_result) : bool :=
  match a, b with
  | SpOk x, SpOk y => list_eqb x y
  | SpNilEntries, SpNilEntries | SpPanic, SpPanic => true
  | _, _ => false
  end.

Definition pkind (k : N) : proc_kind :=
  match k with 0%N => PKeygen | 1%N => PSigning | _ => PResharing end.

Definition vres_code (v : vres) : N :=
  match v with VOk => 0 | VThresholdSmall => 1 | VSubsetSmall => 2 | VBadSubset => 3 end%N.

(* FROST refresh, model <-> implementation: new share - old share (0 for a joiner) must be the
   value of a zero-constant polynomial of degree <= t, i.e. reconstruct to 0 on t+1 nodes *)
Definition frost_deltas (q : Z) (pts old : list (Z * Z)) : list (Z * Z) :=
  map (fun p => (fst p, subm q (snd p) (lookup_share q old (fst p)))) pts.

Definition frost_refresh_agree (q : Z) (t : nat) (pts old : list (Z * Z)) : bool :=
  match old with
  | [] => true
  | _ => forallb (fun s => reconstruct_Zq q s =? 0) (sublists (S t) (frost_deltas q pts old))
  end.

Fixpoint scn_agree (q : Z) (ecdsa : bool) (obs : list sobs) : bool :=
  match obs with
  | [] => true
  | OShares t pts x _ old :: r =>
      (* the model's reconstruction on the first t+1 holders = Go's independent Lagrange code *)
      (reconstruct_Zq q (firstn (S t) pts) =? x) && frost_refresh_agree q t pts old
      && scn_agree q ecdsa r
  | OSign _ coord completed released _ :: r =>
      (* benign in-process transport: the model expects completion; ECDSA: exactly the coordinator
         releases; FROST: every process releases (frost/signing.go processEndMessage) *)
      completed
      && (if ecdsa then only_at coord 0 released else forallb (fun b => b) released)
      && scn_agree q ecdsa r
  end.

Fixpoint list_beq (A : Type) (eqb : A -> A -> bool) (a b : list A) : bool :=
  match a, b with
  | [], [] => true
  | x :: a', y :: b' => eqb x y && list_beq A eqb a' b'
  | _, _ => false
  end.

Definition agree (c : case) : bool :=
  match c with
  | Release coordinator cap _ s n count =>
      (* the reader of the result channel (parked or late) receives exactly one value *)
      match result_channel coordinator tt cap 1 with
      | [Some _] => s && negb n && (count =? 1)%nat
      | [None] => negb s && n && (count =? 1)%nat
      | _ => false
      end
  | Parties ids impl =>
      list_eqb (map (fun e => snd (fst e)) impl) (sort_keys (map pk ids))
  | SortP peers old kind impl =>
      sp_eqb (sort_parties (sort_keys (map pk peers)) (sort_keys (map pk old))) (sp_of_impl kind impl)
  | Validate old_t sub key_peers store impl =>
      N.eqb (vres_code (validate_start_params old_t (map pcode sub) (map pcode key_peers) (map pcode store))) impl
  | Coords k key_peers store impl =>
      same_members (map pcode impl) (coordinator_candidates (pkind k) (map pcode key_peers) (map pcode store))
  | Scenario ecdsa obs => scn_agree secp256k1_n ecdsa obs
  | BtcWatch n rs sent valids =>
      match btc_watch_tx n rs with
      | WSent w => (sent =? 1)%nat && list_beq bool Bool.eqb valids (slots_valid_from 0 w)
      | WWaiting => (sent =? 0)%nat
      | WPanic => false
      end
  | BtcExec _ n relayers =>
      (* benign transport: the threshold+1 = 2 selected relayers sign and send one fully signed
         transaction each, the third one sends nothing *)
      forallb (fun r => (fst r =? 0)%nat
                        || ((fst r =? 1)%nat && list_beq bool Bool.eqb (snd r) (repeat true n))) relayers
      && (List.length (filter (fun r => (fst r =? 1)%nat) relayers) =? 2)%nat
  end.

Definition judge (c : case) : bool :=
  match c with
  | Release coordinator _ _ s _ _ => release_ok coordinator s
  | Parties ids impl =>
      let keys := map (fun e => snd (fst e)) impl in
      forallb (fun e => snd (fst e) =? pk (fst (fst e))) impl     (* key = value of the id string *)
      && strict_asc keys                                          (* sorted, distinct *)
      && idx_ok 0 (map snd impl)                                  (* Index = position *)
      && same_members keys (map pk ids)                           (* a rearrangement of the input *)
  | SortP peers old kind impl =>
      sort_parties_ok (sort_keys (map pk peers)) (sort_keys (map pk old)) (sp_of_impl kind impl)
      && match kind with 0%N => idx_ok 0 (map snd impl) | _ => true end
  | Validate old_t sub key_peers store impl =>
      validate_ok old_t (map pcode sub) (map pcode key_peers) (map pcode store) (N.eqb impl 0)
  | Coords k key_peers store impl =>
      candidates_ok (pkind k) (map pcode key_peers) (map pcode store) (map pcode impl)
  | Scenario ecdsa obs => scn_ok secp256k1_n ecdsa None obs
  | BtcWatch n rs sent valids => btc_sent_ok n sent valids
  | BtcExec must n relayers => btc_exec_ok must n relayers
  end.

Definition tag (c : case) : N :=
  match c with
  | Release coordinator _ _ _ _ _ => if coordinator then 1 else 0
  | Parties _ _ => 2
  | SortP peers old _ _ =>
      match sort_parties (sort_keys (map pk peers)) (sort_keys (map pk old)) with
      | SpOk _ => 3 | SpNilEntries => 4 | SpPanic => 5
      end
  | Validate old_t sub key_peers store _ =>
      6 + vres_code (validate_start_params old_t (map pcode sub) (map pcode key_peers) (map pcode store))
  | Scenario ecdsa obs =>
      (if ecdsa then 10 else 20)
      + (if existsb (fun o => match o with OSign _ _ _ _ _ => true | _ => false end) obs then 1 else 0)
      + (if (1 <? List.length (filter (fun o => match o with OShares _ _ _ _ _ => true | _ => false end) obs))%nat then 2 else 0)
  | BtcWatch n rs _ _ => match btc_watch_tx n rs with WSent _ => 31 | WWaiting => 30 | WPanic => 32 end
  | BtcExec must _ _ => if must then 34 else 33
  | Coords k _ _ _ => 40 + k
  end%N.

Definition check_all := check_cases agree judge tag.
