(* Correspondence run for C03: case = input history + what the real executors did at every op. *)
From Coq Require Import List NArith Bool.
Import ListNotations.
From SygmaV Require Export Lib.RunLib Model.C03 Model.C03_Conc.
Local Open Scope N_scope.

(* [init]: recorded statuses at the start (EVM/Substrate: Done = executed on the destination);
   [uni]: every key occurring in the case; [impl]: one observation per op *)
Inductive case :=
| Hist (ds : dest) (init : store) (uni : list key) (ops : list op) (impl : list obs)
(* concurrent Bitcoin histories over ONE shared prop store: [re] = shared transfers recorded executed at the
   start; per goroutine: its own transfers, its ops, and what it did / saw at every op (the statuses of
   own ++ re).  Judged per goroutine by the sequential judge (Properties/C03.v: C03_conc_complete_thread). *)
| Conc (init : store) (re : list key) (ths : list (list key * list op * list obs)).

Definition th_of (x : list key * list op * list obs) : thread := mkthread (fst (fst x)) (snd (fst x)).

Fixpoint keys_eqb (a b : list key) : bool :=
  match a, b with
  | [], [] => true
  | x :: a', y :: b' => key_eqb x y && keys_eqb a' b'
  | _, _ => false
  end.
Fixpoint sets_eqb (a b : list (list key)) : bool :=
  match a, b with
  | [], [] => true
  | x :: a', y :: b' => keys_eqb x y && sets_eqb a' b'
  | _, _ => false
  end.
Definition same_set (a b : list key) : bool :=
  Nat.eqb (length a) (length b) && forallb (fun k => kmem k b) a && forallb (fun k => kmem k a) b.
Definition pstatus_eqb (a b : pstatus) : bool :=
  match a, b with
  | Missing, Missing | Pending, Pending | Failed, Failed | Done, Done => true
  | _, _ => false
  end.
Fixpoint snap_eqb (a b : list pstatus) : bool :=
  match a, b with
  | [], [] => true
  | x :: a', y :: b' => pstatus_eqb x y && snap_eqb a' b'
  | _, _ => false
  end.

(* EVM: the batches, concatenated, are the selection in order (how they are cut is C14's subject);
   Substrate: exactly the model's sessions; Bitcoin: one transaction per resource, same transfers *)
Definition obs_agree (ds : dest) (m i : obs) : bool :=
  N.eqb (o_err m) (o_err i)
  && match ds with
     | EVM => keys_eqb (concat (o_sets m)) (concat (o_sets i))
     | SUB => sets_eqb (o_sets m) (o_sets i)
     | BTC => same_set (concat (o_sets m)) (concat (o_sets i))
     end
  && snap_eqb (o_snap m) (o_snap i).

Fixpoint all_agree (ds : dest) (m i : list obs) : bool :=
  match m, i with
  | [], [] => true
  | x :: m', y :: i' => obs_agree ds x y && all_agree ds m' i'
  | _, _ => false
  end.

Definition agree (c : case) : bool :=
  match c with
  | Hist ds init uni ops impl =>
      wf_ops uni ops && all_agree ds (model_obs ds uni (mkstate init []) ops) impl
  | Conc init re ths =>
      conc_wf init re (map th_of ths)
      && forallb (fun x => all_agree BTC (solo init re (th_of x)) (snd x)) ths
  end.

Definition judge (c : case) : bool :=
  match c with
  | Hist ds init uni ops impl => hist_ok ds uni (combine uni (snapshot uni init)) ops impl
  | Conc init re ths => forallb (fun x => thread_ok init re (th_of x) (snd x)) ths
  end.

(* branch tag: destination x (something signed?) x (some delivery refused with an error / panic?) *)
Definition tag (c : case) : N :=
  match c with
  | Hist ds init uni ops _ =>
      let tr := trace ds (mkstate init []) ops in
      (match ds with EVM => 0 | SUB => 4 | BTC => 8 end)
      + (if existsb (fun x => negb (is_nil (signed_of (snd x)))) tr then 1 else 0)
      + (if existsb (fun x => match snd x with Ok _ => false | _ => true end) tr then 2 else 0)
  | Conc init re ths => 12 + N.min 8 (N.of_nat (length ths))
  end.

Definition check_all := check_cases agree judge tag.
