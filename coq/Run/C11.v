(* Correspondence run for C11: case = input + what the real Go code did. *)
From Coq Require Import List ZArith NArith Bool.
Import ListNotations.
From SygmaV Require Export Lib.RunLib Model.C07 Model.C11.

Definition key_of (keys : list N) (p : peer) : N := nth (N.to_nat p) keys 0%N.

Inductive case :=
(* the first Run of the first attempt returns an injected error; [e] is the value handleError sees;
   [tm] = the configured CoordinatorTimeout / TssTimeout in ms; [m] = size of the peer table;
   [unreach]: from the failure on every Broadcast that addresses one of these peers returns a
   CommunicationError; [msgs2] carry the time (ms after the wait began) before which the runner does
   not deliver them; [bs]: what arrives during the bully election (after this relayer's own announcement),
   in arrival order, from candidates, excluded culprits and peers without key *)
| Fail (keys : list N) (tm : timing) (m : nat) (holders : list peer) (t : Z) (self : peer) (pk : proc_kind) (impl_retryable : bool)
       (ready1 start1 : list peer) (e : err) (unreach : list peer)
       (bs : list bmsg) (ready2 : list peer) (msgs2 : list (N * wmsg)) (impl : obs)
(* the coordinator of the first attempt sends no start message: the failure is the implementation's own
   CoordinatorError after CoordinatorTimeout; [msgs1] = what arrives meanwhile (forged traffic of other
   peers, the coordinator's initiate messages), with arrival times; [impl_ready1] = the ready messages
   of the first attempt *)
| Silent (keys : list N) (tm : timing) (m : nat) (holders : list peer) (t : Z) (self : peer) (pk : proc_kind) (impl_retryable : bool)
         (msgs1 : list (N * wmsg)) (unreach : list peer)
         (bs : list bmsg) (ready2 : list peer) (msgs2 : list (N * wmsg)) (impl_ready1 : list peer) (impl : obs)
(* two real relayers over one network: [a] coordinates (ready stream [ready1]), [c] is another key
   holder; [msgs2] are offered to [c] after it was left out *)
| Duo (keys : list N) (tm : timing) (m : nat) (holders : list peer) (t : Z) (a c : peer)
      (ready1 : list peer) (msgs2 : list (N * wmsg)) (impl_a impl_c : obs)
(* a case the RUNNER could not drive (the scripted election messages could not be handed over within the
   election window even at its longest, one of its waits ran into a shortened deadline - recorded as
   harness_error): what was recorded says nothing about the code under test.  Never judged (the judge
   abstains), always a broken correspondence ([agree] fails). *)
| Undriven (c : case)
(* a relayer of a session with REAL signing processes (the real ECDSA / FROST Signing object on the fixture
   key shares, the same object for all attempts, over an in-memory network): [c] is its Fail case - the
   cause is the one the network injected (a failed send of a round message, a dead subset member, a
   round message that makes the real party blame its sender) or the real process's SubsetError; [live] =
   the key holders that are real relayers; [sig]: did its replacement attempt complete (coordinator: with a
   signature that verifies under the group key): 0 = the runner did not wait, 1 = yes, 2 = no *)
| Real (c : case) (live : list peer) (sig : N).

Definition run_eqb (a b : bool * list peer) : bool := Bool.eqb (fst a) (fst b) && list_peer_eqb (snd a) (snd b).
Fixpoint runs_eqb (a b : list (bool * list peer)) : bool :=
  match a, b with
  | [], [] => true
  | x :: a', y :: b' => run_eqb x y && runs_eqb a' b'
  | _, _ => false
  end.
Fixpoint calls_eqb (a b : list (list peer * list peer)) : bool :=
  match a, b with
  | [], [] => true
  | x :: a', y :: b' => list_peer_eqb (fst x) (fst y) && list_peer_eqb (snd x) (snd y) && calls_eqb a' b'
  | _, _ => false
  end.
Fixpoint lists_eqb (a b : list (list peer)) : bool :=
  match a, b with
  | [], [] => true
  | x :: a', y :: b' => list_peer_eqb x y && lists_eqb a' b'
  | _, _ => false
  end.

(* addressee lists are compared as the runner canonicalises them: sorted by peer number *)
Definition obs_eqb (a b : obs) : bool :=
  runs_eqb (o_runs a) (o_runs b) && opt_list_eqb (o_elected a) (o_elected b)
  && calls_eqb (o_calls2 a) (o_calls2 b) && list_peer_eqb (o_ready2 a) (o_ready2 b)
  && N.eqb (o_final a) (o_final b)
  && lists_eqb (o_inits2 a) (o_inits2 b) && calls_eqb (o_starts a) (o_starts b).

(* [br]: the election's outcome rule *)
Fixpoint model_with (br : (peer -> N) -> peer -> list bmsg -> list peer -> peer) (c : case) : obs :=
  match c with
  | Real c' _ _ => model_with br c'
  | Fail keys tm m holders t self pk _ ready1 start1 e _ bs ready2 msgs2 _ =>
      session (key_of keys) tm m (br (key_of keys)) classify holders t self (retryable_of pk) ready1 start1 e bs ready2 msgs2
  | Silent keys tm m holders t self pk _ msgs1 _ bs ready2 msgs2 _ _ =>
      session_silent (key_of keys) tm m (br (key_of keys)) classify holders t self (retryable_of pk) msgs1 bs ready2 msgs2
  | Duo keys tm m holders t a c ready1 msgs2 _ _ =>
      duo_c (key_of keys) tm m (br (key_of keys)) classify holders t a c ready1 msgs2
  | Undriven _ => mkObs [] None [] [] 0 [] []
  end.

(* the election rule as coded (a peer outside the candidate list ranks level with the first candidate) *)
Definition model (c : case) : obs := model_with bully_coded c.
(* the repaired rule (messages of peers outside the candidate list are dropped); the two differ only on
   cases in which such a peer announces itself to a relayer whose current coordinator is not the first
   candidate - there the judge rejects what the rule as coded does *)
Definition model_repaired (c : case) : obs := model_with bully_strict c.

Definition agree_obs (c : case) (impl : obs) : bool :=
  obs_eqb (model c) impl || obs_eqb (model_repaired c) impl.

Definition agree (c : case) : bool :=
  match c with
  | Fail _ _ _ _ _ _ pk r _ _ _ _ _ _ _ impl => Bool.eqb (retryable_of pk) r && agree_obs c impl
  | Silent keys tm _ holders _ _ pk r msgs1 _ _ _ _ ready1 impl =>
      Bool.eqb (retryable_of pk) r && agree_obs c impl
      && list_peer_eqb (silent_readies (key_of keys) tm holders msgs1) ready1
  | Duo keys _ m holders t a _ ready1 _ impl_a impl_c =>
      obs_eqb (duo_a (key_of keys) m holders t a ready1) impl_a && agree_obs c impl_c
  | Undriven _ => false
  | Real c' _ sig =>
      (* on the unchanged code every scenario's replacement attempt completes *)
      negb (N.eqb sig SigMissing) &&
      match c' with
      | Fail _ _ _ _ _ _ pk r _ _ _ _ _ _ _ impl => Bool.eqb (retryable_of pk) r && agree_obs c' impl
      | _ => false
      end
  end.

Definition judge (c : case) : bool :=
  match c with
  | Real (Fail keys tm m holders t self pk _ ready1 start1 e unreach bs ready2 msgs2 impl) live sig =>
      match o_runs impl with
      | [] => true
      | _ :: _ => real_ok (mkEnv tm holders t self unreach ready2 msgs2) live (retryable_of pk) e 1 impl sig
                  && indep_ok (mkEnv tm holders t self unreach ready2 msgs2) (retryable_of pk) e 1 impl
      end
  | Real _ _ _ => true
  | Fail keys tm m holders t self pk _ ready1 start1 e unreach bs ready2 msgs2 impl =>
      match o_runs impl with
      | [] => true                      (* the first attempt never ran: nothing failed *)
      | _ :: _ => spec_ok (mkEnv tm holders t self unreach ready2 msgs2) (retryable_of pk) e 1 impl
                  (* whatever the excluded culprits send during the election and the replacement attempt *)
                  && indep_ok (mkEnv tm holders t self unreach ready2 msgs2) (retryable_of pk) e 1 impl
      end
  | Silent keys tm m holders t self pk _ msgs1 unreach bs ready2 msgs2 _ impl =>
      match coordinator (key_of keys) holders with
      | Some c => silent_ok (mkEnv tm holders t self unreach ready2 msgs2) (retryable_of pk) c msgs1 impl
      | None => true
      end
  | Duo keys tm m holders t a c ready1 msgs2 impl_a impl_c =>
      duo_ok (mkEnv tm holders t c [] [] msgs2) a impl_a impl_c
  | Undriven _ => true
  end.

Definition outcome_tag (o : outcome) : N :=
  match o with Returned => 0 | ReturnedDecodeErr => 1 | Retried _ _ => 2 | Waited => 3 end.

Definition tag (c : case) : N :=
  match c with
  | Fail keys tm m holders t self pk _ ready1 start1 e unreach bs ready2 msgs2 _ =>
      (outcome_tag (after_failure (retryable_of pk) holders e)
       + (if opt_peer_eqb (coordinator (key_of keys) holders) self then 0 else 4)
       + (match bs with [] => 0 | _ => 8 end)
       (* 2048 = a peer that is not an election candidate takes part in the election, 4096 = the rule as
          coded lets it win *)
       + (match after_failure (retryable_of pk) holders e with
          | Retried cands _ =>
              (if forallb (from_candidate cands) bs then 0 else 2048)
              + (if bully_guarded (bully_coded (key_of keys) self bs cands) self cands then 0 else 4096)
          | _ => 0
          end)
       (* left out: 32 = a start message arrives between the two timeouts, 64 = after the TSS timeout *)
       + (match after_failure (retryable_of pk) holders e with
          | Waited =>
              (if existsb (fun x : N * wmsg => match snd x with
                                               | MStart _ (Some _) => (coord_to tm <=? fst x)%N && (fst x <? tss_to tm)%N
                                               | _ => false end) msgs2 then 32 else 0)
              + (if snd (left_out_wait tm msgs2) then 64 else 0)
          | _ => 0
          end)
       (* 128 = some peers cannot be reached from the failure on *)
       + (match unreach with [] => 0 | _ => 128 end))%N
  | Silent keys tm m holders t self pk _ msgs1 unreach _ _ _ _ _ =>
      match silent_error (key_of keys) holders with
      | Some e => (16 + outcome_tag (after_failure (retryable_of pk) holders e)
                   (* 256 = traffic during the first attempt, 512 = unresponsive in the specification's sense *)
                   + (match msgs1 with [] => 0 | _ => 256 end)
                   + (match coordinator (key_of keys) holders with
                      | Some c => if coordinator_unresponsive tm c msgs1 then 512 else 0
                      | None => 0 end)
                   + (match unreach with [] => 0 | _ => 128 end))%N
      | None => 31%N
      end
  | Duo keys tm m holders t a c ready1 msgs2 _ _ =>
      (1024 + match duo_subset (key_of keys) holders t a ready1 with
              | Some sub => if memb c sub then 1 else 2
              | None => 0
              end)%N
  | Undriven _ => 8191
  | Real _ _ sig => (16384 + sig)%N
  end.

Definition check_all := check_cases agree judge tag.
