(* Correspondence run for C17: case = initial store + fault schedule + operations, and what the
   real Go code did after every operation. *)
From Coq Require Import List NArith Bool.
Import ListNotations.
From SygmaV Require Export Lib.RunLib Model.C17.
Local Open Scope N_scope.

Inductive case :=
(* also the scripted interleavings (two operations on the same proposals meeting inside a call, made by two
   goroutines on one executor): the operations in the order in which they COMPLETED, with the store
   contents after each - an admissible outcome is the atomic model of that order
   (C17_script_judge_accepts / C17_script_executed_absorbing) *)
| Hist (init : kv) (faults : list bool) (ops : list op) (impl : list obs)
(* a history on ONE long-lived executor object: [lives] says which deliveries were whole
   Executor.Execute calls that failed before the broadcast and have returned (nothing of them is in
   progress any more); judged by the retry/executed judge AND the redelivery judge (Model/C17.v
   redeliver_ok, C17_model_redelivers / C17_judge_released_redelivered) *)
| HistX (init : kv) (faults : list bool) (ops : list op) (lives : list bool) (impl : list obs)
(* a history of whole Execute calls on ONE long-lived EVM / Substrate executor object, each failing
   before the broadcast at the given place: per call the proposals handed to ProposalsHash *)
| XHist (k : xkind) (executed : list key) (steps : list xstep)
(* goroutines sharing one store: per thread its own keys, fault schedule, operations and what it
   observed (store contents: the keys it can name); the whole store at the end; the number of store
   calls / entries with a key the calling thread cannot name *)
| Conc (init : kv) (RE RO : list key) (threads : list (list key * list bool * list op * list obs))
       (fin : kv) (stray : nat)
(* thorough tier: generated concurrent cases in a child process built with the race detector; [races] =
   reports that involve the relayer's own code.  Supporting evidence only: never a judge rejection. *)
| RaceRun (ran : bool) (races : nat).

Definition op_keys (o : op) : list key :=
  match o with
  | Retry _ src _ _ ds => map (dkey src) ds
  | Deliver ks => ks
  | _ => []
  end.

Definition universe (init : kv) (ops : list op) : list key := map fst init ++ flat_map op_keys ops.

Fixpoint keys_eqb (a b : list key) : bool :=
  match a, b with
  | [], [] => true
  | x :: a', y :: b' => key_eqb x y && keys_eqb a' b'
  | _, _ => false
  end.

Definition status_eqb (a b : status) : bool :=
  match a, b with
  | Missing, Missing | Pending, Pending | Failed, Failed | Executed, Executed => true
  | _, _ => false
  end.

(* [agree] compares a retry's output with the model's IN ORDER (the model follows the code's order);
   the judge ([hist_ok] -> [judge_step]) compares it with the expected deposits as a multiset only: the
   order inside the re-emitted batch is not part of the property *)
Definition out_eqb (a b : out) : bool :=
  match a, b with
  | ORetry x, ORetry y => deps_eqb x y
  | ODeliver None, ODeliver None => true
  | ODeliver (Some x), ODeliver (Some y) => keys_eqb x y
  | OExec, OExec => true
  | OStuck, OStuck => true
  | _, _ => false
  end.

Definition obs_eqb (univ : list key) (a b : obs) : bool :=
  match a, b with
  | (oa, fa, ma), (ob, fb, mb) =>
      out_eqb oa ob && keys_eqb fa fb && forallb (fun k => status_eqb (get ma k) (get mb k)) univ
  end.

Fixpoint all_obs_eqb (univ : list key) (a b : list obs) : bool :=
  match a, b with
  | [], [] => true
  | x :: a', y :: b' => obs_eqb univ x y && all_obs_eqb univ a' b'
  | _, _ => false
  end.

Definition th_own (t : list key * list bool * list op * list obs) : list key := fst (fst (fst t)).
Definition th_thread (t : list key * list bool * list op * list obs) : thread :=
  mkThread (init_state [] (snd (fst (fst t)))) (snd (fst t)).

Definition agree (c : case) : bool :=
  match c with
  | Hist init faults ops impl =>
      forallb wf_op ops && all_obs_eqb (universe init ops) (run ops (init_state init faults)) impl
  | HistX init faults ops _ impl =>
      forallb wf_op ops && all_obs_eqb (universe init ops) (run ops (init_state init faults)) impl
  | XHist _ executed steps =>
      forallb (fun s => negb (x_hung s) && keys_eqb (xexec executed (x_keys s) (x_fail s)) (x_hashed s)) steps
  | Conc init RE RO threads fin stray =>
      (* the layout the theorems need; every thread saw what the sequential model sees alone
         (C17_conc_projection); the whole store at the end is the union of the per-thread models and
         holds no other key *)
      conc_wf (map th_own threads) RE RO init (map th_thread threads)
      && Nat.eqb stray 0
      && forallb (fun t => match t with (K, faults, ops, impl) =>
                   let V := K ++ RE ++ RO in
                   let x0 := init_state init faults in
                   all_obs_eqb V (run ops x0) impl
                   && forallb (fun k => status_eqb (get fin k) (get (s_kv (st (final ops x0))) k)) V
                 end) threads
      && forallb (fun e => memk (fst e) (flat_map th_own threads ++ RE ++ RO)) fin
  | RaceRun _ races => Nat.eqb races 0
  end.

Definition judge (c : case) : bool :=
  match c with
  | Hist init faults ops impl => hist_ok (universe init ops) init ops impl
  | HistX init faults ops lives impl =>
      hist_ok (universe init ops) init ops impl && redeliver_ok init jinit ops lives impl
  | XHist _ executed steps =>
      forallb (fun s => xdeliver_ok executed (x_keys s) (x_fail s) (x_hung s) (x_hashed s)) steps
  | Conc init RE RO threads fin _ =>
      (* per thread: the sequential judge on its own history, and what it last saw executed is executed
         at the end (C17_conc_judge_accepts: so it is in every interleaving of the model) *)
      forallb (fun t => match t with (K, faults, ops, impl) => thread_judge (K ++ RE ++ RO) init ops impl fin end) threads
  | RaceRun _ _ => true
  end.

(* model branches reached by the history: bit 0 a retry re-emitted something, bit 1 a retry withheld
   a selected deposit, bit 2 a delivery failed on a store error, bit 3 a store call failed,
   bit 4 some proposal is executed at the end, bit 5 a concurrent case *)
Definition tag (c : case) : N :=
  match c with
  | XHist k _ steps =>
      256 + (match k with Xevm => 0 | Xsub => 1 end)
      + (if existsb (fun s => match xexec [] (x_keys s) (x_fail s) with [] => true | _ => false end) steps then 2 else 0)
  | RaceRun _ _ => 64
  | Conc init RE RO threads _ _ =>
      32 + (if existsb (fun t => match t with (_, faults, ops, _) =>
                          existsb (fun ob => match ob with (ORetry (_ :: _), _, _) => true | _ => false end)
                                  (run ops (init_state init faults)) end) threads then 1 else 0)
         + (if existsb (fun t => match t with (_, faults, ops, _) =>
                          existsb (fun ob => match ob with (_, _ :: _, _) => true | _ => false end)
                                  (run ops (init_state init faults)) end) threads then 8 else 0)
  | HistX init faults ops lives _ =>
      let r := run ops (init_state init faults) in
      (if existsb (fun b : bool => b) lives then 128 else 0)
      + (if existsb (fun ob => match ob with (ORetry (_ :: _), _, _) => true | _ => false end) r then 1 else 0)
      + (if existsb (fun ob => match ob with (ODeliver None, _, _) => true | _ => false end) r then 4 else 0)
      + (if existsb (fun ob => match ob with (_, _ :: _, _) => true | _ => false end) r then 8 else 0)
      + (match rev r with
         | (_, _, m) :: _ => if existsb (fun k => is_exec (get m k)) (universe init ops) then 16 else 0
         | [] => 0
         end)
  | Hist init faults ops _ =>
      let r := run ops (init_state init faults) in
      (if existsb (fun ob => match ob with (ORetry (_ :: _), _, _) => true | _ => false end) r then 1 else 0)
      + (if existsb (fun ob => match ob with (ODeliver None, _, _) => true | _ => false end) r then 4 else 0)
      + (if existsb (fun ob => match ob with (_, _ :: _, _) => true | _ => false end) r then 8 else 0)
      + (match rev r with
         | (_, _, m) :: _ => if existsb (fun k => is_exec (get m k)) (universe init ops) then 16 else 0
         | [] => 0
         end)
  end.

Definition check_all := check_cases agree judge tag.
