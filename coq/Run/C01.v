(* Correspondence run for C01: case = (source kind, destination kind, deposit) + what the real
   deposit handler followed by the real destination message handler produced. *)
From Coq Require Import List NArith ZArith Bool String.
From Coq.Strings Require Import Byte.
Import ListNotations.
From SygmaV Require Export Lib.RunLib Lib.Hex Lib.C01_Bytes Model.C01.
Local Open Scope N_scope.

Definition hx (s : string) : bytes := bytes_of_Ns (unhex s).

(* the deposit, byte strings as hex literals *)
Definition dep (src dst nonce : N) (rid data hr : string) (amount : N) : deposit :=
  mkDep src dst nonce (hx rid) (hx data) (hx hr) amount.

Inductive iobs :=
| IProp (src dst nonce : N) (rid : string) (gas : option N) (data : string)          (* proposal with byte data *)
| IBtc (src dst nonce : N) (rid : string) (amount : N) (recipient : string)          (* BTC proposal *)
| IErr | IPanic.

Definition to_res (o : iobs) : res proposal :=
  match o with
  | IProp s d n r g x => Ok (mkProp s d n (hx r) g (DBytes (hx x)))
  | IBtc s d n r a x => Ok (mkProp s d n (hx r) None (DBtc a (hx x)))
  | IErr => Err
  | IPanic => Panic
  end.

Inductive case := Case (sk : skind) (dk : dkind) (d : deposit) (impl : iobs).

Definition agree (c : case) : bool :=
  match c with
  | Case sk dk d impl =>
      match relay sk dk d, to_res impl with
      | Unspec, Panic => true    (* a slice bound between len and cap: the runner passes slices whose
                                    capacity equals their length, so Go panics there *)
      | Ok p, Ok q => proposal_eqb p q
      | Err, Err => true
      | Panic, Panic => true
      | _, _ => false
      end
  end.

Definition judge (c : case) : bool :=
  match c with Case sk dk d impl => spec_ok sk dk d (to_res impl) end.

Definition tag (c : case) : N :=
  match c with
  | Case sk dk d _ =>
      (match sk with SErc20 => 0 | SErc721 => 1 | SErc1155 => 2 | SGeneric => 3 | SSub => 4 | SBtc => 5 end) * 20
      + (match dk with DEvm => 0 | DSub => 1 | DBtcK => 2 end) * 5
      + (if wf sk dk d then 0 else
         match relay sk dk d with Ok _ => 1 | Err => 2 | Panic => 3 | Unspec => 4 end)
  end.

Definition check_all := check_cases agree judge tag.
