(* Correspondence run for C01: case = (source kind, destination kind, deposit) + what the real
   deposit handler followed by the real destination message handler produced. *)
From Coq Require Import List NArith ZArith Bool String.
From Coq.Strings Require Import Byte.
Import ListNotations.
From SygmaV Require Export Lib.RunLib Lib.Hex Lib.C01_Bytes Model.C01.
Local Open Scope N_scope.

Definition hx (s : string) : bytes := bytes_of_Ns (unhex s).

(* the deposit, byte strings as hex literals *)
Definition dep (src dst nonce : N) (rid data hr : string) (amount : N) : deposit :=
  mkDep src dst nonce (hx rid) (hx data) (hx hr) amount.

Inductive iobs :=
| IProp (src dst nonce : N) (rid : string) (gas : option N) (data : string)          (* proposal with byte data *)
| IBtc (src dst nonce : N) (rid : string) (amount : N) (recipient : string)          (* BTC proposal *)
| IErr | IPanic.

Definition to_res (o : iobs) : res proposal :=
  match o with
  | IProp s d n r g x => Ok (mkProp s d n (hx r) g (DBytes (hx x)))
  | IBtc s d n r a x => Ok (mkProp s d n (hx r) None (DBtc a (hx x)))
  | IErr => Err
  | IPanic => Panic
  end.

(* Case: one deposit through fresh handler objects.
   Seq: a history over ONE set of long-lived objects (Listener / ETHDepositHandler per source chain, substrate
   and btc deposit handlers, one message handler per destination): the pool of deposits, and for every step in
   which a deposit was handled: (pool index, was the lookup/fetch made to fail, the readings of the proposal
   prepared for it - right after it was built, when its batch was written, at the end). *)
Inductive case :=
| Case (sk : skind) (dk : dkind) (d : deposit) (impl : iobs)
| Seq (pool : list (skind * dkind * deposit)) (readings : list iobs) (occs : list (nat * bool * list nat)).

(* the distinct readings of a history are listed once (decoded once); a step refers to them by index *)
Definition to_occ (tbl : list (res proposal)) (o : nat * bool * list nat) : occ :=
  mkOcc (fst (fst o)) (snd (fst o)) (map (fun k => nth k tbl Panic) (snd o)).
Definition to_occs (readings : list iobs) (occs : list (nat * bool * list nat)) : list occ :=
  let tbl := map to_res readings in map (to_occ tbl) occs.

Definition agree (c : case) : bool :=
  match c with
  | Case sk dk d impl =>
      match relay sk dk d, to_res impl with
      | Unspec, Panic => true    (* a slice bound between len and cap: the runner passes slices whose
                                    capacity equals their length, so Go panics there *)
      | Ok p, Ok q => proposal_eqb p q
      | Err, Err => true
      | Panic, Panic => true
      | _, _ => false
      end
  | Seq pool readings occs => seq_agree pool (to_occs readings occs)
  end.

(* Seq: the per-deposit judge on every reading of every step (seq_ok_fast = seq_ok = forallb of spec_ok,
   Properties/C01.v: C01_seq_judge_pointwise) *)
Definition judge (c : case) : bool :=
  match c with
  | Case sk dk d impl => spec_ok sk dk d (to_res impl)
  | Seq pool readings occs => seq_ok_fast pool (to_occs readings occs)
  end.

Definition tag (c : case) : N :=
  match c with
  | Case sk dk d _ =>
      (match sk with SErc20 => 0 | SErc721 => 1 | SErc1155 => 2 | SGeneric => 3 | SSub => 4 | SBtc => 5 end) * 20
      + (match dk with DEvm => 0 | DSub => 1 | DBtcK => 2 end) * 5
      + (if wf sk dk d then 0 else
         match relay sk dk d with Ok _ => 1 | Err => 2 | Panic => 3 | Unspec => 4 end)
  | Seq pool _ occs => 200 + N.min 40 (N.of_nat (List.length occs))
  end.

Definition check_all := check_cases agree judge tag.
