(* Correspondence run for C20: case = what was written + what the real loaders did with it. *)
From Coq Require Import List ZArith NArith Bool String.
Import ListNotations.
From SygmaV Require Export Lib.RunLib Lib.Hex Model.C20 Model.C20Num Model.C20Hist Model.C20Elapsed.
Local Open Scope Z_scope.

Inductive case :=
| Port (text : string) (impl : option Z)              (* HealthPort / MpcConfig.Port, file or env loader *)
| Dur (text : string) (impl : option Z)               (* a duration field; impl in nanoseconds *)
(* NewEVMConfig / NewSubstrateConfig / NewBtcConfig (the written chain id, interval, confirmations, start
   block; what the constructed config holds) and the first start-block computation; [after] = what
   the config object holds after it was USED as the application uses it (interval pointer handed to
   chains.CalculateStartingBlock repeatedly, String()), compared field by field and by value with a
   snapshot taken right after loading, and the results of the later start-block computations *)
| Chain (c : chain_in) (impl : chain_obs) (after : option chain_after)
(* the same constructors / loaders on a chain entry whose keys are written in other spellings (Id, ID, iD,
   BLOCKINTERVAL, ...) or under several spellings at once: the entry as written (key spelling + value of
   the id, the type and the numeric settings) *)
| ChainDoc (d : chain_doc) (impl : chain_obs) (after : option chain_after)
| Net (v : Z) (impl : option Z)                        (* substrateNetwork through NewSubstrateConfig *)
| Merge (locals shared : list obj) (impl : option (list obj))    (* processRawConfig *)
(* a HISTORY of loads in one process against the SAME maps of a shared configuration (the document
   [shared] as the caller wrote it): per load the local document, what the loader returned - the chain
   entries read one after the other, in some cases each one CHANGED by the caller right after it was
   read - and whether the caller's shared maps still equalled a copy taken before the history;
   [still] = at the end every earlier result held what it held when the runner left it *)
| MergeHist (shared : list obj) (loads : list (list obj * option (list obj) * bool)) (still : bool)
(* string / bool / list settings of the relayer configuration or of one chain configuration, written
   through the file or env loader (chains also: handed to the constructor directly): rule and written
   text per setting, and the values found in the loaded configuration *)
| Strs (ws : list (str_rule * option string)) (impl : option (list string))
| Level (text : string) (impl : option string)                  (* LogLevel; impl = Level.String() *)
(* ONE numeric setting of a chain entry (Model/C20Num.v: every numeric / duration field of RawEVMConfig,
   RawSubstrateConfig, RawBtcConfig) written as an integer (handed over exactly or as a float64), a
   fraction, a string or a bool, or left out; through the constructor directly or the file / env loader;
   impl = the value NewXConfig holds for it (a rational; blockRetryInterval in nanoseconds) *)
| NumField (k : chain_kind) (f : nfname) (w : wnum) (impl : option nval)
(* the feeAmount STRING of a BTC resource; impl = Resource.FeeAmount *)
| Fee (text : string) (impl : option Z)
(* a relayer port written in another spelling than the canonical decimal (zero padded, 0x / 0o / 0b, '_') *)
| PortText (text : string) (impl : option Z)
(* uploaderConfig.maxRetries of the relayer section of a config FILE (viper.Unmarshal: weakly typed):
   written as a number, a fraction, a string, a bool, or left out; impl = UploaderConfig.MaxRetries *)
| Retries (w : wnum) (impl : option nval)
(* uploaderConfig.maxElapsedTime (a time.Duration) of the same section, written as a number (of
   nanoseconds), a fraction, a duration string, a bool, or left out; impl = the loaded nanoseconds *)
| Elapsed (w : wnum) (impl : option Z).

(* texts that are not printable ASCII are written by the runner as [hs "<hex of the UTF-8 bytes>"] *)
Definition hs (h : string) : string := string_of_bytes (unhex h).

Definition opt_string_eqb (a b : option string) : bool :=
  match a, b with
  | Some x, Some y => String.eqb x y
  | None, None => true
  | _, _ => false
  end.

Fixpoint strings_eqb (a b : list string) : bool :=
  match a, b with
  | [], [] => true
  | x :: a', y :: b' => String.eqb x y && strings_eqb a' b'
  | _, _ => false
  end.

Definition opt_Z_eqb (a b : option Z) : bool :=
  match a, b with
  | Some x, Some y => x =? y
  | None, None => true
  | _, _ => false
  end.

Definition opt_nval_eqb (a b : option nval) : bool :=
  match a, b with
  | Some x, Some y => nval_eqb x y
  | None, None => true
  | _, _ => false
  end.

Definition calc_eqb (a b : calc) : bool :=
  match a, b with
  | Val x, Val y => x =? y
  | Panic, Panic => true
  | _, _ => false
  end.

Definition chain_obs_eqb (a b : chain_obs) : bool :=
  match a, b with
  | Some (c1, r1), Some (c2, r2) =>
      (cc_id c1 =? cc_id c2) && (cc_interval c1 =? cc_interval c2) && (cc_confs c1 =? cc_confs c2)
      && (cc_start c1 =? cc_start c2) && calc_eqb r1 r2
  | None, None => true
  | _, _ => false
  end.

Fixpoint calcs_eqb (a b : list calc) : bool :=
  match a, b with
  | [], [] => true
  | x :: a', y :: b' => calc_eqb x y && calcs_eqb a' b'
  | _, _ => false
  end.

Definition after_eqb (a b : option chain_after) : bool :=
  match a, b with
  | Some x, Some y =>
      chain_cfg_eqb (ca_cfg x) (ca_cfg y) && Bool.eqb (ca_rest_same x) (ca_rest_same y)
      && calcs_eqb (ca_calcs x) (ca_calcs y)
  | None, None => true
  | _, _ => false
  end.

Definition n_calcs (a : option chain_after) : nat :=
  match a with Some af => List.length (ca_calcs af) | None => O end.

Definition obj_eqb (a b : obj) : bool :=
  forallb (fun kv : string * jv => opt_jv_eqb (lookup (fst kv) b) (Some (snd kv))) a
  && forallb (fun kv : string * jv => opt_jv_eqb (lookup (fst kv) a) (Some (snd kv))) b.

Fixpoint objs_eqb (a b : list obj) : bool :=
  match a, b with
  | [], [] => true
  | x :: a', y :: b' => obj_eqb x y && objs_eqb a' b'
  | _, _ => false
  end.

Definition agree (c : case) : bool :=
  match c with
  | Port t impl => opt_Z_eqb (parse_port t) impl
  | Dur t impl => opt_Z_eqb (parse_duration t) impl
  | Chain ci impl after =>
      chain_obs_eqb (model_chain ci) impl
      && after_eqb (model_after (model_chain ci) (n_calcs after)) after
  (* two spellings of one key, neither the exact one: the decoder takes the one Go's (random) map order
     puts first - the model on the entry as listed or listed in the opposite order *)
  | ChainDoc d impl after =>
      (chain_obs_eqb (model_doc d) impl
       && after_eqb (model_after (model_doc d) (n_calcs after)) after)
      || (chain_obs_eqb (model_doc (rev_doc d)) impl
          && after_eqb (model_after (model_doc (rev_doc d)) (n_calcs after)) after)
  | Net v impl => opt_Z_eqb (parse_net v) impl
  | Merge l s impl =>
      match process l s, impl with
      | Some a, Some b => objs_eqb a b
      | None, None => true
      | _, _ => false
      end
  (* the model of every load is [process] on the documents as written; the loaders leave the caller's
     shared maps and the earlier results alone *)
  | MergeHist s loads still =>
      forallb (fun x : list obj * option (list obj) * bool =>
                 snd x && match process (fst (fst x)) s, snd (fst x) with
                          | Some a, Some b => objs_eqb a b
                          | None, None => true
                          | _, _ => false
                          end) loads && still
  | Strs ws impl =>
      match load_strings ws, impl with
      | Some a, Some b => strings_eqb a b
      | None, None => true
      | _, _ => false
      end
  | Level t impl => opt_string_eqb (parse_level t) impl
  | NumField k f w impl => opt_nval_eqb (model_num k f w) impl
  | Fee t impl => opt_Z_eqb (parse_fee t) impl
  | PortText t impl => opt_Z_eqb (parse_port0 t) impl
  | Retries w impl => opt_nval_eqb (model_retries w) impl
  | Elapsed w impl => opt_Z_eqb (model_elapsed w) impl
  end.

Definition judge (c : case) : bool :=
  match c with
  | Port t impl => port_ok t impl
  | Dur t impl => duration_ok t impl
  | Chain ci impl after => chain_ok ci impl && use_ok impl after
  | ChainDoc d impl after => doc_ok d impl && use_ok impl after
  | Net v impl => net_ok v impl
  | Merge l s impl => merge_ok l s impl
  (* the specification of one load for EVERY load of the history, against the shared document as written
     (C20_loadhist_every_load) *)
  | MergeHist s loads still => merge_hist_ok s (map (fun x : list obj * option (list obj) * bool => fst x) loads)
  | Strs ws impl => strs_ok ws impl
  | Level t impl => level_ok t impl
  | NumField k f w impl => num_ok k f w impl
  | Fee t impl => fee_ok t impl
  (* the port syntax is Go's base-0 syntax: the text is read as that syntax reads it *)
  | PortText t impl => port0_ok t impl
  | Retries w impl => retries_ok w impl
  | Elapsed w impl => elapsed_ok w impl
  end.

Definition some_b {A} (o : option A) : N := match o with Some _ => 1%N | None => 0%N end.

Definition tag (c : case) : N :=
  match c with
  | Port t _ => (0 + some_b (parse_port t))%N
  | Dur t _ => (2 + some_b (parse_duration t))%N
  | Chain ci _ _ =>
      (4 + 2 * match ci_kind ci with Evm => 0 | Sub => 1 | Btc => 2 end + some_b (model_chain ci))%N
  | ChainDoc d _ _ => (18 + some_b (model_doc d))%N
  | Net v _ => (12 + some_b (parse_net v))%N
  | Merge l s _ => (10 + some_b (process l s))%N
  | Strs ws _ => (14 + some_b (load_strings ws))%N
  | Level t _ => (16 + some_b (parse_level t))%N
  | NumField k f w _ => (20 + some_b (model_num k f w))%N
  | Fee t _ => (22 + some_b (parse_fee t))%N
  | PortText t _ => (24 + some_b (parse_port0 t))%N
  | Retries w _ => (26 + some_b (model_retries w))%N
  | Elapsed w _ => (30 + some_b (model_elapsed w))%N
  | MergeHist s loads _ =>
      (28 + (if forallb (fun x : list obj * option (list obj) * bool => match snd (fst x) with Some _ => true | None => false end) loads
             then 1 else 0))%N
  end.

Definition check_all := check_cases agree judge tag.
