(* Correspondence run for C16: case = input + what the real Go code did on every listing order. *)
From Coq Require Import List ZArith NArith Bool.
From Coq Require Export Uint63.
Import ListNotations.
From SygmaV Require Export Lib.RunLib Lib.C16_Pack Model.C16.
Local Open Scope Z_scope.

(* one run of the real rawTx: None = error, Some (inputs, outputs, the relayer's own fee quote for
   that shape = value of the real fee(), utxos returned for signing) *)
Definition run_obs := option (list (list N * Z) * list txout * Z * list utxo).

Inductive case :=
| Case (ps : list prop) (us : list utxo) (listings : list (list nat)) (rate : Z)
       (bridge_key cid : list N) (upload_ok : bool) (impl : list run_obs)
(* message level: deposit messages with amounts [ms] (18 decimals) and the recipients of [ps] go
   through the real FungibleMessageHandler; [impl_amts] = amounts of the proposals it produced, which
   then go through rawTx as in [Case] (the amounts of [ps] are not used) *)
| MsgCase (ms : list Z) (ps : list prop) (us : list utxo) (listings : list (list nat)) (rate : Z)
       (bridge_key cid : list N) (upload_ok : bool) (impl_amts : list Z) (impl : list run_obs)
(* the real Executor.Execute on one delivery over several resources, one entry of [runs] per
   schedule: per transaction built, the resource it was built for (0 = none of the configured ones)
   and the deposit nonces of the proposals it pays; canonical order (first member) *)
| ExecCase (ps : list eprop) (runs : list (list (N * list N))).

Definition dummy := mkUtxo [] 0 0 0.
Definition permute (us : list utxo) (p : list nat) : list utxo := map (fun i => nth i us dummy) p.

Definition is_perm (n : nat) (p : list nat) : bool :=
  (length p =? n)%nat && forallb (fun i => existsb (Nat.eqb i) p) (seq 0 n).

Definition utxo_eqb (a b : utxo) : bool :=
  str_eqb (u_txid a) (u_txid b) && (u_vout a =? u_vout b) && (u_value a =? u_value b) && (u_time a =? u_time b).

Definition drop_used (o : run_obs) : run_res :=
  match o with None => None | Some (i, o, q, _) => Some (i, o, q) end.

Definition bridge_script (key : list N) : list N := script_of P2TR key.

Definition agree_one (ps : list prop) (listing : list utxo) rate bridge cid up (o : run_obs) : bool :=
  match raw_tx ps listing rate bridge cid up, o with
  | Err, None => true
  | Tx t, Some (i, outs, q, used) =>
      list_eqb op_eqb (t_ins t) i && list_eqb txout_eqb (t_outs t) outs
      && (q =? fee_quote (len (t_ins t)) (len ps + 1) rate) && list_eqb utxo_eqb (t_used t) used
  | _, _ => false
  end.

Definition agree_tx ps us (ls : list (list nat)) rate key cid up (impl : list run_obs) : bool :=
  wf ps us rate
  && forallb (is_perm (length us)) ls
  && (length ls =? length impl)%nat
  && forallb (fun lo => agree_one ps (permute us (fst lo)) rate (bridge_script key) cid up (snd lo))
             (combine ls impl).

Definition group_eqb (a b : N * list N) : bool :=
  (fst a =? fst b)%N && list_eqb N.eqb (snd a) (snd b).

Definition agree (c : case) : bool :=
  match c with
  | Case ps us ls rate key cid up impl => agree_tx ps us ls rate key cid up impl
  | MsgCase ms ps us ls rate key cid up amts impl =>
      msgs_wf ms && (length ms =? length ps)%nat
      && list_eqb Z.eqb (map handler_amount ms) amts
      && agree_tx (with_amounts ps (map handler_amount ms)) us ls rate key cid up impl
  | ExecCase ps runs =>
      nonces_distinct ps && forallb (list_eqb group_eqb (groups ps)) runs
  end.

Definition judge (c : case) : bool :=
  match c with
  | Case ps us ls rate key cid up impl => spec_all ps us (bridge_script key) (map drop_used impl)
  | MsgCase ms ps us ls rate key cid up amts impl =>
      (length ms =? length ps)%nat && amounts_ok ms amts
      && spec_all (with_amounts ps amts) us (bridge_script key) (map drop_used impl)
  | ExecCase ps runs => forallb (exec_ok ps) runs
  end.

(* model branch: 0 error, 1 exact (no change), 2 change; +3 if more than one input *)
Definition tag_tx ps us rate key cid up : N :=
  match raw_tx ps us rate (bridge_script key) cid up with
  | Err => if all_valid ps then (if cannot_cover ps us rate then 1 else 2) else 0
  | Tx t => ((if (length (t_outs t) =? length ps + 1)%nat then 3 else 4)
             + (if (1 <? length (t_ins t))%nat then 2 else 0))
  end%N.

(* +10: message level, all amounts below the limit; +20: some amount beyond it; 30+k: Execute over k
   resources *)
Definition tag (c : case) : N :=
  match c with
  | Case ps us ls rate key cid up _ => tag_tx ps us rate key cid up
  | MsgCase ms ps us ls rate key cid up _ _ =>
      ((if forallb (fun m => (m <? msg_limit)%Z) ms then 10 else 20)
       + tag_tx (with_amounts ps (map handler_amount ms)) us rate key cid up)%N
  | ExecCase ps _ => (30 + N.of_nat (length (groups ps)))%N
  end.

Definition check_all := check_cases agree judge tag.
