(* Correspondence run for C16: case = input + what the real Go code did on every listing order. *)
From Coq Require Import List ZArith NArith Bool.
From Coq Require Export Uint63.
Import ListNotations.
From SygmaV Require Export Lib.RunLib Lib.C16_Pack Model.C16.
Local Open Scope Z_scope.

(* one run of the real rawTx: None = error, Some (inputs, outputs, the relayer's own fee quote for
   that shape = value of the real fee(), utxos returned for signing) *)
Definition run_obs := option (list (list N * Z) * list txout * Z * list utxo).

Record sbuild := mkSB { sb_ps : list prop; sb_us : list utxo; sb_l : list nat; sb_rate : Z;
                        sb_cid : list N; sb_up : bool; sb_svc : bool; sb_impl : list run_obs }.

Inductive case :=
| Case (ps : list prop) (us : list utxo) (listings : list (list nat)) (rate : Z)
       (bridge_key cid : list N) (upload_ok : bool) (impl : list run_obs)
(* message level: deposit messages with amounts [ms] (18 decimals) and the recipients of [ps] go
   through the real FungibleMessageHandler; [impl_amts] = amounts of the proposals it produced, which
   then go through rawTx as in [Case] (the amounts of [ps] are not used) *)
| MsgCase (ms : list Z) (ps : list prop) (us : list utxo) (listings : list (list nat)) (rate : Z)
       (bridge_key cid : list N) (upload_ok : bool) (impl_amts : list Z) (impl : list run_obs)
(* the real Executor.Execute on one delivery over several resources, one entry of [runs] per
   schedule: per transaction built, the resource it was built for (0 = none of the configured ones)
   and the deposit nonces of the proposals it pays; canonical order (first member) *)
| ExecCase (ps : list eprop) (runs : list (list (N * list N)))
(* round 4 - a HISTORY of rawTx builds on ONE long-lived Executor (one mempool client, one
   uploader): per build its proposals, the bridge's UTXO set and its listing, the fee rate the
   service answers with at that moment, whether the service answers at all, and two runs: the
   long-lived Executor's, then a FRESH Executor's on the same inputs; the quote of each is the real
   fee() of a fresh Executor at the current rate *)
| SeqCase (bridge_key : list N) (builds : list sbuild)
(* round 4 - size boundaries: a large UTXO set [us] (given oldest first), served in several orders
   (oldest first / newest first / rotated); one run per order *)
| BigCase (ps : list prop) (us : list utxo) (rate : Z)
          (bridge_key cid : list N) (upload_ok : bool) (impl : list run_obs)
(* round 5 - duplicate / overlapping proposals: deliveries [dels] (one: through the real Execute and
   through proposalsForExecution + rawTx; several: handed CONCURRENTLY to one Executor), every
   proposal with its deposit (source, nonce), resource and payment; [orders] = the orders in which the
   deliveries may have been handled; [keys] = bridge key per resource, all bridge addresses hold
   [us]; one entry of [runs] per run: per transaction the resource, the deposits its metadata lists
   and the transaction if the run builds it (None: the run stops before the UTXO query) *)
| DupCase (dels : list (list dprop)) (orders : list (list nat)) (keys : list (list N))
          (us : list utxo) (rate : Z) (cid : list N)
          (runs : list (list (N * list (N * N) * option run_obs))).

Definition dummy := mkUtxo [] 0 0 0.
Definition permute (us : list utxo) (p : list nat) : list utxo := map (fun i => nth i us dummy) p.

Definition is_perm (n : nat) (p : list nat) : bool :=
  (length p =? n)%nat && forallb (fun i => existsb (Nat.eqb i) p) (seq 0 n).

Definition utxo_eqb (a b : utxo) : bool :=
  str_eqb (u_txid a) (u_txid b) && (u_vout a =? u_vout b) && (u_value a =? u_value b) && (u_time a =? u_time b).

Definition drop_used (o : run_obs) : run_res :=
  match o with None => None | Some (i, o, q, _) => Some (i, o, q) end.

Definition bridge_script (key : list N) : list N := script_of P2TR key.

Definition agree_res (m : result) (ps : list prop) rate (o : run_obs) : bool :=
  match m, o with
  | Err, None => true
  | Tx t, Some (i, outs, q, used) =>
      list_eqb op_eqb (t_ins t) i && list_eqb txout_eqb (t_outs t) outs
      && (q =? fee_quote (len (t_ins t)) (len ps + 1) rate) && list_eqb utxo_eqb (t_used t) used
  | _, _ => false
  end.

Definition agree_one (ps : list prop) (listing : list utxo) rate bridge cid up (o : run_obs) : bool :=
  agree_res (raw_tx ps listing rate bridge cid up) ps rate o.

Definition agree_tx ps us (ls : list (list nat)) rate key cid up (impl : list run_obs) : bool :=
  wf ps us rate
  && forallb (is_perm (length us)) ls
  && (length ls =? length impl)%nat
  && forallb (fun lo => agree_one ps (permute us (fst lo)) rate (bridge_script key) cid up (snd lo))
             (combine ls impl).

Definition group_eqb (a b : N * list N) : bool :=
  (fst a =? fst b)%N && list_eqb N.eqb (snd a) (snd b).

Definition is_none (o : run_obs) : bool := match o with None => true | Some _ => false end.

Definition agree_build (key : list N) (b : sbuild) : bool :=
  if sb_svc b
  then agree_tx (sb_ps b) (sb_us b) [sb_l b; sb_l b] (sb_rate b) key (sb_cid b) (sb_up b) (sb_impl b)
  else (length (sb_impl b) =? 2)%nat && forallb is_none (sb_impl b).

(* [wf] without the quadratic distinctness test (the generator builds the large sets with pairwise
   distinct transaction ids) *)
Definition wf_big (ps : list prop) (us : list utxo) (rate : Z) : bool :=
  forallb (fun p => 0 <=? p_amount p) ps
  && forallb (fun u => (0 <=? u_value u) && (0 <=? u_vout u) && (0 <=? u_time u)) us
  && (0 <=? rate)
  && (amounts ps + values us + fee_quote (len us + len ps) (len ps + 1) rate <? two63).

(* every model element is matched by its own observed element, and nothing is left over *)
Fixpoint match_all {A B} (f : A -> B -> bool) (ms : list A) (os : list B) : bool :=
  match ms with
  | [] => match os with [] => true | _ => false end
  | m :: r => match remove_first (f m) os with
              | None => false
              | Some os' => match_all f r os'
              end
  end.

(* the observed transaction against the model's group: same resource, the metadata lists exactly the
   deposits of the group (in whatever order - the property fixes none), and the transaction is the
   model's for the group's proposals taken in THAT order *)
Definition dtx_agree (keys : list (list N)) us rate cid (g : N * list dprop)
           (o : N * list (N * N) * option run_obs) : bool :=
  (fst g =? fst (fst o))%N && match_all key_eqb (map key_of (snd g)) (snd (fst o))
  && match lookup_keys (snd g) (snd (fst o)) with
     | None => false
     | Some gps =>
         let ps := map d_pay gps in
         match snd o with
         | None => true
         | Some ro => agree_res (raw_tx ps us rate (bridge_of keys (fst g)) cid true) ps rate ro
         end
     end.

Definition dup_agree dels (orders : list (list nat)) keys us rate cid
           (run : list (N * list (N * N) * option run_obs)) : bool :=
  existsb (fun o => match_all (dtx_agree keys us rate cid)
                              (serial_groups [] (map (fun i => nth i dels []) o)) run) orders.

Definition dup_obs (run : list (N * list (N * N) * option run_obs)) : list dtx :=
  map (fun o => (fst o, option_map drop_used (snd o))) run.

Definition agree (c : case) : bool :=
  match c with
  | Case ps us ls rate key cid up impl => agree_tx ps us ls rate key cid up impl
  | MsgCase ms ps us ls rate key cid up amts impl =>
      msgs_wf ms && (length ms =? length ps)%nat
      && list_eqb Z.eqb (map handler_amount ms) amts
      && agree_tx (with_amounts ps (map handler_amount ms)) us ls rate key cid up impl
  | ExecCase ps runs =>
      nonces_distinct ps && forallb (list_eqb group_eqb (groups ps)) runs
  | SeqCase key builds => forallb (agree_build key) builds
  | BigCase ps us rate key cid up impl =>
      (* the model is evaluated once, on the set as given: by C16_order_independent it is the result
         for every listing of it *)
      let m := raw_tx ps us rate (bridge_script key) cid up in
      wf_big ps us rate && forallb (agree_res m ps rate) impl
  | DupCase dels orders keys us rate cid runs =>
      consistent (concat dels) && forallb (is_perm (length dels)) orders
      && groups_wf (serial_groups [] dels) us rate
      && forallb (dup_agree dels orders keys us rate cid) runs
  end.

Definition judge (c : case) : bool :=
  match c with
  | Case ps us ls rate key cid up impl => spec_all ps us (bridge_script key) (map drop_used impl)
  | MsgCase ms ps us ls rate key cid up amts impl =>
      (length ms =? length ps)%nat && amounts_ok ms amts
      && spec_all (with_amounts ps amts) us (bridge_script key) (map drop_used impl)
  | ExecCase ps runs => forallb (exec_ok ps) runs
  | SeqCase key builds =>
      seq_spec (bridge_script key) (map (fun b => (sb_ps b, sb_us b, map drop_used (sb_impl b))) builds)
  | BigCase ps us rate key cid up impl => spec_all ps us (bridge_script key) (map drop_used impl)
  | DupCase dels orders keys us rate cid runs =>
      (* one delivery: no deposit twice over all its transactions; concurrent deliveries: per
         transaction (a deposit paid by two deliveries is the business of C03) *)
      forallb (fun run => dup_ok (length dels =? 1)%nat (concat dels) keys us (dup_obs run)) runs
  end.

(* model branch: 0 error, 1 exact (no change), 2 change; +3 if more than one input *)
Definition tag_tx ps us rate key cid up : N :=
  match raw_tx ps us rate (bridge_script key) cid up with
  | Err => if all_valid ps then (if cannot_cover ps us rate then 1 else 2) else 0
  | Tx t => ((if (length (t_outs t) =? length ps + 1)%nat then 3 else 4)
             + (if (1 <? length (t_ins t))%nat then 2 else 0))
  end%N.

(* +10: message level, all amounts below the limit; +20: some amount beyond it; 30+k: Execute over k
   resources *)
Definition tag (c : case) : N :=
  match c with
  | Case ps us ls rate key cid up _ => tag_tx ps us rate key cid up
  | MsgCase ms ps us ls rate key cid up _ _ =>
      ((if forallb (fun m => (m <? msg_limit)%Z) ms then 10 else 20)
       + tag_tx (with_amounts ps (map handler_amount ms)) us rate key cid up)%N
  | ExecCase ps _ => (30 + N.of_nat (length (groups ps)))%N
  | SeqCase key builds =>
      (* 50 + number of builds that yield no transaction in the model (capped) *)
      (50 + N.min 9 (N.of_nat (length (filter (fun b =>
         negb (sb_svc b) || match raw_tx (sb_ps b) (sb_us b) (sb_rate b) (bridge_script key) (sb_cid b) (sb_up b) with
                            | Err => true | Tx _ => false end) builds))))%N
  | BigCase ps us rate key cid up _ => (40 + tag_tx ps us rate key cid up)%N
  | DupCase dels _ _ _ _ _ _ =>
      (* 60 + number of delivered proposals that are NOT selected (capped); +10: several deliveries *)
      (60 + (if (1 <? length dels)%nat then 10 else 0)
       + N.min 9 (N.of_nat (length (concat dels) - length (select_props [] (concat dels)))))%N
  end.

Definition check_all := check_cases agree judge tag.
