(* Correspondence run for C07: case = input + what the real Go code did. *)
From Coq Require Import List ZArith NArith Bool.
Import ListNotations.
From SygmaV Require Export Lib.RunLib Model.C07.

(* keys: the 64-bit session sort key of every peer of the case's peer table (peer = index) *)
Definition key_of (keys : list N) (p : peer) : N := nth (N.to_nat p) keys 0%N.

Inductive case :=
| Elect (keys : list N) (holders perm : list peer)
        (impl_sorted impl_sorted_perm : list peer) (impl_coord impl_coord_perm : option peer)
| Params (keys : list N) (holders : list peer) (t : Z) (ready : list peer)
         (impl_ready : bool) (impl_params : list peer)
| Subset (keys : list N) (holders : list peer) (t : Z) (excluded : list peer) (self : peer)
         (via_execute : bool) (senders : list peer)
         (impl_calls : list (list peer)) (impl_excluded_ok : bool)
         (impl_announced impl_run : option (list peer))
(* [impl_coordinates]: the relayer was seen doing the coordinator's side of the attempt (it subscribed to
   ready messages / broadcast an initiate message) *)
| Wait (keys : list N) (holders : list peer) (self : peer) (msgs : list wmsg)
       (impl_outs : list wout) (impl_coordinates impl_other_error : bool)
(* several overlapping sessions on ONE Coordinator object of one relayer: [skeys] = the peers' sort keys
   per session (session = position), [script] = the messages in the order they were handed over, each
   tagged with its session; [impl_outs] = what the relayer did, per session; [impl_coordinates] = it
   was seen doing the coordinator's side in some session.  [winners] = per session, None: the session is
   in its first attempt; Some w: its first attempt failed retryably and the scripted bully election was won
   by w - the script and the actions are those of the RETRIED attempt (watcher told the empty id) *)
| Multi (skeys : list (list N)) (winners : list (option peer)) (holders : list peer) (self : peer)
        (script : list (session * wmsg))
        (impl_outs : list (list wout)) (impl_coordinates impl_other_error : bool)
(* the retried attempt after a retryable failure of the first one; [c2] = the coordinator of the
   retried attempt as the scripted bully election determines it (a scripted earlier candidate that
   announced itself, or this relayer when nobody answered) *)
| RetryWait (keys : list N) (holders : list peer) (self c2 : peer) (msgs : list wmsg)
            (impl_outs : list wout) (impl_other_error : bool)
| RetryCoord (keys : list N) (holders : list peer) (t : Z) (excluded : list peer) (self : peer)
             (evs : list (bool * peer)) (impl_run : option (list peer)) (impl_aborted impl_other_error : bool)
(* a wait with time: CoordinatorTimeout [cto] / TssTimeout [tto] in ms, messages with arrival times (ms
   after the wait began), the relayer watched until [horizon].  [c2] = None: the first attempt (the
   coordinator is the session's elected one); Some c2: the retried attempt after the scripted bully
   election was won by c2.  The real relayer is driven TWICE: fed all of [msgs] ([impl_all]) and fed only
   the coordinator's own messages of [msgs] ([impl_own]) *)
| Timed (keys : list N) (holders : list peer) (self : peer) (c2 : option peer) (cto tto horizon : N)
        (msgs : list (N * wmsg)) (impl_all impl_own : list wout * tend) (impl_other_error : bool)
(* a case the RUNNER could not drive (a phase it scripts did not come about, it could not keep its
   schedule, one of its waits ran into a shortened deadline - recorded as harness_error): what was
   recorded says nothing about the code under test.  Never judged (the judge abstains), always a broken
   correspondence ([agree] fails), so that it surfaces without ever being a failing input. *)
| Undriven (c : case).

Definition opt_peer_eqb (a b : option peer) : bool :=
  match a, b with
  | None, None => true
  | Some x, Some y => N.eqb x y
  | _, _ => false
  end.

Fixpoint lists_eqb (a b : list (list peer)) : bool :=
  match a, b with
  | [], [] => true
  | x :: a', y :: b' => list_peer_eqb x y && lists_eqb a' b'
  | _, _ => false
  end.

Definition count_peer (p : peer) (l : list peer) : nat := length (filter (N.eqb p) l).
Definition perm_b (a b : list peer) : bool :=
  forallb (fun p => Nat.eqb (count_peer p a) (count_peer p b)) (a ++ b).

Fixpoint sorted_desc_b (keys : list N) (l : list peer) : bool :=
  match l with
  | [] => true
  | x :: r => match r with
              | [] => true
              | y :: _ => (key_of keys y <=? key_of keys x)%N && sorted_desc_b keys r
              end
  end.

(* the coordinator a timed case waits for, and the model of its wait *)
Definition timed_coordinator (key : peer -> N) (holders : list peer) (c2 : option peer) : option peer :=
  match c2 with Some c => Some c | None => coordinator key holders end.
Definition timed_model (c : peer) (c2 : option peer) (cto tto horizon : N) (msgs : list (N * wmsg)) : list wout * tend :=
  match c2 with
  | None => timed_first c cto tto horizon msgs
  | Some _ => timed_retry c cto tto horizon msgs
  end.

(* the coordinator of every session of a multi-session case, and what its watcher was told *)
Definition multi_coords (skeys : list (list N)) (winners : list (option peer)) (holders : list peer)
  : session -> option peer :=
  fun s => match nth (N.to_nat s) winners None with
           | Some w => Some w
           | None => match nth_error skeys (N.to_nat s) with
                     | Some ks => coordinator (key_of ks) holders
                     | None => None
                     end
           end.
Definition multi_watchers (skeys : list (list N)) (winners : list (option peer)) (holders : list peer)
  : session -> option peer :=
  fun s => match nth (N.to_nat s) winners None with
           | Some _ => None
           | None => multi_coords skeys winners holders s
           end.
Definition sessions_of (skeys : list (list N)) : list session :=
  map N.of_nat (seq 0 (length skeys)).
Definition outs_of (impl_outs : list (list wout)) (s : session) : list wout :=
  nth (N.to_nat s) impl_outs [].

Definition agree (c : case) : bool :=
  match c with
  | Elect keys holders perm s s' co co' =>
      let k := key_of keys in
      list_peer_eqb (sort_peers k holders) s && list_peer_eqb (sort_peers k perm) s'
      && opt_peer_eqb (coordinator k holders) co && opt_peer_eqb (coordinator k perm) co'
  | Params keys holders t ready r ps =>
      let k := key_of keys in
      Bool.eqb (is_ready holders t ready) r && list_peer_eqb (start_params k holders t ready) ps
  | Subset keys holders t excluded self via senders calls exok ann run =>
      let k := key_of keys in
      let (mc, ma) := initiate k holders t excluded [self] senders in
      lists_eqb mc calls && exok && opt_list_eqb ma ann && opt_list_eqb ma run
      && (if via : bool then opt_peer_eqb (coordinator k holders) (Some self) else true)
  | Wait keys holders self msgs outs coordinates other =>
      let k := key_of keys in
      match coordinator k holders with
      | None => false
      | Some c => negb (N.eqb c self) && wouts_eqb (snd (run_wait (Some c) Waiting msgs)) outs && negb other
                  && Bool.eqb (takes_coordinator_role (Some c) self) coordinates
      end
  | Multi skeys winners holders self script outs coordinates other =>
      let cs := multi_coords skeys winners holders in
      let m := multi_run2 (multi_watchers skeys winners holders) cs all_waiting script in
      Nat.eqb (length outs) (length skeys) && negb coordinates && negb other
      && forallb (fun s => match cs s with
                           | None => false
                           | Some c => negb (N.eqb c self) && wouts_eqb (of_session s m) (outs_of outs s)
                           end) (sessions_of skeys)
  | RetryWait keys holders self c2 msgs outs other =>
      negb (N.eqb c2 self) && wouts_eqb (snd (retry_wait c2 msgs)) outs && negb other
  | RetryCoord keys holders t excluded self evs run aborted other =>
      let m := retry_coord (key_of keys) holders t excluded self evs in
      opt_list_eqb (fst m) run && Bool.eqb (snd m) aborted && negb other
  | Timed keys holders self c2 cto tto horizon msgs impl_all impl_own other =>
      match timed_coordinator (key_of keys) holders c2 with
      | None => false
      | Some c =>
          negb (N.eqb c self) && negb other
          && tobs_eqb (timed_model c c2 cto tto horizon msgs) impl_all
          && tobs_eqb (timed_model c c2 cto tto horizon (own_msgs c msgs)) impl_own
      end
  | Undriven _ => false
  end.

Definition judge (c : case) : bool :=
  match c with
  | Elect keys holders perm s s' co co' =>
      if negb (perm_b holders perm) then true else
      (* the same session order and the same coordinator whatever the listing order; the order
         arranges exactly the listed peers and the coordinator is its first element
         (that the order is the descending key order is checked by [agree], not demanded here) *)
      list_peer_eqb s s' && opt_peer_eqb co co' && opt_peer_eqb co (hd_error s)
      && perm_b holders s
  | Params keys holders t ready r ps =>
      if r then (Z.of_nat (length ps) =? t + 1)%Z && forallb (fun p => memb p holders) ps
                && forallb (fun p => memb p ready) ps
      else true
  | Subset keys holders t excluded self via senders calls exok ann run =>
      if negb (memb self holders) || memb self excluded then true else
      match ann with
      | Some sub => subset_ok holders t excluded self senders sub && opt_list_eqb run (Some sub)
      | None => match run with None => true | Some _ => false end
      end
  | Wait keys holders self msgs outs coordinates other =>
      match coordinator (key_of keys) holders with
      | None => true
      | Some c =>
          (* every action is caused by a message of the coordinator, and a relayer that is not the
             coordinator does not play its part *)
          outs_justified c msgs outs
          && (if N.eqb c self then true else negb coordinates)
      end
  | Multi skeys winners holders self script outs coordinates other =>
      (* the judge of the wait cases, session by session, on that session's messages and actions *)
      let cs := multi_coords skeys winners holders in
      forallb (fun s => match cs s with
                        | None => true
                        | Some c => outs_justified c (of_session s script) (outs_of outs s)
                        end) (sessions_of skeys)
      && (if existsb (fun s => match cs s with Some c => N.eqb c self | None => true end) (sessions_of skeys)
          then true else negb coordinates)
  | RetryWait keys holders self c2 msgs outs other => outs_justified c2 msgs outs
  | RetryCoord keys holders t excluded self evs run aborted other =>
      if negb (memb self holders) || memb self excluded then true
      else retry_coord_ok holders t excluded self evs run aborted
  | Timed keys holders self c2 cto tto horizon msgs impl_all impl_own other =>
      match timed_coordinator (key_of keys) holders c2 with
      | None => true
      | Some c => timed_ignored c horizon msgs impl_all impl_own
      end
  | Undriven _ => true
  end.

Definition tag (c : case) : N :=
  match c with
  | Elect _ holders _ _ _ _ _ => match holders with [] => 0 | _ => 1 end
  | Params keys holders t ready _ _ => if is_ready holders t ready then 3 else 2
  | Subset keys holders t excluded self via senders _ _ _ _ =>
      (match snd (initiate (key_of keys) holders t excluded [self] senders) with Some _ => 5 | None => 4 end
       + (if via : bool then 0 else 2) + (match excluded with [] => 0 | _ => 4 end))%N
  | Multi skeys winners holders self script _ _ _ =>
      let cs := multi_coords skeys winners holders in
      let m := multi_run2 (multi_watchers skeys winners holders) cs all_waiting script in
      (60 + N.of_nat (length skeys) + (if existsb (fun w : option peer => match w with Some _ => true | None => false end) winners then 20 else 0)
       + (if existsb (fun x : session * wout => match snd x with OAbort => true | _ => false end) m then 10 else 0))%N
  | Wait keys holders self msgs _ _ _ =>
      match coordinator (key_of keys) holders with
      | None => 20
      | Some c =>
          let (st, outs) := run_wait (Some c) Waiting msgs in
          ((match st with Waiting => 21 | Running => 22 | Finished => 23 end)
           + (if existsb (fun o => match o with OAbort => true | _ => false end) outs then 3 else 0))%N
      end
  | RetryWait keys holders self c2 msgs _ _ =>
      ((match fst (retry_wait c2 msgs) with Waiting => 30 | Running => 31 | Finished => 32 end)
       + (if existsb (fun m => match m with MFail f => negb (N.eqb f c2) | _ => false end) msgs then 4 else 0))%N
  | RetryCoord keys holders t excluded self evs _ _ _ =>
      ((match fst (retry_coord (key_of keys) holders t excluded self evs) with Some _ => 41 | None => 40 end)
       + (match ev_fails evs with [] => 0 | _ => 4 end))%N
  | Timed keys holders self c2 cto tto horizon msgs _ _ _ =>
      match timed_coordinator (key_of keys) holders c2 with
      | None => 50
      | Some c =>
          ((match snd (timed_model c c2 cto tto horizon msgs) with
            | TWaiting => 51 | TRunning => 52 | TFinished => 53 | TCoordTimeout => 54 | TWatchTimeout => 55 end)
           + (match c2 with None => 0 | Some _ => 10 end)
           + (match own_msgs c msgs with [] => 0 | _ => 20 end))%N
      end
  | Undriven _ => 99
  end.

Definition check_all := check_cases agree judge tag.
