(* Correspondence run for C15: case = input + what the real Go code did. *)
From Coq Require Import List ZArith NArith Bool String.
Import ListNotations.
From SygmaV Require Export Lib.RunLib Lib.Hex Lib.C15_Sha256 Model.C15.
Local Open Scope Z_scope.

(* Interned strings: the runner prints [(addr i)] / [(ty i)] instead of the literal when a string is
   one of these (elaborating long string literals dominates the cost of a shard otherwise).  The Go
   printer compares with its own copy; a divergence shows up as a failed [agree]. *)
Definition addr (i : N) : string :=
  match i with
  | 0%N => "tb1pd7hfcszhk4jd2670wsq2q0uccxvnwmdkmex68sqzeeuhcxqdd6qsuacnqf"
  | 1%N => "tb1pq5d6z485wqgvxwnkz2uhxn3mpua6tzdrez4wl03p2fytpf6fm08q50fs4p"
  | 2%N => "tb1qwn93lu8rhaf0m3pjwxupew8mjpp6c9r77ersgh"
  | 3%N => "tb1pzcc9q9jcgyq3777l4sve70y7086j7m84sqg7nvkqd87h3d0gkpzswe3frt"
  | 4%N => "tb1pe0egn0l804jaqtk579aekq6ang25dt7e3g05zpc9m80wjck73ykqc6aqjq"
  | 5%N => "tb1qcstv5pytxea7uezx77wl035q2n4pc5wq9ueasu"
  | _ => ""
  end.
Definition ty (i : N) : string :=
  match i with
  | 0%N => "witness_v1_taproot"
  | 1%N => "nulldata"
  | 2%N => "witness_v0_keyhash"
  | 3%N => "pubkeyhash"
  | 4%N => "scripthash"
  | _ => ""
  end.

Definition rid32 (b : N) : list N := repeat b 32.

Inductive case :=
(* DecodeDepositEvent on a transaction unmarshalled from JSON text.  impl_bits: IEEE bit patterns
   of the float64 the JSON parser produced per output; rid_ok: Deposit.ResourceID/SenderAddress
   are the resource's id / "" (or the zero Deposit) *)
| Decode (outs : list vout) (r : resource) (faddr : string)
         (impl : dec) (impl_bits : list Z) (rid_ok : bool)
(* ProcessDeposits on a block holding that one transaction; nonce_seen: CalculateNonce called
   directly on a DIFFERENT handler instance *)
| Process (outs : list vout) (rs : list resource) (faddr : string) (height : N) (txhash : string)
          (impl : pres) (nonce_seen : N)
(* CalculateNonce on two differently configured handler instances *)
| NonceC (height : N) (txhash : string) (impl1 impl2 : N)
(* crypto/sha256 against Lib/C15_Sha256 *)
| Sha (msg : string) (impl : string)
(* round 4 - a HISTORY on one long-lived FungibleTransferEventHandler built over one resources map
   (as app.go does): blocks through ProcessDeposits, single transactions through
   DecodeDepositEvent against the map's values; per step what came back and a deep snapshot of the
   handler's resources / fee address after it.  rs: the resources in iteration order (ascending id) *)
| Seq (rs : list resource) (faddr : string) (steps : list sobs)
(* round 5 - the same, but every block went through the real HandleEvents and [OBlock] holds what ARRIVED ON
   THE MESSAGE CHANNEL of the handler (all batches, read until no goroutine started during the call was
   left): per transaction the message attributed to it; stray = a message that belongs to no transaction of
   the block or a second one for the same transaction.  p1: the case ran under GOMAXPROCS(1). *)
| SeqEv (p1 : bool) (rs : list resource) (faddr : string) (steps : list sobs).

Definition dec_eqb (a b : dec) : bool :=
  match a, b with
  | NotDeposit, NotDeposit | DecErr, DecErr | DecPanic, DecPanic => true
  | IsDeposit x d, IsDeposit y e => Z.eqb x y && bytes_eqb d e
  | _, _ => false
  end.

Definition pres_eqb (a b : pres) : bool :=
  match a, b with
  | NoMsg, NoMsg => true
  | Msg d n r a rc, Msg d' n' r' a' rc' =>
      N.eqb d d' && N.eqb n n' && bytes_eqb r r' && Z.eqb a a' && bytes_eqb rc rc'
  | _, _ => false
  end.

Fixpoint zlist_eqb (a b : list Z) : bool :=
  match a, b with
  | [], [] => true
  | x :: a', y :: b' => Z.eqb x y && zlist_eqb a' b'
  | _, _ => false
  end.

(* model = implementation for one transaction of a block; the SHA-256 of the nonce is evaluated only
   when a message is emitted ([process] asks for the nonce of its own (height, hash) only) *)
Definition otx_agree (rs : list resource) (f : string) (h : N) (t : otx) : bool :=
  match process credited (fun _ _ => 0%N) (ot_outs t) rs f h (ot_hash t), ot_impl t with
  | NoMsg, NoMsg => true
  | Msg d _ r a rc, Msg d' n' r' a' rc' =>
      let n0 := nonce h (ot_hash t) in
      N.eqb n0 n' && N.eqb n0 (ot_nonce_seen t) &&
      N.eqb d d' && bytes_eqb r r' && Z.eqb a a' && bytes_eqb rc rc'
  | _, _ => false
  end.

Definition sobs_agree (rs : list resource) (f : string) (o : sobs) : bool :=
  match o with
  | OBlock h txs stray snap f' =>
      forallb (otx_agree rs f h) txs && negb stray && config_kept (rs, f) snap f'
  | ODec outs ri impl snap f' =>
      match nth_error rs ri with
      | Some r => dec_eqb (decode credited outs r f) impl
      | None => false
      end && config_kept (rs, f) snap f'
  end.

Definition agree (c : case) : bool :=
  match c with
  | Decode outs r f impl bits rid_ok =>
      dec_eqb (decode credited outs r f) impl && rid_ok &&
      (* the float the real parser produced is RN(s / 10^8) *)
      (if sats_wf outs then zlist_eqb (map (fun o => bits_of (value_of (o_sat o))) outs) bits else true)
  | Process outs rs f h t impl n =>
      (* [process credited nonce], with the one nonce it can ask for computed once
         (Proofs/C15.v: process_nonce_const) *)
      let n0 := nonce h t in
      pres_eqb (process credited (fun _ _ => n0) outs rs f h t) impl && N.eqb n0 n
  | NonceC h t n1 n2 => N.eqb (nonce h t) n1 && N.eqb (nonce h t) n2
  | Sha m d => bytes_eqb (sha256 (unhex m)) (unhex d)
  | Seq rs f steps => forallb (sobs_agree rs f) steps
  (* what arrives is what ProcessDeposits made of the block (Model/C15.sent_batches, C15_events_no_loss_no_dup) *)
  | SeqEv _ rs f steps => forallb (sobs_agree rs f) steps
  end.

Definition judge (c : case) : bool :=
  match c with
  | Decode outs r f impl _ _ => decode_ok outs r f impl
  | Process outs rs f h t impl n =>
      (* several resources are paid: which one wins is C19's subject *)
      tx_ok outs rs f impl n
  | NonceC h t n1 n2 => N.eqb n1 n2
  | Sha _ _ => true
  | Seq rs f steps => seq_ok (rs, f) steps
  (* a paying transaction whose message does not arrive is not treated as a deposit; a message that arrives
     twice is a deposit that does not exist: the same per-transaction specification *)
  | SeqEv _ rs f steps => seq_ok (rs, f) steps
  end.

(* branch tag of the model (taken with the exact conversion [fun s => s], which by C15_sat_exact is
   what [credited] computes on every well-formed amount, and without recomputing the hash) *)
Definition tag (c : case) : N :=
  match c with
  | Decode outs r f _ _ _ =>
      match decode (fun s => s) outs r f with
      | NotDeposit => if pays_bridge outs r then 1%N else 0%N
      | DecErr => 2%N | DecPanic => 3%N
      | IsDeposit a _ => if a =? 0 then 4%N else if oprets_wf outs then 5%N else 6%N
      end
  | Process outs rs f h t _ _ =>
      match process (fun s => s) (fun _ _ => 0%N) outs rs f h t with NoMsg => 10%N | Msg _ _ _ _ _ => 11%N end
  | NonceC _ _ _ _ => 20%N
  | Sha _ _ => 30%N
  | Seq rs _ steps => (40 + N.min 9 (N.of_nat (List.length steps)))%N
  | SeqEv p1 _ _ steps => ((if p1 then 60 else 50) + N.min 9 (N.of_nat (List.length steps)))%N
  end.

Definition check_all := check_cases agree judge tag.
