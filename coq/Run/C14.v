(* Correspondence run for C14: case = input + what the real Go code did. *)
From Coq Require Import List NArith Bool String.
Import ListNotations.
From SygmaV Require Export Lib.RunLib Lib.C14_Dec Model.C14.
Local Open Scope N_scope.

Inductive case :=
(* proposalBatches (+ executeBatch -> what the bridge contract call received) *)
| Bat (cap tg : N) (ps : list prop) (impl_batches : list (list N * N))
(* the same, plus the real Execute: per signed batch its members and the session ids it ran under *)
| Ses (mid : string) (cap tg : N) (ps : list prop) (impl_batches : list (list N * N))
      (impl_sessions : list (list N * list string))
(* the real Execute under the schedule in which the dispatch loop runs ahead of the batch goroutines
   (GOMAXPROCS(1), ProposalsHash fails at once): the member lists handed to hashing/signing, in
   canonical order *)
| Hsh (cap tg : N) (ps : list prop) (impl_batches : list (list N * N)) (impl_hashed : list (list N))
(* scripted failures of the executed-status lookup ([fl]: per position how often it fails):
   proposalBatches -> None if it returned an error, else its batches (as for Bat) *)
| BatF (cap tg : N) (ps : list prop) (fl : list N) (impl : option (list (list N * N)))
(* the same + the real Execute as for Hsh: did it return an error, what was handed to ProposalsHash *)
| HshF (cap tg : N) (ps : list prop) (fl : list N) (impl : option (list (list N * N)))
       (impl_err : bool) (impl_hashed : list (list N))
(* several deliveries on ONE Executor object, in order: per delivery what HshF holds (proposalBatches, then the
   real Execute, both on that one Executor) and whether the caller's slice was found reordered afterwards.
   Proposals and members are named [pk source nonce]; [pexec] = the chain's answer at that delivery. *)
| Hst (cap tg : N) (ds : list hdel)
with hdel :=
| mkhdel (ps : list prop) (fl : list N) (impl : option (list (list N * N)))
         (impl_err : bool) (impl_hashed : list (list N)) (reordered : bool).

Fixpoint obs_eqb (a b : list (list N * N)) : bool :=
  match a, b with
  | [], [] => true
  | (m, g) :: a', (m', g') :: b' => list_N_eqb m m' && N.eqb g g' && obs_eqb a' b'
  | _, _ => false
  end.

Definition model_sessions (mid : string) (bs : list batch) : list (list N * list string) :=
  map (fun e => (map pid (fst e), [snd e])) (sessions mid bs).

Fixpoint hashed_eqb (a b : list (list N)) : bool :=
  match a, b with
  | [], [] => true
  | x :: a', y :: b' => list_N_eqb x y && hashed_eqb a' b'
  | _, _ => false
  end.

(* what must be hashed (each exactly once): the non-empty batches *)
Definition hashed_spec (obs : list (list N * N)) : list (list N) :=
  map (fun ib => fst (snd ib)) (signed_from (@fst (list N) N) 0 obs).

Definition opt_obs_eqb (a b : option (list (list N * N))) : bool :=
  match a, b with
  | None, None => true
  | Some x, Some y => obs_eqb x y
  | _, _ => false
  end.

Definition h_delivery (d : hdel) : delivery := match d with mkhdel ps fl _ _ _ _ => (ps, fl) end.
Definition h_impl (d : hdel) : option (list (list N * N)) := match d with mkhdel _ _ r _ _ _ => r end.

Definition agree_del (cap tg : N) (d : hdel) : bool :=
  match d with
  | mkhdel ps fl r err hs reordered =>
      opt_obs_eqb (option_map (map obs_of) (batches_r cap tg ps fl)) r
      && hashed_eqb (hashed_model cap tg ps fl) hs
      && Bool.eqb err (lookup_err ps fl || negb (is_nil (hashed_model cap tg ps fl)))
      (* the code builds its batches from the caller's slice without touching it *)
      && negb reordered
  end.

Definition agree (c : case) : bool :=
  match c with
  | Hst cap tg ds => forallb (agree_del cap tg) ds
  | BatF cap tg ps fl r => opt_obs_eqb (option_map (map obs_of) (batches_r cap tg ps fl)) r
  | HshF cap tg ps fl r err hs =>
      opt_obs_eqb (option_map (map obs_of) (batches_r cap tg ps fl)) r
      && hashed_eqb (hashed_model cap tg ps fl) hs
      (* ProposalsHash of the recording bridge fails, so Execute errs as soon as anything is hashed *)
      && Bool.eqb err (lookup_err ps fl || negb (is_nil (hashed_model cap tg ps fl)))
  | Bat cap tg ps obs => obs_eqb (map obs_of (batches cap tg ps)) obs
  | Ses mid cap tg ps obs sess =>
      obs_eqb (map obs_of (batches cap tg ps)) obs
      && sess_eqb (model_sessions mid (batches cap tg ps)) sess
  | Hsh cap tg ps obs hs =>
      obs_eqb (map obs_of (batches cap tg ps)) obs
      && hashed_eqb (hashed_spec (map obs_of (batches cap tg ps))) hs
  end.

Definition judge (c : case) : bool :=
  match c with
  | Hst cap tg ds =>
      history_ok cap tg (map h_delivery ds) (map h_impl ds)
      && forallb (fun d => match d with mkhdel ps fl _ err hs _ => hashed_ok_r ps fl err hs end) ds
  | BatF cap tg ps fl r => spec_ok_r cap tg ps fl r
  | HshF cap tg ps fl r err hs => spec_ok_r cap tg ps fl r && hashed_ok_r ps fl err hs
  | Bat cap tg ps obs => spec_ok cap tg ps obs
  | Ses mid cap tg ps obs sess => spec_ok cap tg ps obs && sess_ok mid obs sess
  | Hsh cap tg ps obs hs => spec_ok cap tg ps obs && hashed_eqb (hashed_spec obs) hs
  end.

(* branch tag: 0 nothing pending | 1 one batch | 2 roll-over, no overflow | 3 overflow; +4 session;
   16/17 a lookup fails (batches / Execute); 20+/24+ lookups scripted, none fails *)
Definition tag (c : case) : N :=
  let t cap tg ps :=
    if negb (no_overflow tg ps) then 3
    else match pending ps with
         | [] => 0
         | _ => match signed (batches cap tg ps) with [_] => 1 | _ => 2 end
         end in
  match c with
  | Bat cap tg ps _ => t cap tg ps
  | Ses _ cap tg ps _ _ => 4 + t cap tg ps
  | Hsh cap tg ps _ _ => 8 + t cap tg ps
  | BatF cap tg ps fl _ => if lookup_err ps fl then 16 else 20 + t cap tg ps
  | HshF cap tg ps fl _ _ _ => if lookup_err ps fl then 17 else 24 + t cap tg ps
  (* histories: 30 + number of deliveries (max 8); 40 if some lookup fails *)
  | Hst cap tg ds =>
      if existsb (fun d => lookup_err (fst (h_delivery d)) (snd (h_delivery d))) ds then 40
      else 30 + N.min 8 (N.of_nat (List.length ds))
  end.

Definition check_all := check_cases agree judge tag.
