(* Correspondence run for C12: case = input + what the real Go code did. *)
From Coq Require Import List NArith Bool String Ascii.
Import ListNotations.
From SygmaV Require Export Lib.RunLib Model.C12.
Local Open Scope N_scope.

Inductive case :=
(* an operation list driven through the real Libp2pCommunication (Subscribe / UnSubscribe /
   GetSubscribers / ProcessMessagesFromStream); u of every Sub is the one observed in the returned id *)
| Ops (U : univ) (ops : list op) (impl : list obs)
(* a table built by ops (Sub / Unsub), then the messages msgs written to one or several inbound
   streams and decoded while the receivers read late / in an arbitrary order; impl = for every
   channel of chans (all channels of ops) what it had received when everything was delivered *)
| Fan (ops : list op) (msgs : list msg) (chans : list N) (impl : list (list msg))
(* an interleaved script: table operations (Sub / Unsub) issued strictly BETWEEN the messages of one
   or several inbound streams (each message fed when the decoder had dispatched the previous one and
   was back in Read; before a cancellation every receipt due is collected, so the boundary is
   unambiguous), receivers late / mixed / prompt, possibly idle for seconds while deliveries are
   pending; evs in the order in which things happened; impl as for Fan *)
| FanI (evs : list fev) (chans : list N) (impl : list (list msg))
(* Ops / FanI with the OTHER operations of the communication layer among them (CloseSession, Broadcast,
   the health check, a stream handler run on a stream without a message): the runner looks at the
   subscriber lists after every operation, the other ones included *)
| OpsX (U : univ) (xs : list xop) (impl : list obs)
| FanIX (xs : list xfev) (chans : list N) (impl : list (list msg))
(* several goroutines, each running its own program ths[i] on ONE Libp2pCommunication (held by value
   in interfaces, as the tss code holds it): impl = per thread, per operation, the lookups of the
   operation's (session, type) made right after it (GetSubscribers; for a delivery also the channels
   that received the message); final = the table per pair of U when all threads had finished;
   crashed = the process running the case died (Go runtime fatal error); races = data race reports
   of the race detector that involve the repo's comm packages (0 when run without the detector) *)
| Conc (ths : list (list op)) (impl : list (list (list (list N)))) (U : univ) (final : list (list N))
       (crashed : bool) (races : nat)
(* SubscriptionID(Sprintf("%s-%d-%d", s, t, u)).Unwrap() *)
| Unw (s : string) (t u : N) (impl : option (string * N * string))
(* Unwrap of an arbitrary string *)
| Raw (id : string) (impl : option (string * N * string)).

Definition res_eqb (a b : option (string * N * string)) : bool :=
  match a, b with
  | None, None => true
  | Some (s, t, i), Some (s', t', i') => String.eqb s s' && N.eqb t t' && String.eqb i i'
  | _, _ => false
  end.

Definition obs_eqb (a b : obs) : bool :=
  String.eqb (o_id a) (o_id b) && view_eqb (o_view a) (o_view b) && listN_eqb (o_got a) (o_got b).

Fixpoint obsl_eqb (a b : list obs) : bool :=
  match a, b with
  | [], [] => true
  | x :: a', y :: b' => obs_eqb x y && obsl_eqb a' b'
  | _, _ => false
  end.

Definition types_declared (ops : list op) : bool :=
  forallb (fun o => match o with
                    | Sub _ t _ _ => t <=? unknown_type
                    | Deliver _ t => t <=? unknown_type
                    | Unsub _ => true
                    end) ops.

Definition msgs_declared (msgs : list msg) : bool :=
  forallb (fun m => snd (fst (fst m)) <=? unknown_type) msgs.

Definition fmsgs (evs : list fev) : list msg :=
  flat_map (fun e => match e with FMsg m => [m] | FOp _ => [] end) evs.

Definition agree (c : case) : bool :=
  match c with
  | Ops U ops impl => obsl_eqb (trace_c unwrap U c_init ops) impl
  | Fan ops msgs chans impl => fan_ok (recv_c (fst (run_c unwrap c_init ops)) msgs) chans impl
  | FanI evs chans impl => fan_ok (recvi_c c_init evs) chans impl
  | OpsX U xs impl => obsl_eqb (xtrace_c unwrap U c_init xs) impl
  | FanIX xs chans impl => fan_ok (recvix_c c_init xs) chans impl
  | Conc ths impl U final crashed races =>
      (* under any schedule the model of the code (Model.C12 sched) shows each thread exactly what
         the judge demands of a lookup (theorems C12_conc_...): nothing of a concurrent run is compared beyond that;
         the model of the table with identifiers is compared in the Ops and Fan cases *)
      true
  | Unw s t u impl => res_eqb (unwrap (sub_id s t u)) impl
  | Raw id impl => res_eqb (unwrap id) impl
  end.

(* The specification: views and receipts are those of the live-subscription list (nothing about
   ids or the unique component); for messages in flight together, per channel the multiset of
   (session, type, payload, sender) received is the one the live subscriptions entitle it to - live at the time of each message
   when the table changes between the messages; Unwrap inverts NewSubscriptionID for declared types. *)
Definition judge (c : case) : bool :=
  match c with
  | Ops U ops impl => if types_declared ops then judge_ops U ops impl else true
  | Fan ops msgs chans impl =>
      if types_declared ops && msgs_declared msgs then judge_fan ops msgs chans impl else true
  | FanI evs chans impl =>
      if types_declared (fops evs) && msgs_declared (fmsgs evs) then judge_fani evs chans impl else true
  | OpsX U xs impl => if types_declared (xops_of xs) then judge_xops U xs impl else true
  | FanIX xs chans impl =>
      if types_declared (fops (xfevs_of xs)) && msgs_declared (fmsgs (xfevs_of xs)) then judge_fanix xs chans impl else true
  | Conc ths impl U final crashed races =>
      if forallb types_declared ths then judge_conc_fast ths impl U final crashed races else true
  | Unw s t u impl => unwrap_ok s t u impl
  | Raw _ _ => true
  end.

Definition has_hy_session (ops : list op) : bool :=
  existsb (fun o => match o with Sub s _ _ _ => negb (no_hy s) | _ => false end) ops.
Definition has_unsub (ops : list op) : bool :=
  existsb (fun o => match o with Unsub _ => true | _ => false end) ops.

Definition tag (c : case) : N :=
  match c with
  | Ops _ ops _ => (if has_hy_session ops then 1 else 0) + (if has_unsub ops then 2 else 0)
                   + (if wf_ops ops then 0 else 4)
  | Fan ops msgs _ _ => 16 + (if has_hy_session ops then 1 else 0) + (if has_unsub ops then 2 else 0)
                        + (if wf_ops ops then 0 else 4)
  | FanI evs _ _ => 64 + (if has_hy_session (fops evs) then 1 else 0) + (if has_unsub (fops evs) then 2 else 0)
                    + (if wf_ops (fops evs) then 0 else 4)
  | OpsX _ xs _ => 128 + (if has_hy_session (xops_of xs) then 1 else 0) + (if has_unsub (xops_of xs) then 2 else 0)
                    + (if wf_ops (xops_of xs) then 0 else 4)
  | FanIX xs _ _ => 192 + (if has_hy_session (fops (xfevs_of xs)) then 1 else 0) + (if has_unsub (fops (xfevs_of xs)) then 2 else 0)
                    + (if wf_ops (fops (xfevs_of xs)) then 0 else 4)
  | Conc ths _ _ _ crashed races =>
      32 + (if existsb has_hy_session ths then 1 else 0) + (if existsb has_unsub ths then 2 else 0)
      + (if crashed then 4 else 0) + (match races with O => 0 | _ => 8 end)
  | Unw s t u _ => match unwrap (sub_id s t u) with Some _ => 8 | None => 9 end
  | Raw id _ => match unwrap id with Some _ => 10 | None => 11 end
  end.

Definition check_all := check_cases agree judge tag.
