(* Correspondence run for C02: case = input + what the real Go code did. *)
From Coq Require Import List NArith Bool String.
Import ListNotations.
From SygmaV Require Export Lib.RunLib Lib.Hex Lib.C02_Keccak Model.C02.
Local Open Scope N_scope.

Inductive via := Direct | Evm | Substrate.

Inductive case :=
(* the 32 bytes handed to signing.  Direct: chains.ProposalsHash(props, chain, contract, version);
   Evm: BridgeContract.ProposalsHash over a fake client (chain id and contract address come from
   the client / the contract object, the version from the code); Substrate: Pallet.ProposalsHash
   (chain id from the client, contract and version from the code).  impl = hex digest, "" = error *)
| Digest (v : via) (version : string) (chain : N) (contract : string) (ps : list proposal) (impl : string)
(* the signature bytes the real executeBatch (EVM) / executeProposal (Substrate) passed to
   ExecuteProposals for tss-lib style R = r.Bytes(), S = s.Bytes(), SignatureRecovery = [recid];
   recovered: r,s is a real signature and crypto.SigToPub on the submitted bytes returned the key
   (true when the case is synthetic) *)
| Sig (r s recid : N) (impl_evm impl_sub : string) (recovered : bool)
(* arbitrary byte slices, as coded; None = the code panicked *)
| SigRaw (Rb Sb rec : string) (impl_evm impl_sub : option string)
(* crypto.Keccak256 against Lib/C02_Keccak *)
| Kec (msg : string) (impl : string).

Fixpoint bytes_eqb (a b : list N) : bool :=
  match a, b with
  | [], [] => true
  | x :: a', y :: b' => N.eqb x y && bytes_eqb a' b'
  | _, _ => false
  end.

Definition obytes_eqb (a : option (list N)) (b : option string) : bool :=
  match a, b with
  | None, None => true
  | Some x, Some y => bytes_eqb x (unhex y)
  | _, _ => false
  end.

Definition model_digest (v : via) (version : string) (chain : N) (contract : string)
           (ps : list proposal) : list N :=
  match v with
  | Direct => digest keccak256 {| d_name := bridge_name; d_version := bytes_of_string version;
                                  d_chain := chain; d_contract := unhex contract |} ps
  | Evm => digest keccak256 (bridge_domain chain (unhex contract)) ps
  | Substrate => digest keccak256 (bridge_domain chain substrate_contract) ps
  end.

Definition agree (c : case) : bool :=
  match c with
  | Digest _ _ _ _ _ _ => true (* the judge already is equality with the model *)
  | Sig r s recid e su _ =>
      obytes_eqb (sig_assemble r s recid) (Some e) && obytes_eqb (sig_assemble r s recid) (Some su)
  | SigRaw Rb Sb rec e su =>
      obytes_eqb (sig_assemble_bytes (unhex Rb) (unhex Sb) (unhex rec)) e &&
      obytes_eqb (sig_assemble_bytes (unhex Rb) (unhex Sb) (unhex rec)) su
  | Kec m d => bytes_eqb (keccak256 (unhex m)) (unhex d)
  end.

Definition judge (c : case) : bool :=
  match c with
  | Digest v ver chain contract ps impl =>
      (* the value handed to signing is the EIP-712 digest (Model/C02.digest over keccak-256) *)
      bytes_eqb (model_digest v ver chain contract ps) (unhex impl) &&
      Nat.eqb (String.length impl) 64
  | Sig r s recid e su rec => sig_ok r s recid (unhex e) && sig_ok r s recid (unhex su) && rec
  | SigRaw _ _ _ _ _ => true
  | Kec _ _ => true
  end.

Definition tag (c : case) : N :=
  match c with
  | Digest v _ _ _ ps _ =>
      (match v with Direct => 0 | Evm => 10 | Substrate => 20 end) + N.min 5 (N.of_nat (List.length ps))
  | Sig r s _ _ _ _ =>
      30 + (if r <? 2 ^ 248 then 1 else 0) + (if s <? 2 ^ 248 then 2 else 0)
  | SigRaw _ _ _ e _ => match e with None => 40 | Some _ => 41 end
  | Kec _ _ => 50
  end.

Definition check_all := check_cases agree judge tag.
