(* Correspondence run for C02: case = input + what the real Go code did. *)
From Coq Require Import List NArith Bool String.
Import ListNotations.
From SygmaV Require Export Lib.RunLib Lib.Hex Lib.C02_Keccak Model.C02.
Local Open Scope N_scope.

Inductive via := Direct | Evm | Substrate.

(* one argument tuple of a digest computation (see [Digest] below for the meaning per entry point) *)
Inductive tuple := Tup (v : via) (version : string) (chain : N) (contract : string) (ps : list proposal).

(* one submission of the real Executor.Execute: the session id whose traffic was the only one let
   through when it happened, the batch that session id stands for (position <i> of the real
   proposalBatches for <messageID>-<i>; the pending proposals of the delivery for Substrate), the
   digest the submitted signature verifies for under the committee's key (hex, "" = none), the batch
   submitted with it *)
Inductive sess := Sess (sid : string) (batch : list proposal) (signed : string) (submitted : list proposal).

(* what a long-lived digest object answered to one request: hex digest / an error / a Go panic *)
Inductive hans := HDigest (s : string) | HErr | HPanic.

(* one request of a history: the number of the object it went to, the object's arguments (its REAL chain id
   and contract; see [Digest] for the meaning per entry point) with the batch of this request, whether the
   chain-id RPC of the object's endpoint failed while the request was served, the answer *)
Inductive hreq := HReq (obj : nat) (t : tuple) (rpc_fails : bool) (a : hans).

Inductive case :=
(* the 32 bytes handed to signing.  Direct: chains.ProposalsHash(props, chain, contract, version);
   Evm: BridgeContract.ProposalsHash over a fake client (chain id and contract address come from
   the client / the contract object, the version from the code); Substrate: Pallet.ProposalsHash
   (chain id from the client, contract and version from the code).  impl = hex digest, "" = error *)
| Digest (v : via) (version : string) (chain : N) (contract : string) (ps : list proposal) (impl : string)
(* the signature bytes the real executeBatch (EVM) / executeProposal (Substrate) passed to
   ExecuteProposals for tss-lib style R = r.Bytes(), S = s.Bytes(), SignatureRecovery = [recid];
   recovered: r,s is a real signature and crypto.SigToPub on the submitted bytes returned the key
   (true when the case is synthetic) *)
| Sig (r s recid : N) (impl_evm impl_sub : string) (recovered : bool)
(* arbitrary byte slices, as coded; None = the code panicked *)
| SigRaw (Rb Sb rec : string) (impl_evm impl_sub : option string)
(* crypto.Keccak256 against Lib/C02_Keccak *)
| Kec (msg : string) (impl : string)
(* several tuples hashed by the real code in one process, sequentially in some order with
   repetitions or concurrently; seen = (tuple number, a digest returned for it), every distinct
   answer is listed *)
| Multi (tuples : list tuple) (seen : list (nat * string))
(* a history of digest requests on long-lived objects (each real BridgeContract / Pallet built once), in the
   order they were made, every request with freshly built proposals *)
| Hist (reqs : list hreq)
(* three relayers ran the real Executor.Execute (v = Evm | Substrate) with real threshold signing;
   complete = every session produced exactly one submission and every Execute returned;
   crashed = an Execute ended in a Go panic.  (One relayer without peers, where nothing can be signed:
   no sessions; complete = Execute returned having asked for the digest of every non-empty batch once.) *)
| Exec (v : via) (chain : N) (contract : string) (sessions : list sess) (complete crashed : bool)
(* the real executeBatch (through the real BridgeContract.ExecuteProposals, read back from the call
   data) and executeProposal on [batch] while some members count as executed: what was submitted;
   passed = signature bytes / gas limit arrived unchanged, one call each *)
| Submit (chain : N) (contract : string) (batch sub_evm sub_sub : list proposal) (passed : bool).

Definition obytes_eqb (a : option (list N)) (b : option string) : bool :=
  match a, b with
  | None, None => true
  | Some x, Some y => bytes_eqb x (unhex y)
  | _, _ => false
  end.

Definition model_domain (v : via) (version : string) (chain : N) (contract : string) : domain :=
  match v with
  | Direct => {| d_name := bridge_name; d_version := bytes_of_string version;
                 d_chain := chain; d_contract := unhex contract |}
  | Evm => bridge_domain chain (unhex contract)
  | Substrate => bridge_domain chain substrate_contract
  end.

Definition model_digest (v : via) (version : string) (chain : N) (contract : string)
           (ps : list proposal) : list N :=
  digest keccak256 (model_domain v version chain contract) ps.

Definition tuple_digest (t : tuple) : list N :=
  match t with Tup v version chain contract ps => model_digest v version chain contract ps end.

Definition session_of (s : sess) : session :=
  match s with Sess _ b signed sub => {| s_batch := b; s_signed := unhex signed; s_submitted := sub |} end.

Definition answer_of (a : hans) : answer :=
  match a with HDigest s => ADigest (unhex s) | HErr => AErr | HPanic => APanic end.

Definition hist_of (reqs : list hreq) : list (list N * answer) :=
  map (fun r => match r with HReq _ t _ a => (tuple_digest t, answer_of a) end) reqs.

(* correspondence of a history: an object none of whose requests has met a failing RPC so far answers a
   healthy request with a digest, as the model does (WHICH digest is the judge's business).  Nothing is demanded
   of the error behaviour after a failure beyond the judge: an object that keeps a correctly obtained chain id
   and therefore answers while the RPC is down, or one that stays cautious for a while, is no divergence. *)
Fixpoint hist_agree (failed : list nat) (reqs : list hreq) : bool :=
  match reqs with
  | [] => true
  | HReq obj _ fails a :: r =>
      (if fails || existsb (Nat.eqb obj) failed then true
       else match a with HDigest _ => true | _ => false end) &&
      hist_agree (if fails then obj :: failed else failed) r
  end.

Definition agree (c : case) : bool :=
  match c with
  | Digest _ _ _ _ _ _ => true (* the judge already is equality with the model *)
  | Sig r s recid e su _ =>
      obytes_eqb (sig_assemble r s recid) (Some e) && obytes_eqb (sig_assemble r s recid) (Some su)
  | SigRaw Rb Sb rec e su =>
      obytes_eqb (sig_assemble_bytes (unhex Rb) (unhex Sb) (unhex rec)) e &&
      obytes_eqb (sig_assemble_bytes (unhex Rb) (unhex Sb) (unhex rec)) su
  | Kec m d => bytes_eqb (keccak256 (unhex m)) (unhex d)
  | Multi _ _ => true (* the judge already is equality with the model *)
  | Hist reqs => hist_agree [] reqs
  | Exec _ _ _ _ complete _ => complete
  | Submit _ _ b e su passed => proposals_eqb e b && proposals_eqb su b && passed
  end.

Definition judge (c : case) : bool :=
  match c with
  | Digest v ver chain contract ps impl =>
      (* the value handed to signing is the EIP-712 digest (Model/C02.digest over keccak-256) *)
      bytes_eqb (model_digest v ver chain contract ps) (unhex impl) &&
      Nat.eqb (String.length impl) 64
  | Sig r s recid e su rec => sig_ok r s recid (unhex e) && sig_ok r s recid (unhex su) && rec
  | SigRaw _ _ _ _ _ => true
  | Kec _ _ => true
  | Multi ts seen =>
      (* every answer for tuple i is the EIP-712 digest of tuple i's arguments (Model/C02.multi_ok) *)
      multi_ok (map tuple_digest ts) (map (fun x => (fst x, unhex (snd x))) seen) &&
      forallb (fun x => Nat.eqb (String.length (snd x)) 64) seen
  | Hist reqs =>
      (* Model/C02.hist_ok: every value that came back without an error is the EIP-712 digest for the object's
         real chain id / contract and the batch of that request, whatever the object was asked or failed to
         answer before; no panic *)
      hist_ok (hist_of reqs) &&
      forallb (fun r => match r with HReq _ _ _ (HDigest s) => Nat.eqb (String.length s) 64 | _ => true end) reqs
  | Exec v chain contract ss _ crashed =>
      (* Model/C02.exec_ok: per session (session_ok) signed value = digest of the session's batch = digest
         of what was submitted with the signature; and Execute did not crash *)
      exec_ok keccak256 (model_domain v "3.1.0" chain contract) (map session_of ss) crashed
  | Submit chain contract b e su _ =>
      same_commitment keccak256 (bridge_domain chain (unhex contract)) e b &&
      same_commitment keccak256 (bridge_domain chain substrate_contract) su b
  end.

Definition tag (c : case) : N :=
  match c with
  | Digest v _ _ _ ps _ =>
      (match v with Direct => 0 | Evm => 10 | Substrate => 20 end) + N.min 5 (N.of_nat (List.length ps))
  | Sig r s _ _ _ _ =>
      30 + (if r <? 2 ^ 248 then 1 else 0) + (if s <? 2 ^ 248 then 2 else 0)
  | SigRaw _ _ _ e _ => match e with None => 40 | Some _ => 41 end
  | Kec _ _ => 50
  | Multi ts _ => 60 + N.min 9 (N.of_nat (List.length ts))
  | Hist reqs =>
      (if existsb (fun r => match r with HReq _ _ f _ => f end) reqs then 110 else 100) +
      N.min 9 (N.of_nat (List.length reqs))
  | Exec v _ _ ss _ _ => (match v with Substrate => 80 | _ => 70 end) + N.min 9 (N.of_nat (List.length ss))
  | Submit _ _ b e _ _ => 90 + (if Nat.eqb (List.length e) (List.length b) then 0 else 1)
  end.

Definition check_all := check_cases agree judge tag.
