(* Correspondence run for C06: case = the range (per deposit: well-formed with its message, or
   poisoned with the outcome the REAL deposit handler produced on its bytes in isolation) + what the
   real ProcessDeposits / HandleEvents did with the whole range. *)
From Coq Require Import List NArith Bool.
Import ListNotations.
From SygmaV Require Export Lib.RunLib Model.C06.
Local Open Scope N_scope.

(* impl: crashed (child process died / timed out), failed (an error was returned), the groups as
   (destination, nonces) sorted by destination. *)
Inductive case := Case (p : path) (es : list revent) (crashed failed : bool) (impl : list (N * list N)).

Definition to_groups (l : list (N * list N)) : groups :=
  map (fun kn => (fst kn, map (fun n => (fst kn, n)) (snd kn))) l.

Fixpoint msgs_eqb (a b : list msg) : bool :=
  match a, b with
  | [], [] => true
  | x :: a', y :: b' => msg_eqb x y && msgs_eqb a' b'
  | _, _ => false
  end.

Definition groups_eqb (a b : groups) : bool :=
  forallb (fun kl => msgs_eqb (get (fst kl) b) (snd kl)) a &&
  forallb (fun kl => msgs_eqb (get (fst kl) a) (snd kl)) b.

Definition impl_result (failed : bool) (impl : list (N * list N)) : result :=
  if failed then Failed else Done (to_groups impl).

Definition agree (c : case) : bool :=
  match c with
  | Case p es crashed failed impl =>
      negb crashed &&
      match run p es, impl_result failed impl with
      | Done g, Done g' => groups_eqb g g'
      | Failed, Failed => true
      | _, _ => false
      end
  end.

Definition judge (c : case) : bool :=
  match c with
  | Case p es crashed failed impl => spec_ok p es crashed (impl_result failed impl)
  end.

Definition is_bad (x : deposit * status) : bool := match fst x with Bad _ => true | _ => false end.

(* branch tag: path x (some poisoned deposit present?) x (some message owed?) *)
Definition tag (c : case) : N :=
  match c with
  | Case p es _ _ _ =>
      (match p with EvmDeposits => 0 | SubDeposits => 4 | BtcDeposits => 8 | EvmRetryV1 => 12 | SubRetry => 16 end)
      + (if existsb is_bad (flat es) then 2 else 0)
      + (match filter_map (owed p) (flat es) with [] => 0 | _ => 1 end)
  end.

Definition check_all := check_cases agree judge tag.
