(* Correspondence run for C06: case = the range; per deposit: the handler kind and the BYTES (whether it
   is well-formed is decided here, in the kernel, by the wire-format predicates wf_* of Model/C01.v)
   and the outcome the REAL deposit handler produced on it in isolation (used as the adversary's
   choice when the deposit is not well-formed) + what the real ProcessDeposits / HandleEvents did with
   the whole range. *)
From Coq Require Import List NArith Bool String.
Import ListNotations.
From Coq Require Export Uint63.
From SygmaV Require Export Lib.RunLib Lib.C06_Pack Model.C06.
From SygmaV Require Import Lib.C01_Bytes Model.C01.
Local Open Scope N_scope.

(* handler kind whose wire format applies; KNone: never well-formed (unknown resource, log that does
   not unpack, event of another kind, transaction that does not pay the bridge, ...) *)
Inductive hkind := KErc20 | KErc721 | KErc1155 | KGeneric | KSub | KBtc | KNone.

(* what the real handler did on the deposit alone; MOk: the destination of the message.  i_fp numbers
   the CONTENT of that message (source, destination, type, resource id, transfer type, payload,
   metadata - everything but the nonce, the id string and the timestamp) within the case: equal
   contents, equal number; 0: no message.  The messages observed on the channel are numbered by the
   same table, so "its message" of a deposit is the message its handler yields for it alone. *)
Inductive measured := MOk (dest : N) | MErr | MPanic | MSkip.

(* i_nonce: the deposit nonce the event carries (BTC: the transaction, whose hash and the block number
   determine the nonce).  Deposits of one case may share it.  i_data / i_hr: the bytes, packed (Lib/C06_Pack.v:
   length + 7 bytes per primitive integer; a string literal costs the elaborator 30 times more). *)
Record item := mkItem { i_kind : hkind; i_dest : N; i_nonce : N; i_data : pk; i_hr : pk;
                        i_meas : measured; i_fp : N; i_st : status }.

Definition hx (p : pk) : bytes := unpk p.

Definition as_dep (it : item) : Model.C01.deposit :=
  mkDep 0 (i_dest it) 0 [] (hx (i_data it)) (hx (i_hr it)) 19000.

Definition item_wf (it : item) : bool :=
  match i_kind it with
  | KErc20 => wf_erc20 (as_dep it)
  | KErc721 => wf_erc721 (as_dep it)
  | KErc1155 => wf_erc1155 (as_dep it)
  | KGeneric => wf_generic (as_dep it)
  | KSub => wf_sub (as_dep it)
  | KBtc => wf_btc (as_dep it)
  | KNone => false
  end.

(* destination of the message a well-formed deposit is owed *)
Definition item_dest (it : item) : N :=
  match i_kind it with
  | KBtc => dec_value (btc_dom_part (as_dep it))
  | _ => i_dest it
  end.

Definition to_deposit (it : item) : Model.C06.deposit * status :=
  (if item_wf it then Good (item_dest it, (i_nonce it, i_fp it))
   else Bad (match i_meas it with
             | MOk d => Model.C06.Ok (d, (i_nonce it, i_fp it))
             | MErr => Model.C06.Err | MPanic => Model.C06.Panic | MSkip => Skip
             end),
   i_st it).

Inductive ievent := ISkip (n : N) | IDeps (l : list item).    (* ISkip n: a skipped event of n deposits *)

Definition to_events (es : list ievent) : list revent :=
  map (fun e => match e with ISkip _ => RSkip | IDeps l => RDeps (map to_deposit l) end) es.

(* impl: crashed (child process died), hung (the child did not answer within its deadline: processing
   the range does not terminate) - the child runs the real HandleEvents AND feeds what
   arrives on the message channel to sygma-core's real Relayer.Start/route over fake destination chains),
   failed (an error was returned), the groups as (destination, (nonce, content)s) sorted by destination =
   what each destination chain received through route; sent = the batches as they arrived on the message
   channel, each message as Some (its destination, (nonce, content)) or None (a nil *message.Message), sorted;
   hp = the (chain kind, message) pairs on which the REAL destination-side message handler of that chain kind
   (1 EVM TransferMessageHandler, 2 SubstrateMessageHandler, 3 BTC FungibleMessageHandler) panicked when route handed
   it the message (every message goes to the handlers of all three kinds; in the relayer binary nothing recovers
   on the route goroutine: the process would be dead).
   A CONCURRENT case (runner: "conc") is printed the same way: one range, its calls made thousands of times from
   several goroutines on the ONE handler object the listener and the retry message handler share (as app.go wires
   them), in a child process of its own; crashed = that child died (a fatal runtime error cannot be recovered),
   impl / sent = the result of the first call that differed from the sequential reference call, or the common
   result when none did. *)
Inductive case := Case (p : path) (ies : list ievent) (crashed hung failed : bool) (impl : list (N * list (N * N)))
                       (sent : list (list (option (N * (N * N))))) (hp : list (N * (N * (N * N)))).

Definition to_groups (l : list (N * list (N * N))) : groups :=
  map (fun kn => (fst kn, map (fun n => (fst kn, n)) (snd kn))) l.

Fixpoint msgs_eqb (a b : list msg) : bool :=
  match a, b with
  | [], [] => true
  | x :: a', y :: b' => msg_eqb x y && msgs_eqb a' b'
  | _, _ => false
  end.

Definition groups_eqb (a b : groups) : bool :=
  forallb (fun kl => msgs_eqb (get (fst kl) b) (snd kl)) a &&
  forallb (fun kl => msgs_eqb (get (fst kl) a) (snd kl)) b.

Definition impl_result (failed : bool) (impl : list (N * list (N * N))) : result :=
  if failed then Failed else Done (to_groups impl).

Definition omsg_eqb (a b : option msg) : bool :=
  match a, b with Some x, Some y => msg_eqb x y | None, None => true | _, _ => false end.

Fixpoint batch_eqb (a b : batch) : bool :=
  match a, b with
  | [], [] => true
  | x :: a', y :: b' => omsg_eqb x y && batch_eqb a' b'
  | _, _ => false
  end.

(* the batches on the channel are the model's groups, one batch each (the order of arrival is the
   goroutine scheduler's / Go's map order) *)
Definition sent_eqb (g : groups) (sent : list batch) : bool :=
  Nat.eqb (List.length g) (List.length sent) &&
  forallb (fun b => existsb (batch_eqb b) sent) (batches_of g).

Definition agree (c : case) : bool :=
  match c with
  | Case p ies crashed hung failed impl sent hp =>
      let es := to_events ies in
      negb crashed && negb hung && down_ok hp &&
      match run p es, impl_result failed impl with
      | Done g, Done g' => groups_eqb g g' && sent_eqb g sent
      | Failed, Failed => true
      | _, _ => false
      end
  end.

Definition judge (c : case) : bool :=
  match c with
  | Case p ies crashed hung failed impl sent hp =>
      Model.C06.spec_ok p (to_events ies) (crashed || hung) (impl_result failed impl) && sent_ok sent && down_ok hp
  end.

Definition is_bad (x : Model.C06.deposit * status) : bool := match fst x with Bad _ => true | _ => false end.

(* two deposits of the case carry the same nonce *)
Fixpoint shared_nonce (l : list N) : bool :=
  match l with [] => false | n :: r => existsb (N.eqb n) r || shared_nonce r end.

Definition item_nonces (ies : list ievent) : list N :=
  flat_map (fun e => match e with ISkip _ => [] | IDeps l => map i_nonce l end) ies.

(* branch tag: path x (some poisoned deposit present?) x (some message owed?) x (deposits share a nonce?) *)
Definition tag (c : case) : N :=
  match c with
  | Case p ies _ _ _ _ _ _ =>
      let es := to_events ies in
      (if shared_nonce (item_nonces ies) then 20 else 0) +
      (match p with EvmDeposits => 0 | SubDeposits => 4 | BtcDeposits => 8 | EvmRetryV1 => 12 | SubRetry => 16 end)
      + (if existsb is_bad (flat es) then 2 else 0)
      + (match filter_map (owed p) (flat es) with [] => 0 | _ => 1 end)
  end.

Definition check_all := check_cases agree judge tag.
