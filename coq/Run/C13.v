(* Correspondence run for C13: case = input + what the real Go code did.
   In the run the model's Section variables are instantiated as follows:
     H        := lower-case hex of Lib.C13_Sha256.sha256 (recomputed in the kernel, once per event)
     decrypt  := identity, parse := the runner's table  ciphertext -> expected topology, computed by
                 the runner with the Go STANDARD LIBRARY's AES-CTR (not the repo's code) and a
                 reference parser (JSON, peer.AddrInfoFromString, threshold >= 1).
   LARGE bodies (kilobytes to megabytes: what is hash-checked must be ALL that was served) are not
   shown to the kernel: such an event carries a digest (Some d) computed by the runner with the Go
   standard library (hex.DecodeString of the whole served body minus one trailing newline, then
   crypto/sha256), and its body is a stand-in - the 64 digits of d (so the stand-in ciphertext is the
   digest itself), or a non-hex text if the served body is not hex.  H, decrypt and parse are Section
   variables of the model; for a stand-in H is the runner's digest instead of the kernel's SHA-256. *)
From Coq Require Import List NArith ZArith Bool String Ascii.
Import ListNotations.
From SygmaV Require Export Lib.RunLib Lib.Hex Lib.C13_Sha256 Model.C13.
Local Open Scope N_scope.

(* what the implementation did in one HandleEvents call: code 0 = returned, 1 = panicked *)
Record step_obs := mk_step_obs { so_code : N; so_view : view }.

(* one call of TopologyProvider.NetworkTopology(hash): what the URL served, the runner's expected
   topology of that body, and what the call did (code 0 = topology, 1 = error, 2 = panic) *)
Record call := mk_call { cl_hash : string; cl_fetch_ok : bool; cl_body : list N; cl_oracle : option topo;
                         cl_digest : option string; cl_code : N; cl_topo : option topo }.

Inductive case :=
(* ConnectionGate over a topology: [InterceptPeerDial; InterceptSecured inbound; InterceptSecured
   outbound; InterceptAddrDial; InterceptAccept; InterceptUpgraded] for peer p *)
| Gate (peers : list peer) (p : string) (impl : list bool)
(* RefreshEventHandler.HandleEvents, a sequence of events from the initial topology init (init_stored:
   what the topology file holds initially - None when the file cannot be written); each event comes with the runner's expected topology for its ciphertext (the table entry) *)
| Refresh (probes : list string) (init_stored : option topo) (init : topo)
          (evs : list (event * option topo * option string))
          (impl_init : view) (impl : list step_obs)
(* TopologyProvider.NetworkTopology(hash) directly: code 0 = topology, 1 = error, 2 = panic *)
| Prov (hash : string) (fetch_ok : bool) (body : bytes) (oracle : option topo) (digest : option string)
       (impl_code : N) (impl_topo : option topo)
(* a history of such calls through ONE provider object: every call is judged on its own (what was
   fetched or returned earlier does not matter) *)
| ProvSeq (calls : list call)
(* three real libp2p hosts (p2p.NewHost: tcp on 127.0.0.1, Noise, the real gate), every gate holding the
   topology [members]: did dialer get a connection to target, and who is the sender of the message
   it then broadcast (the payload names the third host) *)
| Hosts (members : list string) (dialer target : string) (impl_connected : bool) (impl_from : option string)
(* ProcessMessagesFromStream with a payload that claims a sender *)
| Attr (remote : string) (claimed : option string) (impl_delivered : bool) (impl_from : string).

Fixpoint bytes_eqb (a b : bytes) : bool :=
  match a, b with
  | [], [] => true
  | x :: a', y :: b' => N.eqb x y && bytes_eqb a' b'
  | _, _ => false
  end.

Fixpoint lookup {A} (k : bytes) (tb : list (bytes * A)) : option A :=
  match tb with
  | [] => None
  | (k', v) :: r => if bytes_eqb k k' then Some v else lookup k r
  end.

(* per event: its ciphertext (if the body is hex), the kernel-computed hash, the expected topology *)
Definition tables := list (bytes * (string * option topo)).

Definition entry_of (body : bytes) (oracle : option topo) (digest : option string) : tables :=
  match hex_decode (trim_nl body) with
  | Some ct => [(ct, (match digest with Some d => d | None => tohex (sha256 ct) end, oracle))]
  | None => []
  end.

Definition H_of (tb : tables) (ct : bytes) : string :=
  match lookup ct tb with Some (h, _) => h | None => EmptyString end.
Definition parse_of (tb : tables) (ct : bytes) : option topo :=
  match lookup ct tb with Some (_, o) => o | None => None end.
Definition ident (b : bytes) : bytes := b.

Definition code_of (o : outcome) : N :=
  match o with PanicDecrypt | PanicLoad => 1 | _ => 0 end.

Section WithTables.
  Variable tb : tables.
  Notation refresh' := (refresh (H_of tb) ident (parse_of tb)).
  Notation ann' := (announced_topo (H_of tb) ident (parse_of tb)).

  Fixpoint agree_steps (probes : list string) (st : state) (evs : list (event * option topo * option string))
           (impl : list step_obs) : bool :=
    match evs, impl with
    | [], [] => true
    | (ev, _, _) :: evs', o :: impl' =>
        let '(st', out) := refresh' st ev in
        N.eqb (code_of out) (so_code o) && view_eqb (view_of probes st') (so_view o)
        && agree_steps probes st' evs' impl'
    | _, _ => false
    end.

  (* the specification, step by step: the step is one the property allows (nothing changed, or the
     CURRENT event announced the topology now in force) and afterwards the topology file and the gate
     name the same members *)
  Fixpoint judge_steps (probes : list string) (prev : view) (evs : list (event * option topo * option string))
           (impl : list step_obs) : bool :=
    match evs, impl with
    | [], [] => true
    | (ev, _, _) :: evs', o :: impl' =>
        step_spec probes (ann' ev) prev (so_view o) && judge_steps probes (so_view o) evs' impl'
    | _, _ => false
    end.
End WithTables.

(* the provider against the model, and the specification of one call: a topology is returned only if
   it is the one the ciphertext stands for and, when a hash is demanded, the ciphertext has that hash *)
Definition prov_agree (hash : string) (fetch_ok : bool) (body : bytes) (oracle : option topo)
           (digest : option string) (code : N) (t : option topo) : bool :=
  let tb := entry_of body oracle digest in
  match provider (H_of tb) ident (parse_of tb) hash fetch_ok body with
  | POk m => N.eqb code 0 && opt_topo_eqb (Some m) t
  | PErr => N.eqb code 1
  | PPanic => N.eqb code 2
  end.

Definition prov_judge (hash : string) (body : bytes) (oracle : option topo) (digest : option string)
           (code : N) (t : option topo) : bool :=
  let tb := entry_of body oracle digest in
  if N.eqb code 0 then
    match hex_decode (trim_nl body) with
    | Some ct => (String.eqb hash EmptyString || String.eqb (H_of tb ct) hash)
                 && match oracle with Some _ => opt_topo_eqb oracle t | None => false end
    | None => false
    end
  else true.

Definition member_bool (peers : list peer) (p : string) : bool := allowed (mk_topo peers 0%Z) p.

Definition verdict_of (c : case) : N :=
  match c with
  | Gate peers p impl =>
      let g := mk_topo peers 1%Z in
      let m := [intercept_peer_dial g p; intercept_secured g DirInbound p; intercept_secured g DirOutbound p;
                intercept_addr_dial g p EmptyString; intercept_accept g; intercept_upgraded g] in
      verdict (bools_eqb m impl)
              (match impl with
               | d :: si :: so :: _ => Bool.eqb d (member_bool peers p) && Bool.eqb si (member_bool peers p)
                                       && Bool.eqb so (member_bool peers p)
               | _ => false
               end)
  | Refresh probes istored init evs impl_init impl =>
      let tb := flat_map (fun eo => entry_of (ev_body (fst (fst eo))) (snd (fst eo)) (snd eo)) evs in
      let st0 := mk_state istored init (fst (load_peers (t_peers init))) in
      verdict (view_eqb (view_of probes st0) impl_init && agree_steps tb probes st0 evs impl)
              (judge_steps tb probes impl_init evs impl)
  | Prov hash fetch_ok body oracle dg code t =>
      verdict (prov_agree hash fetch_ok body oracle dg code t) (prov_judge hash body oracle dg code t)
  | ProvSeq calls =>
      verdict (forallb (fun c => prov_agree (cl_hash c) (cl_fetch_ok c) (cl_body c) (cl_oracle c) (cl_digest c) (cl_code c) (cl_topo c)) calls)
              (forallb (fun c => prov_judge (cl_hash c) (cl_body c) (cl_oracle c) (cl_digest c) (cl_code c) (cl_topo c)) calls)
  | Hosts members dialer target connected from =>
      let g := mk_topo (map (fun m => mk_peer m None) members) 1%Z in
      let m := intercept_peer_dial g target && intercept_secured g DirOutbound target
               && intercept_secured g DirInbound dialer in
      verdict (Bool.eqb m connected &&
               opt_str_eqb from (if m then Some (d_from (deliver dialer (mk_wire 1 EmptyString [] None))) else None))
              (* a connection exists only between two members; a delivered message names the dialer *)
              ((if connected then allowed g target && allowed g dialer else true) &&
               match from with Some f => String.eqb f dialer | None => true end)
  | Attr remote claimed delivered from =>
      verdict (delivered && String.eqb (d_from (deliver remote (mk_wire 0 EmptyString [] claimed))) from)
              (if delivered then String.eqb from remote else true)
  end.

(* tags follow what the implementation did (the model agrees unless reported) *)
Definition tag (c : case) : N :=
  match c with
  | Gate peers p _ => if member_bool peers p then 1 else 0
  | Refresh _ _ _ _ v0 impl =>
      let changed := fst (fold_left (fun acc o => (fst acc || negb (view_eqb (snd acc) (so_view o)), so_view o))
                                    impl (false, v0)) in
      let panicked := existsb (fun o => N.eqb (so_code o) 1) impl in
      2 + (if changed then 1 else 0) + (if panicked then 2 else 0)
  | Prov _ _ _ _ _ code _ => 6 + code
  | ProvSeq calls => 13 + (if existsb (fun c => N.eqb (cl_code c) 0) calls then 1 else 0)
  | Attr _ claimed _ _ => match claimed with Some _ => 10 | None => 9 end
  | Hosts _ _ _ connected _ => if connected then 12 else 11
  end.

Definition check_all (cs : list case) : list (N * N) * list (N * N) :=
  (failures_from 0 (map verdict_of cs), histogram (map tag cs)).
