(* Correspondence run for C09: case = input + what the real Go code did. *)
From Coq Require Import List Arith NArith Bool.
Import ListNotations.
From SygmaV Require Export Lib.RunLib Model.C09.

Inductive case :=
(* n = length sids overlapping Execute calls (request t asks for session id [nth t sids]); none of
   the sessions ends before every request is decided.  [sched]: a complete schedule of plain
   steps for the model; [fin]: the continuation in which every session ends and cleans up.
   impl: which requests were refused, max. number of simultaneously running processes per session
   id (ids 0..), pending flags after all calls returned, and whether each id could be started again *)
| Conc (sids : list nat) (sched fin : list sev)
       (impl_refused : list bool) (impl_maxlive : list nat) (impl_pending_after : list bool)
       (impl_reuse : list bool)
(* one admitted session of np processes, forced to end in the given way; impl: the event ledger
   (subscriptions, CloseSession, Run/Stop per process, pending flag after return), the class of the
   returned error, the number of processes still inside Run after Execute returned, and whether
   the same session id was admitted again; impl_led: the Broadcast ([LSend]) and CloseSession
   ([LClose]) calls of the session on the recording Communication, in the order they were made, seen
   after Execute returned (Model Part 11; also in Long and Batch) *)
| Sess (r : role) (o : outcome) (ph : phase) (np : nat)
       (impl_evs : list ev) (impl_ret : ret) (impl_live_after : nat) (impl_reuse : bool)
       (impl_led : list lev)
(* operations on the real StreamManager over S sessions x P peers x X streams; [fails]: for each
   stream whether its Close() returns an error (scripted in the mock stream; the model of
   ReleaseStreams does not depend on it - Model.sm_release_f) *)
| Streams (S P X : nat) (fails : list bool) (ops : list sop) (impl : list sobs)
(* free-running contention: [rounds] rounds, in each of them n requests for ONE session id (the
   same id in every round of the case) are released together by a barrier on one coordinator and
   run without any interference of the harness; per round: which requests were refused and the
   maximal number of simultaneously running processes.  Every request of a round has returned
   before the next round starts. *)
| Storm (n : nat) (rounds : list (list bool * nat))
(* the real Libp2pCommunication over a fake host with P peers: Broadcast to one peer / CloseSession;
   impl: per operation the stream (numbered in the order the host was asked for them) the message
   was written to, or the streams that were closed (in the order of their peers); [fails]: streams whose Close fails *)
| Comm (P : nat) (fails : list bool) (ops : list cop) (impl : list cobs)
(* admission rounds repeated in a child process built with Go's race detector: number of data race
   reports (the observable counterpart of the lock-discipline theorem); ran = the race-enabled
   child could be built and run *)
| Race (rounds reports : nat) (ran : bool)
(* admission versus teardown: a session of np processes ends; its teardown is parked inside
   CloseSession (at = 0) or inside Stop of process at-1 while a second request for the same session id
   is issued; impl: see Model.tear_ok; stops_before: completed Stop calls per process of the first
   run when the second request was issued *)
| Tear (np at_ : nat) (parked : bool) (dec fin : tdec) (closed_before : nat) (stops_before : list nat)
       (late live_at_b : nat) (ret_parked : bool) (stops_after : list nat) (closes : nat)
       (third pend_after : bool)
(* the real Libp2pCommunication over a fake host with P peers and S session ids, broadcasts to
   several peers (one WSend per addressee, in the order of the peers) with scripted NewStream
   failures; wfails: for every stream the host handed out whether its first write fails (later
   writes fail too in some cases; some streams fail to close); impl: per operation the streams
   handed out / written to / closed or reset *)
| CommW (P S : nat) (wfails : list bool) (ops : list wop) (impl : list wobs)
(* concurrent session lifetimes on one real Libp2pCommunication value (handed around by value) and
   sessions of the real Coordinator.Execute on it, in a child process built with the race detector:
   data race reports (incl. the runtime's "concurrent map" aborts), subscriptions left in the table,
   streams handed out and never closed *)
| RaceComm (workers rounds reports leftover unreleased sessions : nat) (ran : bool)
(* registration concurrent with release, on the real StreamManager / the real Libp2pCommunication
   (sends = registrations of the streams the host handed out for them) with streams whose Close is
   parked by the harness: the ReleaseStreams of session 0 is parked inside a Close while further
   operations are issued; [ops] = a sequential order of all operations that is consistent with what
   was seen (an operation that was issued during the parked release is listed after it), WITHOUT the
   last release of every session that followed; impl: Close calls per stream at the very end and (level
   manager; [] at level comm) the registry at the very end; ok = every call returned *)
| SRace (S P X : nat) (ops : list sop) (impl_closed : list nat) (impl_left : list (list (option nat)))
        (ok : bool)
(* a session outlives TssTimeout through a retry (errk: 0 SubsetError, 1 CommunicationError,
   2 tss.Error, 3 CoordinatorError ends its first phase); a duplicate request for its id arrives when
   it has been admitted for longer than TssTimeout (late: three quarters into the retry phase's own
   timeout); reached = the schedule was reached (the first session was live before and after the
   duplicate was decided); impl: see Model.long_ok *)
| Long (errk : nat) (late reached first_live dup_admitted : bool) (maxlive : nat)
       (pend_after reuse : bool) (impl_led : list lev)
(* ONE session with a batch of np processes (each a scripted process object of its own, some returning
   from Run at once, some staying inside; in half of the cases under GOMAXPROCS(1)), forced to end in
   the given way; retry: a process of the first round fails with a SubsetError and the first process is
   Retryable - handleError runs the whole batch a second time.  impl: the event ledger as in Sess (Run /
   Stop calls PER PROCESS OBJECT), per process the maximal number of Runs inside it at the same time,
   the class of the returned error, processes inside Run after Execute returned, whether the id was
   admitted again; dup: a second batch for the same ids requested while the session was live -
   (refused, (Run calls, Stop calls per process of the duplicate)) *)
| Batch (r : role) (o : outcome) (ph : phase) (retry : bool) (np : nat)
        (impl_evs : list ev) (impl_maxsim : list nat) (impl_ret : ret) (impl_live_after : nat)
        (impl_reuse : bool) (dup : option (bool * (list nat * list nat))) (impl_led : list lev)
(* a batch of np processes requested while a session with its id is live; impl: was it refused, Run /
   Stop calls per process, processes inside Run and pending flag after everything ended, re-use *)
| BatchRefused (np : nat) (refused : bool) (bruns bstops : list nat) (live_after : nat)
               (pend_after reuse : bool)
(* a long history on ONE coordinator: k sessions with distinct ids (nsucc succeed, nerr fail in a
   process, ncancel are entered with a cancelled context) run one after the other, each to its end;
   impl, aggregated: how many of them were refused / did not run each process exactly once (none, for
   the cancelled ones) / did not stop each process exactly once, subscriptions left in the table,
   sessions never closed, Execute calls that did not return; dups: in the middle of the history one
   session stays live while that many requests for its id are made one after the other - how many of
   them were NOT refused, Run calls on their processes; then the probes, in order: (the id is new
   to the coordinator, (admitted, (Run calls, Stop calls))) *)
| Hist (k nsucc nerr ncancel : N) (refused notrun stopbad leftover unclosed stuck : N)
       (dups dup_admitted dup_runs : N)
       (probes : list (bool * (bool * (nat * nat)))).

Definition ret_eqb (a b : ret) : bool :=
  match a, b with
  | RNil, RNil | RPending, RPending | RCoordinatorErr, RCoordinatorErr | RTimeout, RTimeout
  | RProcessErr, RProcessErr => true
  | _, _ => false
  end.

Fixpoint nats_eqb (a b : list nat) : bool :=
  match a, b with
  | [], [] => true
  | x :: a', y :: b' => Nat.eqb x y && nats_eqb a' b'
  | _, _ => false
  end.

Fixpoint opts_eqb (a b : list (option nat)) : bool :=
  match a, b with
  | [], [] => true
  | x :: a', y :: b' => opt_eqb x y && opts_eqb a' b'
  | _, _ => false
  end.

Fixpoint rows_eqb (a b : list (list (option nat))) : bool :=
  match a, b with
  | [], [] => true
  | x :: a', y :: b' => opts_eqb x y && rows_eqb a' b'
  | _, _ => false
  end.

Definition sobs_eqb (a b : sobs) : bool :=
  match a, b with
  | SNone, SNone => true
  | SGot x, SGot y => opt_eqb x y
  | SRel b1 a1 cb1 ca1, SRel b2 a2 cb2 ca2 =>
      rows_eqb b1 b2 && rows_eqb a1 a2 && nats_eqb cb1 cb2 && nats_eqb ca1 ca2
  | _, _ => false
  end.

Fixpoint sobss_eqb (a b : list sobs) : bool :=
  match a, b with
  | [], [] => true
  | x :: a', y :: b' => sobs_eqb x y && sobss_eqb a' b'
  | _, _ => false
  end.

Definition cobs_eqb (a b : cobs) : bool :=
  match a, b with
  | CWrote x, CWrote y => Nat.eqb x y
  | CClosed xs, CClosed ys => nats_eqb xs ys
  | _, _ => false
  end.

Fixpoint cobss_eqb (a b : list cobs) : bool :=
  match a, b with
  | [], [] => true
  | x :: a', y :: b' => cobs_eqb x y && cobss_eqb a' b'
  | _, _ => false
  end.

Definition wobs_eqb (a b : wobs) : bool :=
  match a, b with
  | WSent o1 w1 r1, WSent o2 w2 r2 => nats_eqb o1 o2 && nats_eqb w1 w2 && nats_eqb r1 r2
  | WClosed xs, WClosed ys => nats_eqb xs ys
  | _, _ => false
  end.

Fixpoint wobss_eqb (a b : list wobs) : bool :=
  match a, b with
  | [], [] => true
  | x :: a', y :: b' => wobs_eqb x y && wobss_eqb a' b'
  | _, _ => false
  end.

Definition nsids (sids : list nat) : nat := S (fold_left Nat.max sids 0).

Definition admitted_count (n : nat) (sid : nat -> nat) (adm : nat -> bool) (s : nat) : nat :=
  length (filter (fun t => Nat.eqb (sid t) s && adm t) (seq 0 n)).

(* the ledger of the session against the model's (Execute with as many sends): the same number of
   sends that no CloseSession follows *)
Definition led_agree (led : list lev) : bool :=
  Nat.eqb (open_sends led) (open_sends (exec_ledger (count_sends led) 0)).

Definition agree (c : case) : bool :=
  match c with
  | Conc sids sched fin refused maxlive pend_after reuse =>
      let n := length sids in
      let sid := sid_of sids in
      let st := exec New sid sched (init New) in
      let st2 := exec New sid fin st in
      steps_below n sched && all_decided n st && all_locked (acc st2)
      && Nat.eqb (length refused) n
      (* per session id: as many admitted requests in the model as in the implementation *)
      && forallb (fun s => Nat.eqb (admitted_count n sid (fun t => pc_eqb (pcs st t) PRun) s)
                                   (admitted_count n sid (fun t => negb (nth t refused true)) s))
                 (seq 0 (nsids sids))
      (* after every session ended: same pending flags *)
      && forallb (fun s => Bool.eqb (pend st2 s) (nth s pend_after true)) (seq 0 (nsids sids))
  | Sess r o ph np evs rt live reuse led =>
      nats_eqb (summary np (session_trace r o ph np)) (summary np evs)
      && ret_eqb (session_ret r o ph) rt
      && led_agree led
  | Streams nS nP nX fails ops impl =>
      Nat.eqb (length fails) nX && sobss_eqb (model_sobs nS nP nX (sm_empty, fun _ => 0) ops) impl
  | Storm n rounds =>
      let sid := fun _ : nat => 0 in
      let sched := storm_sched n in
      let st := exec New sid sched (init New) in
      let m := admitted_count n sid (fun t => pc_eqb (pcs st t) PRun) 0 in
      Nat.leb 1 n && steps_below n sched && all_decided n st
      && forallb (fun r => Nat.eqb (length (fst r)) n
                           && Nat.eqb (admitted_count n sid (fun t => negb (nth t (fst r) true)) 0) m) rounds
  | Comm P fails ops impl => peers_below P ops && cobss_eqb (model_cobs P (sm_empty, 0) ops) impl
  | Race _ _ ran => ran
  | Tear np at_ parked dec fin cb sb late live rp sa cl third pa =>
      let order := code_teardown np in
      let st := arrive order (tear_pos at_) in
      Nat.leb at_ np && parked
      && tdec_eqb dec (model_dec np at_) && tdec_eqb fin (model_dec np at_)
      && Nat.eqb cb (t_closed st) && nats_eqb sb (stops_vec np st)
  | CommW P nS wfails ops impl =>
      wpeers_below P ops
      && wobss_eqb (model_wobs RegOnOpen (fun x => nth x wfails false) P (sm_empty, 0) ops) impl
  | RaceComm _ _ _ _ _ _ ran => ran
  | SRace nS nP nX ops closed lft ok =>
      let fin := sm_exec nP sst0 (ops ++ release_all nS) in
      ok && adds_below nS nP ops && all_accepted nP nX ops
      && nats_eqb (cvec nX (snd fin)) closed
      && (match lft with [] => true | _ => rows_eqb (snap nS nP (fst fin)) lft end)
  | Long _ _ reached first_live dup_admitted _ _ _ led =>
      (* a schedule the machine was too slow for says nothing *)
      (negb reached || (first_live && Bool.eqb dup_admitted (negb long_dup_refused)))
      && led_agree led
  | Batch r o ph retry np evs maxsim rt live reuse dup led =>
      led_agree led && feasible r o && (negb retry || match o with ProcessError => true | _ => false end)
      && nats_eqb (summary np (batch_trace PerIteration PerIteration r o ph retry np)) (summary np evs)
      && nats_eqb (batch_maxsim PerIteration r o ph retry np) maxsim
      && ret_eqb (batch_ret r o ph retry) rt
      && match dup with
         | None => true
         | Some (rf, (dr, ds)) =>
             rf && nats_eqb dr (repeat 0 np) && nats_eqb ds (refused_stops PerIteration np)
         end
  | BatchRefused np refused bruns bstops _ _ _ =>
      refused && nats_eqb bruns (repeat 0 np) && nats_eqb bstops (refused_stops PerIteration np)
  | Hist k nsucc nerr ncancel refused notrun _ _ _ _ _ dupadm _ probes =>
      (* the model: whatever k, every request for an id that is not live is admitted, every request for
         the id of the live session is refused (C09_live_session_keeps_out_duplicates) *)
      N.eqb (nsucc + nerr + ncancel) k && N.eqb refused 0 && N.eqb notrun 0 && N.eqb dupadm 0
      && forallb (fun p => Bool.eqb (fst (snd p)) (hist_admits k)) probes
  end.

Definition judge (c : case) : bool :=
  match c with
  | Conc sids sched fin refused maxlive pend_after reuse =>
      let n := length sids in
      conc_ok n (sid_of sids) (fun t => negb (nth t refused true))
      && forallb (fun k => Nat.leb k 1) maxlive
      && forallb negb pend_after
      && forallb (fun b => b) reuse
  | Sess r o ph np evs rt live reuse led =>
      cleanup_ok np evs && Nat.eqb live 0 && reuse && released_ok led
  | Streams nS nP nX fails ops impl => streams_ok nS nP nX ops impl
  | Storm n rounds =>
      forallb (fun r => conc_ok n (fun _ => 0) (fun t => negb (nth t (fst r) true))
                        && Nat.leb (snd r) 1) rounds
  | Comm P fails ops impl => comm_ok [] (fun _ => []) ops impl
  | Race _ reports _ => Nat.eqb reports 0
  | Tear np at_ parked dec fin cb sb late live rp sa cl third pa =>
      tear_ok np dec fin cb late live rp sa cl third pa
  | CommW P nS wfails ops impl => wcomm_ok nS [] [] (fun _ => []) ops impl
  | RaceComm _ _ reports leftover unreleased _ _ =>
      Nat.eqb reports 0 && Nat.eqb leftover 0 && Nat.eqb unreleased 0
  | SRace nS nP nX ops closed lft ok => ok && Nat.eqb (length closed) nX && srace_ok closed lft
  | Long _ _ reached first_live dup_admitted maxlive pend_after reuse led =>
      (negb reached || long_ok first_live dup_admitted maxlive pend_after reuse) && released_ok led
  | Batch r o ph retry np evs maxsim rt live reuse dup led =>
      batch_ok (negb retry) np evs maxsim && Nat.eqb live 0 && reuse && dup_ok dup && released_ok led
  | BatchRefused np refused bruns bstops live pend_after reuse =>
      refused_ok refused bruns bstops && Nat.eqb live 0 && negb pend_after && reuse
  | Hist k _ _ _ refused notrun stopbad leftover unclosed stuck _ dupadm dupruns probes =>
      hist_ok refused notrun stopbad leftover unclosed stuck probes && N.eqb dupadm 0 && N.eqb dupruns 0
  end.

Definition has_dup (l : list nat) : bool :=
  negb (Nat.eqb (length (nodup Nat.eq_dec l)) (length l)).

Definition tag (c : case) : N :=
  match c with
  | Conc sids _ _ _ _ _ _ => if has_dup sids then 1%N else 0%N
  | Sess r o ph np _ _ _ _ _ =>
      (2 + (match o with Success => 0 | ProcessError => 2 | CoordinatorSilent => 4
                        | GlobalTimeout => 6 | Cancelled => 8 end)
         + (match r with Coord => 0 | Peer => 1 end)
         + (match ph with BeforeStart => 0 | DuringRun => 10 | BeforeEntry => 50 end))%N
  | Streams _ _ _ fails _ _ => if existsb (fun b => b) fails then 32%N else 30%N
  | Storm _ _ => 33%N
  | Comm _ fails _ _ => if existsb (fun b => b) fails then 35%N else 34%N
  | Race _ _ _ => 31%N
  | Tear _ at_ _ _ _ _ _ _ _ _ _ _ _ _ => if Nat.eqb at_ 0 then 36%N else 37%N
  | CommW _ _ wfails _ _ => if existsb (fun b => b) wfails then 39%N else 38%N
  | RaceComm _ _ _ _ _ _ _ => 40%N
  | SRace _ _ _ _ _ lft _ => match lft with [] => 42%N | _ => 41%N end
  | Long errk late _ _ _ _ _ _ _ => (43 + 2 * N.of_nat errk + (if late then 1 else 0))%N
  | Batch r o ph retry _ _ _ _ _ _ dup _ =>
      (100 + (match o with Success => 0 | ProcessError => 2 | CoordinatorSilent => 4
                         | GlobalTimeout => 6 | Cancelled => 8 end)
           + (match r with Coord => 0 | Peer => 1 end)
           + (match ph with BeforeStart => 0 | DuringRun => 10 | BeforeEntry => 20 end)
           + (if retry then 30 else 0)
           + (match dup with None => 0 | Some _ => 40 end))%N
  | BatchRefused _ _ _ _ _ _ _ => 190%N
  | Hist _ _ _ _ _ _ _ _ _ _ dups _ _ _ => if N.eqb dups 0 then 191%N else 192%N
  end.

Definition check_all := check_cases agree judge tag.
