(* Correspondence run for C18: case = what was stored + what the real stores did. *)
From Coq Require Import List NArith Bool String.
Import ListNotations.
From SygmaV Require Export Lib.RunLib Lib.Hex Model.C18 Model.C18Codec.

Inductive case :=
(* the system calls of one real StoreKeyshare / StoreTopology (observed with strace, paths numbered:
   0 = the store's file, 1.. = any other file in its directory) over a previous value [old];
   [final] = the bytes found in the store's file afterwards; [g] = cut-point spacing of the judge *)
| Trace (g : N) (old : bytes) (tr : list op) (final : bytes)
(* the real store run with a previous value present and the write failing after k bytes
   (RLIMIT_FSIZE = k) for k = 0..len: what the real getter returned afterwards *)
| Sweep (len : N) (obs : list outcome)
(* store then get through the real code: reflect.DeepEqual (value, got) *)
| RoundTrip (equal : bool)
(* a topology stored by the real StoreTopology: the bytes of the file, and whether the real getter
   returned an equal value *)
| TopoFile (t : topo) (file : string) (equal : bool)
(* a HISTORY of 2..4 real stores on the same file, each executed in its own child process under strace
   over whatever the previous ones left in the directory; a store runs to completion (Done), has its
   write fail after k bytes (RLIMIT_FSIZE = k, SIGXFSZ ignored: Failed) or is killed (RLIMIT_FSIZE = k
   with the default action of SIGXFSZ, or SIGKILL on entry of its fchmod / fsync / rename: Died).
   [old] = the file before, holding value number [v0]; per attempt: number of its value, fate, the bytes
   a complete store of the value writes, the observed system calls, what the real getter returned
   afterwards and the bytes found in the file
   (one-process histories: [h_read] = the getter of a fresh store object, [h_read2] = the getter of the
   long-lived object all stores of the history went through; otherwise the two are the same reading) *)
| History (g : N) (old : bytes) (v0 : N) (atts : list hatt)
(* quick store / read sequences on ONE long-lived store object in one process, consecutive stores of
   different values whose files have the same length (also with the modification time pinned): per read
   the number of the value stored last (every store is healthy), what the getter of the long-lived
   object returned and what the getter of a fresh object returned *)
| Reads (l : list (N * reading * reading))
(* stores through a configured path of some file-system shape (a link, a chain of links, a linked
   directory, "..", a relative path, another working directory ...) in one child process: [prev] = what
   the getter returned before the first store; per store the number of its value, whether the store
   reported success (Done) or an error (Failed), and what the getter of the long-lived object and of a
   fresh object on the same configured path returned afterwards *)
| Paths (prev : reading) (l : list (N * fate * reading * reading))
(* a store or read call of the real code (or the child process driving it) did not return within its
   deadline: nothing was read back *)
| Hung

with hatt := mkHAtt (h_vid : N) (h_fate : fate) (h_data : bytes) (h_tr : list op) (h_read h_read2 : reading)
                    (h_file : bytes).

Definition h_vid (a : hatt) := let (v, _, _, _, _, _, _) := a in v.
Definition h_fate (a : hatt) := let (_, f, _, _, _, _, _) := a in f.
Definition h_data (a : hatt) := let (_, _, d, _, _, _, _) := a in d.
Definition h_tr (a : hatt) := let (_, _, _, tr, _, _, _) := a in tr.
Definition h_read (a : hatt) := let (_, _, _, _, r, _, _) := a in r.
Definition h_read2 (a : hatt) := let (_, _, _, _, _, r, _) := a in r.
Definition h_file (a : hatt) := let (_, _, _, _, _, _, b) := a in b.

(* texts with bytes outside printable ASCII are written by the runner as [shex "<hex digits>"] *)
Definition shex (h : string) : string := string_of_bytes (unhex h).

(* contents are written by the runner as [bytes_of_string "..."] (printable ASCII, the files are JSON)
   or [unhex "..."]; they are decoded once, before the closures are built (vm_compute is call-by-value) *)
Definition fs0 (old : bytes) : fs := fun p => if N.eqb p 0 then Some old else None.

Fixpoint outcomes_eqb (a b : list outcome) : bool :=
  match a, b with
  | [], [] => true
  | x :: a', y :: b' => outcome_eqb x y && outcomes_eqb a' b'
  | _, _ => false
  end.

(* model state before each attempt of a history *)
Fixpoint hist_states (s : fs) (atts : list hatt) : list (fs * hatt) :=
  match atts with
  | [] => []
  | a :: r => (s, a) :: hist_states (run s (h_tr a)) r
  end.

(* model of a history: every observed attempt has the atomic-replace shape and does not depend on
   leftovers, the model run on the observed calls holds the bytes found in the file, a completed store
   leaves exactly its value's bytes, a failed one the previous bytes, and the getter returns the value
   whose bytes are in the file *)
Fixpoint hist_agree (s : fs) (prev : reading) (atts : list hatt) : bool :=
  match atts with
  | [] => true
  | a :: r =>
      let s' := run s (h_tr a) in
      let now := s' 0%N in
      let mr := if obytes_eqb now (Some (h_data a)) then RVal (h_vid a) else prev in
      atomic_replace_shape 0%N (h_tr a) && determined [0%N] (h_tr a)
      && obytes_eqb now (Some (h_file a))
      && match h_fate a with
         | Done => obytes_eqb now (Some (h_data a))
         | Failed => obytes_eqb now (s 0%N)
         | Died => obytes_eqb now (s 0%N) || obytes_eqb now (Some (h_data a))
         end
      && reading_eqb (h_read a) mr && reading_eqb (h_read2 a) mr
      && hist_agree s' mr r
  end.

Fixpoint readings_eqb (a b : list reading) : bool :=
  match a, b with
  | [], [] => true
  | x :: a', y :: b' => reading_eqb x y && readings_eqb a' b'
  | _, _ => false
  end.

Definition agree (c : case) : bool :=
  match c with
  | Trace g old tr final =>
      atomic_replace_shape 0%N tr && determined [0%N] tr && obytes_eqb (run (fs0 old) tr 0%N) (Some final)
  | Sweep len obs => outcomes_eqb (sweep_model (N.to_nat len)) obs
  | RoundTrip e => e
  (* the model printer writes the bytes of the real file, and the model parser reads them back *)
  | TopoFile t file e => String.eqb (print_topo t) file && otopo_eqb (parse_topo file) t
  | History g old v0 atts => hist_agree (fs0 old) (RVal v0) atts
  (* the model: a getter returns the value whose bytes the last completed store left in the file *)
  | Reads l => reads_ok (map (fun x => (fst (fst x), snd (fst x))) l) && reads_ok (map (fun x => (fst (fst x), snd x)) l)
  (* the abstract store: success installs the value, an error changes nothing *)
  | Paths prev l =>
      let m := path_model prev (map (fun x => fst (fst x)) l) in
      readings_eqb (map (fun x => snd (fst x)) l) m && readings_eqb (map (fun x => snd x) l) m
  (* every operation of the model is a total function: the model never hangs *)
  | Hung => false
  end.

Definition judge (c : case) : bool :=
  match c with
  | Trace g old tr final => crash_safe_b (N.to_nat g) (fs0 old) 0%N tr
  | Sweep len obs => sweep_ok obs
  | RoundTrip e => e
  (* the property speaks of the VALUE read back through the real getter, not of the file format (a file
     with other spacing or a final newline is as good): the format is compared by [agree] *)
  | TopoFile t file e => e
  (* the specification over histories on what the real getter returned after every attempt, and the
     crash-point specification of every observed attempt in the state the earlier ones left *)
  | History g old v0 atts =>
      hist_ok (RVal v0) (map (fun a => (h_vid a, h_fate a, h_read a)) atts)
      && hist_ok (RVal v0) (map (fun a => (h_vid a, h_fate a, h_read2 a)) atts)
      && forallb (fun sa : fs * hatt => crash_safe_b (N.to_nat g) (fst sa) 0%N (h_tr (snd sa)))
                 (hist_states (fs0 old) atts)
  (* every read - through the long-lived object and through a fresh one - returns the value of the last
     completed store (the history specification with all stores Done: C18_reads_judge_is_hist) *)
  | Reads l => reads_ok (map (fun x => (fst (fst x), snd (fst x))) l) && reads_ok (map (fun x => (fst (fst x), snd x)) l)
  (* C18_paths_judge_sound, C18_paths_done_reads *)
  | Paths prev l => paths_ok prev l
  (* no value was read back: C18_hung_rejected *)
  | Hung => hung_ok
  end.

Definition tag (c : case) : N :=
  match c with
  | Trace _ _ tr _ => if atomic_replace_shape 0%N tr then 1 else 0
  | Sweep _ _ => 2
  | RoundTrip _ => 3
  | TopoFile t _ _ => match tpeers t with [] => 4 | _ => 5 end
  | History _ _ _ atts => if forallb (fun a => fate_eqb (h_fate a) Done) atts then 6 else 7
  | Reads _ => 8
  | Hung => 9
  | Paths _ l => if forallb (fun x => fate_eqb (snd (fst (fst x))) Done) l then 10 else 11
  end%N.

Definition check_all := check_cases agree judge tag.
