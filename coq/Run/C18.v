(* Correspondence run for C18: case = what was stored + what the real stores did. *)
From Coq Require Import List NArith Bool String.
Import ListNotations.
From SygmaV Require Export Lib.RunLib Lib.Hex Model.C18 Model.C18Codec.

Inductive case :=
(* the system calls of one real StoreKeyshare / StoreTopology (observed with strace, paths numbered:
   0 = the store's file, 1.. = any other file in its directory) over a previous value [old];
   [final] = the bytes found in the store's file afterwards; [g] = cut-point spacing of the judge *)
| Trace (g : N) (old : bytes) (tr : list op) (final : bytes)
(* the real store run with a previous value present and the write failing after k bytes
   (RLIMIT_FSIZE = k) for k = 0..len: what the real getter returned afterwards *)
| Sweep (len : N) (obs : list outcome)
(* store then get through the real code: reflect.DeepEqual (value, got) *)
| RoundTrip (equal : bool)
(* a topology stored by the real StoreTopology: the bytes of the file, and whether the real getter
   returned an equal value *)
| TopoFile (t : topo) (file : string) (equal : bool).

(* contents are written by the runner as [bytes_of_string "..."] (printable ASCII, the files are JSON)
   or [unhex "..."]; they are decoded once, before the closures are built (vm_compute is call-by-value) *)
Definition fs0 (old : bytes) : fs := fun p => if N.eqb p 0 then Some old else None.

Fixpoint outcomes_eqb (a b : list outcome) : bool :=
  match a, b with
  | [], [] => true
  | x :: a', y :: b' => outcome_eqb x y && outcomes_eqb a' b'
  | _, _ => false
  end.

Definition agree (c : case) : bool :=
  match c with
  | Trace g old tr final =>
      atomic_replace_shape 0%N tr && obytes_eqb (run (fs0 old) tr 0%N) (Some final)
  | Sweep len obs => outcomes_eqb (sweep_model (N.to_nat len)) obs
  | RoundTrip e => e
  | TopoFile t file e => String.eqb (print_topo t) file
  end.

Definition judge (c : case) : bool :=
  match c with
  | Trace g old tr final => crash_safe_b (N.to_nat g) (fs0 old) 0%N tr
  | Sweep len obs => sweep_ok obs
  | RoundTrip e => e
  | TopoFile t file e => e && otopo_eqb (parse_topo file) t
  end.

Definition tag (c : case) : N :=
  match c with
  | Trace _ _ tr _ => if atomic_replace_shape 0%N tr then 1 else 0
  | Sweep _ _ => 2
  | RoundTrip _ => 3
  | TopoFile t _ _ => match tpeers t with [] => 4 | _ => 5 end
  end%N.

Definition check_all := check_cases agree judge tag.
