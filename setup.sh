#!/bin/sh
# MANIFEST.setup_cmd: build the whole framework offline from files on disk.
set -e
cd "$(dirname "$0")"
export GOFLAGS=-mod=mod GOPROXY=off GOSUMDB=off GOTOOLCHAIN=local GODEBUG=goindex=0
mkdir -p work evidence replays
# 1. no escape hatches anywhere in the development
if grep -rnE '\b(Admitted|admit|Axiom|Parameter|Conjecture|Admit Obligations)\b|Unset Guard|bypass_check|type-in-type|impredicative-set|Unset Positivity|Unset Universe' coq --include='*.v' ; then
  echo "setup: forbidden construct in the Coq development" >&2; exit 1
fi
# 2. full .vo build of every file (never -vos/-vok)
python3 - <<'PY'
import sys; sys.path.insert(0, "tools")
import check
check.ensure_makefile()
PY
# (targets = the claimed properties; the rest of the tree is work in progress and not claimed)
TARGETS=$(for f in tools/props/C*.json; do p=$(basename $f .json); echo Properties/$p.vo Run/$p.vo; done)
( cd coq && timeout 3000 make -j16 $TARGETS ) > work/setup_coq.log 2>&1 || { tail -40 work/setup_coq.log; echo "setup: coq build failed" >&2; exit 1; }
# 3. warm the Go build cache: build every runner once against /repo
python3 - <<'PY'
import os, sys, shutil; sys.path.insert(0, "tools")
import check
check.load_props()
bad = 0
for pid in sorted(check.PROPS):
    if not os.path.isdir(os.path.join(check.HARNESS, "cmd", pid.lower())):
        continue
    work = os.path.join(check.VERIF, "work", "setup_" + pid)
    shutil.rmtree(work, ignore_errors=True); os.makedirs(work)
    ok, out, exe, hooks, dt = check.build_runner(pid, work)
    print("setup: runner %s %s (%.0fs)" % (pid, "ok" if ok else "FAILED", dt))
    if not ok:
        print(out[-2000:]); bad += 1
    else:
        # runners that rebuild themselves with the race detector: warm that build cache too
        cdir = os.path.join(check.HARNESS, "cmd", pid.lower())
        if any('"-race"' in open(os.path.join(cdir, f)).read() for f in os.listdir(cdir) if f.endswith(".go")):
            cmd = ["go", "build", "-race", "-modfile", os.path.join(work, "go.mod"), "-tags", "verif",
                   "-overlay", os.path.join(work, "overlay.json"), "-o", os.path.join(work, "implrun_race"), "./cmd/" + pid.lower()]
            rc, o2, dt2 = check.sh(cmd, 1500, cwd=check.HARNESS, env=check.GOENV)
            print("setup: race build %s %s (%.0fs)" % (pid, "ok" if rc == 0 else "FAILED (checks fall back to the plain child)", dt2))
    shutil.rmtree(work, ignore_errors=True)
sys.exit(1 if bad else 0)
PY
echo "setup: done"
