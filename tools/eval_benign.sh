#!/bin/sh
# tools/eval_benign.sh <PID>: run the check against each /tmp/benout/<PID>/<n>/patch.diff
P=$1
for n in 1 2 3 4; do
  d=/tmp/benout/$P/$n
  [ -f $d/patch.diff ] || continue
  k=$(python3 -c "import json;print(json.load(open('$d/meta.json')).get('kind','?'))" 2>/dev/null)
  echo "--- benign $P/$n ($k)"
  /verif/tools/try_patch.sh $d/patch.diff $P 2>&1 | grep -E '^(VIOLATION|C[0-9]+ tier|error)' | cut -c1-240
done
