#!/bin/sh
# tools/eval_seeds.sh <PID> [extra PIDs to also run]: confirm + run checks for /tmp/seedout/<PID>/{1,2,3}
P=$1; shift
for n in ${SEEDNUMS:-1 2 3}; do
  d=/tmp/seedout/$P/$n
  [ -f $d/patch.diff ] || continue
  echo "--- seed $P/$n"
  /verif/tools/confirm_seed.sh $d 2>&1 | tail -1
  /verif/tools/try_patch.sh $d/patch.diff $P "$@" 2>&1 | grep -E '^(VIOLATION|KNOWN|C[0-9]+ tier|error)' | cut -c1-260
done
