#!/bin/sh
# tools/try_patch.sh <patch.diff> <PID> [PID...]  - run checks against a scratch worktree of /repo
# with the patch applied (never touches /repo's working tree); prints the verdict lines.
set -e
PATCH=$(realpath "$1"); shift
WT=$(mktemp -d /tmp/mut-XXXXXX)
git -C /repo worktree add -q --detach "$WT" HEAD
trap 'git -C /repo worktree remove --force "$WT" >/dev/null 2>&1 || true' EXIT
git -C "$WT" apply "$PATCH"
for P in "$@"; do
  echo "== $P on $(basename $PATCH)"
  VERIF_REPO="$WT" "$(dirname "$0")/../check" "$P" --tier "${TIER:-quick}" | grep -E '^(VIOLATION|KNOWN-FINDING|C[0-9]+ tier)' || true
done
