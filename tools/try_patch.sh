#!/bin/sh
# tools/try_patch.sh <patch.diff> <PID> [PID...]  - run checks against a scratch worktree of /repo
# with the patch applied (never touches /repo's working tree); prints the verdict lines.
set -e
PATCH=$(realpath "$1"); shift
WT=$(mktemp -d /tmp/mut-XXXXXX)
git -C /repo worktree add -q --detach "$WT" HEAD
H=$(python3 -c "import hashlib,os,sys;print(hashlib.sha1(os.path.realpath(sys.argv[1]).encode()).hexdigest()[:8])" "$WT")
# the scratch worktree and the per-checkout work directories go away with the run (disk); the small
# replay files under replays/<PID>_<hash>/ stay unless KEEP_WORK is unset and TRY_PATCH_CLEAN_REPLAYS=1
trap 'git -C /repo worktree remove --force "$WT" >/dev/null 2>&1 || true; [ -n "$KEEP_WORK" ] || rm -rf "$(dirname "$0")"/../work/C??_"$H"' EXIT
git -C "$WT" apply "$PATCH"
for P in "$@"; do
  echo "== $P on $(basename $PATCH)"
  VERIF_REPO="$WT" "$(dirname "$0")/../check" "$P" --tier "${TIER:-quick}" | grep -E '^(VIOLATION|KNOWN-FINDING|C[0-9]+ tier)' || true
done
