#!/usr/bin/env python3
"""Regenerates MANIFEST.json from tools/props.json (run by hand after editing props.json)."""
import json, os
V = os.path.dirname(os.path.dirname(os.path.abspath(__file__)))
import glob
import subprocess
tracked = set(subprocess.run(["git", "-C", V, "ls-files", "tools/props"], capture_output=True, text=True).stdout.split())
props = {os.path.basename(f)[:-5]: json.load(open(f)) for f in glob.glob(os.path.join(V, "tools", "props", "C*.json"))
         if os.path.relpath(f, V) in tracked}
ids = [json.loads(l)["id"] for l in open(os.path.join(V, "properties.jsonl"))]
checks, na = [], []
for pid in ids:
    p = props.get(pid)
    if not p or p.get("not_applicable"):
        na.append({"property_id": pid, "reason": (p or {}).get("not_applicable", "check not built yet in this tree (planned: DESIGN.md section 5); nothing is claimed for it")})
        continue
    checks.append({
        "property_id": pid,
        "quick_cmd": "./check %s --tier quick" % pid,
        "thorough_cmd": "./check %s --tier thorough" % pid,
        "evidence_file": "evidence/%s.json" % pid,
        "replay_cmd_template": "./check %s --replay {path}" % pid,
        "engine": "coq-proof+correspondence",
        "level_claimed": {"category": "proof", "text": p["level_text"], "design_ref": p.get("design_ref", "DESIGN.md section 5, " + pid)},
        "level_note": p["level_note"],
        "technique": p.get("technique", "machine-checked proof in Coq 8.16.1 about an executable Gallina model + in-kernel (vm_compute) correspondence run against the real Go code"),
    })
m = {
    "version": 1,
    "setup_cmd": "./setup.sh",
    "hooks": {
        "guard": "verif",
        "enable": "go build -tags verif -overlay work/<id>/overlay.json (the overlay ADDS the add-only //go:build verif files of /verif/harness/hooks/<id>/<package path>/ to the package directories of /repo and replaces go-libp2p@v0.23.4/defaults.go by a copy without the QUIC transport, which does not compile on go1.23); /repo itself contains no hook code",
        "baseline_off_cmd": "cd /repo && go test -mod=mod -json -vet=off -count=1 -timeout 25m ./...",
        "source_commits": [],
        "add_only": True,
    },
    "engines": [{
        "name": "coq-proof+correspondence", "path": "tools/check.py",
        "serves_properties": [c["property_id"] for c in checks],
        "kind_free_text": "Coq 8.16.1 theorems (coq/Properties/CXX.v) about hand-written executable Gallina models (coq/Model/CXX.v); a Go runner (harness/cmd/cxx) drives the real code rebuilt from /repo's working tree on corpus+generated cases and writes cases_<k>.v; the kernel evaluates model and judge (vm_compute) on every case.",
    }],
    "checks": checks,
    "not_applicable": na,
    "notes": "See DESIGN.md. known_findings.json lists recorded findings (none suppress unless status is open).",
}
json.dump(m, open(os.path.join(V, "MANIFEST.json"), "w"), indent=1)
print("claimed:", [c["property_id"] for c in checks]); print("not claimed:", [n["property_id"] for n in na])
