#!/usr/bin/env python3
"""Rewrites the generated tables of DESIGN.md (between <!-- BEGIN x --> / <!-- END x --> markers) from
known_findings.json + known_findings.d/*.json and seeded/*/*/meta.json."""
import glob, json, os, re
V = os.path.dirname(os.path.dirname(os.path.abspath(__file__)))

def findings():
    rows = []
    for f in [os.path.join(V, "known_findings.json")] + sorted(glob.glob(os.path.join(V, "known_findings.d", "*.json"))):
        if os.path.exists(f):
            rows += json.load(open(f)).get("findings", [])
    out = ["| Property | Key | Status | What fails |", "|---|---|---|---|"]
    for e in sorted(rows, key=lambda e: (e["property"], e["key"])):
        st = e["status"]
        m = re.match(r"fixed: property=\S+ ([0-9a-f]{7})", st)
        short = ("fixed in /repo commit `%s`" % m.group(1)) if m else st.split(":")[0].split(" ")[0]
        out.append("| %s | `%s` | %s | %s |" % (e["property"], e["key"], short, e["what"].replace("|", "\\|").replace("\n", " ")))
    return "\n".join(out)

def seeds():
    out = ["| Seed | Change (as described by its author) | Needs | Verdict | What the check does |", "|---|---|---|---|---|"]
    for mp in sorted(glob.glob(os.path.join(V, "seeded", "*", "*", "meta.json"))):
        m = json.load(open(mp))
        pid = mp.split(os.sep)[-3]; n = mp.split(os.sep)[-2]
        cell = lambda s: str(s).replace("|", "\\|").replace("\n", " ")
        out.append("| %s/%s | %s | %s | **%s** | %s |" % (pid, n, cell(m.get("summary", ""))[:300], cell(m.get("needs", ""))[:220],
                                                    m.get("verdict", "?"), cell(m.get("check_result", ""))[:400]))
    return "\n".join(out)

def benign():
    out = ["| Change | Kind | Summary | Outcome of the check |", "|---|---|---|---|"]
    for mp in sorted(glob.glob(os.path.join(V, "benign", "*", "*", "meta.json"))):
        m = json.load(open(mp)); pid = mp.split(os.sep)[-3]; n = mp.split(os.sep)[-2]
        cell = lambda s: str(s).replace("|", "\\|").replace("\n", " ")
        out.append("| %s/%s | %s | %s | %s |" % (pid, n, m.get("kind", "?"), cell(m.get("summary", ""))[:260], cell(m.get("outcome", ""))[:460]))
    return "\n".join(out)


def status():
    out = []
    ids = [json.loads(l)["id"] for l in open(os.path.join(V, "properties.jsonl"))]
    for pid in ids:
        pp = os.path.join(V, "tools", "props", pid + ".json")
        if not os.path.exists(pp):
            out.append("### %s\n\nnot built.\n" % pid); continue
        p = json.load(open(pp))
        ev = {}
        ep = os.path.join(V, "evidence", pid + ".json")
        if os.path.exists(ep):
            ev = json.load(open(ep)).get("coverage", {})
        hooks = []
        hroot = os.path.join(V, "harness", "hooks", pid)
        for root, _, files in os.walk(hroot):
            hooks += [os.path.relpath(os.path.join(root, f), hroot) for f in files]
        out.append("### %s\n\n* **Proved (Properties/%s.v, %s theorems):** %s\n* **Trusted / modelled rather than verified:** %s\n"
                   "* **Last committed quick run:** %s cases (%s non-trivial), input classes %s; hooks: %s\n"
                   % (pid, pid, ev.get("obligations", "?"), p.get("level_text", ""), p.get("level_note", ""),
                      ev.get("evaluations", "?"), ev.get("distinct_nontrivial", "?"),
                      ", ".join("%s=%s" % kv for kv in sorted(ev.get("input_distribution", {}).items())[:14]) or "?",
                      ", ".join(sorted(hooks)) or "none"))
    return "\n".join(out)

def main():
    p = os.path.join(V, "DESIGN.md"); s = open(p).read()
    for name, body in (("FINDINGS", findings()), ("SEEDS", seeds()), ("STATUS", status()), ("BENIGN", benign())):
        pat = re.compile(r"(<!-- BEGIN %s -->\n).*?(<!-- END %s -->)" % (name, name), re.S)
        if not pat.search(s):
            raise SystemExit("marker %s missing in DESIGN.md" % name)
        s = pat.sub(lambda m: m.group(1) + body + "\n" + m.group(2), s)
    open(p, "w").write(s)

if __name__ == "__main__":
    main()
