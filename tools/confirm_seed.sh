#!/bin/sh
# tools/confirm_seed.sh <seed dir with patch.diff demo.sh>  - confirms in a scratch worktree of /repo:
# demo passes on HEAD, patch applies, everything builds (overlay), baseline `go test ./...` package
# results unchanged, demo fails with the patch.  Prints CONFIRMED or the reason.
S=$(realpath "$1")
export GOFLAGS=-mod=mod GOPROXY=off GOSUMDB=off GOTOOLCHAIN=local
WT=$(mktemp -d /tmp/cs-XXXXXX)
git -C /repo worktree add -q --detach "$WT" HEAD || exit 2
trap 'git -C /repo worktree remove --force "$WT" >/dev/null 2>&1' EXIT
( cd "$WT" && bash "$S/demo.sh" "$WT" ) > "$WT/../$(basename $WT).head.log" 2>&1; H=$?
( cd "$WT" && git checkout -q -- . && git clean -fdq )
( cd "$WT" && go test -vet=off -count=1 -timeout 10m ./... 2>&1 | grep -E '^(ok|FAIL|---)' | sed 's/\t[0-9.]*s$//; s/(cached)//' | sort > ../$(basename $WT).base.txt )
git -C "$WT" apply "$S/patch.diff" || { echo "NOT-CONFIRMED: patch does not apply"; exit 1; }
( cd "$WT" && GODEBUG=goindex=0 go build -overlay /verif/work/overlay0.json ./... ) || { echo "NOT-CONFIRMED: does not build"; exit 1; }
( cd "$WT" && go test -vet=off -count=1 -timeout 10m ./... 2>&1 | grep -E '^(ok|FAIL|---)' | sed 's/\t[0-9.]*s$//; s/(cached)//' | sort > ../$(basename $WT).mut.txt )
( cd "$WT" && bash "$S/demo.sh" "$WT" ) > "$WT/../$(basename $WT).mut.log" 2>&1; M=$?
# some demo scripts pipe `go test` through grep and lose its exit status: look at the output too
grep -qE '^(--- FAIL|FAIL|panic:)' "$WT/../$(basename $WT).head.log" && H=1
grep -qE '^(--- FAIL|FAIL|panic:)|fatal error:' "$WT/../$(basename $WT).mut.log" && M=1
D=$(diff "$WT/../$(basename $WT).base.txt" "$WT/../$(basename $WT).mut.txt")
rm -f "$WT/../$(basename $WT)".*
if [ $H -eq 0 ] && [ $M -ne 0 ] && [ -z "$D" ]; then echo "CONFIRMED demo_head=$H demo_mut=$M baseline_unchanged"; exit 0; fi
echo "NOT-CONFIRMED demo_head=$H demo_mut=$M baseline_diff=[$D]"; exit 1
