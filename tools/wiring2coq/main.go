// wiring2coq: extracts, from app/app.go (and chains/btc/chain.go), how each chain kind's scan
// start block is derived and handed to the chain object, as one record per chain kind:
//
//	reads_store           startBlock, err := blockstore.GetStartBlock(id, config.StartBlock, latest, fresh)
//	head_if_nil           if startBlock == nil { head, err := X.LatestBlock(); ...; startBlock = head }
//	aligns_to_interval    startBlock, err = chains.CalculateStartingBlock(startBlock, config.BlockInterval)
//	passes_start_to_chain NewXChain(listener, ..., startBlock)  (btc: and chain.go stores it and
//	                      PollEvents hands c.startBlock to the listener)
//
// Only these statement shapes, in this order, are recognised.  Anything else that touches
// `startBlock` in a chain branch, a missing branch / constructor, or a listener that is not built
// over the shared block store and config.BlockInterval is "unrecognised wiring": exit status 2.
// Output: one JSON object on stdout.  Standard library only.
package main

import (
	"encoding/json"
	"fmt"
	"go/ast"
	"go/parser"
	"go/printer"
	"go/token"
	"os"
	"path/filepath"
	"strconv"
	"strings"
)

type Wiring struct {
	ReadsStore bool   `json:"reads_store"`
	HeadIfNil  bool   `json:"head_if_nil"`
	Aligns     bool   `json:"aligns_to_interval"`
	Passes     bool   `json:"passes_start_to_chain"`
	Ctor       string `json:"ctor"`
}

var fset = token.NewFileSet()

func str(n ast.Node) string {
	var sb strings.Builder
	_ = printer.Fprint(&sb, fset, n)
	return sb.String()
}

func fail(format string, a ...interface{}) {
	fmt.Fprintf(os.Stderr, "unrecognised wiring: "+format+"\n", a...)
	os.Exit(2)
}

func mentions(n ast.Node, name string) bool {
	found := false
	ast.Inspect(n, func(m ast.Node) bool {
		if id, ok := m.(*ast.Ident); ok && id.Name == name {
			found = true
		}
		return !found
	})
	return found
}

func isPanicOnErr(s ast.Stmt) bool {
	is, ok := s.(*ast.IfStmt)
	if !ok || is.Init != nil || is.Else != nil || str(is.Cond) != "err != nil" || len(is.Body.List) != 1 {
		return false
	}
	return str(is.Body.List[0]) == "panic(err)"
}

const getStartArgs = "*config.GeneralChainConfig.Id, config.StartBlock, config.GeneralChainConfig.LatestBlock, config.GeneralChainConfig.FreshStart"

type kindSpec struct {
	ctorName, ctorImport string
	listenerCtor         string
	listenerImport       string
}

var kinds = map[string]kindSpec{
	"evm":       {"NewEVMChain", "github.com/sygmaprotocol/sygma-core/chains/evm", "NewEVMListener", "github.com/sygmaprotocol/sygma-core/chains/evm/listener"},
	"substrate": {"NewSubstrateChain", "github.com/sygmaprotocol/sygma-core/chains/substrate", "NewSubstrateListener", "github.com/sygmaprotocol/sygma-core/chains/substrate/listener"},
	"btc":       {"NewBtcChain", "github.com/ChainSafe/sygma-relayer/chains/btc", "NewBtcListener", "github.com/ChainSafe/sygma-relayer/chains/btc/listener"},
}

func argList(c *ast.CallExpr) string {
	a := make([]string, len(c.Args))
	for i, x := range c.Args {
		a[i] = str(x)
	}
	return strings.Join(a, ", ")
}

func selCall(e ast.Expr) (qual, name string, call *ast.CallExpr, ok bool) {
	call, ok = e.(*ast.CallExpr)
	if !ok {
		return
	}
	sel, ok2 := call.Fun.(*ast.SelectorExpr)
	if !ok2 {
		return "", "", nil, false
	}
	return str(sel.X), sel.Sel.Name, call, true
}

func extractKind(kind string, body []ast.Stmt, imports map[string]string, blockstoreVar string) Wiring {
	spec := kinds[kind]
	var w Wiring
	state := 0 // 0 startBlock undefined, 1 defined, 2 head substituted, 3 aligned
	listenerVar, chainVar := "", ""
	registered := false
	for _, s := range body {
		if as, ok := s.(*ast.AssignStmt); ok && len(as.Rhs) == 1 {
			if q, name, call, ok := selCall(as.Rhs[0]); ok {
				// listener construction
				if name == spec.listenerCtor {
					if imports[q] != spec.listenerImport {
						fail("%s: %s.%s is not from %s", kind, q, name, spec.listenerImport)
					}
					args := make([]string, len(call.Args))
					for i, x := range call.Args {
						args[i] = str(x)
					}
					hasStore := false
					for _, a := range args {
						if a == blockstoreVar {
							hasStore = true
						}
					}
					if !hasStore {
						fail("%s: listener %s is not built over the shared block store %q", kind, name, blockstoreVar)
					}
					if kind != "btc" && args[len(args)-1] != "config.BlockInterval" {
						fail("%s: listener %s does not take config.BlockInterval as its block interval", kind, name)
					}
					if kind == "btc" && (len(args) != 4 || args[2] != "config") {
						fail("%s: unexpected NewBtcListener arguments (%s)", kind, strings.Join(args, ", "))
					}
					if len(as.Lhs) != 1 {
						fail("%s: listener assignment shape", kind)
					}
					listenerVar = str(as.Lhs[0])
					if mentions(call, "startBlock") {
						fail("%s: listener constructor mentions startBlock", kind)
					}
					continue
				}
				// chain construction
				if name == spec.ctorName {
					if imports[q] != spec.ctorImport {
						fail("%s: %s.%s is not from %s (import is %q)", kind, q, name, spec.ctorImport, imports[q])
					}
					if listenerVar == "" || len(call.Args) == 0 || str(call.Args[0]) != listenerVar {
						fail("%s: %s is not given the listener built in this branch", kind, name)
					}
					last := len(call.Args) - 1
					for i, a := range call.Args {
						if i != last && mentions(a, "startBlock") {
							fail("%s: startBlock passed to %s in an unexpected position", kind, name)
						}
					}
					if str(call.Args[last]) == "startBlock" {
						if state == 0 {
							fail("%s: startBlock used before it is defined", kind)
						}
						w.Passes = true
					} else if mentions(call.Args[last], "startBlock") {
						fail("%s: last argument of %s is an expression over startBlock: %s", kind, name, str(call.Args[last]))
					}
					w.Ctor = q + "." + name
					chainVar = str(as.Lhs[0])
					continue
				}
				// startBlock, err := blockstore.GetStartBlock(...)
				if name == "GetStartBlock" {
					if len(as.Lhs) != 2 || str(as.Lhs[0]) != "startBlock" || as.Tok != token.DEFINE || state != 0 {
						fail("%s: unexpected GetStartBlock statement: %s", kind, str(s))
					}
					if q != blockstoreVar {
						fail("%s: GetStartBlock is called on %q, not on the shared block store %q", kind, q, blockstoreVar)
					}
					if argList(call) != getStartArgs {
						fail("%s: GetStartBlock arguments are (%s), expected (%s)", kind, argList(call), getStartArgs)
					}
					w.ReadsStore = true
					state = 1
					continue
				}
				if q == "chains" && name == "CalculateStartingBlock" {
					if imports[q] != "github.com/ChainSafe/sygma-relayer/chains" {
						fail("%s: chains is %q", kind, imports[q])
					}
					if len(as.Lhs) != 2 || str(as.Lhs[0]) != "startBlock" || as.Tok != token.ASSIGN || state == 0 || state == 3 {
						fail("%s: unexpected CalculateStartingBlock statement: %s", kind, str(s))
					}
					if argList(call) != "startBlock, config.BlockInterval" {
						fail("%s: CalculateStartingBlock arguments are (%s)", kind, argList(call))
					}
					if chainVar != "" {
						fail("%s: start block aligned after the chain was constructed", kind)
					}
					w.Aligns = true
					state = 3
					continue
				}
			}
			// domains[id] = chain
			if ix, ok := as.Lhs[0].(*ast.IndexExpr); ok && str(ix.X) == "domains" {
				if chainVar == "" || str(as.Rhs[0]) != chainVar {
					fail("%s: domains[...] is assigned %s, not the chain built in this branch", kind, str(as.Rhs[0]))
				}
				registered = true
				continue
			}
		}
		if is, ok := s.(*ast.IfStmt); ok && str(is.Cond) == "startBlock == nil" {
			if state != 1 || is.Init != nil || is.Else != nil || chainVar != "" {
				fail("%s: `if startBlock == nil` in an unexpected place", kind)
			}
			b := is.Body.List
			okShape := len(b) == 3 && isPanicOnErr(b[1]) && str(b[2]) == "startBlock = head"
			if okShape {
				as, ok := b[0].(*ast.AssignStmt)
				okShape = ok && len(as.Lhs) == 2 && str(as.Lhs[0]) == "head" && len(as.Rhs) == 1
				if okShape {
					_, name, call, ok := selCall(as.Rhs[0])
					okShape = ok && name == "LatestBlock" && len(call.Args) == 0
				}
			}
			if !okShape {
				fail("%s: unrecognised body of `if startBlock == nil`: %s", kind, str(is.Body))
			}
			w.HeadIfNil = true
			state = 2
			continue
		}
		if mentions(s, "startBlock") {
			fail("%s: unrecognised statement over startBlock: %s", kind, str(s))
		}
	}
	if w.Ctor == "" {
		fail("%s: no call of %s found", kind, spec.ctorName)
	}
	if !registered {
		fail("%s: the chain is not registered in domains", kind)
	}
	return w
}

// btcChainPasses inspects chains/btc/chain.go: does NewBtcChain store a startBlock parameter, and
// does PollEvents hand c.startBlock to the listener?
func btcChainPasses(path string) bool {
	f, err := parser.ParseFile(fset, path, nil, 0)
	if err != nil {
		fail("cannot parse %s: %v", path, err)
	}
	stores, polls := false, false
	sawCtor, sawPoll := false, false
	for _, d := range f.Decls {
		fd, ok := d.(*ast.FuncDecl)
		if !ok {
			continue
		}
		switch fd.Name.Name {
		case "NewBtcChain":
			sawCtor = true
			hasParam := false
			for _, p := range fd.Type.Params.List {
				for _, n := range p.Names {
					if n.Name == "startBlock" && str(p.Type) == "*big.Int" {
						hasParam = true
					}
				}
			}
			ast.Inspect(fd.Body, func(n ast.Node) bool {
				if kv, ok := n.(*ast.KeyValueExpr); ok && str(kv.Key) == "startBlock" {
					if str(kv.Value) == "startBlock" && hasParam {
						stores = true
					} else {
						fail("btc: NewBtcChain sets startBlock to %s", str(kv.Value))
					}
				}
				return true
			})
		case "PollEvents":
			sawPoll = true
			ast.Inspect(fd.Body, func(n ast.Node) bool {
				if c, ok := n.(*ast.CallExpr); ok && strings.HasSuffix(str(c.Fun), ".ListenToEvents") {
					if str(c.Fun) != "c.listener.ListenToEvents" || argList(c) != "ctx, c.startBlock" {
						fail("btc: PollEvents calls %s(%s)", str(c.Fun), argList(c))
					}
					polls = true
				}
				return true
			})
			// any other write to c.startBlock is outside the recognised shapes
			ast.Inspect(fd.Body, func(n ast.Node) bool {
				if as, ok := n.(*ast.AssignStmt); ok {
					for _, l := range as.Lhs {
						if mentions(l, "startBlock") {
							fail("btc: PollEvents assigns %s", str(l))
						}
					}
				}
				return true
			})
		}
	}
	if !sawCtor || !sawPoll || !polls {
		fail("btc: chains/btc/chain.go lacks NewBtcChain / PollEvents handing c.startBlock to the listener")
	}
	return stores
}

func main() {
	if len(os.Args) < 2 {
		fmt.Fprintln(os.Stderr, "usage: wiring2coq <repo>")
		os.Exit(3)
	}
	repo := os.Args[1]
	f, err := parser.ParseFile(fset, filepath.Join(repo, "app", "app.go"), nil, 0)
	if err != nil {
		fail("cannot parse app/app.go: %v", err)
	}
	imports := map[string]string{}
	for _, im := range f.Imports {
		p, _ := strconv.Unquote(im.Path.Value)
		name := filepath.Base(p)
		if im.Name != nil {
			name = im.Name.Name
		}
		imports[name] = p
	}
	var run *ast.FuncDecl
	for _, d := range f.Decls {
		if fd, ok := d.(*ast.FuncDecl); ok && fd.Name.Name == "Run" && fd.Recv == nil {
			run = fd
		}
	}
	if run == nil {
		fail("func Run not found")
	}
	// blockstore := store.NewBlockStore(db)
	blockstoreVar := ""
	for _, s := range run.Body.List {
		if as, ok := s.(*ast.AssignStmt); ok && len(as.Rhs) == 1 && len(as.Lhs) == 1 {
			if q, name, _, ok := selCall(as.Rhs[0]); ok && name == "NewBlockStore" && imports[q] == "github.com/sygmaprotocol/sygma-core/store" {
				blockstoreVar = str(as.Lhs[0])
			}
		}
	}
	if blockstoreVar == "" {
		fail("no `x := store.NewBlockStore(db)` (sygma-core store) in Run")
	}
	out := map[string]Wiring{}
	nsw := 0
	ast.Inspect(run.Body, func(n ast.Node) bool {
		sw, ok := n.(*ast.SwitchStmt)
		if !ok || sw.Tag == nil || str(sw.Tag) != `chainConfig["type"]` {
			return true
		}
		nsw++
		for _, c := range sw.Body.List {
			cc := c.(*ast.CaseClause)
			if len(cc.List) != 1 {
				continue
			}
			kind, err := strconv.Unquote(str(cc.List[0]))
			if err != nil {
				fail("case label %s", str(cc.List[0]))
			}
			if _, known := kinds[kind]; !known {
				fail("unknown chain kind %q", kind)
			}
			body := cc.Body
			if len(body) == 1 {
				if b, ok := body[0].(*ast.BlockStmt); ok {
					body = b.List
				}
			}
			out[kind] = extractKind(kind, body, imports, blockstoreVar)
		}
		return false
	})
	if nsw != 1 {
		fail(`expected exactly one switch chainConfig["type"], found %d`, nsw)
	}
	for k := range kinds {
		if _, ok := out[k]; !ok {
			fail("no case %q", k)
		}
	}
	if !btcChainPasses(filepath.Join(repo, "chains", "btc", "chain.go")) && out["btc"].Passes {
		fail("btc: app.go passes startBlock but NewBtcChain does not store it")
	}
	enc := json.NewEncoder(os.Stdout)
	enc.SetIndent("", " ")
	_ = enc.Encode(out)
}
