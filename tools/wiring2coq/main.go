// wiring2coq: extracts, from app/app.go (and chains/btc/chain.go), how each chain kind's scan
// start block is derived and handed to the chain object, as one record per chain kind:
//
//	reads_store    startBlock, err := blockstore.GetStartBlock(id, config.StartBlock, latest, fresh)
//	head_if_nil    if startBlock == nil { head, err := X.LatestBlock(); ...; startBlock = head }
//	align_arg      startBlock, err = chains.CalculateStartingBlock(startBlock, <align_arg>):
//	               WHICH quantity the start block is aligned to - "interval" (config.BlockInterval),
//	               "confirmations" (config.BlockConfirmations), "none" (no call), "other" (anything else)
//	aligns_known   the value read from the block store / configuration goes through that call
//	aligns_head    the head substituted for a nil start block goes through that call (the call may
//	               stand after the `if startBlock == nil`, at the end of its body, or in its else branch)
//	chain_arg      what NewXChain(listener, ..., <chain_arg>) is given as start block: "start" (the
//	               startBlock derived above), "configured" (config.StartBlock), "nil", "other"
//	               (btc: and chain.go stores it and PollEvents hands c.startBlock to the listener)
//	listener_step  the block interval the EVM / Substrate listener is constructed with (its last
//	               argument): "interval" | "confirmations" | "other"; btc: "none" (NewBtcListener takes
//	               the configuration)
//	listener_conf  the confirmation depth the EVM listener is constructed with: "confirmations" |
//	               "interval" | "other"; substrate, btc: "none"
//	aligns_to_interval, passes_start_to_chain   derived (the record's former flags)
//
// Only these statement shapes are recognised.  Anything else that touches `startBlock` in a chain
// branch, a missing branch / constructor, or a listener that is not built over the shared block
// store makes that kind's record {"error": "...", every source "other"} and the exit status 2; the
// JSON object is still printed (the runners refuse to compose an "other").
// Output: one JSON object on stdout.  Standard library only.
package main

import (
	"encoding/json"
	"fmt"
	"go/ast"
	"go/parser"
	"go/printer"
	"go/token"
	"os"
	"path/filepath"
	"strconv"
	"strings"
)

type Wiring struct {
	ReadsStore   bool   `json:"reads_store"`
	HeadIfNil    bool   `json:"head_if_nil"`
	AlignArg     string `json:"align_arg"`
	AlignExpr    string `json:"align_expr,omitempty"`
	AlignsKnown  bool   `json:"aligns_known"`
	AlignsHead   bool   `json:"aligns_head"`
	ChainArg     string `json:"chain_arg"`
	ChainExpr    string `json:"chain_expr,omitempty"`
	ListenerStep string `json:"listener_step"`
	ListenerConf string `json:"listener_conf"`
	Aligns       bool   `json:"aligns_to_interval"`
	Passes       bool   `json:"passes_start_to_chain"`
	Ctor         string `json:"ctor"`
	Error        string `json:"error,omitempty"`
	// what GetStartBlock is given, parameter by parameter (startcall.go); nil: no such call
	StartCall *StartCall `json:"start_call,omitempty"`
}

var fset = token.NewFileSet()

func str(n ast.Node) string {
	var sb strings.Builder
	_ = printer.Fprint(&sb, fset, n)
	return sb.String()
}

type wiringError string

// fail abandons the record under construction: recovered per chain kind (unrecognised()) or in main.
func fail(format string, a ...interface{}) {
	panic(wiringError(fmt.Sprintf(format, a...)))
}

func unrecognised(msg string) Wiring {
	return Wiring{AlignArg: "other", ChainArg: "other", ListenerStep: "other", ListenerConf: "other", Error: msg}
}

// source classifies an expression handed to a parameter that expects a block count.
func source(e ast.Expr) string {
	switch str(e) {
	case "config.BlockInterval":
		return "interval"
	case "config.BlockConfirmations":
		return "confirmations"
	}
	return "other"
}

func mentions(n ast.Node, name string) bool {
	found := false
	ast.Inspect(n, func(m ast.Node) bool {
		if id, ok := m.(*ast.Ident); ok && id.Name == name {
			found = true
		}
		return !found
	})
	return found
}

func isPanicOnErr(s ast.Stmt) bool {
	is, ok := s.(*ast.IfStmt)
	if !ok || is.Init != nil || is.Else != nil || str(is.Cond) != "err != nil" || len(is.Body.List) != 1 {
		return false
	}
	return str(is.Body.List[0]) == "panic(err)"
}

const getStartArgs = "*config.GeneralChainConfig.Id, config.StartBlock, config.GeneralChainConfig.LatestBlock, config.GeneralChainConfig.FreshStart"

type kindSpec struct {
	ctorName, ctorImport string
	listenerCtor         string
	listenerImport       string
}

var kinds = map[string]kindSpec{
	"evm":       {"NewEVMChain", "github.com/sygmaprotocol/sygma-core/chains/evm", "NewEVMListener", "github.com/sygmaprotocol/sygma-core/chains/evm/listener"},
	"substrate": {"NewSubstrateChain", "github.com/sygmaprotocol/sygma-core/chains/substrate", "NewSubstrateListener", "github.com/sygmaprotocol/sygma-core/chains/substrate/listener"},
	"btc":       {"NewBtcChain", "github.com/ChainSafe/sygma-relayer/chains/btc", "NewBtcListener", "github.com/ChainSafe/sygma-relayer/chains/btc/listener"},
}

func argList(c *ast.CallExpr) string {
	a := make([]string, len(c.Args))
	for i, x := range c.Args {
		a[i] = str(x)
	}
	return strings.Join(a, ", ")
}

func selCall(e ast.Expr) (qual, name string, call *ast.CallExpr, ok bool) {
	call, ok = e.(*ast.CallExpr)
	if !ok {
		return
	}
	sel, ok2 := call.Fun.(*ast.SelectorExpr)
	if !ok2 {
		return "", "", nil, false
	}
	return str(sel.X), sel.Sel.Name, call, true
}

// alignCall recognises `startBlock, err = chains.CalculateStartingBlock(startBlock, X)` and returns X.
func alignCall(kind string, s ast.Stmt, imports map[string]string) (ast.Expr, bool) {
	as, ok := s.(*ast.AssignStmt)
	if !ok || len(as.Rhs) != 1 {
		return nil, false
	}
	q, name, call, ok := selCall(as.Rhs[0])
	if !ok || name != "CalculateStartingBlock" {
		return nil, false
	}
	if q != "chains" || imports[q] != "github.com/ChainSafe/sygma-relayer/chains" {
		fail("%s: CalculateStartingBlock of %q (%q)", kind, q, imports[q])
	}
	if len(as.Lhs) != 2 || str(as.Lhs[0]) != "startBlock" || str(as.Lhs[1]) != "err" || as.Tok != token.ASSIGN {
		fail("%s: unexpected CalculateStartingBlock statement: %s", kind, str(s))
	}
	if len(call.Args) != 2 || str(call.Args[0]) != "startBlock" {
		fail("%s: CalculateStartingBlock arguments are (%s)", kind, argList(call))
	}
	return call.Args[1], true
}

func extractKind(kind string, body []ast.Stmt, imports map[string]string, blockstoreVar string, btcHasStartParam bool) (w Wiring) {
	defer func() {
		if p := recover(); p != nil {
			e, ok := p.(wiringError)
			if !ok {
				panic(p)
			}
			w = unrecognised(string(e))
		}
	}()
	spec := kinds[kind]
	w = Wiring{AlignArg: "none", ChainArg: "nil", ListenerStep: "none", ListenerConf: "none"}
	defined := false  // startBlock, err := blockstore.GetStartBlock(...) seen
	nilCheck := false // `if startBlock == nil` seen
	headSubst := false
	listenerVar, chainVar := "", ""
	registered := false
	// one call site or several with the same second argument
	align := func(x ast.Expr) {
		a := source(x)
		if w.AlignArg != "none" && (w.AlignArg != a || w.AlignExpr != str(x)) {
			fail("%s: the start block is aligned to %s and to %s", kind, w.AlignExpr, str(x))
		}
		w.AlignArg, w.AlignExpr = a, str(x)
	}
	// alignAndPanic: stmts = [align call; if err != nil { panic(err) }]
	alignAndPanic := func(stmts []ast.Stmt) (ast.Expr, bool) {
		if len(stmts) != 2 || !isPanicOnErr(stmts[1]) {
			return nil, false
		}
		return alignCall(kind, stmts[0], imports)
	}
	for i := 0; i < len(body); i++ {
		s := body[i]
		// startBlock, err := blockstore.GetStartBlock(...), directly or through helper functions of
		// package app, with whatever (recognisable) arguments: startcall.go
		if call, ok := definesStartBlock(s); ok {
			if defined {
				fail("%s: unexpected GetStartBlock statement: %s", kind, str(s))
			}
			w.StartCall = startCallOf(kind, call, branchScope(kind, body, i, imports, blockstoreVar), blockstoreVar, nil)
			w.ReadsStore = true
			defined = true
			continue
		}
		if as, ok := s.(*ast.AssignStmt); ok && len(as.Rhs) == 1 {
			if q, name, call, ok := selCall(as.Rhs[0]); ok {
				// listener construction
				if name == spec.listenerCtor {
					if imports[q] != spec.listenerImport {
						fail("%s: %s.%s is not from %s", kind, q, name, spec.listenerImport)
					}
					args := make([]string, len(call.Args))
					for i, x := range call.Args {
						args[i] = str(x)
					}
					hasStore := false
					for _, a := range args {
						if a == blockstoreVar {
							hasStore = true
						}
					}
					if !hasStore {
						fail("%s: listener %s is not built over the shared block store %q", kind, name, blockstoreVar)
					}
					n := len(call.Args)
					switch kind {
					case "evm":
						if n != 8 {
							fail("%s: unexpected NewEVMListener arguments (%s)", kind, strings.Join(args, ", "))
						}
						w.ListenerConf, w.ListenerStep = source(call.Args[n-2]), source(call.Args[n-1])
					case "substrate":
						if n != 7 {
							fail("%s: unexpected NewSubstrateListener arguments (%s)", kind, strings.Join(args, ", "))
						}
						w.ListenerStep = source(call.Args[n-1])
					case "btc":
						if n != 4 || args[2] != "config" {
							fail("%s: unexpected NewBtcListener arguments (%s)", kind, strings.Join(args, ", "))
						}
					}
					if len(as.Lhs) != 1 {
						fail("%s: listener assignment shape", kind)
					}
					listenerVar = str(as.Lhs[0])
					if mentions(call, "startBlock") {
						fail("%s: listener constructor mentions startBlock", kind)
					}
					continue
				}
				// chain construction
				if name == spec.ctorName {
					if imports[q] != spec.ctorImport {
						fail("%s: %s.%s is not from %s (import is %q)", kind, q, name, spec.ctorImport, imports[q])
					}
					if listenerVar == "" || len(call.Args) == 0 || str(call.Args[0]) != listenerVar {
						fail("%s: %s is not given the listener built in this branch", kind, name)
					}
					last := len(call.Args) - 1
					for i, a := range call.Args {
						if i != last && mentions(a, "startBlock") {
							fail("%s: startBlock passed to %s in an unexpected position", kind, name)
						}
					}
					hasParam := kind != "btc" || btcHasStartParam
					switch a := str(call.Args[last]); {
					case a == "startBlock":
						if !defined {
							fail("%s: startBlock used before it is defined", kind)
						}
						if !hasParam {
							fail("%s: app.go passes startBlock but %s has no start-block parameter", kind, name)
						}
						w.ChainArg = "start"
					case mentions(call.Args[last], "startBlock"):
						fail("%s: last argument of %s is an expression over startBlock: %s", kind, name, a)
					case !hasParam || a == "nil":
						w.ChainArg = "nil"
					case a == "config.StartBlock":
						w.ChainArg = "configured"
					default:
						w.ChainArg, w.ChainExpr = "other", a
					}
					w.Ctor = q + "." + name
					chainVar = str(as.Lhs[0])
					continue
				}
				// startBlock, err := blockstore.GetStartBlock(...)
				if name == "GetStartBlock" {
					if len(as.Lhs) != 2 || str(as.Lhs[0]) != "startBlock" || as.Tok != token.DEFINE || defined {
						fail("%s: unexpected GetStartBlock statement: %s", kind, str(s))
					}
					if q != blockstoreVar {
						fail("%s: GetStartBlock is called on %q, not on the shared block store %q", kind, q, blockstoreVar)
					}
					if argList(call) != getStartArgs {
						fail("%s: GetStartBlock arguments are (%s), expected (%s)", kind, argList(call), getStartArgs)
					}
					w.ReadsStore = true
					defined = true
					continue
				}
			}
			// startBlock, err = chains.CalculateStartingBlock(startBlock, X) after / before the nil check
			if x, ok := alignCall(kind, s, imports); ok {
				if !defined || chainVar != "" {
					fail("%s: CalculateStartingBlock in an unexpected place: %s", kind, str(s))
				}
				if i+1 >= len(body) || !isPanicOnErr(body[i+1]) {
					fail("%s: the error of CalculateStartingBlock is not `if err != nil { panic(err) }`", kind)
				}
				align(x)
				w.AlignsKnown = true
				if headSubst {
					w.AlignsHead = true
				}
				continue
			}
			// domains[id] = chain
			if ix, ok := as.Lhs[0].(*ast.IndexExpr); ok && str(ix.X) == "domains" {
				if chainVar == "" || str(as.Rhs[0]) != chainVar {
					fail("%s: domains[...] is assigned %s, not the chain built in this branch", kind, str(as.Rhs[0]))
				}
				registered = true
				continue
			}
		}
		if is, ok := s.(*ast.IfStmt); ok && str(is.Cond) == "startBlock == nil" {
			if !defined || nilCheck || is.Init != nil || chainVar != "" {
				fail("%s: `if startBlock == nil` in an unexpected place", kind)
			}
			nilCheck = true
			b := is.Body.List
			okShape := len(b) >= 3 && isPanicOnErr(b[1]) && str(b[2]) == "startBlock = head"
			if okShape {
				as, ok := b[0].(*ast.AssignStmt)
				okShape = ok && len(as.Lhs) == 2 && str(as.Lhs[0]) == "head" && len(as.Rhs) == 1
				if okShape {
					_, name, call, ok := selCall(as.Rhs[0])
					okShape = ok && name == "LatestBlock" && len(call.Args) == 0
				}
			}
			var inThen, inElse ast.Expr
			if okShape && len(b) > 3 { // the head is aligned inside the branch
				inThen, okShape = alignAndPanic(b[3:])
			}
			if !okShape {
				fail("%s: unrecognised body of `if startBlock == nil`: %s", kind, str(is.Body))
			}
			if is.Else != nil { // a start block that is known beforehand is aligned in the else branch
				eb, ok := is.Else.(*ast.BlockStmt)
				if !ok {
					fail("%s: unrecognised else branch of `if startBlock == nil`: %s", kind, str(is.Else))
				}
				if inElse, ok = alignAndPanic(eb.List); !ok {
					fail("%s: unrecognised else branch of `if startBlock == nil`: %s", kind, str(is.Else))
				}
			}
			if w.AlignsKnown {
				// CalculateStartingBlock was already called: with a nil start block it returned an
				// error and app.Run panicked, so this branch is never taken
				if inThen != nil || inElse != nil {
					fail("%s: the start block is aligned before and inside `if startBlock == nil`", kind)
				}
				continue
			}
			w.HeadIfNil, headSubst = true, true
			if inThen != nil {
				align(inThen)
				w.AlignsHead = true
			}
			if inElse != nil {
				align(inElse)
				w.AlignsKnown = true
			}
			continue
		}
		if mentions(s, "startBlock") {
			fail("%s: unrecognised statement over startBlock: %s", kind, str(s))
		}
	}
	if w.Ctor == "" {
		fail("%s: no call of %s found", kind, spec.ctorName)
	}
	if !registered {
		fail("%s: the chain is not registered in domains", kind)
	}
	w.Aligns = w.AlignArg == "interval" && w.AlignsKnown && w.AlignsHead
	w.Passes = w.ChainArg == "start"
	// recognised shape, but a quantity nobody knows how to compose: the record stands, with the note
	switch {
	case w.AlignArg == "other":
		w.Error = fmt.Sprintf("%s: the start block is aligned to %s", kind, w.AlignExpr)
	case w.ChainArg == "other":
		w.Error = fmt.Sprintf("%s: %s is given %s as start block", kind, w.Ctor, w.ChainExpr)
	case w.ListenerStep == "other" || w.ListenerConf == "other":
		w.Error = fmt.Sprintf("%s: %s is built with an unrecognised block interval / confirmation depth", kind, spec.listenerCtor)
	case w.StartCall != nil && w.StartCall.Block != "configured" && w.ChainArg == "configured":
		// the runners hand ONE configured start block to both places
		w.Error = fmt.Sprintf("%s: GetStartBlock and %s are given different start blocks", kind, w.Ctor)
	}
	return w
}

// btcChain inspects chains/btc/chain.go: has NewBtcChain a startBlock parameter, does it store it, and
// does PollEvents hand c.startBlock to the listener?
func btcChain(path string) (hasParam, stores bool) {
	f, err := parser.ParseFile(fset, path, nil, 0)
	if err != nil {
		fail("cannot parse %s: %v", path, err)
	}
	polls := false
	sawCtor, sawPoll := false, false
	for _, d := range f.Decls {
		fd, ok := d.(*ast.FuncDecl)
		if !ok {
			continue
		}
		switch fd.Name.Name {
		case "NewBtcChain":
			sawCtor = true
			for _, p := range fd.Type.Params.List {
				for _, n := range p.Names {
					if n.Name == "startBlock" && str(p.Type) == "*big.Int" {
						hasParam = true
					}
				}
			}
			ast.Inspect(fd.Body, func(n ast.Node) bool {
				if kv, ok := n.(*ast.KeyValueExpr); ok && str(kv.Key) == "startBlock" {
					if str(kv.Value) == "startBlock" && hasParam {
						stores = true
					} else {
						fail("btc: NewBtcChain sets startBlock to %s", str(kv.Value))
					}
				}
				return true
			})
		case "PollEvents":
			sawPoll = true
			ast.Inspect(fd.Body, func(n ast.Node) bool {
				if c, ok := n.(*ast.CallExpr); ok && strings.HasSuffix(str(c.Fun), ".ListenToEvents") {
					if str(c.Fun) != "c.listener.ListenToEvents" || argList(c) != "ctx, c.startBlock" {
						fail("btc: PollEvents calls %s(%s)", str(c.Fun), argList(c))
					}
					polls = true
				}
				return true
			})
			// any other write to c.startBlock is outside the recognised shapes
			ast.Inspect(fd.Body, func(n ast.Node) bool {
				if as, ok := n.(*ast.AssignStmt); ok {
					for _, l := range as.Lhs {
						if mentions(l, "startBlock") {
							fail("btc: PollEvents assigns %s", str(l))
						}
					}
				}
				return true
			})
		}
	}
	if !sawCtor || !sawPoll || !polls {
		fail("btc: chains/btc/chain.go lacks NewBtcChain / PollEvents handing c.startBlock to the listener")
	}
	return hasParam, stores
}

// btcParam: whether NewBtcChain has a start-block parameter (no judgement on what it does with it).
func btcParam(path string) bool {
	f, err := parser.ParseFile(fset, path, nil, 0)
	if err != nil {
		return false
	}
	for _, d := range f.Decls {
		if fd, ok := d.(*ast.FuncDecl); ok && fd.Name.Name == "NewBtcChain" {
			for _, p := range fd.Type.Params.List {
				for _, n := range p.Names {
					if n.Name == "startBlock" && str(p.Type) == "*big.Int" {
						return true
					}
				}
			}
		}
	}
	return false
}

func extractAll(repo string) map[string]Wiring {
	f, err := parser.ParseFile(fset, filepath.Join(repo, "app", "app.go"), nil, 0)
	if err != nil {
		fail("cannot parse app/app.go: %v", err)
	}
	imports := map[string]string{}
	for _, im := range f.Imports {
		p, _ := strconv.Unquote(im.Path.Value)
		name := filepath.Base(p)
		if im.Name != nil {
			name = im.Name.Name
		}
		imports[name] = p
	}
	var run *ast.FuncDecl
	for _, d := range f.Decls {
		if fd, ok := d.(*ast.FuncDecl); ok && fd.Name.Name == "Run" && fd.Recv == nil {
			run = fd
		}
	}
	if run == nil {
		fail("func Run not found")
	}
	// blockstore := store.NewBlockStore(db)
	blockstoreVar := ""
	for _, s := range run.Body.List {
		if as, ok := s.(*ast.AssignStmt); ok && len(as.Rhs) == 1 && len(as.Lhs) == 1 {
			if q, name, _, ok := selCall(as.Rhs[0]); ok && name == "NewBlockStore" && imports[q] == "github.com/sygmaprotocol/sygma-core/store" {
				blockstoreVar = str(as.Lhs[0])
			}
		}
	}
	if blockstoreVar == "" {
		fail("no `x := store.NewBlockStore(db)` (sygma-core store) in Run")
	}
	loadAppFuncs(repo)
	chainGo := filepath.Join(repo, "chains", "btc", "chain.go")
	hasParam := btcParam(chainGo)
	out := map[string]Wiring{}
	nsw := 0
	ast.Inspect(run.Body, func(n ast.Node) bool {
		sw, ok := n.(*ast.SwitchStmt)
		if !ok || sw.Tag == nil || str(sw.Tag) != `chainConfig["type"]` {
			return true
		}
		nsw++
		for _, c := range sw.Body.List {
			cc := c.(*ast.CaseClause)
			if len(cc.List) != 1 {
				continue
			}
			kind, err := strconv.Unquote(str(cc.List[0]))
			if err != nil {
				fail("case label %s", str(cc.List[0]))
			}
			if _, known := kinds[kind]; !known {
				fail("unknown chain kind %q", kind)
			}
			body := cc.Body
			if len(body) == 1 {
				if b, ok := body[0].(*ast.BlockStmt); ok {
					body = b.List
				}
			}
			out[kind] = extractKind(kind, body, imports, blockstoreVar, hasParam)
		}
		return false
	})
	if nsw != 1 {
		fail(`expected exactly one switch chainConfig["type"], found %d`, nsw)
	}
	for k := range kinds {
		if _, ok := out[k]; !ok {
			fail("no case %q", k)
		}
	}
	// chains/btc/chain.go: the record of app.go's btc branch stands (the runners call the real
	// NewBtcChain / PollEvents anyway); what is unrecognised there is reported
	if b := out["btc"]; b.Error == "" {
		func() {
			defer func() {
				if p := recover(); p != nil {
					e, ok := p.(wiringError)
					if !ok {
						panic(p)
					}
					b.Error = string(e)
				}
			}()
			if _, stores := btcChain(chainGo); !stores && b.Passes {
				fail("btc: app.go passes startBlock but NewBtcChain does not store it")
			}
		}()
		out["btc"] = b
	}
	return out
}

func main() {
	if len(os.Args) < 2 {
		fmt.Fprintln(os.Stderr, "usage: wiring2coq <repo>")
		os.Exit(3)
	}
	var out map[string]Wiring
	func() {
		defer func() {
			if p := recover(); p != nil {
				e, ok := p.(wiringError)
				if !ok {
					panic(p)
				}
				out = map[string]Wiring{}
				for k := range kinds {
					out[k] = unrecognised(string(e))
				}
			}
		}()
		out = extractAll(os.Args[1])
	}()
	enc := json.NewEncoder(os.Stdout)
	enc.SetIndent("", " ")
	_ = enc.Encode(out)
	rc := 0
	for _, k := range []string{"evm", "substrate", "btc"} {
		if e := out[k].Error; e != "" {
			fmt.Fprintf(os.Stderr, "unrecognised wiring: %s\n", e)
			rc = 2
		}
	}
	os.Exit(rc)
}
