// startcall.go: WHAT app.Run hands to blockstore.GetStartBlock(domainID, startBlock, latest, fresh),
// parameter by parameter, for each chain kind (record "start_call" next to the wiring record).
//
// Recognised call sites (everything else keeps failing closed: the whole record is "unrecognised"):
//
//	startBlock, err := blockstore.GetStartBlock(a, b, c, d)          directly in the chain branch
//	startBlock, err := helper(x, y, ...)  /  startBlock := helper(...)
//	        helper = a function of package app (no receiver) whose body is
//	            return <recv>.GetStartBlock(...)                          or another such helper, or
//	            v, err := <that call>; if err != nil { panic(err) } / panicOnError(err); return v[, err|nil]
//	        (log.* statements are skipped); its parameters are replaced by the arguments of the call
//	arguments may use local names of the chain branch that are defined once by `x := <expr>`
//
// After that substitution every argument must be one of
//
//	domainID    *config.GeneralChainConfig.Id                                 -> "own"
//	startBlock  config.StartBlock -> "configured" ; big.NewInt(<literal>)     -> {"lit": n}
//	latest, fresh (booleans)  config.GeneralChainConfig.LatestBlock -> "latest",
//	            config.GeneralChainConfig.FreshStart -> "fresh", true, false, !e -> {"not": e},
//	            a && b -> {"and": [a, b]}, a || b -> {"or": [a, b]}, a == b -> {"eq": [a, b]},
//	            a != b -> {"ne": [a, b]}
//
// The record says which configuration field feeds which parameter - it is NOT judged here: the Coq
// model evaluates it (Model/C05.v start_call) and the C05 runner calls the real GetStartBlock with
// the flags so computed.
package main

import (
	"go/ast"
	"go/parser"
	"go/token"
	"os"
	"path/filepath"
	"strconv"
	"strings"
)

type StartCall struct {
	ID     string      `json:"id"`
	Block  interface{} `json:"block"`
	Latest interface{} `json:"latest"`
	Fresh  interface{} `json:"fresh"`
	// the helper functions the call goes through, outermost first ("" = called in the branch itself)
	Via string `json:"via,omitempty"`
	// the call as app.go had it until now: (id, config.StartBlock, latest, fresh)
	Canonical bool `json:"canonical"`
}

const (
	cfgLatest = "config.GeneralChainConfig.LatestBlock"
	cfgFresh  = "config.GeneralChainConfig.FreshStart"
	cfgStart  = "config.StartBlock"
	cfgID     = "*config.GeneralChainConfig.Id"
)

// helpers: the receiver-less functions of package app (all non-test files of app/)
var appFuncs = map[string]*ast.FuncDecl{}

func loadAppFuncs(repo string) {
	dir := filepath.Join(repo, "app")
	ents, err := os.ReadDir(dir)
	if err != nil {
		return
	}
	for _, e := range ents {
		n := e.Name()
		if e.IsDir() || !strings.HasSuffix(n, ".go") || strings.HasSuffix(n, "_test.go") {
			continue
		}
		f, err := parser.ParseFile(fset, filepath.Join(dir, n), nil, 0)
		if err != nil {
			continue
		}
		for _, d := range f.Decls {
			if fd, ok := d.(*ast.FuncDecl); ok && fd.Recv == nil && fd.Body != nil {
				if _, dup := appFuncs[fd.Name.Name]; dup {
					appFuncs[fd.Name.Name] = nil // ambiguous (build tags): not followed
				} else {
					appFuncs[fd.Name.Name] = fd
				}
			}
		}
	}
}

// scope: how identifiers of an expression are read
type scope struct {
	kind   string
	bound  map[string]ast.Expr // parameters of a helper -> the (already resolved) arguments
	locals map[string]ast.Expr // `x := e` of the chain branch, resolved on demand in the same scope
	multi  map[string]bool     // names assigned more than once: not followed
	free   map[string]bool     // names that stand for themselves
	depth  int
}

func (sc *scope) resolve(e ast.Expr) ast.Expr {
	if sc.depth > 12 {
		fail("%s: GetStartBlock arguments are nested too deeply", sc.kind)
	}
	sc.depth++
	defer func() { sc.depth-- }()
	switch x := e.(type) {
	case *ast.Ident:
		if x.Name == "true" || x.Name == "false" || x.Name == "nil" {
			return x
		}
		if v, ok := sc.bound[x.Name]; ok {
			return v
		}
		if sc.multi[x.Name] {
			fail("%s: %s is assigned more than once before GetStartBlock uses it", sc.kind, x.Name)
		}
		if v, ok := sc.locals[x.Name]; ok {
			return sc.resolve(v)
		}
		if sc.free[x.Name] {
			return x
		}
		fail("%s: cannot tell what %s stands for in the GetStartBlock arguments", sc.kind, x.Name)
	case *ast.ParenExpr:
		return &ast.ParenExpr{X: sc.resolve(x.X)}
	case *ast.SelectorExpr:
		return &ast.SelectorExpr{X: stripAddr(sc.resolve(x.X)), Sel: x.Sel}
	case *ast.StarExpr:
		in := sc.resolve(x.X)
		if u, ok := unparen(in).(*ast.UnaryExpr); ok && u.Op == token.AND {
			return u.X
		}
		return &ast.StarExpr{X: in}
	case *ast.UnaryExpr:
		if x.Op == token.NOT || x.Op == token.AND {
			return &ast.UnaryExpr{Op: x.Op, X: sc.resolve(x.X)}
		}
	case *ast.BinaryExpr:
		switch x.Op {
		case token.LAND, token.LOR, token.EQL, token.NEQ:
			return &ast.BinaryExpr{X: sc.resolve(x.X), Op: x.Op, Y: sc.resolve(x.Y)}
		}
	case *ast.BasicLit:
		return x
	case *ast.CallExpr:
		// big.NewInt(k): a function of an imported package over resolvable arguments
		if sel, ok := x.Fun.(*ast.SelectorExpr); ok {
			if id, ok := sel.X.(*ast.Ident); ok && sc.free[id.Name] && sc.bound[id.Name] == nil && sc.locals[id.Name] == nil {
				args := make([]ast.Expr, len(x.Args))
				for i, a := range x.Args {
					args[i] = sc.resolve(a)
				}
				return &ast.CallExpr{Fun: sel, Args: args}
			}
		}
	}
	fail("%s: unrecognised expression in the GetStartBlock arguments: %s", sc.kind, str(e))
	return nil
}

// show prints a resolved expression canonically (the nodes come from different places of the source:
// go/printer would break lines between them)
func show(e ast.Expr) string {
	switch x := e.(type) {
	case *ast.Ident:
		return x.Name
	case *ast.ParenExpr:
		return "(" + show(x.X) + ")"
	case *ast.SelectorExpr:
		return show(x.X) + "." + x.Sel.Name
	case *ast.StarExpr:
		return "*" + show(x.X)
	case *ast.UnaryExpr:
		return x.Op.String() + show(x.X)
	case *ast.BinaryExpr:
		return show(x.X) + " " + x.Op.String() + " " + show(x.Y)
	case *ast.BasicLit:
		return x.Value
	case *ast.CallExpr:
		a := make([]string, len(x.Args))
		for i, y := range x.Args {
			a[i] = show(y)
		}
		return show(x.Fun) + "(" + strings.Join(a, ", ") + ")"
	}
	return str(e)
}

func unparen(e ast.Expr) ast.Expr {
	for {
		p, ok := e.(*ast.ParenExpr)
		if !ok {
			return e
		}
		e = p.X
	}
}

// stripAddr: (&x).f is x.f
func stripAddr(e ast.Expr) ast.Expr {
	if u, ok := unparen(e).(*ast.UnaryExpr); ok && u.Op == token.AND {
		return u.X
	}
	return e
}

func flagExpr(kind string, e ast.Expr) interface{} {
	e = unparen(e)
	switch s := show(e); s {
	case cfgLatest:
		return "latest"
	case cfgFresh:
		return "fresh"
	case "true":
		return true
	case "false":
		return false
	}
	switch x := e.(type) {
	case *ast.UnaryExpr:
		if x.Op == token.NOT {
			return map[string]interface{}{"not": flagExpr(kind, x.X)}
		}
	case *ast.BinaryExpr:
		op := map[token.Token]string{token.LAND: "and", token.LOR: "or", token.EQL: "eq", token.NEQ: "ne"}[x.Op]
		if op != "" {
			return map[string]interface{}{op: []interface{}{flagExpr(kind, x.X), flagExpr(kind, x.Y)}}
		}
	}
	fail("%s: GetStartBlock is given the flag %s", kind, show(e))
	return nil
}

func blockExpr(kind string, e ast.Expr) interface{} {
	e = unparen(e)
	if show(e) == cfgStart {
		return "configured"
	}
	if c, ok := e.(*ast.CallExpr); ok && show(c.Fun) == "big.NewInt" && len(c.Args) == 1 {
		if lit, ok := unparen(c.Args[0]).(*ast.BasicLit); ok && lit.Kind == token.INT {
			if n, err := strconv.ParseInt(lit.Value, 0, 64); err == nil && n >= 0 {
				return map[string]interface{}{"lit": n}
			}
		}
	}
	fail("%s: GetStartBlock is given the start block %s", kind, show(e))
	return nil
}

// startCallOf: call = the right-hand side of the statement that defines startBlock.
func startCallOf(kind string, call *ast.CallExpr, sc *scope, blockstoreVar string, via []string) *StartCall {
	if len(via) > 4 {
		fail("%s: GetStartBlock is wrapped too deeply (%s)", kind, strings.Join(via, " -> "))
	}
	if sel, ok := call.Fun.(*ast.SelectorExpr); ok && sel.Sel.Name == "GetStartBlock" {
		if recv := show(stripAddr(sc.resolve(sel.X))); recv != blockstoreVar {
			fail("%s: GetStartBlock is called on %q, not on the shared block store %q", kind, recv, blockstoreVar)
		}
		if len(call.Args) != 4 {
			fail("%s: GetStartBlock arguments are (%s)", kind, argList(call))
		}
		a := make([]ast.Expr, 4)
		for i := range a {
			a[i] = sc.resolve(call.Args[i])
		}
		if show(unparen(a[0])) != cfgID {
			fail("%s: GetStartBlock reads the cursor of domain %s", kind, show(a[0]))
		}
		r := &StartCall{ID: "own", Block: blockExpr(kind, a[1]), Latest: flagExpr(kind, a[2]), Fresh: flagExpr(kind, a[3]),
			Via: strings.Join(via, " -> ")}
		r.Canonical = r.Block == "configured" && r.Latest == "latest" && r.Fresh == "fresh"
		return r
	}
	id, ok := call.Fun.(*ast.Ident)
	if !ok {
		fail("%s: unrecognised statement over startBlock: %s", kind, str(call))
	}
	fd := appFuncs[id.Name]
	if fd == nil {
		fail("%s: unrecognised statement over startBlock: %s (no single function %s in package app)", kind, str(call), id.Name)
	}
	// parameters := resolved arguments
	var params []string
	for _, p := range fd.Type.Params.List {
		if _, variadic := p.Type.(*ast.Ellipsis); variadic {
			fail("%s: %s is variadic", kind, id.Name)
		}
		if len(p.Names) == 0 {
			params = append(params, "_")
		}
		for _, n := range p.Names {
			params = append(params, n.Name)
		}
	}
	if len(params) != len(call.Args) {
		fail("%s: %s takes %d arguments, is given %d", kind, id.Name, len(params), len(call.Args))
	}
	in := &scope{kind: kind, bound: map[string]ast.Expr{}, locals: map[string]ast.Expr{}, multi: map[string]bool{}, free: map[string]bool{}, depth: sc.depth}
	for k, v := range sc.free {
		// imported package names mean the same inside the helper (one file / one package); the
		// branch's own variables do not exist there
		if k != "config" && k != blockstoreVar {
			in.free[k] = v
		}
	}
	for i, p := range params {
		if p == "_" {
			continue
		}
		in.bound[p] = sc.resolve(call.Args[i])
		delete(in.free, p)
	}
	// body: [log.*...] return <call>   |   v, err := <call>; <panic on err>; return v[, err|nil]
	var stmts []ast.Stmt
	for _, s := range fd.Body.List {
		if es, ok := s.(*ast.ExprStmt); ok && strings.HasPrefix(str(es.X), "log.") {
			continue
		}
		stmts = append(stmts, s)
	}
	via = append(via, id.Name)
	inner := func(e ast.Expr) *ast.CallExpr {
		c, ok := e.(*ast.CallExpr)
		if !ok {
			fail("%s: unrecognised body of %s", kind, id.Name)
		}
		return c
	}
	switch {
	case len(stmts) == 1:
		if rs, ok := stmts[0].(*ast.ReturnStmt); ok && len(rs.Results) == 1 {
			return startCallOf(kind, inner(rs.Results[0]), in, blockstoreVar, via)
		}
	case len(stmts) == 3:
		as, ok1 := stmts[0].(*ast.AssignStmt)
		rs, ok3 := stmts[2].(*ast.ReturnStmt)
		if ok1 && ok3 && as.Tok == token.DEFINE && len(as.Lhs) == 2 && len(as.Rhs) == 1 && str(as.Lhs[1]) == "err" &&
			(isPanicOnErr(stmts[1]) || str(stmts[1]) == "panicOnError(err)") && len(rs.Results) >= 1 && len(rs.Results) <= 2 &&
			str(rs.Results[0]) == str(as.Lhs[0]) && (len(rs.Results) == 1 || str(rs.Results[1]) == "err" || str(rs.Results[1]) == "nil") {
			if _, shadow := in.bound[str(as.Lhs[0])]; !shadow {
				return startCallOf(kind, inner(as.Rhs[0]), in, blockstoreVar, via)
			}
		}
	}
	fail("%s: unrecognised body of %s (expected `return x.GetStartBlock(...)`)", kind, id.Name)
	return nil
}

// branchScope: the names of a chain branch as they stand at statement `at`: `x := e` seen before it
// (once), `config`, the block store, imported packages.
func branchScope(kind string, body []ast.Stmt, at int, imports map[string]string, blockstoreVar string) *scope {
	sc := &scope{kind: kind, bound: map[string]ast.Expr{}, locals: map[string]ast.Expr{}, multi: map[string]bool{}, free: map[string]bool{"config": true, blockstoreVar: true}}
	for name := range imports {
		sc.free[name] = true
	}
	seen := map[string]int{}
	for _, s := range body {
		ast.Inspect(s, func(n ast.Node) bool {
			switch x := n.(type) {
			case *ast.AssignStmt:
				for _, l := range x.Lhs {
					if id, ok := l.(*ast.Ident); ok {
						seen[id.Name]++
					}
				}
			case *ast.IncDecStmt:
				if id, ok := x.X.(*ast.Ident); ok {
					seen[id.Name] += 2
				}
			case *ast.UnaryExpr: // &x: may be written through the pointer
				if id, ok := x.X.(*ast.Ident); ok && x.Op == token.AND {
					seen[id.Name] += 2
				}
			case *ast.ValueSpec:
				for _, id := range x.Names {
					seen[id.Name]++
				}
			}
			return true
		})
	}
	for i, s := range body {
		as, ok := s.(*ast.AssignStmt)
		if !ok {
			continue
		}
		if i < at && as.Tok == token.DEFINE && len(as.Lhs) == 1 && len(as.Rhs) == 1 {
			if id, ok := as.Lhs[0].(*ast.Ident); ok && id.Name != "config" && id.Name != blockstoreVar {
				sc.locals[id.Name] = as.Rhs[0]
				delete(sc.free, id.Name)
			}
		}
	}
	for name, n := range seen {
		if n > 1 {
			sc.multi[name] = true
		}
	}
	// `config` and the block store must be what they always were in this branch
	if seen["config"] > 1 || seen[blockstoreVar] > 0 {
		fail("%s: config / %s is reassigned in the chain branch", kind, blockstoreVar)
	}
	return sc
}

// definesStartBlock: `startBlock, err := <call>` / `startBlock := <call>`
func definesStartBlock(s ast.Stmt) (*ast.CallExpr, bool) {
	as, ok := s.(*ast.AssignStmt)
	if !ok || as.Tok != token.DEFINE || len(as.Rhs) != 1 || len(as.Lhs) < 1 || len(as.Lhs) > 2 || str(as.Lhs[0]) != "startBlock" {
		return nil, false
	}
	if len(as.Lhs) == 2 && str(as.Lhs[1]) != "err" {
		return nil, false
	}
	c, ok := as.Rhs[0].(*ast.CallExpr)
	return c, ok
}
