module wiring2coq

go 1.21
