#!/usr/bin/env python3
"""Orchestrator of the per-property checks:  ./check CXX [--tier quick|thorough] [--replay FILE]

One run =
  1. (properties with a translator) regenerate the generated part of the model from $REPO
  2. kernel-check the property theorems:  make Properties/CXX.vo Run/CXX.vo, then re-run coqc on
     Properties/CXX.v to capture `Print Assumptions`
  3. build the Go runner harness/cmd/cxx against $REPO's WORKING TREE (build tag `verif`, overlay
     = libp2p QUIC patch + this property's add-only hook files)
  4. run it: it drives the real code on corpus + generated cases and writes cases_<k>.v
  5. coqc each shard: the model and the judge are evaluated in the kernel (vm_compute) on every
     case; result = list of (index, code)   code 2: judge rejects what the implementation did,
     code 1: model and implementation differ, judge accepts
  6. verdict, replay file, evidence/CXX.json
Exit 0: held. Exit 1 + "VIOLATION property=CXX replay=<path>[ no-failing-input-found]".
"""
import argparse, fcntl, glob, hashlib, json, os, re, shutil, subprocess, sys, time
from concurrent.futures import ThreadPoolExecutor

VERIF = os.path.dirname(os.path.dirname(os.path.abspath(__file__)))
COQ = os.path.join(VERIF, "coq")
HARNESS = os.path.join(VERIF, "harness")
REPO = os.environ.get("VERIF_REPO", "/repo")
LIBP2P_DEFAULTS = "/root/go/pkg/mod/github.com/libp2p/go-libp2p@v0.23.4/defaults.go"

GOENV = dict(os.environ, GOFLAGS="-mod=mod", GOPROXY="off", GOSUMDB="off", GOTOOLCHAIN="local",
             GODEBUG="goindex=0", CGO_ENABLED=os.environ.get("CGO_ENABLED", "1"))

# Per-property settings that are not derivable from the file layout.
PROPS = {}


def load_props():
    global PROPS
    PROPS = {}
    for f in sorted(glob.glob(os.path.join(VERIF, "tools", "props", "C*.json"))):
        PROPS[os.path.basename(f)[:-5]] = json.load(open(f))


def sh(cmd, timeout, cwd=None, env=None, stdin=None):
    t0 = time.time()
    try:
        p = subprocess.run(cmd, cwd=cwd, env=env, stdout=subprocess.PIPE, stderr=subprocess.STDOUT,
                           timeout=timeout, text=True, errors="replace", input=stdin)
        return p.returncode, p.stdout, time.time() - t0
    except subprocess.TimeoutExpired as e:
        out = e.stdout if isinstance(e.stdout, str) else (e.stdout or b"").decode(errors="replace")
        return 124, out + "\n[timeout after %ss]" % timeout, time.time() - t0


def sh_watch(cmd, timeout, stall_s, outdir, cwd=None, env=None):
    """Run a runner; kill it when it exceeds `timeout` or makes no progress (neither inflight.json
    nor cases.jsonl changes) for `stall_s` seconds.  rc 124 = timeout, 125 = stalled."""
    t0 = time.time()
    logp = os.path.join(outdir, "runner.log")
    with open(logp, "w") as lf:
        p = subprocess.Popen(cmd, cwd=cwd, env=env, stdout=lf, stderr=subprocess.STDOUT)
        last_sig, last_change = None, time.time()
        rc = None
        while True:
            try:
                rc = p.wait(timeout=2)
                break
            except subprocess.TimeoutExpired:
                pass
            sig = []
            for fn in ("inflight.json", "cases.jsonl"):
                fp = os.path.join(outdir, fn)
                try:
                    st = os.stat(fp)
                    sig.append((st.st_mtime_ns, st.st_size))
                except OSError:
                    sig.append(None)
            now = time.time()
            if sig != last_sig:
                last_sig, last_change = sig, now
            if now - t0 > timeout:
                p.kill(); p.wait(); rc = 124
                break
            if now - last_change > stall_s:
                p.kill(); p.wait(); rc = 125
                break
    out = open(logp, errors="replace").read()
    if rc == 124:
        out += "\n[timeout after %ss]" % timeout
    if rc == 125:
        out += "\n[no progress for %ss: killed]" % stall_s
    return rc, out, time.time() - t0


# ------------------------------------------------------------------------------------------------
# Coq side

def coq_files():
    fs = []
    for root, _, files in os.walk(COQ):
        for f in files:
            if f.endswith(".v"):
                fs.append(os.path.relpath(os.path.join(root, f), COQ))
    return sorted(fs)


COQPROJECT_HEAD = ("-Q . SygmaV\n"
                   "-arg -w -arg -notation-overridden,-deprecated-hint-without-locality,"
                   "-deprecated-instance-without-locality,-ambiguous-paths\n")


def ensure_makefile():
    want = COQPROJECT_HEAD + "\n".join(coq_files()) + "\n"
    cp = os.path.join(COQ, "_CoqProject")
    cur = open(cp).read() if os.path.exists(cp) else ""
    if cur != want or not os.path.exists(os.path.join(COQ, "Makefile")):
        with open(cp, "w") as f:
            f.write(want)
        rc, out, _ = sh(["coq_makefile", "-f", "_CoqProject", "-o", "Makefile"], 120, cwd=COQ)
        if rc != 0:
            raise RuntimeError("coq_makefile failed: " + out)


class CoqLock:
    def __enter__(self):
        os.makedirs(os.path.join(VERIF, "work"), exist_ok=True)
        self.f = open(os.path.join(VERIF, "work", ".coq.lock"), "w")
        fcntl.flock(self.f, fcntl.LOCK_EX)
        return self

    def __exit__(self, *a):
        fcntl.flock(self.f, fcntl.LOCK_UN)
        self.f.close()


def coq_make(targets, timeout=3000):
    with CoqLock():
        ensure_makefile()
        return sh(["make", "-j16"] + targets, timeout, cwd=COQ)


def theorems_of(path):
    txt = open(path).read()
    return [(m.group(2), txt[:m.start()].count("\n") + 1)
            for m in re.finditer(r"^(Theorem|Corollary)\s+(\w+)", txt, re.M)]


def check_properties_file(pid, work):
    """Re-run coqc on Properties/<pid>.v; returns (ok, n_theorems, n_discharged, assumptions, log)."""
    src = os.path.join(COQ, "Properties", pid + ".v")
    thms = theorems_of(src)
    os.makedirs(os.path.join(work, "props"), exist_ok=True)
    out_vo = os.path.join(work, "props", pid + ".vo")
    rc, out, _ = sh(["coqc", "-Q", COQ, "SygmaV", "-w", "-notation-overridden", "-o", out_vo, src], 1200)
    assumptions = []
    if rc == 0:
        # Print Assumptions blocks: either "Closed under the global context" or "Axioms:\n name : type ..."
        blocks = re.split(r"\n(?=Closed under the global context|Axioms:)", "\n" + out)
        for b in blocks:
            b = b.strip()
            if b.startswith("Closed under") or b.startswith("Axioms:"):
                assumptions.append(b)
        return True, len(thms), len(thms), assumptions, out
    m = re.search(r'line (\d+), characters', out)
    errline = int(m.group(1)) if m else 0
    # a theorem is discharged if the next theorem starts before the error line
    done = 0
    for i, (_, ln) in enumerate(thms):
        nxt = thms[i + 1][1] if i + 1 < len(thms) else 10 ** 9
        if nxt <= errline:
            done += 1
    return False, len(thms), done, assumptions, out


def coqchk(pid, work):
    """Independent re-check of Properties/<pid>.vo and everything it depends on (thorough tier).
    Cached by the hash of all .v sources (coqchk takes minutes)."""
    h = hashlib.sha256()
    for f in coq_files():
        h.update(f.encode()); h.update(open(os.path.join(COQ, f), "rb").read())
    key = h.hexdigest()[:16]
    cache = os.path.join(VERIF, "work", "coqchk_%s_%s.txt" % (pid, key))
    if os.path.exists(cache):
        return open(cache).read()
    with CoqLock():
        rc, out, dt = sh(["coqchk", "-silent", "-o", "-Q", ".", "SygmaV", "SygmaV.Properties." + pid], 5400, cwd=COQ)
    txt = "coqchk rc=%d (%.0fs)\n%s" % (rc, dt, out[-4000:])
    if rc == 0:
        with open(cache, "w") as f:
            f.write(txt)
    return txt


def parse_R(out):
    """Parse `R = (fails, hist)` printed by Print R.  Returns (fails, hist) as lists of int pairs."""
    m = re.search(r"R\s*=\s*(.*?)\n\s*:\s", out, re.S)
    if not m:
        return None
    body = re.sub(r"\s+", "", m.group(1))
    body = body.replace("%N", "").replace("%Z", "")
    # body = ([(i,c);...],[(t,n);...])
    mm = re.match(r"^\((\[.*?\]),(\[.*?\])\)$", body)
    if not mm:
        return None

    def pairs(s):
        return [(int(a), int(b)) for a, b in re.findall(r"\((\d+),(\d+)\)", s)]
    return pairs(mm.group(1)), pairs(mm.group(2))


def run_shard(args):
    work, shard = args
    rc, out, dt = sh(["coqc", "-Q", COQ, "SygmaV", "-w", "-notation-overridden", shard], 3000, cwd=work)
    return shard, rc, out, dt


# ------------------------------------------------------------------------------------------------
# Go side

def ensure_libp2p_patch():
    dst = os.path.join(VERIF, "work", "libp2p_defaults_patched.go")
    if not os.path.exists(dst):
        os.makedirs(os.path.dirname(dst), exist_ok=True)
        src = open(LIBP2P_DEFAULTS).read().split("\n")
        keep = [l for l in src if 'p2p/transport/quic"' not in l and "Transport(quic.NewTransport)" not in l]
        tmp = dst + ".%d" % os.getpid()
        with open(tmp, "w") as f:
            f.write("\n".join(keep))
        os.replace(tmp, dst)
    return dst


def gen_gomod(work):
    """harness go.mod derived from $REPO/go.mod (requires + replaces are not inherited)."""
    src = open(os.path.join(REPO, "go.mod")).read()
    lines = src.split("\n")
    out = ["module verifharness", ""]
    for l in lines:
        if l.startswith("module "):
            continue
        out.append(l)
    out.append("")
    out.append("require github.com/ChainSafe/sygma-relayer v0.0.0")
    out.append("replace github.com/ChainSafe/sygma-relayer => " + REPO)
    with open(os.path.join(work, "go.mod"), "w") as f:
        f.write("\n".join(out) + "\n")
    shutil.copy(os.path.join(REPO, "go.sum"), os.path.join(work, "go.sum"))


def gen_overlay(pid, work):
    rep = {LIBP2P_DEFAULTS: ensure_libp2p_patch()}
    hooks = []
    hroot = os.path.join(HARNESS, "hooks", pid)
    for root, _, files in os.walk(hroot):
        for f in files:
            if f.endswith(".go"):
                rel = os.path.relpath(os.path.join(root, f), hroot)
                rep[os.path.join(REPO, rel)] = os.path.join(root, f)
                hooks.append(rel)
    with open(os.path.join(work, "overlay.json"), "w") as f:
        json.dump({"Replace": rep}, f, indent=1)
    return hooks


def build_runner(pid, work):
    gen_gomod(work)
    hooks = gen_overlay(pid, work)
    exe = os.path.join(work, "implrun")
    cmd = ["go", "build", "-modfile", os.path.join(work, "go.mod"), "-tags", "verif",
           "-overlay", os.path.join(work, "overlay.json"), "-o", exe, "./cmd/" + pid.lower()]
    rc, out, dt = sh(cmd, 1500, cwd=HARNESS, env=GOENV)
    return rc == 0, out, exe, hooks, dt


def run_runner(exe, pid, work, outdir, seed, tier, replay=None, corpus=True, timeout=None):
    os.makedirs(outdir, exist_ok=True)
    cmd = [exe, "-out", outdir, "-seed", str(seed), "-tier", tier]
    if replay:
        cmd += ["-replay", replay]
    elif corpus:
        cdir = os.path.join(VERIF, "corpus", pid)
        if os.path.isdir(cdir):
            cmd += ["-corpus", cdir]
    env = dict(GOENV, VERIF_REPO=REPO, VERIF_WORK=work, VERIF_DIR=VERIF)
    tmo = timeout or PROPS.get(pid, {}).get("runner_timeout_" + tier, PROPS.get(pid, {}).get("runner_timeout", 420 if tier == "quick" else 3000))
    if tier == "quick" and not timeout:
        tmo = min(tmo, 600)   # a quick run that needs longer is stuck: the in-flight case is reported
    # runners with long single cases (real MPC protocol runs, children rebuilt with -race)
    slow = pid in ("C08", "C09", "C10", "C12", "C17", "C18")
    stall = PROPS.get(pid, {}).get("stall_s", (320 if slow else 150) if tier == "quick" else 900)
    return sh_watch(cmd, tmo, stall, outdir, cwd=work, env=env)


def evaluate(outdir):
    """Compile all shards; returns dict with fails (global index, code), histogram, logs."""
    stats = json.load(open(os.path.join(outdir, "stats.json")))
    shards = stats.get("shards") or []
    shard_size = None
    fails, hist, errors = [], {}, []
    with ThreadPoolExecutor(max_workers=12) as ex:
        results = list(ex.map(run_shard, [(outdir, s) for s in shards]))
    recs = [json.loads(l) for l in open(os.path.join(outdir, "cases.jsonl"))]
    # shard k holds cases [offsets[k], offsets[k+1])
    sizes = []
    for s in shards:
        txt = open(os.path.join(outdir, s)).read()
        sizes.append(txt.count(";\n  ") + 1)
    offs = [0]
    for z in sizes:
        offs.append(offs[-1] + z)
    for k, (shard, rc, out, dt) in enumerate(results):
        r = parse_R(out) if rc == 0 else None
        if r is None:
            errors.append((shard, out[-3000:]))
            continue
        for (i, c) in r[0]:
            fails.append((offs[k] + i, c))
        for (t, n) in r[1]:
            hist[t] = hist.get(t, 0) + n
    return dict(stats=stats, recs=recs, fails=fails, hist=hist, errors=errors)


# ------------------------------------------------------------------------------------------------

def known_findings(pid):
    out = []
    for p in [os.path.join(VERIF, "known_findings.json")] + sorted(glob.glob(os.path.join(VERIF, "known_findings.d", "*.json"))):
        if os.path.exists(p):
            out += [e for e in json.load(open(p)).get("findings", []) if e.get("property") == pid]
    return out


def matches(entry, rec):
    if not entry.get("status", "").startswith("open"):
        return False
    key = entry.get("kind", "")
    if key and not (rec["kind"] == key or rec["kind"].startswith(key)):
        return False
    pat = entry.get("input_regex")
    if pat and not re.search(pat, json.dumps(rec["input"], sort_keys=True)):
        return False
    return True


REPLAY_SUBDIR = None


def write_replay(pid, name, recs, note):
    d = os.path.join(VERIF, "replays", REPLAY_SUBDIR or pid)
    os.makedirs(d, exist_ok=True)
    path = os.path.join(d, name)
    with open(path, "w") as f:
        f.write("# " + note.replace("\n", "\n# ") + "\n")
        for r in recs:
            f.write(json.dumps(r) + "\n")
    return path


def main():
    ap = argparse.ArgumentParser()
    ap.add_argument("pid")
    ap.add_argument("--tier", default=os.environ.get("VERIF_TIER", "quick"))
    ap.add_argument("--replay")
    a = ap.parse_args()
    pid = a.pid.upper()
    tier = a.tier if a.tier in ("quick", "thorough") else "quick"
    try:
        seed = int(os.environ.get("VERIF_SEED", "1"))
    except ValueError:
        seed = 1
    seed &= (1 << 63) - 1
    load_props()
    prop = PROPS.get(pid, {})
    t0 = time.time()
    work = os.path.join(VERIF, "work", pid)
    if os.path.realpath(REPO) != "/repo":
        # experiments against another checkout get their own work and replay directories
        work += "_" + hashlib.sha1(os.path.realpath(REPO).encode()).hexdigest()[:8]
    global REPLAY_SUBDIR
    REPLAY_SUBDIR = os.path.basename(work)
    shutil.rmtree(work, ignore_errors=True)
    os.makedirs(work)
    if a.replay:
        # replay files usually live in replays/<pid>/, which is wiped below: keep a private copy
        a.replay = os.path.abspath(a.replay)
        keep = os.path.join(work, "replay_input.jsonl")
        shutil.copy(a.replay, keep)
        a.replay = keep
    shutil.rmtree(os.path.join(VERIF, "replays", os.path.basename(work)), ignore_errors=True)
    ev_path = os.path.join(VERIF, "evidence", pid + ".json")
    if os.path.realpath(REPO) != "/repo":
        # experiments against another checkout (tools/try_patch.sh) must not overwrite the evidence
        # of the real tree
        ev_path = os.path.join(work, "evidence_" + pid + ".json")
    os.makedirs(os.path.dirname(ev_path), exist_ok=True)

    broken = []      # names of theorems / correspondences that no longer check
    notes = []

    # 1. translators
    for tr in prop.get("translators", []):
        rc, out, _ = sh([sys.executable, os.path.join(VERIF, "tools", tr), REPO], 600, cwd=VERIF, env=GOENV)
        if rc != 0:
            broken.append("translator %s: %s" % (tr, out.strip()[-600:]))

    # 2. theorems
    rc, out, dt_make = coq_make(["Properties/%s.vo" % pid, "Run/%s.vo" % pid])
    make_ok = rc == 0
    if not make_ok:
        broken.append("coq build of Properties/%s.vo / Run/%s.vo failed:\n%s" % (pid, pid, out[-2500:]))
    ok_props, n_thm, n_done, assumptions, plog = (False, len(theorems_of(os.path.join(COQ, "Properties", pid + ".v"))), 0, [], "")
    if os.path.exists(os.path.join(COQ, "Properties", pid + ".vo")) or make_ok:
        ok_props, n_thm, n_done, assumptions, plog = check_properties_file(pid, work)
        if not ok_props and make_ok:
            broken.append("Properties/%s.v no longer checks:\n%s" % (pid, plog[-2000:]))
    run_vo = os.path.exists(os.path.join(COQ, "Run", pid + ".vo"))

    # 3. runner
    built, bout, exe, hooks, dt_build = build_runner(pid, work)
    if not built:
        broken.append("correspondence harness harness/cmd/%s does not build against %s (hooks %s):\n%s"
                      % (pid.lower(), REPO, hooks, bout[-3000:]))

    res = None
    judge_fail, corr_fail = [], []
    searched = []
    if built and run_vo:
        outdir = os.path.join(work, "run0")
        rc, rout, dt_run = run_runner(exe, pid, work, outdir, seed, tier, replay=a.replay)
        # a runner that died, hung or stalled is believed only if it does so again: re-run it (same
        # cases) up to two more times; a later complete run is used and the flake is noted
        retry = 0
        while (rc != 0 or not os.path.exists(os.path.join(outdir, "stats.json"))) and retry < 2:
            retry += 1
            notes.append("runner attempt %d ended with rc=%s (%s); re-running" % (retry, rc, rout.strip()[-200:].replace("\n", " | ")))
            outdir = os.path.join(work, "run0_retry%d" % retry)
            rc, rout, dt_run = run_runner(exe, pid, work, outdir, seed, tier, replay=a.replay)
        if rc != 0 or not os.path.exists(os.path.join(outdir, "stats.json")):
            crash = None
            for fn in ("crash.json", "inflight.json"):
                fp = os.path.join(outdir, fn)
                if os.path.exists(fp):
                    try:
                        crash = json.load(open(fp))
                    except Exception:
                        crash = None
                    break
            if crash is not None:
                # the real code (driven by the harness) panicked, killed the process or hung on this
                # input: a concrete failing input
                crash["runner_rc"] = rc
                crash["runner_tail"] = rout[-1500:]
                judge_fail = [(crash.get("index", 0), crash)]
                notes.append("runner died on case %s" % crash.get("index"))
            else:
                broken.append("runner failed (rc=%s):\n%s" % (rc, rout[-3000:]))
        else:
            res = evaluate(outdir)
            if res["errors"]:
                broken.append("model evaluation of %d shard(s) failed: %s" % (len(res["errors"]), res["errors"][0][1][-1500:]))
            judge_fail = [(i, res["recs"][i]) for (i, c) in res["fails"] if c == 2]
            corr_fail = [(i, res["recs"][i]) for (i, c) in res["fails"] if c == 1]
            if corr_fail:
                broken.append("correspondence model<->implementation differs on %d case(s), e.g. %s"
                              % (len(corr_fail), json.dumps(corr_fail[0][1])[:600]))
        # 4. something is broken but no judged case fails: enlarge the search
        if broken and not judge_fail and not a.replay:
            # bounded: at most three thorough-size generations and SEARCH_BUDGET seconds in total
            t_search = time.time()
            budget = 180 if tier == "quick" else 1500
            for extra in range(1, 4):
                left = budget - (time.time() - t_search)
                if left < 20:
                    break
                od = os.path.join(work, "search%d" % extra)
                rc, rout, _ = run_runner(exe, pid, work, od, seed + 7919 * extra, "thorough", corpus=False, timeout=left)
                if rc != 0 or not os.path.exists(os.path.join(od, "stats.json")):
                    break
                r2 = evaluate(od)
                searched.append(r2["stats"]["evaluations"])
                jf = [(i, r2["recs"][i]) for (i, c) in r2["fails"] if c == 2]
                if jf:
                    judge_fail = jf
                    break

    # 5. verdict
    kf = known_findings(pid)
    violations = 0
    lines = []
    new_fail = []
    known_hit = {}
    for (i, rec) in judge_fail:
        hit = next((e for e in kf if matches(e, rec)), None)
        if hit:
            known_hit.setdefault(hit["key"], (hit, rec))
        else:
            new_fail.append(rec)
    for key, (hit, rec) in known_hit.items():
        lines.append("KNOWN-FINDING: property=%s %s" % (pid, hit["what"]))
    if new_fail:
        new_fail.sort(key=lambda r: len(json.dumps(r["input"])))
        path = write_replay(pid, "violation_%d.jsonl" % seed, new_fail[:5],
                            "property %s: the specification predicate (judge) rejects what the implementation did on these inputs.\n"
                            "replay: ./check %s --replay <this file>" % (pid, pid))
        lines.append("VIOLATION property=%s replay=%s" % (pid, path))
        violations = len(new_fail)
    elif broken:
        path = write_replay(pid, "broken_%d.jsonl" % seed, [r for _, r in corr_fail[:5]],
                            "property %s is no longer shown to hold; no input on which it fails was found "
                            "(searched %s extra generated cases).\nBroken obligations / correspondences:\n%s"
                            % (pid, searched, "\n---\n".join(broken)))
        lines.append("VIOLATION property=%s replay=%s no-failing-input-found" % (pid, path))
        violations = 1

    # 5b. thorough: independent checker
    chk = None
    if tier == "thorough" and make_ok and not a.replay:
        chk = coqchk(pid, work)
        if not chk.startswith("coqchk rc=0"):
            broken.append("coqchk failed: " + chk[-1500:])
            if not violations:
                path = write_replay(pid, "broken_%d.jsonl" % seed, [], "coqchk rejects Properties/%s.vo:\n%s" % (pid, chk))
                lines.append("VIOLATION property=%s replay=%s no-failing-input-found" % (pid, path))
                violations = 1

    # 6. evidence
    stats = res["stats"] if res else {}
    tb = prop.get("trusted_base", [])
    coverage = {
        "obligations": max(n_thm, 1),
        "discharged": n_done,
        "checker_cmd": "make -C coq Properties/%s.vo Run/%s.vo && coqc -Q coq SygmaV coq/Properties/%s.v (Coq 8.16.1 kernel; vm_compute for the in-kernel evaluation of the cases_<k>.v shards)" % (pid, pid, pid),
        "trusted_base": [
            "Coq 8.16.1 kernel incl. vm_compute (no native_compute)",
            "Print Assumptions of the %d theorems in Properties/%s.v: %s" % (n_thm, pid, "; ".join(sorted(set(x.replace("\n", " ") for x in assumptions))) or "n/a (file did not check)"),
            "hand-written Gallina model coq/Model/%s.v tied to the code by this run's correspondence (Go runner harness/cmd/%s over fakes; overlay removes libp2p's QUIC transport; hooks: %s)" % (pid, pid.lower(), hooks or "none"),
        ] + tb,
        "theorems": [t for t, _ in theorems_of(os.path.join(COQ, "Properties", pid + ".v"))],
        "evaluations": stats.get("evaluations", 0),
        "distinct_nontrivial": stats.get("distinct_nontrivial", 0),
        "rule": stats.get("rule", ""),
        "samples": stats.get("samples", [])[:6] or ["(no case was run)"],
        "input_distribution": stats.get("kinds", {}),
        "corpus_cases": stats.get("corpus_cases", 0),
        "model_branch_histogram": {str(k): v for k, v in sorted((res or {}).get("hist", {}).items())},
        "traces_validated_against_impl": stats.get("evaluations", 0) - len(judge_fail) - len(corr_fail) if res else 0,
        "correspondence_mismatches": len(corr_fail),
        "judge_rejections": len(judge_fail),
        "known_findings_hit": sorted(known_hit.keys()),
        "broken": broken,
        "runner_notes": notes,
        "extra_search_evaluations": searched,
        "repo": REPO,
        "coqchk": chk,
    }
    evd = {
        "property_id": pid, "tier": tier, "seed": seed, "level": "proof", "coverage": coverage,
        "assumptions": prop.get("assumptions", []),
        "wall_s": round(time.time() - t0, 2), "violations": violations,
    }
    tmp = ev_path + ".tmp%d" % os.getpid()
    with open(tmp, "w") as f:
        json.dump(evd, f, indent=1)
    os.replace(tmp, ev_path)

    for l in lines:
        print(l)
    print("%s tier=%s seed=%d theorems=%d/%d cases=%d nontrivial=%d judge_rejections=%d mismatches=%d wall=%.1fs"
          % (pid, tier, seed, n_done, n_thm, coverage["evaluations"], coverage["distinct_nontrivial"],
             len(judge_fail), len(corr_fail), time.time() - t0))
    if broken:
        print("BROKEN:\n" + "\n---\n".join(broken)[:6000])
    if a.replay and res:
        for i, r in enumerate(res["recs"]):
            code = dict(res["fails"]).get(i, 0)
            print("replay case %d: %s -> %s" % (i, json.dumps(r)[:2000], {0: "ok", 1: "model!=impl", 2: "JUDGE REJECTS"}[code]))
    sys.exit(1 if violations else 0)


if __name__ == "__main__":
    main()
