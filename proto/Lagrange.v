From mathcomp Require Import all_ssreflect all_algebra.
Set Implicit Arguments. Unset Strict Implicit. Unset Printing Implicit Defensive.
Import GRing.Theory.
Local Open Scope ring_scope.

Section Lagrange.
Variable F : fieldType.

(* basis polynomial for node i over node list S *)
Definition lbasis (S : seq F) (i : F) : {poly F} :=
  \prod_(j <- S | j != i) ((i - j)^-1 *: ('X - j%:P)).

Definition interp (S : seq F) (y : F -> F) : {poly F} :=
  \sum_(i <- S) y i *: lbasis S i.

Lemma lbasis_self S i : (lbasis S i).[i] = 1.
Proof.
rewrite /lbasis horner_prod big1_seq // => j /andP [ji _].
by rewrite hornerZ hornerXsubC mulVf // subr_eq0 eq_sym.
Qed.

Lemma lbasis_other S i k : k \in S -> k != i -> (lbasis S i).[k] = 0.
Proof.
move=> kS ki; rewrite /lbasis horner_prod.
rewrite (big_rem k) //= ki hornerZ hornerXsubC subrr mulr0 mul0r //.
Qed.

Lemma size_lbasis S i : uniq S -> i \in S -> (size (lbasis S i) <= size S)%N.
Proof.
move=> uS iS; rewrite /lbasis.
rewrite -big_filter.
set T := [seq j <- S | j != i].
have sT : (size T = (size S).-1)%N.
  rewrite /T size_filter.
  have := count_predC (pred1 i) S; rewrite count_uniq_mem // iS /= add1n => <-.
  by apply: eq_count => j; rewrite /= .
have -> : \prod_(j <- T) ((i - j)^-1 *: ('X - j%:P)) =
          (\prod_(j <- T) (i - j)^-1) *: \prod_(j <- T) ('X - j%:P).
  elim: T {sT} => [|a l IH]; first by rewrite !big_nil scale1r.
  by rewrite !big_cons IH -scalerAl -scalerAr scalerA.
apply: (leq_trans (size_scale_leq _ _)).
rewrite size_prod_XsubC sT prednK //.
by case: (S) iS.
Qed.

Lemma interp_at S y k : uniq S -> k \in S -> (interp S y).[k] = y k.
Proof.
move=> uS kS; rewrite /interp horner_sum.
rewrite (bigD1_seq k) //= hornerZ lbasis_self mulr1 big1_seq ?addr0 // => i /andP [ik iS].
by rewrite hornerZ lbasis_other ?mulr0 // eq_sym.
Qed.

Lemma size_interp S y : uniq S -> (size (interp S y) <= size S)%N.
Proof.
move=> uS; rewrite /interp big_seq.
elim/big_ind: _ => [|p q Hp Hq|i iS]; first by rewrite size_poly0.
- by apply: (leq_trans (size_add _ _)); rewrite geq_max Hp Hq.
- by apply: (leq_trans (size_scale_leq _ _)); apply: size_lbasis.
Qed.

(* any polynomial of size <= |S| equals its interpolant on S *)
Theorem interp_unique S (f : {poly F}) :
  uniq S -> (size f <= size S)%N -> interp S (fun i => f.[i]) = f.
Proof.
move=> uS sf; apply/eqP; rewrite -subr_eq0; apply/eqP.
apply: (@roots_geq_poly_eq0 _ _ S) => //.
- apply/allP => k kS; rewrite /root hornerD hornerN interp_at // subrr //.
- apply: (leq_trans (size_add _ _)); rewrite size_opp geq_max sf andbT.
  exact: size_interp.
Qed.

(* reconstruction of the secret f(0) from the shares on ANY node set S *)
Definition reconstruct (S : seq F) (y : F -> F) : F :=
  \sum_(i <- S) y i * \prod_(j <- S | j != i) ((0 - j) / (i - j)).

Lemma reconstructE S y : reconstruct S y = (interp S y).[0].
Proof.
rewrite /reconstruct /interp horner_sum; apply: eq_bigr => i _.
rewrite hornerZ /lbasis horner_prod; congr (_ * _); apply: eq_bigr => j _.
by rewrite hornerZ hornerXsubC mulrC.
Qed.

Theorem reconstruct_any_subset S (f : {poly F}) :
  uniq S -> (size f <= size S)%N -> reconstruct S (fun i => f.[i]) = f.[0].
Proof. by move=> uS sf; rewrite reconstructE interp_unique. Qed.

Corollary two_subsets_agree S T (f : {poly F}) :
  uniq S -> uniq T -> (size f <= size S)%N -> (size f <= size T)%N ->
  reconstruct S (fun i => f.[i]) = reconstruct T (fun i => f.[i]).
Proof. by move=> *; rewrite !reconstruct_any_subset. Qed.

(* refresh: adding shares of a polynomial with zero constant term keeps the secret *)
Corollary refresh_keeps_secret S (f g : {poly F}) :
  uniq S -> (size (f + g)%R <= size S)%N -> g.[0] = 0 ->
  reconstruct S (fun i => (f + g).[i]) = f.[0].
Proof. by move=> uS s g0; rewrite reconstruct_any_subset // hornerD g0 addr0. Qed.
End Lagrange.
Print Assumptions reconstruct_any_subset.
