From Coq Require Import ZArith Reals Lra Lia.
From Flocq Require Import Core Relative.
From Interval Require Import Tactic.
Open Scope R_scope.

Ltac zpow_eval := repeat match goal with |- context [Z.pow_pos ?a ?b] =>
  let v := eval vm_compute in (Z.pow_pos a b) in change (Z.pow_pos a b) with v end.
Lemma bpow_m53 : bpow radix2 (-53) = / 9007199254740992.
Proof. reflexivity. Qed.
Lemma bpow_m52 : bpow radix2 (-52) = / 4503599627370496.
Proof. reflexivity. Qed.
Lemma bpow_m1022_small : bpow radix2 (-1022) <= / 1000000000.
Proof. apply Rle_trans with (bpow radix2 (-30)). apply bpow_le; lia. unfold bpow; zpow_eval; lra. Qed.
Definition fexp := FLT_exp (-1074) 53.
Definition rnd := round radix2 fexp ZnearestE.

Lemma rel_err x : bpow radix2 (-1022) <= Rabs x ->
  exists eps, Rabs eps <= bpow radix2 (-53) /\ rnd x = x * (1 + eps).
Proof.
intros H.
destruct (relative_error_N_FLT_ex radix2 (-1074) 53 ltac:(reflexivity) (fun x => negb (Z.even x)) x) as [e [He Hr]].
- exact H.
- exists e; split; [|exact Hr].
  assert (He' : Rabs e <= /2 * bpow radix2 (-52)) by exact He.
  rewrite bpow_m52 in He'. rewrite bpow_m53. lra.
Qed.

(* the core bound: two correctly rounded operations move s by < 1/2 *)
Theorem sat_two_roundings (s : Z) : (1 <= s <= 2100000000000000)%Z ->
  Rabs (rnd (rnd (IZR s / 100000000) * 100000000) - IZR s) < /2.
Proof.
intros [Hlo Hhi].
assert (Hs1 : 1 <= IZR s) by (apply IZR_le; lia).
assert (Hs2 : IZR s <= 2100000000000000) by (apply IZR_le; lia).
set (x := IZR s / 100000000).
assert (Hx : bpow radix2 (-1022) <= Rabs x).
{ unfold x. rewrite Rabs_pos_eq.
  - apply Rle_trans with (1/100000000). 2: { apply Rmult_le_compat_r; lra. }
    generalize bpow_m1022_small; lra.
  - apply Rmult_le_pos; lra. }
destruct (rel_err x Hx) as [e1 [He1 Hv]].
fold rnd in Hv. 
set (v := rnd x) in *.
assert (Hvpos : bpow radix2 (-1022) <= Rabs (v * 100000000)).
{ rewrite Hv. unfold x. 
  assert (Hb : bpow radix2 (-53) <= /1000) by (rewrite bpow_m53; lra).
  apply Rabs_le_inv in He1.
  rewrite Rabs_pos_eq.
  - apply Rle_trans with (1 * (1 - /1000)).
    + generalize bpow_m1022_small; lra.
    + replace (IZR s / 100000000 * (1 + e1) * 100000000) with (IZR s * (1 + e1)) by field.
      apply Rmult_le_compat; lra.
  - replace (IZR s / 100000000 * (1 + e1) * 100000000) with (IZR s * (1 + e1)) by field.
    apply Rmult_le_pos; lra. }
destruct (rel_err _ Hvpos) as [e2 [He2 Hp]].
rewrite Hp, Hv. unfold x.
replace (IZR s / 100000000 * (1 + e1) * 100000000 * (1 + e2) - IZR s)
  with (IZR s * (e1 + e2 + e1 * e2)) by field.
rewrite bpow_m53 in *.
apply Rabs_le_inv in He1. apply Rabs_le_inv in He2.
interval with (i_prec 100).
Qed.
Print Assumptions sat_two_roundings.
