From Coq Require Import List NArith Lia Bool.
Import ListNotations.
Local Open Scope N_scope.

Record prop := { pid : N; plimit : option N; pexec : bool }.
Record batch := { members : list prop; gas : N }.

Definition pgas (tg : N) (p : prop) : N := match plimit p with Some l => l + tg | None => tg end.

(* repaired algorithm: decide BEFORE accounting; never roll over from an empty batch *)
Fixpoint go (cap tg : N) (ps : list prop) (done : list batch) (cur : batch) : list batch :=
  match ps with
  | [] => rev (cur :: done)
  | p :: r =>
    if pexec p then go cap tg r done cur else
    let g := pgas tg p in
    if andb (negb (match members cur with [] => true | _ => false end)) (cap <=? gas cur + g)
    then go cap tg r (cur :: done) {| members := [p]; gas := g |}
    else go cap tg r done {| members := members cur ++ [p]; gas := gas cur + g |}
  end.
Definition batches cap tg ps := go cap tg ps [] {| members := []; gas := 0 |}.

Definition sumgas tg (l : list prop) : N := fold_right (fun p a => pgas tg p + a) 0 l.
Lemma sumgas_app tg a b : sumgas tg (a ++ b) = sumgas tg a + sumgas tg b.
Proof. induction a; simpl; lia. Qed.

Definition okb cap tg (b : batch) : Prop :=
  gas b = sumgas tg (members b) /\ (cap <= gas b -> (length (members b) <= 1)%nat).

Lemma go_spec cap tg ps : forall done cur,
  Forall (okb cap tg) done -> okb cap tg cur ->
  Forall (fun b => members b <> []) done ->
  let bs := go cap tg ps done cur in
  concat (map members bs) = concat (map members (rev done)) ++ members cur ++ filter (fun p => negb (pexec p)) ps
  /\ Forall (okb cap tg) bs
  /\ Forall (fun b => members b <> []) (removelast bs).
Proof.
induction ps as [|p r IH]; intros done cur Hd Hc Hne; cbn [go filter].
- cbn zeta. cbn [rev]. rewrite map_app, concat_app. cbn [map concat]. rewrite !app_nil_r. split; [reflexivity|]. split.
  + apply Forall_app; split; [apply Forall_rev; exact Hd | constructor; [exact Hc|constructor]].
  + rewrite removelast_last. apply Forall_rev; exact Hne.
- destruct (pexec p) eqn:Hx; cbn [negb].
  + apply IH; assumption.
  + destruct (members cur) as [|m ms] eqn:Hm; cbn [negb andb].
    * (* empty current batch: always append *)
      specialize (IH done {| members := [] ++ [p]; gas := gas cur + pgas tg p |}).
      cbn zeta in IH. cbn [members] in IH. 
      destruct IH as [A [B C]]; try assumption.
      { destruct Hc as [Hg _]. rewrite Hm in Hg. cbn in Hg. split; cbn; [lia| intros; lia]. }
      cbn [app] in *. split; [rewrite A; reflexivity|]. split; assumption.
    * destruct (cap <=? gas cur + pgas tg p) eqn:Hcap.
      -- specialize (IH (cur :: done) {| members := [p]; gas := pgas tg p |}).
         cbn zeta in IH. destruct IH as [A [B C]].
         ++ constructor; assumption.
         ++ split; cbn; [lia | intros; lia].
         ++ constructor; [rewrite Hm; discriminate | assumption].
         ++ split; [|split; assumption].
            rewrite A. cbn [rev map members]. rewrite map_app, concat_app. cbn. rewrite app_nil_r, Hm.
            rewrite <- !app_assoc. reflexivity.
      -- specialize (IH done {| members := (m :: ms) ++ [p]; gas := gas cur + pgas tg p |}).
         cbn zeta in IH. destruct IH as [A [B C]]; try assumption.
         ++ destruct Hc as [Hg Hs]. split; cbn [members gas].
            ** rewrite sumgas_app, Hg, Hm. cbn. lia.
            ** apply N.leb_gt in Hcap. intros; lia.
         ++ split; [|split; assumption]. rewrite A. cbn [members]. rewrite <- !app_assoc. reflexivity.
Qed.

Lemma init_ok cap tg : okb cap tg {| members := []; gas := 0 |}.
Proof. split; cbn; [reflexivity | intros; lia]. Qed.

Theorem batches_partition cap tg ps :
  concat (map members (batches cap tg ps)) = filter (fun p => negb (pexec p)) ps.
Proof.
unfold batches.
pose proof (go_spec cap tg ps [] _ (Forall_nil _) (init_ok cap tg) (Forall_nil _)) as [A _].
exact A.
Qed.

Theorem batch_gas_is_own_sum cap tg ps b :
  In b (batches cap tg ps) ->
  gas b = sumgas tg (members b) /\ (cap <= gas b -> (length (members b) <= 1)%nat).
Proof.
unfold batches. intro H.
pose proof (go_spec cap tg ps [] _ (Forall_nil _) (init_ok cap tg) (Forall_nil _)) as [_ [B _]].
rewrite Forall_forall in B. exact (B b H).
Qed.

Theorem only_last_may_be_empty cap tg ps :
  Forall (fun b => members b <> []) (removelast (batches cap tg ps)).
Proof.
unfold batches.
pose proof (go_spec cap tg ps [] _ (Forall_nil _) (init_ok cap tg) (Forall_nil _)) as [_ [_ C]].
exact C.
Qed.
Print Assumptions batch_gas_is_own_sum.
