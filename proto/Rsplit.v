From Coq Require Import List Lia Bool.
Import ListNotations.
Section R.
Context {A : Type} (eqb : A -> A -> bool) (eqb_spec : forall a b, reflect (a = b) (eqb a b)).
Variable c : A.

Fixpoint split_first (l : list A) : option (list A * list A) :=
  match l with
  | [] => None
  | a :: r => if eqb a c then Some ([], r) else
              match split_first r with Some (x, y) => Some (a :: x, y) | None => None end
  end.

Lemma split_first_app x y : ~ In c x -> split_first (x ++ c :: y) = Some (x, y).
Proof.
induction x as [|a x IH]; intro H; cbn.
- destruct (eqb_spec c c); [reflexivity|congruence].
- destruct (eqb_spec a c) as [->|_]; [exfalso; apply H; left; reflexivity|].
  rewrite IH; [reflexivity| intro; apply H; right; assumption].
Qed.

Definition rsplit (l : list A) : option (list A * list A) :=
  match split_first (rev l) with Some (a, b) => Some (rev b, rev a) | None => None end.

Lemma rsplit_app s x : ~ In c x -> rsplit (s ++ c :: x) = Some (s, x).
Proof.
intro H. unfold rsplit. rewrite rev_app_distr. cbn [rev]. rewrite <- app_assoc. cbn [app].
rewrite split_first_app; [rewrite !rev_involutive; reflexivity|].
intro Hin. apply H. apply in_rev. exact Hin.
Qed.

Definition unwrap (id : list A) : option (list A * list A * list A) :=
  match rsplit id with
  | Some (rest, u) => match rsplit rest with Some (s, t) => Some (s, t, u) | None => None end
  | None => None end.

Theorem unwrap_sub_id s t u : ~ In c t -> ~ In c u ->
  unwrap (s ++ c :: t ++ c :: u) = Some (s, t, u).
Proof.
intros Ht Hu. unfold unwrap.
replace (s ++ c :: t ++ c :: u) with ((s ++ c :: t) ++ c :: u) by (rewrite <- app_assoc; reflexivity).
rewrite rsplit_app by exact Hu. rewrite rsplit_app by exact Ht. reflexivity.
Qed.
End R.
Print Assumptions unwrap_sub_id.
