package main

import (
	"fmt"
	"go/ast"
	"go/parser"
	"go/printer"
	"go/token"
	"os"
	"strings"
)

func exprStr(fset *token.FileSet, e ast.Expr) string {
	var sb strings.Builder
	printer.Fprint(&sb, fset, e)
	return sb.String()
}

func main() {
	fset := token.NewFileSet()
	f, err := parser.ParseFile(fset, os.Args[1], nil, 0)
	if err != nil {
		panic(err)
	}
	ast.Inspect(f, func(n ast.Node) bool {
		sw, ok := n.(*ast.SwitchStmt)
		if !ok || sw.Tag == nil || exprStr(fset, sw.Tag) != `chainConfig["type"]` {
			return true
		}
		for _, c := range sw.Body.List {
			cc := c.(*ast.CaseClause)
			if len(cc.List) == 0 {
				continue
			}
			kind := exprStr(fset, cc.List[0])
			readsStore, aligns, headIfNil, passes := false, false, false, false
			var ctor string
			ast.Inspect(cc, func(m ast.Node) bool {
				switch x := m.(type) {
				case *ast.CallExpr:
					fn := exprStr(fset, x.Fun)
					switch {
					case strings.HasSuffix(fn, ".GetStartBlock"):
						readsStore = true
					case fn == "chains.CalculateStartingBlock":
						if len(x.Args) == 2 && exprStr(fset, x.Args[0]) == "startBlock" && strings.HasSuffix(exprStr(fset, x.Args[1]), ".BlockInterval") {
							aligns = true
						}
					case strings.HasSuffix(fn, "Chain") && strings.Contains(fn, "New"):
						ctor = fn
						if len(x.Args) > 0 && exprStr(fset, x.Args[len(x.Args)-1]) == "startBlock" {
							passes = true
						}
					}
				case *ast.IfStmt:
					if exprStr(fset, x.Cond) == "startBlock == nil" {
						headIfNil = true
					}
				}
				return true
			})
			fmt.Printf("Definition wiring_%s := {| reads_store := %v; head_if_nil := %v; aligns_to_interval := %v; passes_start_to_chain := %v |}. (* ctor %s *)\n",
				strings.Trim(kind, `"`), readsStore, headIfNil, aligns, passes, ctor)
		}
		return false
	})
}
