module wiring
go 1.21
