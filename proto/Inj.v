From Coq Require Import List Lia Bool Arith.
Import ListNotations.
Section Inj.
Variable B : Type.                      (* byte *)
Variable B_eq_dec : forall a b : B, {a = b} + {a <> b}.
Variable H : list B -> list B.
Hypothesis H_len : forall x, length (H x) = 32.

Definition Coll := exists x y, x <> y /\ H x = H y.
Lemma H_inj_or x y : H x = H y -> x = y \/ Coll.
Proof. intro E. destruct (list_eq_dec B_eq_dec x y); [left; assumption | right; exists x, y; split; assumption]. Qed.

Lemma app_inj_len (a a' b b' : list B) : length a = length a' -> a ++ b = a' ++ b' -> a = a' /\ b = b'.
Proof.
revert a'; induction a as [|x a IH]; intros [|x' a'] L E; cbn in *; try discriminate.
- split; [reflexivity|assumption].
- injection E as -> E. injection L as L. destruct (IH a' L E) as [-> ->]. split; reflexivity.
Qed.

(* concatenation of 32-byte chunks determines the chunks *)
Lemma concat32_inj (l l' : list (list B)) :
  Forall (fun c => length c = 32) l -> Forall (fun c => length c = 32) l' ->
  concat l = concat l' -> l = l'.
Proof.
revert l'; induction l as [|c l IH]; intros [|c' l'] F F' E; cbn in *.
- reflexivity.
- inversion F' as [|? ? Hc' _]; subst. destruct c'; [discriminate Hc'|discriminate E].
- inversion F as [|? ? Hc _]; subst. destruct c; [discriminate Hc|discriminate E].
- inversion F as [|? ? Hc Fl]; inversion F' as [|? ? Hc' Fl']; subst.
  destruct (app_inj_len c c' (concat l) (concat l')) as [-> E']; [congruence|assumption|].
  rewrite (IH l' Fl Fl' E'). reflexivity.
Qed.

(* a proposal: fixed-width header fields (already encoded to 32 bytes each) + data *)
Record prop := { origin32 : list B; nonce32 : list B; rid32 : list B; data : list B }.
Definition wfp p := length (origin32 p) = 32 /\ length (nonce32 p) = 32 /\ length (rid32 p) = 32.
Variable th : list B. Hypothesis th_len : length th = 32.
Definition hash_prop p := H (th ++ origin32 p ++ nonce32 p ++ rid32 p ++ H (data p)).

Lemma hash_prop_inj p q : wfp p -> wfp q -> hash_prop p = hash_prop q -> p = q \/ Coll.
Proof.
intros (a & b & c) (a' & b' & c') E. apply H_inj_or in E as [E|]; [|right; assumption].
apply app_inj_len in E as [_ E]; [|reflexivity].
apply app_inj_len in E as [E1 E]; [|congruence].
apply app_inj_len in E as [E2 E]; [|congruence].
apply app_inj_len in E as [E3 E]; [|congruence].
apply H_inj_or in E as [E|]; [|right; assumption].
left. destruct p, q; cbn in *; congruence.
Qed.

Variable ths : list B.
Definition hash_props ps := H (ths ++ H (concat (map hash_prop ps))).

Theorem hash_props_inj ps qs : Forall wfp ps -> Forall wfp qs ->
  hash_props ps = hash_props qs -> ps = qs \/ Coll.
Proof.
intros Fp Fq E. apply H_inj_or in E as [E|]; [|right; assumption].
apply app_inv_head in E. apply H_inj_or in E as [E|]; [|right; assumption].
apply concat32_inj in E; try (apply Forall_forall; intros x Hx; apply in_map_iff in Hx as (? & <- & _); apply H_len).
revert qs Fq E; induction Fp as [|p ps Hp Fp IH]; intros [|q qs] Fq E; cbn in E; try discriminate.
- left; reflexivity.
- inversion Fq as [|? ? Hq Fq']; subst. injection E as E1 E2.
  destruct (hash_prop_inj p q Hp Hq E1) as [->|]; [|right; assumption].
  destruct (IH qs Fq' E2) as [->|]; [left; reflexivity|right; assumption].
Qed.
End Inj.
Print Assumptions hash_props_inj.
