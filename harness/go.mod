module verifharness

go 1.21
