// C14 correspondence runner: drives the REAL EVM executor
//   - proposalBatches (through the add-only hook VerifProposalBatches) and executeBatch (hook
//     VerifExecuteBatch, recording bridge: what ExecuteProposals receives, incl. TransactOptions.GasLimit)
//   - Executor.Execute with the real tss.Coordinator over a fake host and a recording
//     comm.Communication: the session id under which every batch is signed.
package main

import (
	"fmt"
	"math/big"
	"sort"
	"runtime"
	"sync"
	"time"

	"github.com/ChainSafe/sygma-relayer/comm"
	"github.com/ChainSafe/sygma-relayer/comm/elector"
	evmexec "github.com/ChainSafe/sygma-relayer/chains/evm/executor"
	"github.com/ChainSafe/sygma-relayer/config/relayer"
	"github.com/ChainSafe/sygma-relayer/relayer/transfer"
	"github.com/ChainSafe/sygma-relayer/tss"
	tsscommon "github.com/binance-chain/tss-lib/common"
	"github.com/libp2p/go-libp2p/core/peer"
	"github.com/rs/zerolog"
	"github.com/sygmaprotocol/sygma-core/relayer/proposal"

	fk "verifharness/execfakes"
	"verifharness/vgen"
)

type Prop struct {
	HasLimit bool   `json:"has_limit,omitempty"`
	Limit    uint64 `json:"limit,omitempty"`
	Executed bool   `json:"executed,omitempty"`
}

type Case struct {
	Mode  string `json:"mode"` // batches | session | hashes
	Mid   string `json:"mid,omitempty"`
	Cap   uint64 `json:"cap"`
	Tg    uint64 `json:"tg"`
	Props []Prop `json:"props"`
	// Sched (session mode): "p1" runs Execute under GOMAXPROCS(1), i.e. the schedule in which the
	// dispatch loop finishes before any batch goroutine starts (the model is schedule-independent)
	Sched string `json:"sched,omitempty"`
	// Fail (modes batches / hashes): per position how many times the executed-status lookup of that
	// proposal fails before the chain answers (absent = no lookup is scripted to fail)
	Fail []int `json:"fail,omitempty"`
	// Dels (mode history): the deliveries made, in order, on ONE Executor object (history.go); Props is unused
	Dels []Delivery `json:"dels,omitempty"`
}

type BatchObs struct {
	Members []uint64 `json:"members"`
	Gas     uint64   `json:"gas"`
}
type SessObs struct {
	Members []uint64 `json:"members"`
	Sids    []string `json:"sids"`
}
type Obs struct {
	Batches  []BatchObs `json:"batches"`
	Sessions []SessObs  `json:"sessions,omitempty"`
	Hashed   [][]uint64 `json:"hashed,omitempty"`
	// BatErr: proposalBatches returned an error; ExecErr: Execute did (hashes mode)
	BatErr  bool   `json:"bat_err,omitempty"`
	ExecErr bool   `json:"exec_err,omitempty"`
	Note    string `json:"note,omitempty"`
	// mode history: one observation per delivery
	Dels []DelObs `json:"dels,omitempty"`
}

// failBridge makes the executed-status lookup of chosen proposals fail the first k times it is asked
// (per proposal, keyed by deposit nonce = position); everything else is the wrapped bridge.
type failBridge struct {
	evmexec.BridgeContract
	mu   sync.Mutex
	left map[uint64]int
}

func withFailures(b evmexec.BridgeContract, fail []int) evmexec.BridgeContract {
	if len(fail) == 0 {
		return b
	}
	fb := &failBridge{BridgeContract: b, left: map[uint64]int{}}
	for i, k := range fail {
		fb.left[uint64(i)] = k
	}
	return fb
}

func (b *failBridge) IsProposalExecuted(p *transfer.TransferProposal) (bool, error) {
	b.mu.Lock()
	if b.left[p.Data.DepositNonce] > 0 {
		b.left[p.Data.DepositNonce]--
		b.mu.Unlock()
		return false, fk.ErrLookup
	}
	b.mu.Unlock()
	return b.BridgeContract.IsProposalExecuted(p)
}

// hashRecBridge records what Execute hands to ProposalsHash and fails at once, so that a batch
// goroutine never blocks: under GOMAXPROCS(1) the pool's worker goroutines are then re-used while
// the dispatch loop runs ahead - the schedule in which a batch goroutine that reads shared loop
// state sees a later batch.
type hashRecBridge struct {
	fk.EvmBridge
	mu     sync.Mutex
	hashed [][]uint64
}

func (b *hashRecBridge) ProposalsHash(ps []*transfer.TransferProposal) ([]byte, error) {
	b.mu.Lock()
	b.hashed = append(b.hashed, nonces(fk.KeysOf(ps)))
	b.mu.Unlock()
	return nil, fk.ErrHash
}

const source = uint8(1)

func proposals(c Case) ([]*proposal.Proposal, *fk.Chain) {
	chain := fk.NewChain()
	ps := make([]*proposal.Proposal, len(c.Props))
	for i, p := range c.Props {
		md := map[string]interface{}{}
		if p.HasLimit {
			md["gasLimit"] = p.Limit
		}
		ps[i] = proposal.NewProposal(source, 2, transfer.TransferProposalData{
			DepositNonce: uint64(i), ResourceId: [32]byte{1}, Metadata: md, Data: []byte{byte(i)},
		}, c.Mid, transfer.TransferProposalType)
		if p.Executed {
			chain.Executed[fk.Key{Source: source, Nonce: uint64(i)}] = true
		}
	}
	return ps, chain
}

func nonces(ks []fk.Key) []uint64 {
	out := make([]uint64, len(ks))
	for i, k := range ks {
		out[i] = k.Nonce
	}
	return out
}

// gate serialises the per-batch goroutines of Executor.Execute: every goroutine first calls
// bridge.ProposalsHash; there it waits until all expected goroutines have arrived (so the spawning
// loop of Execute is over) and then for its turn.  A turn ends when the coordinator has released
// the session (Signing.Stop -> UnSubscribe of the never-assigned, empty subscription id).
type gate struct {
	mu       sync.Mutex
	expected int
	arrived  int
	allIn    chan struct{}
	turn     chan struct{}
	cur      *SessObs
	done     []SessObs
	note     string
	timer    *time.Timer
}

func newGate(expected int) *gate {
	g := &gate{expected: expected, allIn: make(chan struct{}), turn: make(chan struct{}, 1)}
	g.turn <- struct{}{}
	if expected == 0 {
		close(g.allIn)
	}
	return g
}

func (g *gate) onHash(ks []fk.Key) {
	g.mu.Lock()
	g.arrived++
	if g.arrived == g.expected {
		close(g.allIn)
	}
	g.mu.Unlock()
	select {
	case <-g.allIn:
	case <-time.After(5 * time.Second):
		// a non-empty batch got no goroutine (or no hash): go on with those that came - the sessions observed
		// are then fewer than the judge demands
		g.mu.Lock()
		g.note += "not all batch goroutines reached ProposalsHash; "
		g.mu.Unlock()
	}
	select {
	case <-g.turn:
	case <-time.After(60 * time.Second):
		panic("C14 runner: a batch's signing session did not end")
	}
	g.mu.Lock()
	g.cur = &SessObs{Members: nonces(ks)}
	g.mu.Unlock()
}

func (g *gate) onSession(method, sid string) {
	// Only CloseSession counts: the coordinator calls it exactly once per Execute, synchronously, with
	// the session id of the process; Subscribe calls of the detached watcher that handleError leaves
	// behind may arrive after the turn is over.
	if method != "CloseSession" {
		return
	}
	g.mu.Lock()
	defer g.mu.Unlock()
	if g.cur == nil {
		g.note += "CloseSession outside a turn: " + sid + "; "
		return
	}
	g.cur.Sids = append(g.cur.Sids, sid)
	if g.timer == nil {
		// fallback should Stop() ever stop unsubscribing: end the turn a little after CloseSession
		cur := g.cur
		g.timer = time.AfterFunc(200*time.Millisecond, func() { g.endTurn(cur) })
	}
}

func (g *gate) endTurn(of *SessObs) {
	g.mu.Lock()
	if g.cur == nil || (of != nil && g.cur != of) {
		g.mu.Unlock()
		return
	}
	if g.timer != nil {
		g.timer.Stop()
		g.timer = nil
	}
	g.done = append(g.done, *g.cur)
	g.cur = nil
	g.mu.Unlock()
	g.turn <- struct{}{}
}

func (g *gate) onUnsubscribe(id comm.SubscriptionID) {
	if id == "" {
		g.endTurn(nil)
	}
}

func run(c Case) Obs {
	if c.Mode == "history" {
		return runHistory(c)
	}
	if c.Mode == "session" {
		c.Fail = nil // failing lookups are driven in the batches / hashes modes only
	}
	ps, chain := proposals(c)
	host := fk.NewHost()
	cm := &fk.Comm{}
	fetcher := &fk.Fetcher{Peers: []peer.ID{host.ID()}}
	coord := tss.NewCoordinator(host, cm, elector.NewCoordinatorElectorFactory(host, relayer.BullyConfig{}))
	coord.TssTimeout = time.Millisecond
	coord.CoordinatorTimeout = time.Millisecond
	coord.InitiatePeriod = time.Hour
	ex := evmexec.NewExecutor(host, cm, coord, withFailures(fk.EvmBridge{Chain: chain}, c.Fail), fetcher, &sync.RWMutex{}, c.Cap, c.Tg)

	var o Obs
	batches, err := ex.VerifProposalBatches(ps)
	if err != nil {
		// reported, nothing produced (the judge accepts this only when a lookup was scripted to fail)
		o.BatErr = true
		batches = nil
	}
	signed := 0
	sig := &tsscommon.SignatureData{R: []byte{1}, S: []byte{2}, SignatureRecovery: []byte{0}}
	for _, b := range batches {
		members, gas := evmexec.VerifBatchView(b)
		bo := BatchObs{Members: nonces(fk.KeysOf(members)), Gas: gas}
		if len(members) > 0 {
			signed++
			// what the bridge contract call receives for this batch
			n := len(chain.ExecCalls)
			if _, err := ex.VerifExecuteBatch(b, sig); err != nil || len(chain.ExecCalls) != n+1 {
				panic(fmt.Sprint("C14 runner: executeBatch did not call ExecuteProposals once: ", err))
			}
			call := chain.ExecCalls[n]
			if len(call.Sig) != 65 || call.Sig[64] != 27 {
				o.Note += "unexpected signature layout; "
			}
			bo = BatchObs{Members: nonces(call.Props), Gas: call.GasLimit}
		}
		o.Batches = append(o.Batches, bo)
	}
	if c.Mode == "hashes" {
		rb := &hashRecBridge{EvmBridge: fk.EvmBridge{Chain: chain}}
		ex2 := evmexec.NewExecutor(host, cm, coord, withFailures(rb, c.Fail), fetcher, &sync.RWMutex{}, c.Cap, c.Tg)
		old := runtime.GOMAXPROCS(1)
		done := make(chan error, 1)
		go func() { done <- ex2.Execute(ps) }()
		select {
		case e := <-done:
			o.ExecErr = e != nil
		case <-time.After(120 * time.Second):
			panic("C14 runner: Executor.Execute did not return")
		}
		runtime.GOMAXPROCS(old)
		rb.mu.Lock()
		o.Hashed = append([][]uint64{}, rb.hashed...)
		rb.mu.Unlock()
		// canonical order: by first member, then length (batches are consecutive runs of nonces)
		sort.SliceStable(o.Hashed, func(i, j int) bool {
			a, b := o.Hashed[i], o.Hashed[j]
			if len(a) == 0 || len(b) == 0 {
				return len(a) < len(b)
			}
			if a[0] != b[0] {
				return a[0] < b[0]
			}
			return len(a) < len(b)
		})
		return o
	}
	if c.Mode != "session" {
		return o
	}

	if c.Sched == "p1" {
		old := runtime.GOMAXPROCS(1)
		defer runtime.GOMAXPROCS(old)
	}
	g := newGate(signed)
	chain.OnHash = g.onHash
	cm.OnSession = g.onSession
	cm.OnUnsubscribe = g.onUnsubscribe
	done := make(chan error, 1)
	go func() { done <- ex.Execute(ps) }()
	select {
	case <-done:
	case <-time.After(120 * time.Second):
		panic("C14 runner: Executor.Execute did not return")
	}
	g.mu.Lock()
	defer g.mu.Unlock()
	if g.cur != nil {
		g.done = append(g.done, *g.cur)
	}
	o.Sessions = g.done
	o.Note += g.note
	for i := range o.Sessions {
		sort.Strings(o.Sessions[i].Sids)
	}
	// canonical order: by first member (batches are never empty here), then by session id
	sort.SliceStable(o.Sessions, func(i, j int) bool {
		a, b := o.Sessions[i], o.Sessions[j]
		if len(a.Members) == 0 || len(b.Members) == 0 {
			return len(a.Members) < len(b.Members)
		}
		return a.Members[0] < b.Members[0]
	})
	return o
}

// ---- generation ----------------------------------------------------------------------------------

func limitAround(r *vgen.Rng, cap, tg uint64) Prop {
	switch r.Intn(10) {
	case 0, 1, 2:
		return Prop{}
	case 3:
		return Prop{HasLimit: true, Limit: 0}
	case 4, 5:
		return Prop{HasLimit: true, Limit: uint64(r.Intn(50))}
	case 6:
		// allowance lands on cap-1, cap, cap+1 where possible
		d := uint64(r.Intn(3))
		if cap+d >= tg+1 {
			return Prop{HasLimit: true, Limit: cap + d - tg - 1}
		}
		return Prop{HasLimit: true, Limit: d}
	case 7:
		if cap > 0 {
			return Prop{HasLimit: true, Limit: r.U64() % cap}
		}
		return Prop{HasLimit: true, Limit: 1}
	case 8:
		return Prop{HasLimit: true, Limit: cap + uint64(r.Intn(1000))}
	default:
		return Prop{HasLimit: true, Limit: uint64(r.Intn(400))}
	}
}

func gen(r *vgen.Rng, tier string) []Case {
	var out []Case
	// 1. every executed mask for n <= 6 over a small fixed gas pattern (two caps)
	for n := 0; n <= 6; n++ {
		for mask := 0; mask < 1<<n; mask++ {
			for _, cap := range []uint64{250, 1000} {
				ps := make([]Prop, n)
				for i := range ps {
					ps[i].Executed = mask&(1<<i) != 0
					if i%3 == 2 {
						ps[i].HasLimit, ps[i].Limit = true, uint64(40*i)
					}
				}
				out = append(out, Case{Mode: "batches", Mid: "m", Cap: cap, Tg: 100, Props: ps})
			}
		}
	}
	// 2. boundary grid around the roll-over threshold: k equal proposals whose sum is cap-1, cap, cap+1
	for _, tg := range []uint64{0, 1, 7, 100, 21000} {
		for k := uint64(1); k <= 4; k++ {
			for d := int64(-2); d <= 2; d++ {
				cap := int64(k*tg) + d
				if cap < 0 {
					continue
				}
				ps := make([]Prop, int(k)+2)
				out = append(out, Case{Mode: "batches", Mid: "m", Cap: uint64(cap), Tg: tg, Props: ps})
			}
		}
	}
	nrand, nsess, nover := 900, 120, 60
	if tier == "thorough" {
		nrand, nsess, nover = 20000, 1500, 1500
	}
	// 3. random lists, limits and caps around each other
	for i := 0; i < nrand; i++ {
		tg := vgen.Pick(r, []uint64{0, 1, 50, 100, 21000, 100000})
		cap := vgen.Pick(r, []uint64{0, 1, tg, tg + 1, 2*tg + 1, 3 * tg, 250, 1000, 500000, 30000000})
		if r.Chance(1, 4) {
			cap = uint64(r.Intn(2000))
		}
		n := r.Intn(13)
		ps := make([]Prop, n)
		for j := range ps {
			ps[j] = limitAround(r, cap, tg)
			ps[j].Executed = r.Chance(1, 4)
		}
		out = append(out, Case{Mode: "batches", Mid: "m", Cap: cap, Tg: tg, Props: ps})
	}
	// 4. uint64 wrap-around (outside the theorems' hypothesis; model = implementation is still checked)
	for i := 0; i < nover; i++ {
		tg := vgen.Pick(r, []uint64{1, 100, 21000})
		cap := vgen.Pick(r, []uint64{1000, 30000000, 1 << 63, ^uint64(0)})
		n := r.Range(1, 6)
		ps := make([]Prop, n)
		for j := range ps {
			switch r.Intn(4) {
			case 0:
				ps[j] = Prop{HasLimit: true, Limit: ^uint64(0) - uint64(r.Intn(3))}
			case 1:
				ps[j] = Prop{HasLimit: true, Limit: 1<<63 + uint64(r.Intn(3))}
			case 2:
				ps[j] = Prop{HasLimit: true, Limit: ^uint64(0) - tg + uint64(r.Intn(3))}
			default:
				ps[j] = limitAround(r, 1000, tg)
			}
		}
		out = append(out, Case{Mode: "batches", Mid: "m", Cap: cap, Tg: tg, Props: ps})
	}
	// 5. sessions: the real Execute, 0..4 batches
	mids := []string{"m", "1-2-100-105", "0x5d3f-7", "msg id"}
	for i := 0; i < nsess; i++ {
		tg := uint64(100)
		cap := vgen.Pick(r, []uint64{90, 150, 250, 350, 1000})
		n := r.Intn(8)
		ps := make([]Prop, n)
		for j := range ps {
			if r.Chance(1, 4) {
				ps[j] = Prop{HasLimit: true, Limit: uint64(r.Intn(300))}
			}
			ps[j].Executed = r.Chance(1, 5)
		}
		sc := Case{Mode: "session", Mid: vgen.Pick(r, mids), Cap: cap, Tg: tg, Props: ps}
		if r.Bool() {
			sc.Sched = "p1"
		}
		out = append(out, sc)
		out = append(out, Case{Mode: "hashes", Mid: sc.Mid, Cap: cap, Tg: tg, Props: ps})
	}
	// 6. executed-status lookups that fail: at every position of a delivery, 1 or 2 times (the lookup
	// of a pending or of an executed proposal), through proposalBatches and through the real Execute
	for n := 1; n <= 5; n++ {
		for pos := 0; pos < n; pos++ {
			for k := 1; k <= 2; k++ {
				// executed: none | the proposal whose lookup fails | its successor
				for variant := 0; variant < 3; variant++ {
					ps := make([]Prop, n)
					for j := range ps {
						if j%3 == 2 {
							ps[j].HasLimit, ps[j].Limit = true, uint64(40*j)
						}
					}
					switch variant {
					case 1:
						ps[pos].Executed = true
					case 2:
						ps[(pos+1)%n].Executed = true
					}
					fail := make([]int, n)
					fail[pos] = k
					cap := []uint64{250, 1000}[(pos+k+variant)%2]
					for _, mode := range []string{"batches", "hashes"} {
						out = append(out, Case{Mode: mode, Mid: "m", Cap: cap, Tg: 100, Props: ps, Fail: fail})
					}
				}
			}
		}
	}
	nfail := 90
	if tier == "thorough" {
		nfail = 2500
	}
	for i := 0; i < nfail; i++ {
		tg := uint64(100)
		cap := vgen.Pick(r, []uint64{90, 150, 250, 350, 1000})
		n := r.Range(1, 8)
		ps := make([]Prop, n)
		fail := make([]int, n)
		for j := range ps {
			if r.Chance(1, 4) {
				ps[j] = Prop{HasLimit: true, Limit: uint64(r.Intn(300))}
			}
			ps[j].Executed = r.Chance(1, 5)
		}
		// 0 (scripted, none fails), 1 or 2 failing positions
		for f := r.Intn(3); f > 0; f-- {
			fail[r.Intn(n)] = r.Range(1, 2)
		}
		mode := "batches"
		if r.Bool() {
			mode = "hashes"
		}
		out = append(out, Case{Mode: mode, Mid: vgen.Pick(r, mids), Cap: cap, Tg: tg, Props: ps, Fail: fail})
	}
	// 7. deliveries that are not in ascending nonce order / come from several source domains, and histories of
	// 2..6 such deliveries on ONE Executor object (history.go).  Their own stream: the cases above stay what they were
	out = append(out, genHistories(vgen.NewRng(r.U64()), tier)...)
	// 8. degenerate gas configurations (transfer gas cost 0 / 1, limits absent / 0 / 1, caps 0..3) through every
	// Execute-level mode (degenerate.go).  Own stream again
	out = append(out, genDegenerate(vgen.NewRng(r.U64()), tier)...)
	return out
}

// ---- Coq printing ----------------------------------------------------------------------------------

func n64(x uint64) string { return vgen.NBig(new(big.Int).SetUint64(x)) }

func coqProps(ps []Prop) string {
	items := make([]string, len(ps))
	for i, p := range ps {
		lim := "None"
		if p.HasLimit {
			lim = vgen.Some(n64(p.Limit))
		}
		items[i] = "mkprop " + vgen.N(uint64(i)) + " " + lim + " " + vgen.Bool(p.Executed)
	}
	return vgen.List(items)
}

func coqBatches(bs []BatchObs) string {
	return vgen.ListOf(bs, func(b BatchObs) string { return vgen.Pair(vgen.ListOf(b.Members, vgen.N), n64(b.Gas)) })
}

func coq(c Case, o Obs) string {
	if c.Mode == "history" {
		return coqHistory(c, o)
	}
	hashed := func() string {
		return vgen.ListOf(o.Hashed, func(m []uint64) string { return vgen.ListOf(m, vgen.N) })
	}
	if len(c.Fail) > 0 && c.Mode != "session" {
		fl := make([]uint64, len(c.Props))
		for i := range fl {
			if i < len(c.Fail) && c.Fail[i] > 0 {
				fl[i] = uint64(c.Fail[i])
			}
		}
		res := "None"
		if !o.BatErr {
			res = vgen.Some(coqBatches(o.Batches))
		}
		head := n64(c.Cap) + " " + n64(c.Tg) + " " + coqProps(c.Props) + " " + vgen.ListOf(fl, vgen.N) + " " + res
		if c.Mode == "hashes" {
			return "HshF " + head + " " + vgen.Bool(o.ExecErr) + " " + hashed()
		}
		return "BatF " + head
	}
	if o.BatErr {
		// an error although no lookup was scripted to fail: judged as "nothing produced"
		return "BatF " + n64(c.Cap) + " " + n64(c.Tg) + " " + coqProps(c.Props) + " [] None"
	}
	head := n64(c.Cap) + " " + n64(c.Tg) + " " + coqProps(c.Props) + " " + coqBatches(o.Batches)
	if c.Mode == "hashes" {
		return "Hsh " + head + " " + vgen.ListOf(o.Hashed, func(m []uint64) string { return vgen.ListOf(m, vgen.N) })
	}
	if c.Mode != "session" {
		return "Bat " + head
	}
	sess := vgen.ListOf(o.Sessions, func(s SessObs) string {
		return vgen.Pair(vgen.ListOf(s.Members, vgen.N), vgen.ListOf(s.Sids, vgen.Str))
	})
	return "Ses " + vgen.Str(c.Mid) + " " + head + " " + sess
}

func pending(c Case) int {
	n := 0
	for _, d := range c.Dels {
		for _, p := range d.Props {
			if !p.Executed {
				n++
			}
		}
	}
	for _, p := range c.Props {
		if !p.Executed {
			n++
		}
	}
	return n
}

func main() {
	zerolog.SetGlobalLevel(zerolog.Disabled)
	vgen.Main(vgen.Spec[Case, Obs]{
		Property:  "C14",
		RunModule: "C14",
		Gen:       gen,
		Run:       run,
		Coq:       coq,
		Kind: func(c Case) string {
			if c.Mode == "session" {
				return "session"
			}
			if c.Mode == "history" {
				if len(c.Dels) == 1 {
					return "order"
				}
				return "history"
			}
			if len(c.Fail) > 0 {
				return "lookup-fails"
			}
			return "batches"
		},
		NonTrivial: func(c Case, o Obs) bool { return pending(c) >= 2 },
		Rule: "every executed mask for n<=6, a boundary grid (k equal allowances summing to cap-2..cap+2), random lists of 0..12 proposals with limits absent/0/small/around cap/huge and caps around the transfer gas, uint64 wrap-around lists, deliveries driven through the real Executor.Execute + tss.Coordinator for the session ids, and deliveries with executed-status lookups scripted to fail (every position of 1..5 proposals, 1 or 2 times, plus random ones) through proposalBatches and Execute; distinct = distinct input JSON; non-trivial = at least two proposals still need execution",
		ShardSize: 400,
	})
}
