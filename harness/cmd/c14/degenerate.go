// Degenerate gas configurations at the Execute level (round 6).
//
// The quantifier covers ALL transfer gas costs, caps and per-proposal limits.  With transfer gas cost 0 (or 1),
// per-proposal limits absent / 0 / 1 and a cap of 0 / 1 / 2 / 3 (or a normal one) the batches have shapes that no
// "ordinary" configuration produces: a NON-EMPTY batch whose gas limit is 0, batches whose gas limit equals that
// of an empty batch, every proposal alone in a batch after an empty first batch (cap 0), batches of gas 1 at cap
// 1.  Which batches get a signing session must not depend on any of that: every non-empty batch is hashed and
// signed under <message id>-<position>, the empty first one is not.  The same deliveries are driven through
// every Execute-level mode (session: real Coordinator, session ids; hashes: what is handed to ProposalsHash;
// history: one long-lived Executor, several deliveries) and through proposalBatches + executeBatch alone.
package main

import (
	"verifharness/vgen"
)

// degProps: limit pattern lp over n proposals: 0 none has a limit | 1 all have limit 0 | 2 none/0 alternate |
// 3 the LAST has limit 1 | 4 the FIRST has limit 1 | 5 every second has limit 1, the others none
func degProps(n, lp int) []Prop {
	ps := make([]Prop, n)
	for i := range ps {
		switch lp {
		case 1:
			ps[i] = Prop{HasLimit: true}
		case 2:
			ps[i] = Prop{HasLimit: i%2 == 1}
		case 3:
			if i == n-1 {
				ps[i] = Prop{HasLimit: true, Limit: 1}
			}
		case 4:
			if i == 0 {
				ps[i] = Prop{HasLimit: true, Limit: 1}
			}
		case 5:
			if i%2 == 1 {
				ps[i] = Prop{HasLimit: true, Limit: 1}
			}
		}
	}
	return ps
}

func degKeys(n int, base uint64) []KeyIn {
	ks := make([]KeyIn, n)
	for i := range ks {
		ks[i] = KeyIn{1, base + uint64(i)}
	}
	return ks
}

// degHistory: the delivery, then the same delivery again with its first half executed meanwhile, then a fresh one
// with the other gas pattern - all on one Executor
func degHistory(mid string, cap, tg uint64, ps []Prop, alt []Prop) Case {
	n := len(ps)
	cp := func(x []Prop) []Prop { return append([]Prop{}, x...) }
	d1 := Delivery{Mid: mid, Keys: degKeys(n, 10), Props: cp(ps)}
	p2 := cp(ps)
	for i := 0; i < n/2; i++ {
		p2[i].Executed = true
	}
	d2 := Delivery{Mid: mid, Keys: degKeys(n, 10), Props: p2}
	d3 := Delivery{Mid: mid + "x", Keys: degKeys(len(alt), 40), Props: cp(alt)}
	return Case{Mode: "history", Cap: cap, Tg: tg, Dels: []Delivery{d1, d2, d3}}
}

func genDegenerate(r *vgen.Rng, tier string) []Case {
	var out []Case
	mids := []string{"1-2-100-105", "m", "0x5d3f-7"}
	add := func(mid string, cap, tg uint64, ps []Prop, alt []Prop, modes int) {
		if modes&1 != 0 {
			sc := Case{Mode: "session", Mid: mid, Cap: cap, Tg: tg, Props: ps}
			if (len(ps)+int(cap))%2 == 1 {
				sc.Sched = "p1"
			}
			out = append(out, sc)
		}
		if modes&2 != 0 {
			out = append(out, Case{Mode: "hashes", Mid: mid, Cap: cap, Tg: tg, Props: ps})
		}
		if modes&4 != 0 {
			out = append(out, degHistory(mid, cap, tg, ps, alt))
		}
		if modes&8 != 0 {
			out = append(out, Case{Mode: "batches", Mid: mid, Cap: cap, Tg: tg, Props: ps})
		}
	}
	// grid: transfer gas 0 / 1, tiny and ordinary caps, 1..4 proposals, every limit pattern, three executed masks
	i := 0
	for _, tg := range []uint64{0, 1} {
		for _, cap := range []uint64{0, 1, 2, 3, 1000} {
			for n := 1; n <= 4; n++ {
				for lp := 0; lp <= 5; lp++ {
					if n == 1 && (lp == 2 || lp == 4 || lp == 5) {
						continue
					}
					for ex := 0; ex < 3; ex++ {
						if n == 1 && ex > 0 {
							continue
						}
						ps := degProps(n, lp)
						switch ex {
						case 1:
							ps[0].Executed = true
						case 2:
							ps[n-1].Executed = true
						}
						i++
						// every case through the hashes mode; sessions / histories / plain batches in turn
						modes := 2
						switch i % 3 {
						case 0:
							modes |= 1
						case 1:
							modes |= 4
						default:
							modes |= 8
						}
						if tier == "thorough" {
							modes = 15
						}
						add(mids[i%len(mids)], cap, tg, ps, degProps(1+i%3, (lp+1)%6), modes)
					}
				}
			}
		}
	}
	// random: transfer gas 0 (mostly) / 1 / 2, caps 0..5 / ordinary / huge, limits absent (mostly) / 0 / 1 / 2 / at the cap
	n := 150
	if tier == "thorough" {
		n = 4000
	}
	lim := func(cap uint64) Prop {
		switch r.Intn(10) {
		case 0:
			return Prop{HasLimit: true}
		case 1:
			return Prop{HasLimit: true, Limit: uint64(r.Range(1, 2))}
		case 2:
			if cap > 0 {
				return Prop{HasLimit: true, Limit: cap - uint64(r.Intn(2))}
			}
			return Prop{HasLimit: true}
		default:
			return Prop{}
		}
	}
	for j := 0; j < n; j++ {
		tg := vgen.Pick(r, []uint64{0, 0, 0, 1, 1, 2})
		cap := vgen.Pick(r, []uint64{0, 1, 2, 3, 4, 5, 100, 1000, 30000000, 1 << 63, ^uint64(0)})
		m := r.Range(1, 7)
		ps := make([]Prop, m)
		for k := range ps {
			ps[k] = lim(cap)
			ps[k].Executed = r.Chance(1, 5)
		}
		alt := make([]Prop, r.Range(1, 4))
		for k := range alt {
			alt[k] = lim(cap)
		}
		add(vgen.Pick(r, mids), cap, tg, ps, alt, []int{1, 2, 4, 3, 6}[j%5])
		if j%7 == 0 {
			// with a failing executed-status lookup of a pending proposal: nothing may be hashed
			var pend []int
			for k := range ps {
				if !ps[k].Executed {
					pend = append(pend, k)
				}
			}
			if len(pend) > 0 {
				fail := make([]int, m)
				fail[vgen.Pick(r, pend)] = r.Range(1, 2)
				out = append(out, Case{Mode: "hashes", Mid: "m", Cap: cap, Tg: tg, Props: ps, Fail: fail})
			}
		}
	}
	return out
}
