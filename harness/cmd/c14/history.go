// Histories: 1..6 deliveries on ONE long-lived Executor object (round 5).
//
// The old modes build a fresh Executor per case and name the proposals of a delivery 0, 1, 2, .. (source domain
// 1, deposit nonce = position).  Here the proposals carry arbitrary (source domain, deposit nonce) pairs - in
// any order within a delivery (descending, shuffled, equal nonces from different sources, the nonces of a retry
// delivery), with keys chosen so that careless encodings of the pair collide ((1,23)/(12,3) under "%d%d",
// equal nonces under "nonce only", (s,n+k)/(s+1,n) under s*k+n, nonces that agree modulo 2^8 / 2^16 / 2^32, ..)
// - and one Executor (one bridge, one coordinator) serves all deliveries of the case: an earlier delivery
// finds some proposals executed, a later one holds pending proposals whose key collides with them; a proposal
// pending in one delivery is executed (on the chain) by the next; the same key comes back with another gas
// limit; deliveries re-use a message id with other contents.  On the chain "executed" is final, so a key
// never goes back to pending inside a history.
//
// Per delivery, on that one Executor: proposalBatches (hook) + executeBatch of every non-empty batch (what the
// bridge's ExecuteProposals receives), then the real Execute with a bridge whose ProposalsHash records and
// fails (GOMAXPROCS(1), as in mode "hashes").  After each call the caller's slice is compared with what was
// passed in.  Every delivery is judged on its own by the judge of a single delivery.
package main

import (
	"fmt"
	"math/big"
	"runtime"
	"sort"
	"strconv"
	"sync"
	"time"

	"github.com/ChainSafe/sygma-relayer/comm/elector"
	evmexec "github.com/ChainSafe/sygma-relayer/chains/evm/executor"
	"github.com/ChainSafe/sygma-relayer/config/relayer"
	"github.com/ChainSafe/sygma-relayer/relayer/transfer"
	"github.com/ChainSafe/sygma-relayer/tss"
	tsscommon "github.com/binance-chain/tss-lib/common"
	"github.com/libp2p/go-libp2p/core/peer"
	"github.com/sygmaprotocol/sygma-core/relayer/proposal"

	fk "verifharness/execfakes"
	"verifharness/vgen"
)

type KeyIn struct {
	S uint8  `json:"s"`
	N uint64 `json:"n"`
}

type Delivery struct {
	Mid   string  `json:"mid,omitempty"`
	Keys  []KeyIn `json:"keys"`
	Props []Prop  `json:"props"` // Executed: what the chain says at the time of THIS delivery
	Fail  []int   `json:"fail,omitempty"`
}

type HBatch struct {
	Members []KeyIn `json:"members"`
	Gas     uint64  `json:"gas"`
}

type DelObs struct {
	BatErr    bool      `json:"bat_err,omitempty"`
	Batches   []HBatch  `json:"batches"`
	ExecErr   bool      `json:"exec_err,omitempty"`
	Hashed    [][]KeyIn `json:"hashed,omitempty"`
	Reordered bool      `json:"reordered,omitempty"`
}

// histBridge: the scripted chain; executed-status lookups of chosen transfers fail the first k times they are
// asked in a phase; ProposalsHash records and fails (Execute stops there); ExecuteProposals records (fk.EvmBridge)
type histBridge struct {
	fk.EvmBridge
	mu     sync.Mutex
	left   map[fk.Key]int
	hashed [][]fk.Key
}

func (b *histBridge) script(d Delivery) {
	b.mu.Lock()
	b.left = map[fk.Key]int{}
	for i, k := range d.Fail {
		if k > 0 && i < len(d.Keys) {
			b.left[fk.Key{Source: d.Keys[i].S, Nonce: d.Keys[i].N}] = k
		}
	}
	b.hashed = nil
	b.mu.Unlock()
}

func (b *histBridge) IsProposalExecuted(p *transfer.TransferProposal) (bool, error) {
	k := fk.Key{Source: p.Source, Nonce: p.Data.DepositNonce}
	b.mu.Lock()
	if b.left[k] > 0 {
		b.left[k]--
		b.mu.Unlock()
		return false, fk.ErrLookup
	}
	b.mu.Unlock()
	return b.EvmBridge.IsProposalExecuted(p)
}

func (b *histBridge) ProposalsHash(ps []*transfer.TransferProposal) ([]byte, error) {
	b.mu.Lock()
	b.hashed = append(b.hashed, fk.KeysOf(ps))
	b.mu.Unlock()
	return nil, fk.ErrHash
}

func keysIn(ks []fk.Key) []KeyIn {
	out := make([]KeyIn, len(ks))
	for i, k := range ks {
		out[i] = KeyIn{k.Source, k.Nonce}
	}
	return out
}

func sameSlice(a, b []*proposal.Proposal) bool {
	if len(a) != len(b) {
		return false
	}
	for i := range a {
		if a[i] != b[i] {
			return false
		}
	}
	return true
}

func runHistory(c Case) Obs {
	chain := fk.NewChain()
	host := fk.NewHost()
	cm := &fk.Comm{}
	fetcher := &fk.Fetcher{Peers: []peer.ID{host.ID()}}
	coord := tss.NewCoordinator(host, cm, elector.NewCoordinatorElectorFactory(host, relayer.BullyConfig{}))
	coord.TssTimeout = time.Millisecond
	coord.CoordinatorTimeout = time.Millisecond
	coord.InitiatePeriod = time.Hour
	br := &histBridge{EvmBridge: fk.EvmBridge{Chain: chain}}
	// ONE Executor for the whole history
	ex := evmexec.NewExecutor(host, cm, coord, br, fetcher, &sync.RWMutex{}, c.Cap, c.Tg)
	sig := &tsscommon.SignatureData{R: []byte{1}, S: []byte{2}, SignatureRecovery: []byte{0}}

	var o Obs
	for _, d := range c.Dels {
		if len(d.Keys) != len(d.Props) {
			panic("C14 runner: history delivery with keys and props of different lengths")
		}
		ps := make([]*proposal.Proposal, len(d.Props))
		pos := map[fk.Key]int{}
		for i, p := range d.Props {
			md := map[string]interface{}{}
			if p.HasLimit {
				md["gasLimit"] = p.Limit
			}
			k := fk.Key{Source: d.Keys[i].S, Nonce: d.Keys[i].N}
			ps[i] = proposal.NewProposal(k.Source, 2, transfer.TransferProposalData{
				DepositNonce: k.Nonce, ResourceId: [32]byte{1}, Metadata: md, Data: []byte{byte(i)},
			}, d.Mid, transfer.TransferProposalType)
			// the chain as it is at the time of this delivery
			if p.Executed {
				chain.Executed[k] = true
			} else {
				delete(chain.Executed, k)
			}
			if _, dup := pos[k]; !dup {
				pos[k] = i
			}
		}
		passed := append([]*proposal.Proposal{}, ps...)
		var do DelObs

		// phase 1: the batching step, and what the contract call of every non-empty batch receives
		br.script(d)
		batches, err := ex.VerifProposalBatches(ps)
		if err != nil {
			do.BatErr = true
			batches = nil
		}
		if !sameSlice(ps, passed) {
			do.Reordered = true
			copy(ps, passed)
		}
		for _, b := range batches {
			members, gas := evmexec.VerifBatchView(b)
			hb := HBatch{Members: keysIn(fk.KeysOf(members)), Gas: gas}
			if len(members) > 0 {
				n := len(chain.ExecCalls)
				if _, err := ex.VerifExecuteBatch(b, sig); err != nil || len(chain.ExecCalls) != n+1 {
					panic(fmt.Sprint("C14 runner: executeBatch did not call ExecuteProposals once: ", err))
				}
				call := chain.ExecCalls[n]
				hb = HBatch{Members: keysIn(call.Props), Gas: call.GasLimit}
			}
			do.Batches = append(do.Batches, hb)
		}
		chain.ExecCalls = nil

		// phase 2: the real Execute on the same Executor
		br.script(d)
		old := runtime.GOMAXPROCS(1)
		done := make(chan error, 1)
		go func() { done <- ex.Execute(ps) }()
		select {
		case e := <-done:
			do.ExecErr = e != nil
		case <-time.After(120 * time.Second):
			panic("C14 runner: Executor.Execute did not return")
		}
		runtime.GOMAXPROCS(old)
		if !sameSlice(ps, passed) {
			do.Reordered = true
		}
		br.mu.Lock()
		hashed := append([][]fk.Key{}, br.hashed...)
		br.mu.Unlock()
		// canonical order of the (concurrent) hash calls: by delivery position of the first member, then length
		first := func(h []fk.Key) int {
			if len(h) == 0 {
				return -1
			}
			if i, ok := pos[h[0]]; ok {
				return i
			}
			return len(ps)
		}
		sort.SliceStable(hashed, func(i, j int) bool {
			if first(hashed[i]) != first(hashed[j]) {
				return first(hashed[i]) < first(hashed[j])
			}
			return len(hashed[i]) < len(hashed[j])
		})
		for _, h := range hashed {
			do.Hashed = append(do.Hashed, keysIn(h))
		}
		chain.Queries, chain.HashCalls, chain.HashIdx = nil, nil, nil
		o.Dels = append(o.Dels, do)
	}
	return o
}

// ---- generation ---------------------------------------------------------------------------------------------------

// splits: every (source, nonce) whose decimal renderings, concatenated, give digits
func splits(digits string) []KeyIn {
	var out []KeyIn
	for i := 1; i < len(digits) && i <= 3; i++ {
		a, b := digits[:i], digits[i:]
		if a[0] == '0' && len(a) > 1 || b[0] == '0' && len(b) > 1 {
			continue
		}
		s, err1 := strconv.ParseUint(a, 10, 8)
		n, err2 := strconv.ParseUint(b, 10, 64)
		if err1 != nil || err2 != nil {
			continue
		}
		out = append(out, KeyIn{uint8(s), n})
	}
	return out
}

// family: 2..4 distinct keys that careless encodings of (source, nonce) confuse; kind cycles through the encodings
const familyKinds = 22

func family(r *vgen.Rng, kind int) []KeyIn {
	fixed := [][]KeyIn{
		{{1, 23}, {12, 3}}, {{11, 3}, {1, 13}}, {{2, 10}, {21, 0}}, {{1, 113}, {11, 13}, {111, 3}},
		{{25, 5}, {2, 55}}, {{1, 0}, {10, 0}}, {{10, 1}, {1, 1}, {101, 0}},
	}
	s := uint8(r.Range(1, 30))
	n := uint64(r.Intn(300))
	muls := []uint64{10, 100, 256, 1000, 1 << 16, 1 << 32}
	cuts := []uint64{1 << 8, 1 << 16, 1 << 32}
	kind %= familyKinds
	switch {
	case kind < 7: // "%d%d": the documented ones
		f := append([]KeyIn{}, fixed[kind]...)
		if r.Bool() {
			f[0], f[1] = f[1], f[0]
		}
		return f
	case kind == 7: // "%d%d": random digits
		for try := 0; try < 20; try++ {
			f := splits(strconv.Itoa(r.Range(1, 25)) + strconv.Itoa(r.Intn(1000)))
			if len(f) >= 2 {
				r.Shuffle(len(f), func(i, j int) { f[i], f[j] = f[j], f[i] })
				return f
			}
		}
		return append([]KeyIn{}, fixed[0]...)
	case kind == 8: // the nonce alone
		return []KeyIn{{s, n}, {s + 1, n}, {s + 11, n}}
	case kind == 9: // source + nonce, source ^ nonce
		return []KeyIn{{s, n + 1}, {s + 1, n}}
	case kind < 16: // source * k + nonce
		k := muls[kind-10]
		if r.Bool() {
			return []KeyIn{{s + 1, n}, {s, n + k}}
		}
		return []KeyIn{{s, n + k}, {s + 1, n}}
	case kind < 19: // the nonce cut to 8 / 16 / 32 bits
		k := cuts[kind-16]
		if r.Bool() {
			return []KeyIn{{s, n + k}, {s, n}}
		}
		return []KeyIn{{s, n}, {s, n + k}}
	case kind == 19: // source << 56 | nonce
		return []KeyIn{{s, n}, {s - 1, 1<<56 + n}}
	case kind == 20: // source and nonce swapped
		return []KeyIn{{s, uint64(s) + 1}, {s + 1, uint64(s)}}
	default: // the destination domain (2) for the source
		return []KeyIn{{2, n}, {s + 2, n}}
	}
}

func distinct(ks []KeyIn) []KeyIn {
	seen := map[KeyIn]bool{}
	var out []KeyIn
	for _, k := range ks {
		if !seen[k] {
			seen[k] = true
			out = append(out, k)
		}
	}
	return out
}

func genHistory(r *vgen.Rng, kind int) Case {
	tg := uint64(100)
	cap := vgen.Pick(r, []uint64{90, 150, 250, 350, 1000, 1000000})
	c := Case{Mode: "history", Cap: cap, Tg: tg}
	fam := distinct(family(r, kind))
	if len(fam) < 2 {
		fam = []KeyIn{{1, 23}, {12, 3}}
	}
	a, b := fam[0], fam[1] // a is found executed at delivery ja; b stays pending throughout
	pool := append([]KeyIn{}, fam...)
	pool = append(pool, KeyIn{a.S, a.N + 1}, KeyIn{b.S, b.N + 1}, KeyIn{3, 7}, KeyIn{a.S + 1, a.N}, KeyIn{b.S, a.N})
	pool = distinct(pool)
	nd := r.Range(2, 6)
	ja := r.Intn(nd - 1)
	structured := r.Chance(4, 5) // otherwise: only the random evolution below
	done := map[KeyIn]bool{}
	mids := []string{"m", "m", "1-2-100-105", "m"}
	for j := 0; j < nd; j++ {
		n := r.Range(1, 6)
		idx := make([]int, len(pool))
		for i := range idx {
			idx[i] = i
		}
		r.Shuffle(len(idx), func(x, y int) { idx[x], idx[y] = idx[y], idx[x] })
		var ks []KeyIn
		for _, i := range idx {
			if len(ks) < n {
				ks = append(ks, pool[i])
			}
		}
		if structured {
			if j == ja {
				ks = append(ks, a)
				done[a] = true
			}
			if j == ja+1 || j > ja && r.Chance(1, 2) {
				ks = append(ks, b)
			}
		}
		ks = distinct(ks)
		r.Shuffle(len(ks), func(x, y int) { ks[x], ks[y] = ks[y], ks[x] })
		d := Delivery{Mid: vgen.Pick(r, mids), Keys: ks, Props: make([]Prop, len(ks))}
		for i, k := range ks {
			// executed on the chain since it was last delivered? (final: never back to pending)
			if !done[k] && !(structured && (k == b || k == a && j < ja)) && r.Chance(1, 4) {
				done[k] = true
			}
			d.Props[i] = limitAround(r, cap, tg)
			if r.Chance(1, 2) {
				d.Props[i] = Prop{}
			}
			d.Props[i].Executed = done[k]
		}
		if r.Chance(1, 6) {
			// a lookup fails - of a proposal that is pending (and was never executed)
			var pend []int
			for i := range ks {
				if !d.Props[i].Executed {
					pend = append(pend, i)
				}
			}
			if len(pend) > 0 {
				d.Fail = make([]int, len(ks))
				d.Fail[vgen.Pick(r, pend)] = r.Range(1, 2)
			}
		}
		c.Dels = append(c.Dels, d)
	}
	return c
}

// one delivery that is not in ascending nonce order
func orderCase(cap uint64, keys []KeyIn, props []Prop) Case {
	return Case{Mode: "history", Cap: cap, Tg: 100, Dels: []Delivery{{Mid: "m", Keys: keys, Props: props}}}
}

func genOrders(r *vgen.Rng, tier string) []Case {
	var out []Case
	gas := func(ps []Prop) []Prop {
		for i := range ps {
			if i%3 == 2 {
				ps[i].HasLimit, ps[i].Limit = true, uint64(40*i)
			}
		}
		return ps
	}
	// descending runs with every executed mask, two caps
	for n := 2; n <= 4; n++ {
		for mask := 0; mask < 1<<n; mask++ {
			keys := make([]KeyIn, n)
			ps := make([]Prop, n)
			for i := range keys {
				keys[i] = KeyIn{1, uint64(10 + n - i)}
				ps[i].Executed = mask&(1<<i) != 0
			}
			out = append(out, orderCase([]uint64{250, 1000}[mask%2], keys, gas(ps)))
		}
	}
	// the nonces of a retry delivery; equal nonces from different sources; zig-zag
	for _, keys := range [][]KeyIn{
		{{1, 7}, {1, 3}, {1, 5}}, {{1, 7}, {1, 3}, {1, 5}, {1, 9}, {1, 1}}, {{2, 5}, {1, 5}}, {{3, 5}, {1, 5}, {2, 5}},
		{{2, 5}, {1, 6}, {1, 5}, {2, 4}}, {{1, 2}, {1, 1}}, {{1, 1}, {1, 3}, {1, 2}}, {{9, 0}, {1, 18446744073709551615}, {1, 0}},
		{{1, 4294967296}, {1, 1}, {1, 4294967295}},
	} {
		for _, cap := range []uint64{150, 250, 1000} {
			for _, ex := range []int{-1, 0, len(keys) - 1} {
				ps := make([]Prop, len(keys))
				if ex >= 0 {
					ps[ex].Executed = true
				}
				out = append(out, orderCase(cap, keys, gas(ps)))
			}
		}
	}
	n := 60
	if tier == "thorough" {
		n = 2000
	}
	for i := 0; i < n; i++ {
		m := r.Range(2, 8)
		keys := make([]KeyIn, 0, m)
		for len(keys) < m {
			keys = distinct(append(keys, KeyIn{uint8(r.Range(1, 3)), uint64(r.Intn(12))}))
		}
		cap := vgen.Pick(r, []uint64{90, 150, 250, 350, 1000})
		ps := make([]Prop, m)
		for j := range ps {
			if r.Chance(1, 3) {
				ps[j] = limitAround(r, cap, 100)
			}
			ps[j].Executed = r.Chance(1, 4)
		}
		c := orderCase(cap, keys, ps)
		if r.Chance(1, 5) {
			c.Dels[0].Fail = make([]int, m)
			c.Dels[0].Fail[r.Intn(m)] = 1
		}
		out = append(out, c)
	}
	return out
}

func genHistories(r *vgen.Rng, tier string) []Case {
	out := genOrders(r, tier)
	// the documented collisions, minimal: a found executed, then b pending (both orders of the pair)
	for _, f := range [][]KeyIn{{{1, 23}, {12, 3}}, {{12, 3}, {1, 23}}, {{11, 3}, {1, 13}}, {{1, 13}, {11, 3}}, {{2, 10}, {21, 0}}, {{21, 0}, {2, 10}}} {
		a, b := f[0], f[1]
		out = append(out, Case{Mode: "history", Cap: 1000, Tg: 100, Dels: []Delivery{
			{Mid: "m", Keys: []KeyIn{a, {a.S, a.N + 1}}, Props: []Prop{{Executed: true}, {}}},
			{Mid: "m2", Keys: []KeyIn{{b.S, b.N + 1}, b}, Props: []Prop{{}, {}}},
			{Mid: "m2", Keys: []KeyIn{b, a, {b.S, b.N + 1}}, Props: []Prop{{}, {Executed: true}, {Executed: true}}},
		}})
	}
	n := 200
	if tier == "thorough" {
		n = 5000
	}
	for i := 0; i < n; i++ {
		out = append(out, genHistory(r, i))
	}
	return out
}

// ---- Coq printing -------------------------------------------------------------------------------------------------

func coqPk(k KeyIn) string {
	return "(pk " + vgen.N(uint64(k.S)) + " " + vgen.NBig(new(big.Int).SetUint64(k.N)) + ")"
}

func coqHistory(c Case, o Obs) string {
	items := make([]string, len(c.Dels))
	for i, d := range c.Dels {
		do := o.Dels[i]
		props := make([]string, len(d.Props))
		fl := make([]uint64, len(d.Props))
		for j, p := range d.Props {
			lim := "None"
			if p.HasLimit {
				lim = vgen.Some(n64(p.Limit))
			}
			props[j] = "mkprop " + coqPk(d.Keys[j]) + " " + lim + " " + vgen.Bool(p.Executed)
			if j < len(d.Fail) && d.Fail[j] > 0 {
				fl[j] = uint64(d.Fail[j])
			}
		}
		res := "None"
		if !do.BatErr {
			res = vgen.Some(vgen.ListOf(do.Batches, func(b HBatch) string {
				return vgen.Pair(vgen.ListOf(b.Members, coqPk), n64(b.Gas))
			}))
		}
		hashed := vgen.ListOf(do.Hashed, func(m []KeyIn) string { return vgen.ListOf(m, coqPk) })
		items[i] = "mkhdel " + vgen.List(props) + " " + vgen.ListOf(fl, vgen.N) + " " + res + " " +
			vgen.Bool(do.ExecErr) + " " + hashed + " " + vgen.Bool(do.Reordered)
	}
	return "Hst " + n64(c.Cap) + " " + n64(c.Tg) + " " + vgen.List(items)
}
