// apprun cases: the start-block wiring of app.Run AS A WHOLE - configuration file -> GetStartBlock ->
// (head, alignment) -> chain object -> listener -, for Bitcoin and EVM domains.  One child process
// (this binary re-executed) starts the REAL app.Run once, as one relayer with one domain per case:
// every domain has its own local node (Bitcoin: JSON-RPC over TLS, EVM: JSON-RPC over HTTP) that
// records which blocks it is asked for, and a block store prepared with the case's stored cursor.
// The node's head moves on by one with every head read, so the model sees exactly the heads the code
// saw: script [Head h0; Handler ok; Store ok; Head h0+1; ...].  Observed per domain: the first ranges
// of blocks the event handlers asked the node for (Bitcoin: the heights of getblockhash; EVM: the
// (fromBlock, toBlock) of eth_getLogs), consecutive repetitions dropped.  The model predicts them
// through the generated wiring (Run/C05.v AppRun) and the judge is trace_ok on them: the first block
// read is not beyond the relayer's starting point, ranges are contiguous.
// (Substrate domains are not started: its client needs a node serving runtime metadata.)
// A child that cannot be started or does not answer in time yields no observation (printed as such:
// a broken correspondence, never a judge rejection).
package main

import (
	"crypto/rand"
	"encoding/json"
	"encoding/pem"
	"fmt"
	"io"
	"math/big"
	"net"
	"net/http"
	"net/http/httptest"
	"os"
	"os/exec"
	"path/filepath"
	"strconv"
	"strings"
	"sync"
	"time"

	"github.com/ChainSafe/sygma-relayer/app"
	"github.com/ChainSafe/sygma-relayer/config"
	"github.com/ChainSafe/sygma-relayer/topology"
	"github.com/libp2p/go-libp2p/core/crypto"
	"github.com/libp2p/go-libp2p/core/peer"
	ma "github.com/multiformats/go-multiaddr"
	"github.com/spf13/viper"
	"github.com/sygmaprotocol/sygma-core/store"
	"github.com/sygmaprotocol/sygma-core/store/lvldb"

	"verifharness/scanstack"
	"verifharness/vgen"
)

const appEnv = "C05_APPRUN_DIR"
const appWant = 2 // ranges observed per domain

type appSpec struct {
	Cfg  scanstack.Cfg `json:"cfg"`
	Head int64         `json:"head"`
}

// ---- the local nodes ---------------------------------------------------------------------------------

type appNode struct {
	mu     sync.Mutex
	kind   string
	head   int64
	ranges [][2]int64
}

func (n *appNode) saw(s, e int64) {
	if len(n.ranges) > 0 && n.ranges[len(n.ranges)-1] == [2]int64{s, e} {
		return
	}
	n.ranges = append(n.ranges, [2]int64{s, e})
}

func (n *appNode) nextHead() int64 {
	h := n.head
	n.head++
	return h
}

func btcHash(height int64) string { return fmt.Sprintf("%064x", height+1) }
func btcHeight(hash string) int64 {
	v, ok := new(big.Int).SetString(hash, 16)
	if !ok {
		return -1
	}
	return v.Int64() - 1
}

func hexInt(s string) (int64, bool) {
	v, err := strconv.ParseInt(strings.TrimPrefix(s, "0x"), 16, 64)
	return v, err == nil
}

func (n *appNode) ServeHTTP(w http.ResponseWriter, r *http.Request) {
	body, _ := io.ReadAll(r.Body)
	var req struct {
		Method string            `json:"method"`
		Params []json.RawMessage `json:"params"`
		ID     json.RawMessage   `json:"id"`
	}
	_ = json.Unmarshal(body, &req)
	var result, rpcErr interface{}
	n.mu.Lock()
	switch req.Method {
	// ---- bitcoin
	case "getinfo":
		result = map[string]interface{}{"version": 240000}
	case "getblockchaininfo":
		result = map[string]interface{}{"chain": "regtest", "blocks": n.head, "headers": n.head, "bestblockhash": btcHash(n.head),
			"difficulty": 1.0, "mediantime": 0, "chainwork": "00", "pruned": false}
	case "getbestblockhash":
		result = btcHash(n.nextHead())
	case "getblockhash":
		var height int64
		if len(req.Params) > 0 {
			_ = json.Unmarshal(req.Params[0], &height)
		}
		n.saw(height, height)
		result = btcHash(height)
	case "getblock":
		var hash string
		if len(req.Params) > 0 {
			_ = json.Unmarshal(req.Params[0], &hash)
		}
		height := btcHeight(hash)
		result = map[string]interface{}{"hash": hash, "height": height, "confirmations": 1, "tx": []interface{}{},
			"time": 1700000000 + height, "version": 1, "merkleroot": btcHash(0), "bits": "1d00ffff"}
	// ---- ethereum
	case "eth_chainId", "net_version":
		result = "0x1"
	case "eth_getBlockByNumber":
		var tag string
		if len(req.Params) > 0 {
			_ = json.Unmarshal(req.Params[0], &tag)
		}
		num := int64(0)
		if tag == "latest" {
			num = n.nextHead()
		} else if v, ok := hexInt(tag); ok {
			num = v
		}
		result = map[string]interface{}{"number": fmt.Sprintf("0x%x", num), "timestamp": "0x6553f100"}
	case "eth_getLogs":
		var q struct {
			From string `json:"fromBlock"`
			To   string `json:"toBlock"`
		}
		if len(req.Params) > 0 {
			_ = json.Unmarshal(req.Params[0], &q)
		}
		s, ok1 := hexInt(q.From)
		e, ok2 := hexInt(q.To)
		if ok1 && ok2 {
			n.saw(s, e)
		}
		result = []interface{}{}
	default:
		rpcErr = map[string]interface{}{"code": -32601, "message": "Method not found"}
	}
	n.mu.Unlock()
	w.Header().Set("Content-Type", "application/json")
	_ = json.NewEncoder(w).Encode(map[string]interface{}{"jsonrpc": "2.0", "result": result, "error": rpcErr, "id": req.ID})
}

func freePort() int {
	l, err := net.Listen("tcp", "127.0.0.1:0")
	if err != nil {
		panic(err)
	}
	defer l.Close()
	return l.Addr().(*net.TCPAddr).Port
}

// ---- the child: one relayer, one domain per spec ------------------------------------------------------

func appChild(dir string) {
	fail := func(msg string) {
		_ = os.WriteFile(filepath.Join(dir, "error.txt"), []byte(msg), 0o644)
		os.Exit(0)
	}
	b, err := os.ReadFile(filepath.Join(dir, "spec.json"))
	if err != nil {
		fail(err.Error())
	}
	var specs []appSpec
	if err := json.Unmarshal(b, &specs); err != nil || len(specs) == 0 || len(specs) > 250 {
		fail("bad spec")
	}
	// the block store as the previous lifetime left it
	bsPath := filepath.Join(dir, "blockstore")
	db, err := lvldb.NewLvlDB(bsPath)
	if err != nil {
		fail(err.Error())
	}
	bs := store.NewBlockStore(db)
	for i, s := range specs {
		if s.Cfg.Stored != nil {
			if err := bs.StoreBlock(big.NewInt(*s.Cfg.Stored), uint8(i+1)); err != nil {
				fail(err.Error())
			}
		}
	}
	_ = db.Close()

	nodes := make([]*appNode, len(specs))
	var domains []interface{}
	caWritten := false
	for i, s := range specs {
		n := &appNode{kind: s.Cfg.Kind, head: s.Head}
		nodes[i] = n
		d := map[string]interface{}{"id": i + 1, "name": fmt.Sprintf("d%d", i+1), "type": s.Cfg.Kind,
			"fresh": s.Cfg.Fresh, "latest": s.Cfg.Latest, "startBlock": s.Cfg.CStart,
			"blockConfirmations": s.Cfg.Conf, "blockRetryInterval": 1, "blockInterval": s.Cfg.Ival}
		switch s.Cfg.Kind {
		case "btc":
			srv := httptest.NewTLSServer(n)
			if !caWritten { // every httptest TLS server presents the same certificate
				ca := filepath.Join(dir, "ca.pem")
				if err := os.WriteFile(ca, pem.EncodeToMemory(&pem.Block{Type: "CERTIFICATE", Bytes: srv.Certificate().Raw}), 0o600); err != nil {
					fail(err.Error())
				}
				empty := filepath.Join(dir, "nocerts")
				_ = os.Mkdir(empty, 0o700)
				os.Setenv("SSL_CERT_FILE", ca)
				os.Setenv("SSL_CERT_DIR", empty)
				caWritten = true
			}
			d["endpoint"] = srv.Listener.Addr().String()
			d["feeAddress"] = "mkHS9ne12qx9pS9VojpwU5xtRd4T7X7ZUt"
			d["mempoolUrl"] = "http://127.0.0.1:1"
			d["network"] = "regtest"
			d["username"], d["password"] = "user", "password"
			d["resources"] = []interface{}{}
		case "evm":
			srv := httptest.NewServer(n)
			d["endpoint"] = srv.URL
			d["key"] = "000000000000000000000000000000000000000000000000000000616c696365"
			d["bridge"] = "0x0000000000000000000000000000000000000b01"
			d["frostKeygen"] = "0x0000000000000000000000000000000000000b02"
			d["handlers"] = []interface{}{}
		default:
			fail("apprun: chain kind " + s.Cfg.Kind)
		}
		domains = append(domains, d)
	}

	priv, _, err := crypto.GenerateEd25519Key(rand.Reader)
	if err != nil {
		fail(err.Error())
	}
	privBytes, _ := crypto.MarshalPrivateKey(priv)
	id, _ := peer.IDFromPrivateKey(priv)
	p2pPort := freePort()
	addr, _ := ma.NewMultiaddr(fmt.Sprintf("/ip4/127.0.0.1/tcp/%d", p2pPort))
	topologyPath := filepath.Join(dir, "topology")
	if err := topology.NewTopologyStore(topologyPath).StoreTopology(&topology.NetworkTopology{
		Peers: []*peer.AddrInfo{{ID: id, Addrs: []ma.Multiaddr{addr}}}, Threshold: 1}); err != nil {
		fail(err.Error())
	}
	cfg := map[string]interface{}{
		"relayer": map[string]interface{}{
			"healthPort":                fmt.Sprintf("%d", freePort()),
			"opentelemetryCollectorURL": "http://127.0.0.1:1/v1/metrics",
			"mpcConfig": map[string]interface{}{
				"port": fmt.Sprintf("%d", p2pPort), "keysharePath": filepath.Join(dir, "0.keyshare"),
				"frostKeysharePath": filepath.Join(dir, "0-frost.keyshare"), "key": crypto.ConfigEncodeKey(privBytes),
				"topologyConfiguration":   map[string]interface{}{"path": topologyPath, "url": "http://127.0.0.1:1/topology", "encryptionKey": "0123456789abcdef"},
				"commHealthCheckInterval": "24h",
			},
		},
		"domains": domains,
	}
	cfgBytes, _ := json.Marshal(cfg)
	cfgPath := filepath.Join(dir, "config.json")
	if err := os.WriteFile(cfgPath, cfgBytes, 0o600); err != nil {
		fail(err.Error())
	}
	viper.Set(config.ConfigFlagName, cfgPath)
	viper.Set(config.BlockstoreFlagName, bsPath)
	viper.Set("name", "c05-apprun")

	died := make(chan string, 1)
	go func() {
		defer func() {
			if p := recover(); p != nil {
				died <- fmt.Sprint("app.Run panicked: ", p)
			}
		}()
		err := app.Run()
		died <- fmt.Sprint("app.Run returned: ", err)
	}()

	deadline := time.After(30 * time.Second)
	tick := time.NewTicker(25 * time.Millisecond)
	note := ""
wait:
	for {
		select {
		case note = <-died:
			break wait
		case <-deadline:
			note = "deadline"
			break wait
		case <-tick.C:
			done := true
			for _, n := range nodes {
				n.mu.Lock()
				if len(n.ranges) < appWant {
					done = false
				}
				n.mu.Unlock()
			}
			if done {
				break wait
			}
		}
	}
	out := struct {
		Note   string       `json:"note,omitempty"`
		Ranges [][][2]int64 `json:"ranges"`
	}{Note: note}
	for _, n := range nodes {
		n.mu.Lock()
		r := n.ranges
		if len(r) > appWant {
			r = r[:appWant]
		}
		out.Ranges = append(out.Ranges, append([][2]int64{}, r...))
		n.mu.Unlock()
	}
	ob, _ := json.Marshal(out)
	tmp := filepath.Join(dir, "obs.json.tmp")
	_ = os.WriteFile(tmp, ob, 0o644)
	_ = os.Rename(tmp, filepath.Join(dir, "obs.json"))
	os.Exit(0)
}

// ---- the parent ---------------------------------------------------------------------------------------

type appBatch struct {
	done   chan struct{}
	ranges map[string][][2]int64 // by spec JSON
	died   bool                  // app.Run itself ended (panic / return): a definite observation
}

var (
	appMu    sync.Mutex
	appCache = map[string]*appBatch{} // spec JSON -> the batch it was (is being) run in
)

func specKey(s appSpec) string { b, _ := json.Marshal(s); return string(b) }

// appStart runs one child for the specs (in the background) unless they are all known already.
func appStart(specs []appSpec) {
	appMu.Lock()
	var todo []appSpec
	for _, s := range specs {
		if _, ok := appCache[specKey(s)]; !ok {
			todo = append(todo, s)
		}
	}
	if len(todo) == 0 {
		appMu.Unlock()
		return
	}
	b := &appBatch{done: make(chan struct{}), ranges: map[string][][2]int64{}}
	for _, s := range todo {
		appCache[specKey(s)] = b
	}
	appMu.Unlock()
	go func() {
		defer close(b.done)
		for attempt := 0; attempt < 2; attempt++ { // a child that did not answer is tried once more
			if r, died := appRunChild(todo); r != nil {
				for i, s := range todo {
					if i < len(r) {
						b.ranges[specKey(s)] = r[i]
					}
				}
				b.died = died
				return
			}
		}
	}()
}

func appRunChild(specs []appSpec) ([][][2]int64, bool) {
	base := os.Getenv("VERIF_WORK")
	if base == "" {
		base = os.TempDir()
	}
	dir, err := os.MkdirTemp(base, "c05app")
	if err != nil {
		return nil, false
	}
	defer os.RemoveAll(dir)
	sb, _ := json.Marshal(specs)
	if err := os.WriteFile(filepath.Join(dir, "spec.json"), sb, 0o644); err != nil {
		return nil, false
	}
	exe, err := os.Executable()
	if err != nil {
		return nil, false
	}
	cmd := exec.Command(exe)
	cmd.Env = append(os.Environ(), appEnv+"="+dir)
	cmd.Stdout, cmd.Stderr = io.Discard, io.Discard
	if err := cmd.Start(); err != nil {
		return nil, false
	}
	exited := make(chan struct{})
	go func() { _ = cmd.Wait(); close(exited) }()
	select {
	case <-exited:
	case <-time.After(40 * time.Second):
		_ = cmd.Process.Kill()
		<-exited
	}
	ob, err := os.ReadFile(filepath.Join(dir, "obs.json"))
	if err != nil {
		return nil, false
	}
	var out struct {
		Note   string       `json:"note"`
		Ranges [][][2]int64 `json:"ranges"`
	}
	if json.Unmarshal(ob, &out) != nil || len(out.Ranges) != len(specs) {
		return nil, false
	}
	return out.Ranges, strings.HasPrefix(out.Note, "app.Run")
}

// appObserve: the ranges the domain's handlers asked for; ok = false: no observation (the child could
// not be run or did not get that far in time - no verdict); died: app.Run itself ended.
func appObserve(s appSpec) (r [][2]int64, died, ok bool) {
	appStart([]appSpec{s})
	appMu.Lock()
	b := appCache[specKey(s)]
	appMu.Unlock()
	<-b.done
	r, seen := b.ranges[specKey(s)]
	if !seen || (len(r) < appWant && !b.died) {
		return nil, false, false
	}
	return r, b.died, true
}

// ---- cases ---------------------------------------------------------------------------------------------

func appGrid() []Case {
	var out []Case
	for _, kind := range []string{"btc", "evm"} {
		ival := int64(1)
		if kind == "evm" {
			ival = 3
		}
		for _, cstart := range []int64{0, 31} {
			for _, rel := range []string{"absent", "below", "above"} {
				var stored *int64
				switch rel {
				case "below":
					v := cstart - 7
					if v < 0 {
						continue
					}
					stored = &v
				case "above":
					v := cstart + 13
					stored = &v
				}
				for _, lf := range [][2]bool{{false, false}, {false, true}, {true, false}, {true, true}} {
					cfg := scanstack.Cfg{Kind: kind, Ival: ival, Conf: 1, NH: 1, CStart: cstart, Latest: lf[0], Fresh: lf[1], Stored: stored}
					out = append(out, Case{Type: "apprun", Cfg: cfg, Head: cstart + 40})
				}
			}
		}
	}
	return out
}

func appSpecOf(c Case) appSpec { return appSpec{Cfg: c.Cfg, Head: c.Head} }

// appPrefetch: all apprun cases of a run go into ONE child, started while the other cases run.
func appPrefetch(cases []Case) {
	var specs []appSpec
	for _, c := range cases {
		if c.Type == "apprun" {
			specs = append(specs, appSpecOf(c))
		}
	}
	if len(specs) > 0 {
		appStart(specs)
	}
}

// the script the model is given: the node's head moves on by one with every head read
func appScript(head int64, rounds int) []scanstack.Ev {
	var evs []scanstack.Ev
	for i := 0; i < rounds; i++ {
		evs = append(evs, scanstack.Ev{T: "head", H: head + int64(i)}, scanstack.Ev{T: "handler", Ok: true}, scanstack.Ev{T: "store", Ok: true})
	}
	return evs
}

func coqApp(c Case, o Obs) string {
	g := c.Cfg
	obs := "None"
	if o.AppSeen {
		obs = vgen.Some(vgen.ListOf(o.Asked, func(a [2]int64) string { return vgen.Pair(vgen.Z(a[0]), vgen.Z(a[1])) }))
	}
	return "AppRun " + coqKind(g.Kind) + " " + vgen.Z(g.Ival) + " " + vgen.Z(g.Conf) + " " + vgen.Z(g.CStart) +
		" " + vgen.Bool(g.Latest) + " " + vgen.Bool(g.Fresh) + " " + optZ(g.Stored) + " " + vgen.Z(c.Head) + " " + obs
}
