// C05 correspondence runner: drives the real scan loops behind the real chain objects, the real
// block store and the start-block wiring of app.Run (package scanstack) through scripted faults
// and crash points, and the repository's event handlers with failing fetches.
package main

import (
	"context"
	"errors"
	"math/big"

	btcconfig "github.com/ChainSafe/sygma-relayer/chains/btc/config"
	btclistener "github.com/ChainSafe/sygma-relayer/chains/btc/listener"
	evmevents "github.com/ChainSafe/sygma-relayer/chains/evm/calls/events"
	"github.com/ChainSafe/sygma-relayer/chains/evm/listener/eventHandlers"
	sublistener "github.com/ChainSafe/sygma-relayer/chains/substrate/listener"
	"github.com/btcsuite/btcd/btcjson"
	"github.com/btcsuite/btcd/chaincfg/chainhash"
	"github.com/centrifuge/go-substrate-rpc-client/v4/registry/parser"
	"github.com/centrifuge/go-substrate-rpc-client/v4/types"
	"github.com/ethereum/go-ethereum/common"
	ethTypes "github.com/ethereum/go-ethereum/core/types"
	"github.com/rs/zerolog"
	"github.com/sygmaprotocol/sygma-core/relayer/message"

	"verifharness/scanstack"
	"verifharness/vgen"
)

type Case struct {
	Type string `json:"type"` // scan | propagate
	// scan
	Cfg scanstack.Cfg  `json:"cfg,omitempty"`
	Evs []scanstack.Ev `json:"evs,omitempty"`
	// propagate
	Handler string `json:"handler,omitempty"`
	FetchOk bool   `json:"fetch_ok,omitempty"`
}

type Obs struct {
	Outs []scanstack.Out `json:"outs,omitempty"`
	Err  bool            `json:"err,omitempty"`
}

var wiring map[string]scanstack.Wiring

// ---- propagate: the repository's event handlers over a fetch that fails ------------------------------

var errFetch = errors.New("fetch failed")

type failingEvm struct{ ok bool }

func (f failingEvm) e() error {
	if f.ok {
		return nil
	}
	return errFetch
}
func (f failingEvm) FetchKeygenEvents(context.Context, common.Address, *big.Int, *big.Int) ([]ethTypes.Log, error) {
	return nil, f.e()
}
func (f failingEvm) FetchFrostKeygenEvents(context.Context, common.Address, *big.Int, *big.Int) ([]ethTypes.Log, error) {
	return nil, f.e()
}
func (f failingEvm) FetchRefreshEvents(context.Context, common.Address, *big.Int, *big.Int) ([]*evmevents.Refresh, error) {
	return nil, f.e()
}
func (f failingEvm) FetchDeposits(context.Context, common.Address, *big.Int, *big.Int) ([]*evmevents.Deposit, error) {
	return nil, f.e()
}
func (f failingEvm) FetchRetryV1Events(context.Context, common.Address, *big.Int, *big.Int) ([]evmevents.RetryV1Event, error) {
	return nil, f.e()
}
func (f failingEvm) FetchRetryV2Events(context.Context, common.Address, *big.Int, *big.Int) ([]evmevents.RetryV2Event, error) {
	return nil, f.e()
}
func (f failingEvm) FetchRetryDepositEvents(evmevents.RetryV1Event, common.Address, *big.Int) ([]evmevents.Deposit, error) {
	return nil, f.e()
}

type failingSub struct{ ok bool }

func (f failingSub) GetFinalizedHead() (types.Hash, error) { return types.Hash{}, nil }
func (f failingSub) GetBlock(types.Hash) (*types.SignedBlock, error) {
	return &types.SignedBlock{}, nil
}
func (f failingSub) GetBlockHash(uint64) (types.Hash, error)            { return types.Hash{}, nil }
func (f failingSub) GetBlockEvents(types.Hash) ([]*parser.Event, error) { return nil, nil }
func (f failingSub) UpdateMetatdata() error                             { return nil }
func (f failingSub) FetchEvents(a, b *big.Int) ([]*parser.Event, error) {
	if f.ok {
		return nil, nil
	}
	return nil, errFetch
}

type failingBtc struct {
	hashOk, blockOk bool
}

func (f failingBtc) GetRawTransactionVerbose(*chainhash.Hash) (*btcjson.TxRawResult, error) {
	return nil, errFetch
}
func (f failingBtc) GetBestBlockHash() (*chainhash.Hash, error) { return &chainhash.Hash{}, nil }
func (f failingBtc) GetBlockHash(int64) (*chainhash.Hash, error) {
	if f.hashOk {
		return &chainhash.Hash{}, nil
	}
	return nil, errFetch
}
func (f failingBtc) GetBlockVerboseTx(*chainhash.Hash) (*btcjson.GetBlockVerboseTxResult, error) {
	if f.blockOk {
		return &btcjson.GetBlockVerboseTxResult{}, nil
	}
	return nil, errFetch
}

var propagateHandlers = []string{"evm-deposit", "evm-retryv1", "evm-retryv2", "sub-fungible", "sub-retry", "sub-sysupdate", "btc-hash", "btc-block"}

func propagate(name string, ok bool) bool {
	logC := zerolog.Nop().With()
	ch := make(chan []*message.Message, 4)
	s, e := big.NewInt(10), big.NewInt(14)
	var err error
	switch name {
	case "evm-deposit":
		err = eventHandlers.NewDepositEventHandler(failingEvm{ok}, nil, common.Address{}, 1, ch).HandleEvents(s, e)
	case "evm-retryv1":
		err = eventHandlers.NewRetryV1EventHandler(logC, failingEvm{ok}, nil, nil, common.Address{}, 1, big.NewInt(1), ch).HandleEvents(s, e)
	case "evm-retryv2":
		err = eventHandlers.NewRetryV2EventHandler(logC, failingEvm{ok}, common.Address{}, 1, ch).HandleEvents(s, e)
	case "sub-fungible":
		err = sublistener.NewFungibleTransferEventHandler(logC, 1, nil, ch, failingSub{ok}).HandleEvents(s, e)
	case "sub-retry":
		err = sublistener.NewRetryEventHandler(logC, failingSub{ok}, nil, 1, ch).HandleEvents(s, e)
	case "sub-sysupdate":
		err = sublistener.NewSystemUpdateEventHandler(failingSub{ok}).HandleEvents(s, e)
	case "btc-hash":
		_, fee := scanstack.BtcResources(nil)
		err = btclistener.NewFungibleTransferEventHandler(logC, 1, &btclistener.BtcDepositHandler{}, ch, failingBtc{ok, true}, map[[32]byte]btcconfig.Resource{}, fee).HandleEvents(s)
	case "btc-block":
		_, fee := scanstack.BtcResources(nil)
		err = btclistener.NewFungibleTransferEventHandler(logC, 1, &btclistener.BtcDepositHandler{}, ch, failingBtc{true, ok}, map[[32]byte]btcconfig.Resource{}, fee).HandleEvents(s)
	default:
		panic("handler " + name)
	}
	return err != nil
}

func run(c Case) Obs {
	if c.Type == "propagate" {
		return Obs{Err: propagate(c.Handler, c.FetchOk)}
	}
	w, ok := wiring[c.Cfg.Kind]
	if !ok {
		panic("no wiring for kind " + c.Cfg.Kind)
	}
	r := scanstack.Run(c.Cfg, w, c.Evs, scanstack.Options{})
	return Obs{Outs: r.Outs}
}

// ---- generation --------------------------------------------------------------------------------------

var kinds = []string{"evm", "substrate", "btc"}

func genScript(r *vgen.Rng, cfg scanstack.Cfg, rounds, crashes int) []scanstack.Ev {
	step := cfg.Ival
	if cfg.Kind == "btc" {
		step = 1
	}
	base := cfg.CStart
	if cfg.Stored != nil && *cfg.Stored > base {
		base = *cfg.Stored
	}
	head := base + int64(r.Range(-2, int(2*step+cfg.Conf+2)))
	if head < 0 {
		head = 0
	}
	var evs []scanstack.Ev
	for i := 0; i < rounds; i++ {
		if r.Chance(1, 10) {
			evs = append(evs, scanstack.Ev{T: "rpcfail"})
		}
		switch r.Intn(5) {
		case 0:
		case 1, 2:
			head += step
		case 3:
			head += int64(r.Intn(int(3*step) + 1))
		case 4:
			head++
		}
		evs = append(evs, scanstack.Ev{T: "head", H: head})
		failed := false
		for k := 0; k < cfg.NH && !failed; k++ {
			ok := !r.Chance(1, 7)
			evs = append(evs, scanstack.Ev{T: "handler", Ok: ok})
			failed = !ok
		}
		if !failed {
			evs = append(evs, scanstack.Ev{T: "store", Ok: !r.Chance(1, 6)})
		}
		if r.Chance(1, 12) { // an event that does not apply where it arrives
			evs = append(evs, vgen.Pick(r, []scanstack.Ev{{T: "store", Ok: true}, {T: "handler", Ok: true}, {T: "handler"}, {T: "rpcfail"}}))
		}
	}
	for i := 0; i < crashes && len(evs) > 0; i++ {
		p := r.Intn(len(evs) + 1)
		evs = append(evs[:p], append([]scanstack.Ev{{T: "crash"}}, evs[p:]...)...)
	}
	return evs
}

func gen(r *vgen.Rng, tier string) []Case {
	var out []Case
	for _, h := range propagateHandlers {
		out = append(out, Case{Type: "propagate", Handler: h, FetchOk: true}, Case{Type: "propagate", Handler: h, FetchOk: false})
	}
	n := 420
	if tier == "thorough" {
		n = 6000
	}
	for i := 0; i < n; i++ {
		cfg := scanstack.Cfg{Kind: kinds[i%3], Ival: int64(r.Range(1, 7)), Conf: int64(r.Range(0, 12)), NH: r.Range(1, 3)}
		if r.Chance(2, 3) {
			cfg.Conf = int64(r.Range(1, 3))
		}
		switch r.Intn(4) {
		case 0:
			cfg.CStart = 0
		case 1:
			cfg.CStart = int64(r.Intn(61))
		case 2:
			cfg.CStart = cfg.Ival * int64(r.Intn(20))
		case 3:
			cfg.CStart = int64(r.U64() % (1 << 40))
			if cfg.Kind == "substrate" { // Substrate block numbers are u32
				cfg.CStart %= 1 << 30
			}
		}
		switch r.Intn(4) {
		case 0: // absent
		case 1: // behind
			v := cfg.CStart - int64(r.Intn(20))
			if v < 0 {
				v = 0
			}
			cfg.Stored = &v
		case 2, 3: // ahead
			v := cfg.CStart + int64(r.Intn(40))
			cfg.Stored = &v
		}
		cfg.Latest = r.Chance(1, 8)
		cfg.Fresh = r.Chance(1, 8)
		rounds := r.Range(2, 40)
		if r.Chance(1, 10) {
			rounds = r.Range(40, 70)
		}
		out = append(out, Case{Type: "scan", Cfg: cfg, Evs: genScript(r, cfg, rounds, r.Intn(5))})
	}
	return out
}

// ---- printing ----------------------------------------------------------------------------------------

func coqKind(k string) string {
	switch k {
	case "evm":
		return "Evm"
	case "substrate":
		return "Sub"
	}
	return "Btc"
}

func optZ(p *int64) string {
	if p == nil {
		return "None"
	}
	return vgen.Some(vgen.Z(*p))
}

func coqEv(e scanstack.Ev) string {
	switch e.T {
	case "rpcfail":
		return "RpcFail"
	case "head":
		return "Head " + vgen.Z(e.H)
	case "handler":
		return "Handler " + vgen.Bool(e.Ok)
	case "store":
		return "Store " + vgen.Bool(e.Ok)
	case "crash":
		return "Crash"
	}
	panic("event " + e.T)
}

func CoqOut(o scanstack.Out) string {
	switch o.T {
	case "start":
		return "OStart " + optZ(o.Cur)
	case "handle":
		return "OHandle " + vgen.Nat(o.K) + " " + vgen.Z(o.S) + " " + vgen.Z(o.E) + " " + vgen.Bool(o.Ok)
	case "store":
		return "OStore " + vgen.Z(o.V) + " " + vgen.Bool(o.Ok)
	}
	panic("out " + o.T)
}

func coq(c Case, o Obs) string {
	if c.Type == "propagate" {
		return "Propagate " + vgen.Bool(c.FetchOk) + " " + vgen.Bool(o.Err)
	}
	g := c.Cfg
	return "Scan " + coqKind(g.Kind) + " " + vgen.Z(g.Ival) + " " + vgen.Z(g.Conf) + " " + vgen.Nat(g.NH) + " " + vgen.Z(g.CStart) +
		" " + vgen.Bool(g.Latest) + " " + vgen.Bool(g.Fresh) + " " + optZ(g.Stored) + "\n    " +
		vgen.ListOf(c.Evs, coqEv) + "\n    " + vgen.ListOf(o.Outs, CoqOut)
}

func main() {
	wiring = scanstack.LoadWiring()
	vgen.Main(vgen.Spec[Case, Obs]{
		Property:  "C05",
		RunModule: "C05",
		Gen:       gen,
		Run:       run,
		Coq:       coq,
		ShardSize: 60,
		Kind: func(c Case) string {
			if c.Type == "propagate" {
				return "propagate-" + c.Handler
			}
			return "scan-" + c.Cfg.Kind
		},
		NonTrivial: func(c Case, o Obs) bool {
			if c.Type == "propagate" {
				return !c.FetchOk
			}
			for _, x := range o.Outs {
				if x.T == "store" {
					return true
				}
			}
			return false
		},
		Rule: "environment scripts (RPC failures, heads, per-handler results, store results, 0..4 crash points, inapplicable events) for the real EVM/Substrate/BTC listener stacks wired per the extracted app.go record, intervals 1..7, confirmations 0..12, 1..3 handlers, configured starts aligned/unaligned/large, stored cursor absent/behind/ahead, latest/fresh flags; plus each repository event handler with a succeeding and a failing fetch; distinct = distinct input JSON; non-trivial = a scan in which at least one range was fully handled and StoreBlock was reached, or a failing fetch",
	})
}
