// C05 correspondence runner: drives the real scan loops behind the real chain objects, the real
// block store and the start-block wiring of app.Run (package scanstack) through scripted faults
// and crash points, and the repository's event handlers with every node read failing with every
// error class of scanstack's catalogue.
package main

import (
	"context"
	"errors"
	"fmt"
	"math/big"
	"os"

	btcconfig "github.com/ChainSafe/sygma-relayer/chains/btc/config"
	btclistener "github.com/ChainSafe/sygma-relayer/chains/btc/listener"
	evmevents "github.com/ChainSafe/sygma-relayer/chains/evm/calls/events"
	"github.com/ChainSafe/sygma-relayer/chains/evm/listener/eventHandlers"
	sublistener "github.com/ChainSafe/sygma-relayer/chains/substrate/listener"
	"github.com/ChainSafe/sygma-relayer/keyshare"
	"github.com/btcsuite/btcd/btcjson"
	"github.com/btcsuite/btcd/chaincfg/chainhash"
	"github.com/centrifuge/go-substrate-rpc-client/v4/registry"
	"github.com/centrifuge/go-substrate-rpc-client/v4/registry/parser"
	"github.com/centrifuge/go-substrate-rpc-client/v4/types"
	"github.com/ethereum/go-ethereum/common"
	ethTypes "github.com/ethereum/go-ethereum/core/types"
	"github.com/rs/zerolog"
	"github.com/sygmaprotocol/sygma-core/relayer/message"

	"verifharness/scanstack"
	"verifharness/vgen"
)

type Case struct {
	Type string `json:"type"` // scan | propagate | reads
	// scan
	Cfg scanstack.Cfg  `json:"cfg,omitempty"`
	Evs []scanstack.Ev `json:"evs,omitempty"`
	// propagate: the named repository event handler, the node read that fails ("" = none) and the
	// class of the error it fails with (catalogue: scanstack/errclass.go)
	Handler string `json:"handler,omitempty"`
	Point   string `json:"point,omitempty"`
	EC      int    `json:"ec,omitempty"`
	Panic   bool   `json:"panic,omitempty"` // propagate: the read does not return an error, it panics
	// reads (reads.go): one HandleEvents(S, E) call of Handler over a node that records what it is asked;
	// the range holds Items; the node cannot serve block *Blk (nil: any block) for reads of kind Point
	S     int64  `json:"s,omitempty"`
	E     int64  `json:"e,omitempty"`
	Items []Item `json:"items,omitempty"`
	Blk   *int64 `json:"blk,omitempty"`
	// scan: a point of the start-block grid (start.go)
	Grid bool `json:"grid,omitempty"`
	// apprun (apprun.go): Cfg as a domain of the real app.Run; the node's head at the start
	Head int64 `json:"head,omitempty"`
}

type Obs struct {
	Outs []scanstack.Out `json:"outs,omitempty"`
	// scan: script indices of the Panic events that killed the process / that the listener survived
	Died     []int `json:"died,omitempty"`
	Survived []int `json:"survived,omitempty"`
	// scan: what GetStartBlock was given, when that is not app.go's customary (id, config.StartBlock, latest, fresh)
	StartCall string `json:"start_call,omitempty"`
	// propagate: the handler did not report the range as handled (it returned an error, or - Panicked -
	// the panic of the node read went through it)
	Err      bool   `json:"err,omitempty"`
	Panicked bool   `json:"panicked,omitempty"`
	Name     string `json:"errclass,omitempty"`
	// reads: a read of the call failed; the range reads the node was asked for (bounds as given);
	// reads with arguments the node cannot make sense of (unknown hash, foreign contract)
	Fired bool       `json:"fired,omitempty"`
	Asked [][2]int64 `json:"asked,omitempty"`
	Bad   int        `json:"bad,omitempty"`
	// apprun: the child gave an observation for this domain (Asked); app.Run itself ended (panic / return)
	AppSeen bool `json:"app_seen,omitempty"`
	AppDied bool `json:"app_died,omitempty"`
}

var wiring map[string]scanstack.Wiring

// chain kinds whose start-block wiring the translator did not recognise (it has reported so, the
// check is broken already): their scan cases cannot be composed and are not generated; the apprun
// cases - the real app.Run, whatever its wiring looks like - and the handler cases still run
var badKinds map[string]error

// ---- propagate: the repository's event handlers over a node whose reads fail -------------------------

// fault says which read fails and how.
type fault struct {
	point string
	ec    int
	panic bool
}

func (f fault) at(point string) error {
	if f.point == point {
		if f.panic {
			panic(scanstack.ScriptedPanic{})
		}
		return scanstack.ErrClass(f.ec)
	}
	return nil
}

// failingEvmClient is the events.ChainClient under the repository's real events.Listener.
type failingEvmClient struct{ f fault }

func (c failingEvmClient) FetchEventLogs(context.Context, common.Address, string, *big.Int, *big.Int) ([]ethTypes.Log, error) {
	return nil, c.f.at("FetchEventLogs")
}
func (c failingEvmClient) WaitAndReturnTxReceipt(common.Hash) (*ethTypes.Receipt, error) {
	return nil, errors.New("unused")
}
func (c failingEvmClient) LatestBlock() (*big.Int, error) { return big.NewInt(1000), nil }
func (c failingEvmClient) BlockByNumber(context.Context, *big.Int) (*ethTypes.Block, error) {
	return nil, errors.New("unused")
}

type failingSub struct {
	f     fault
	retry bool // the range holds one SygmaBridge.Retry event
}

func (c failingSub) GetFinalizedHead() (types.Hash, error) {
	return types.Hash{}, c.f.at("GetFinalizedHead")
}
func (c failingSub) GetBlock(types.Hash) (*types.SignedBlock, error) {
	if err := c.f.at("GetBlock"); err != nil {
		return nil, err
	}
	return &types.SignedBlock{Block: types.Block{Header: types.Header{Number: 100}}}, nil
}
func (c failingSub) GetBlockHash(uint64) (types.Hash, error) {
	return types.Hash{}, c.f.at("GetBlockHash")
}
func (c failingSub) GetBlockEvents(types.Hash) ([]*parser.Event, error) {
	return nil, c.f.at("GetBlockEvents")
}
func (c failingSub) UpdateMetatdata() error { return nil }
func (c failingSub) FetchEvents(a, b *big.Int) ([]*parser.Event, error) {
	if err := c.f.at("FetchEvents"); err != nil {
		return nil, err
	}
	if !c.retry {
		return nil, nil
	}
	return []*parser.Event{{Name: "SygmaBridge.Retry", Fields: registry.DecodedFields{
		&registry.DecodedField{Name: "deposit_on_block_height", Value: types.NewU128(*big.NewInt(5))},
		&registry.DecodedField{Name: "dest_domain_id", Value: types.NewU8(2)},
	}}}, nil
}

type failingBtc struct{ f fault }

func (c failingBtc) GetRawTransactionVerbose(*chainhash.Hash) (*btcjson.TxRawResult, error) {
	return nil, errors.New("unused")
}
func (c failingBtc) GetBestBlockHash() (*chainhash.Hash, error) { return &chainhash.Hash{}, nil }
func (c failingBtc) GetBlockHash(int64) (*chainhash.Hash, error) {
	if err := c.f.at("GetBlockHash"); err != nil {
		return nil, err
	}
	return &chainhash.Hash{}, nil
}
func (c failingBtc) GetBlockVerboseTx(*chainhash.Hash) (*btcjson.GetBlockVerboseTxResult, error) {
	if err := c.f.at("GetBlockVerboseTx"); err != nil {
		return nil, err
	}
	return &btcjson.GetBlockVerboseTxResult{}, nil
}

// noKeyshare is the key-share store of a relayer that has no key yet (so the keygen handler looks
// for StartKeygen events).
type noKeyshare struct{}

func (noKeyshare) StoreKeyshare(keyshare.ECDSAKeyshare) error { return nil }
func (noKeyshare) LockKeyshare()                              {}
func (noKeyshare) UnlockKeyshare()                            {}
func (noKeyshare) GetKeyshare() (keyshare.ECDSAKeyshare, error) {
	return keyshare.ECDSAKeyshare{}, errors.New("no key share")
}

// propagatePoints: per repository event handler the node reads whose failure the handler must
// report (it reads the range's events through them, or cannot process an event of the range
// without them).  Reads whose failure the code deliberately tolerates (the EVM block timestamp
// lookup; the receipt lookup of an EVM RetryV1 event, whose error also stands for "not enough
// confirmations yet") are not listed: the property does not demand anything there.
var propagatePoints = []struct {
	Handler string
	Points  []string
}{
	{"evm-deposit", []string{"FetchEventLogs"}},
	{"evm-retryv1", []string{"FetchEventLogs"}},
	{"evm-retryv2", []string{"FetchEventLogs"}},
	{"evm-keygen", []string{"FetchEventLogs"}},
	{"evm-frostkeygen", []string{"FetchEventLogs"}},
	{"evm-refresh", []string{"FetchEventLogs"}},
	{"sub-fungible", []string{"FetchEvents"}},
	{"sub-sysupdate", []string{"FetchEvents"}},
	{"sub-retry", []string{"FetchEvents", "GetFinalizedHead", "GetBlock", "GetBlockHash", "GetBlockEvents"}},
	{"btc", []string{"GetBlockHash", "GetBlockVerboseTx"}},
}

// propagatePanicPoints: the reads through which a handler learns what the range holds; all of them
// are made outside the per-event recover() blocks of the handlers, so a panic inside the node client
// there goes through HandleEvents (and kills the listener).  A handler that swallows it and reports
// the range as handled lets the cursor pass a range it never read.  (The per-retry-event reads of
// the Substrate retry handler - GetBlockHash / GetBlockEvents - sit inside its per-event recover():
// a panic there is dropped like a malformed retry event, by design of that isolation; not driven.)
var propagatePanicPoints = map[string][]string{
	"evm-deposit": {"FetchEventLogs"}, "evm-retryv1": {"FetchEventLogs"}, "evm-retryv2": {"FetchEventLogs"},
	"evm-keygen": {"FetchEventLogs"}, "evm-frostkeygen": {"FetchEventLogs"}, "evm-refresh": {"FetchEventLogs"},
	"sub-fungible": {"FetchEvents"}, "sub-sysupdate": {"FetchEvents"},
	"sub-retry": {"FetchEvents", "GetFinalizedHead", "GetBlock"},
	"btc":       {"GetBlockHash", "GetBlockVerboseTx"},
}

// propagate: did the handler report a failure (error returned), and did a panic go through it?
func propagate(name string, f fault) (failed bool, panicked bool) {
	defer func() {
		if r := recover(); r != nil {
			if !f.panic {
				panic(r)
			}
			failed, panicked = true, true
		}
	}()
	return propagate1(name, f), false
}

func propagate1(name string, f fault) bool {
	logC := zerolog.Nop().With()
	ch := make(chan []*message.Message, 4)
	s, e := big.NewInt(10), big.NewInt(14)
	evm := evmevents.NewListener(failingEvmClient{f})
	var err error
	switch name {
	case "evm-deposit":
		err = eventHandlers.NewDepositEventHandler(evm, nil, common.Address{}, 1, ch).HandleEvents(s, e)
	case "evm-retryv1":
		err = eventHandlers.NewRetryV1EventHandler(logC, evm, nil, nil, common.Address{}, 1, big.NewInt(1), ch).HandleEvents(s, e)
	case "evm-retryv2":
		err = eventHandlers.NewRetryV2EventHandler(logC, evm, common.Address{}, 1, ch).HandleEvents(s, e)
	case "evm-keygen":
		err = eventHandlers.NewKeygenEventHandler(logC, evm, nil, nil, nil, noKeyshare{}, common.Address{}, 2).HandleEvents(s, e)
	case "evm-frostkeygen":
		err = eventHandlers.NewFrostKeygenEventHandler(logC, evm, nil, nil, nil, nil, common.Address{}, 2).HandleEvents(s, e)
	case "evm-refresh":
		err = eventHandlers.NewRefreshEventHandler(logC, nil, nil, evm, nil, nil, nil, nil, nil, nil, common.Address{}).HandleEvents(s, e)
	case "sub-fungible":
		err = sublistener.NewFungibleTransferEventHandler(logC, 1, nil, ch, failingSub{f: f}).HandleEvents(s, e)
	case "sub-retry":
		err = sublistener.NewRetryEventHandler(logC, failingSub{f: f, retry: true}, nil, 1, ch).HandleEvents(s, e)
	case "sub-sysupdate":
		err = sublistener.NewSystemUpdateEventHandler(failingSub{f: f}).HandleEvents(s, e)
	case "btc":
		_, fee := scanstack.BtcResources(nil)
		err = btclistener.NewFungibleTransferEventHandler(logC, 1, &btclistener.BtcDepositHandler{}, ch, failingBtc{f}, map[[32]byte]btcconfig.Resource{}, fee).HandleEvents(s)
	default:
		panic("handler " + name)
	}
	return err != nil
}

func run(c Case) Obs {
	if c.Type == "apprun" {
		r, died, ok := appObserve(appSpecOf(c))
		return Obs{Asked: r, AppSeen: ok, AppDied: died, StartCall: describeStartCall(c.Cfg.Kind)}
	}
	if c.Type == "reads" {
		return driveReads(c)
	}
	if c.Type == "propagate" {
		var o Obs
		o.Err, o.Panicked = propagate(c.Handler, fault{c.Point, c.EC, c.Panic})
		if c.Point != "" && !c.Panic {
			o.Name = scanstack.ErrClassName(c.EC)
		}
		return o
	}
	w, ok := wiring[c.Cfg.Kind]
	if !ok {
		panic("no wiring for kind " + c.Cfg.Kind)
	}
	if badKinds[c.Cfg.Kind] != nil {
		return Obs{} // (a corpus / replay case of such a kind: no observation = a broken correspondence)
	}
	// GetStartBlock is told what app.go tells it (start.go)
	r := scanstack.Run(wired(c.Cfg), w, c.Evs, scanstack.Options{})
	return Obs{Outs: r.Outs, Died: r.Died, Survived: r.Survived, StartCall: describeStartCall(c.Cfg.Kind)}
}

// ---- generation --------------------------------------------------------------------------------------

var kinds = []string{"evm", "substrate", "btc"}

func genScript(r *vgen.Rng, cfg scanstack.Cfg, rounds, crashes int) []scanstack.Ev {
	step := cfg.Ival
	if cfg.Kind == "btc" {
		step = 1
	}
	base := cfg.CStart
	if cfg.Stored != nil && *cfg.Stored > base {
		base = *cfg.Stored
	}
	head := base + int64(r.Range(-2, int(2*step+cfg.Conf+2)))
	if head < 0 {
		head = 0
	}
	var evs []scanstack.Ev
	for i := 0; i < rounds; i++ {
		if r.Chance(1, 10) {
			evs = append(evs, scanstack.Ev{T: "rpcfail", EC: r.Intn(scanstack.NumErrClasses()), Panic: r.Chance(1, 5)})
		}
		switch r.Intn(5) {
		case 0:
		case 1, 2:
			head += step
		case 3:
			head += int64(r.Intn(int(3*step) + 1))
		case 4:
			head++
		}
		evs = append(evs, scanstack.Ev{T: "head", H: head})
		failed := false
		for k := 0; k < cfg.NH && !failed; k++ {
			ok := !r.Chance(1, 7)
			ev := scanstack.Ev{T: "handler", Ok: ok}
			if !ok { // where and how handler 0 (the repository's deposit handler) fails
				ev.P, ev.EC = r.Intn(2), r.Intn(scanstack.NumErrClasses())
				ev.Panic = r.Chance(1, 3) // not by returning an error: by a Go panic inside HandleEvents
			}
			evs = append(evs, ev)
			failed = !ok
		}
		if !failed {
			st := scanstack.Ev{T: "store", Ok: !r.Chance(1, 6)}
			if !st.Ok {
				st.EC = r.Intn(scanstack.NumErrClasses())
				st.Panic = r.Chance(1, 5)
			}
			evs = append(evs, st)
		}
		if r.Chance(1, 12) { // an event that does not apply where it arrives
			evs = append(evs, vgen.Pick(r, []scanstack.Ev{{T: "store", Ok: true}, {T: "handler", Ok: true}, {T: "handler"}, {T: "rpcfail"},
				{T: "handler", Panic: true}, {T: "store", Panic: true}}))
		}
	}
	for i := 0; i < crashes && len(evs) > 0; i++ {
		p := r.Intn(len(evs) + 1)
		evs = append(evs[:p], append([]scanstack.Ev{{T: "crash"}}, evs[p:]...)...)
	}
	return evs
}

// sweep: short scans in which one handler (the repository's deposit handler at each of its node
// reads, or - Bitcoin, whose listener is the repository's - a later handler), the head read or the
// block-store write fails ONCE with each error class of the catalogue, is retried successfully, and
// the next range is handled and persisted.
func sweep() []Case {
	var out []Case
	nec := scanstack.NumErrClasses()
	okHandlers := func(evs []scanstack.Ev, n int) []scanstack.Ev {
		for i := 0; i < n; i++ {
			evs = append(evs, scanstack.Ev{T: "handler", Ok: true})
		}
		return evs
	}
	for _, kind := range kinds {
		for nh := 1; nh <= 2; nh++ {
			for k := 0; k < nh; k++ {
				if k > 0 && kind != "btc" {
					continue // a plain fake handler under a sygma-core listener: nothing of the repository
				}
				points := 1
				if kind == "btc" && k == 0 {
					points = 2
				}
				for p := 0; p < points; p++ {
					for ec := 0; ec < nec; ec++ {
						cfg := scanstack.Cfg{Kind: kind, Ival: 3, Conf: 1, NH: nh, CStart: 30}
						evs := []scanstack.Ev{{T: "head", H: 60}}
						evs = okHandlers(evs, k)
						evs = append(evs, scanstack.Ev{T: "handler", P: p, EC: ec}, scanstack.Ev{T: "head", H: 60})
						evs = okHandlers(evs, nh)
						evs = append(evs, scanstack.Ev{T: "store", Ok: true}, scanstack.Ev{T: "head", H: 60})
						evs = okHandlers(evs, nh)
						evs = append(evs, scanstack.Ev{T: "store", Ok: true})
						out = append(out, Case{Type: "scan", Cfg: cfg, Evs: evs})
					}
				}
			}
		}
	}
	// the same places failing by PANIC: a handler (the repository's deposit handler inside each of its
	// node reads, and every later handler), the head read, the block-store write - first thing in a
	// lifetime and after a persisted range, with 1..3 handlers; afterwards the script goes on for three
	// more rounds so that a cursor that passed the range shows
	for _, kind := range kinds {
		for nh := 1; nh <= 3; nh++ {
			for k := 0; k < nh; k++ {
				points := 1
				if kind == "btc" && k == 0 {
					points = 2
				}
				for p := 0; p < points; p++ {
					for _, warm := range []bool{false, true} {
						cfg := scanstack.Cfg{Kind: kind, Ival: 3, Conf: 1, NH: nh, CStart: 30}
						var evs []scanstack.Ev
						round := func() {
							evs = append(evs, scanstack.Ev{T: "head", H: 60})
							evs = okHandlers(evs, nh)
							evs = append(evs, scanstack.Ev{T: "store", Ok: true})
						}
						if warm {
							round()
						}
						evs = append(evs, scanstack.Ev{T: "head", H: 60})
						evs = okHandlers(evs, k)
						evs = append(evs, scanstack.Ev{T: "handler", P: p, Panic: true})
						round()
						round()
						round()
						out = append(out, Case{Type: "scan", Cfg: cfg, Evs: evs})
					}
				}
			}
			for _, what := range []string{"rpcfail", "store"} {
				cfg := scanstack.Cfg{Kind: kind, Ival: 3, Conf: 1, NH: nh, CStart: 30}
				var evs []scanstack.Ev
				round := func(store scanstack.Ev) {
					evs = append(evs, scanstack.Ev{T: "head", H: 60})
					evs = okHandlers(evs, nh)
					evs = append(evs, store)
				}
				round(scanstack.Ev{T: "store", Ok: true})
				if what == "rpcfail" {
					evs = append(evs, scanstack.Ev{T: "rpcfail", Panic: true})
					round(scanstack.Ev{T: "store", Ok: true})
				} else {
					round(scanstack.Ev{T: "store", Panic: true})
				}
				round(scanstack.Ev{T: "store", Ok: true})
				round(scanstack.Ev{T: "store", Ok: true})
				out = append(out, Case{Type: "scan", Cfg: cfg, Evs: evs})
			}
		}
	}
	for ec := 0; ec < nec; ec++ {
		cfg := scanstack.Cfg{Kind: "btc", Ival: 1, Conf: 2, NH: 1, CStart: 100}
		out = append(out, Case{Type: "scan", Cfg: cfg, Evs: []scanstack.Ev{
			{T: "head", H: 110}, {T: "handler", Ok: true}, {T: "store", Ok: true},
			{T: "rpcfail", EC: ec}, {T: "rpcfail", EC: ec}, {T: "head", H: 110}, {T: "handler", Ok: true}, {T: "store", Ok: true},
			{T: "head", H: 110}, {T: "handler", Ok: true}, {T: "store", Ok: true}}})
		out = append(out, Case{Type: "scan", Cfg: cfg, Evs: []scanstack.Ev{
			{T: "head", H: 110}, {T: "handler", Ok: true}, {T: "store", EC: ec},
			{T: "head", H: 110}, {T: "handler", Ok: true}, {T: "store", Ok: true}, {T: "crash"},
			{T: "head", H: 110}, {T: "handler", Ok: true}, {T: "store", Ok: true}}})
	}
	return out
}

func gen(r *vgen.Rng, tier string) []Case {
	var out []Case
	// every repository event handler x every node read it depends on x every error class
	for _, h := range propagatePoints {
		out = append(out, Case{Type: "propagate", Handler: h.Handler})
		for _, pt := range h.Points {
			for ec := 0; ec < scanstack.NumErrClasses(); ec++ {
				out = append(out, Case{Type: "propagate", Handler: h.Handler, Point: pt, EC: ec})
			}
		}
	}
	out = append(out, genReads(r, tier)...)
	out = append(out, sweep()...)
	out = append(out, startGrid()...)
	app := appGrid()
	appPrefetch(app) // one child process runs the real app.Run for all of them while the cases below run
	n := 420
	if tier == "thorough" {
		n = 6000
	}
	for i := 0; i < n; i++ {
		cfg := scanstack.Cfg{Kind: kinds[i%3], Ival: int64(r.Range(1, 7)), Conf: int64(r.Range(0, 12)), NH: r.Range(1, 3)}
		if r.Chance(2, 3) {
			cfg.Conf = int64(r.Range(1, 3))
		}
		switch r.Intn(4) {
		case 0:
			cfg.CStart = 0
		case 1:
			cfg.CStart = int64(r.Intn(61))
		case 2:
			cfg.CStart = cfg.Ival * int64(r.Intn(20))
		case 3:
			cfg.CStart = int64(r.U64() % (1 << 40))
			if cfg.Kind == "substrate" { // Substrate block numbers are u32
				cfg.CStart %= 1 << 30
			}
		}
		switch r.Intn(4) {
		case 0: // absent
		case 1: // behind
			v := cfg.CStart - int64(r.Intn(20))
			if v < 0 {
				v = 0
			}
			cfg.Stored = &v
		case 2, 3: // ahead
			v := cfg.CStart + int64(r.Intn(40))
			cfg.Stored = &v
		}
		cfg.Latest = r.Chance(1, 8)
		cfg.Fresh = r.Chance(1, 8)
		rounds := r.Range(2, 40)
		if r.Chance(1, 10) {
			rounds = r.Range(40, 70)
		}
		out = append(out, Case{Type: "scan", Cfg: cfg, Evs: genScript(r, cfg, rounds, r.Intn(5))})
	}
	out = append(out, app...)
	if len(badKinds) > 0 {
		kept := out[:0]
		for _, c := range out {
			if c.Type == "scan" && badKinds[c.Cfg.Kind] != nil {
				continue
			}
			kept = append(kept, c)
		}
		out = kept
	}
	return out
}

// ---- printing ----------------------------------------------------------------------------------------

func coqKind(k string) string {
	switch k {
	case "evm":
		return "Evm"
	case "substrate":
		return "Sub"
	}
	return "Btc"
}

func optZ(p *int64) string {
	if p == nil {
		return "None"
	}
	return vgen.Some(vgen.Z(*p))
}

// coqEvs: the script as the model sees it.  A Panic event that killed the process is the model's
// Crash (the process dies here); one the listener survived - or that never applied - is the plain
// failure of that call (the handler / the node / the store fails).
func coqEvs(evs []scanstack.Ev, died []int) string {
	dead := map[int]bool{}
	for _, i := range died {
		dead[i] = true
	}
	items := make([]string, len(evs))
	for i, e := range evs {
		if e.Panic && dead[i] {
			items[i] = "Crash"
		} else {
			items[i] = coqEv(e)
		}
	}
	return vgen.List(items)
}

func coqEv(e scanstack.Ev) string {
	switch e.T {
	case "rpcfail":
		return "RpcFail"
	case "head":
		return "Head " + vgen.Z(e.H)
	case "handler":
		return "Handler " + vgen.Bool(e.Ok)
	case "store":
		return "Store " + vgen.Bool(e.Ok)
	case "crash":
		return "Crash"
	}
	panic("event " + e.T)
}

func CoqOut(o scanstack.Out) string {
	switch o.T {
	case "start":
		return "OStart " + optZ(o.Cur)
	case "handle":
		return "OHandle " + vgen.Nat(o.K) + " " + vgen.Z(o.S) + " " + vgen.Z(o.E) + " " + vgen.Bool(o.Ok)
	case "store":
		return "OStore " + vgen.Z(o.V) + " " + vgen.Bool(o.Ok)
	}
	panic("out " + o.T)
}

func coq(c Case, o Obs) string {
	if c.Type == "apprun" {
		return coqApp(c, o)
	}
	if c.Type == "reads" {
		return coqReads(c, o)
	}
	if c.Type == "propagate" {
		return "Propagate " + vgen.Bool(c.Point == "") + " " + vgen.Bool(o.Err)
	}
	g := c.Cfg
	return "Scan " + coqKind(g.Kind) + " " + vgen.Z(g.Ival) + " " + vgen.Z(g.Conf) + " " + vgen.Nat(g.NH) + " " + vgen.Z(g.CStart) +
		" " + vgen.Bool(g.Latest) + " " + vgen.Bool(g.Fresh) + " " + optZ(g.Stored) + "\n    " +
		coqEvs(c.Evs, o.Died) + "\n    " + vgen.ListOf(o.Outs, CoqOut)
}

func main() {
	if dir := os.Getenv(appEnv); dir != "" {
		appChild(dir)
		return
	}
	wiring, badKinds = scanstack.LoadWiringLenient()
	for k, err := range badKinds {
		fmt.Fprintf(os.Stderr, "c05: the start-block wiring of app.go (%s) is not one this harness can compose: %v\n", k, err)
	}
	loadStartCalls()
	vgen.Main(vgen.Spec[Case, Obs]{
		Property:  "C05",
		RunModule: "C05",
		Gen:       gen,
		Run:       run,
		Coq:       coq,
		ShardSize: 60,
		Kind: func(c Case) string {
			if c.Type == "apprun" {
				return "apprun-" + c.Cfg.Kind
			}
			if c.Type == "reads" {
				if c.Point == "" {
					return "reads-" + c.Handler
				}
				return "reads-" + c.Handler + "@" + c.Point
			}
			if c.Type == "propagate" {
				if c.Point == "" {
					return "propagate-" + c.Handler
				}
				if c.Panic {
					return "propagate-" + c.Handler + "@" + c.Point + "!panic"
				}
				return "propagate-" + c.Handler + "@" + c.Point
			}
			if c.Grid {
				return "scan-" + c.Cfg.Kind + "-startgrid"
			}
			for _, e := range c.Evs {
				if e.Panic {
					return "scan-" + c.Cfg.Kind + "-panic"
				}
			}
			return "scan-" + c.Cfg.Kind
		},
		NonTrivial: func(c Case, o Obs) bool {
			if c.Type == "apprun" {
				return o.AppSeen
			}
			if c.Type == "reads" {
				return o.Fired || c.E > c.S || len(c.Items) > 0
			}
			if c.Type == "propagate" {
				return c.Point != ""
			}
			for _, x := range o.Outs {
				if x.T == "store" {
					return true
				}
			}
			return false
		},
		Rule: "environment scripts (RPC failures, heads, per-handler results, store results, 0..4 crash points, inapplicable events) for the real EVM/Substrate/BTC listener stacks wired per the extracted app.go record, intervals 1..7, confirmations 0..12, 1..3 handlers, configured starts aligned/unaligned/large, stored cursor absent/behind/ahead, latest/fresh flags, GetStartBlock given the start block and the two flags by the expressions extracted from app.go (directly, through local names or helper functions); the complete start-block grid per chain kind ((latest, fresh) x stored cursor absent/below/at/above the configured start block x configured start 0/aligned/unaligned x interval 1/3 x head near/far, two ranges, a crash, two more ranges); a failing handler-0 event fails one of the real deposit handler's node reads (BTC GetBlockHash / GetBlockVerboseTx, EVM eth_getLogs under the real events.Listener, Substrate FetchEvents) with an error class drawn from the catalogue; a sweep of short scans in which the deposit handler at each node read, a later Bitcoin handler, the Bitcoin head read or block-store write fails once with each error class; every failing place also failing by a Go panic instead of an error (generated scripts and a sweep: deposit handler inside each node read, later handlers, head read, store write; listener death or survival observed); plus every repository event handler (EVM deposit/retryV1/retryV2/keygen/frost-keygen/refresh over the real events.Listener, Substrate fungible/retry/system-update, BTC fungible) x every node read it depends on x every error class of the catalogue and, for the range-level reads, a panic (plain, wrapped, *btcjson.RPCError codes, io.EOF, context, ethereum.NotFound, JSON-RPC error objects, HTTP/transport errors, texts); plus one HandleEvents call of each of these handlers over a node that records the arguments of every read and serves ranges as the real clients do (reversed bounds: nothing, no error; unknown hashes: error): ranges of 1..7 blocks at small / aligned / large heights holding 0..4 events (deposits, logs, retry events with 0..2 deposits in the retried block, runtime-upgrade events, foreign events), without fault and with the node unable to serve block B for every B of the range; Substrate retry handler with 1..4 retry events, the retried block of EACH of them in turn unreadable at GetBlockHash / GetBlockEvents, a block named twice, events not final yet, head reads failing (judge: a failed read is reported, a call that reports success has asked for every block of its range); distinct = distinct input JSON; non-trivial = a scan in which at least one range was fully handled and StoreBlock was reached, or a failing read, or a range of several blocks / with events",
	})
}
