// The arguments app.Run hands to blockstore.GetStartBlock(domainID, startBlock, latest, fresh), per
// chain kind, as tools/wiring2coq extracted them from app/app.go ("start_call" in
// coq/Gen/C05_Wiring.json; the Coq side evaluates the same record: Gen/C05_Wiring.v start_of,
// Model/C05.v sc_cfg).  The runner computes the two flags and the start block by these expressions
// and hands them to scanstack, whose lifetime() passes them to the REAL GetStartBlock in its
// parameter order - so the real stack is started the way app.go starts it, whatever app.go (or a
// helper function the call goes through) makes of the configuration.  The case (input) and the judge
// keep the configuration the operator wrote.
package main

import (
	"bytes"
	"encoding/json"
	"fmt"
	"os"
	"path/filepath"

	"verifharness/scanstack"
)

type startCall struct {
	ID        string          `json:"id"`
	Block     json.RawMessage `json:"block"`
	Latest    json.RawMessage `json:"latest"`
	Fresh     json.RawMessage `json:"fresh"`
	Via       string          `json:"via"`
	Canonical bool            `json:"canonical"`
}

var startCalls map[string]*startCall

func loadStartCalls() {
	dir := os.Getenv("VERIF_DIR")
	if dir == "" {
		dir = "/verif"
	}
	b, err := os.ReadFile(filepath.Join(dir, "coq", "Gen", "C05_Wiring.json"))
	if err != nil {
		panic("c05: wiring record missing: " + err.Error())
	}
	var w map[string]struct {
		ReadsStore bool       `json:"reads_store"`
		StartCall  *startCall `json:"start_call"`
	}
	if err := json.Unmarshal(b, &w); err != nil {
		panic(err)
	}
	startCalls = map[string]*startCall{}
	for k, r := range w {
		if r.StartCall == nil {
			if r.ReadsStore { // a translator that says the store is read also says with which arguments
				fmt.Fprintf(os.Stderr, "c05: the wiring record of %s has no start_call\n", k)
				os.Exit(3)
			}
			continue
		}
		// fail closed on anything this evaluator does not know (the translator reports such shapes as
		// unrecognised itself; this is the second line)
		if r.StartCall.ID != "own" {
			fmt.Fprintf(os.Stderr, "c05: GetStartBlock of %s reads the cursor of domain %q\n", k, r.StartCall.ID)
			os.Exit(3)
		}
		if _, err := blockVal(r.StartCall.Block, 0); err != nil {
			fmt.Fprintf(os.Stderr, "c05: start_call of %s: %v\n", k, err)
			os.Exit(3)
		}
		for _, e := range []json.RawMessage{r.StartCall.Latest, r.StartCall.Fresh} {
			if _, err := flagVal(e, false, false); err != nil {
				fmt.Fprintf(os.Stderr, "c05: start_call of %s: %v\n", k, err)
				os.Exit(3)
			}
		}
		startCalls[k] = r.StartCall
	}
}

// flagVal evaluates a flag expression: "latest" | "fresh" | true | false | {"not": e} |
// {"and"|"or"|"eq"|"ne": [a, b]}   (Model/C05.v flag_val)
func flagVal(e json.RawMessage, latest, fresh bool) (bool, error) {
	var s string
	if json.Unmarshal(e, &s) == nil {
		switch s {
		case "latest":
			return latest, nil
		case "fresh":
			return fresh, nil
		}
		return false, fmt.Errorf("unknown flag source %q", s)
	}
	var b bool
	if json.Unmarshal(e, &b) == nil {
		return b, nil
	}
	var m map[string]json.RawMessage
	if json.Unmarshal(e, &m) != nil || len(m) != 1 {
		return false, fmt.Errorf("unknown flag expression %s", string(e))
	}
	for op, arg := range m {
		if op == "not" {
			v, err := flagVal(arg, latest, fresh)
			return !v, err
		}
		var ab []json.RawMessage
		if json.Unmarshal(arg, &ab) != nil || len(ab) != 2 {
			return false, fmt.Errorf("unknown flag expression %s", string(e))
		}
		x, err := flagVal(ab[0], latest, fresh)
		if err != nil {
			return false, err
		}
		y, err := flagVal(ab[1], latest, fresh)
		if err != nil {
			return false, err
		}
		switch op {
		case "and":
			return x && y, nil
		case "or":
			return x || y, nil
		case "eq":
			return x == y, nil
		case "ne":
			return x != y, nil
		}
	}
	return false, fmt.Errorf("unknown flag expression %s", string(e))
}

// blockVal: "configured" | {"lit": n}   (Model/C05.v block_val)
func blockVal(e json.RawMessage, configured int64) (int64, error) {
	var s string
	if json.Unmarshal(e, &s) == nil {
		if s == "configured" {
			return configured, nil
		}
		return 0, fmt.Errorf("unknown start block source %q", s)
	}
	var m map[string]int64
	if json.Unmarshal(e, &m) == nil && len(m) == 1 {
		if v, ok := m["lit"]; ok && v >= 0 {
			return v, nil
		}
	}
	return 0, fmt.Errorf("unknown start block expression %s", string(e))
}

// wired: the configuration as app.go presents it to GetStartBlock (Model/C05.v sc_cfg).
func wired(cfg scanstack.Cfg) scanstack.Cfg {
	sc := startCalls[cfg.Kind]
	if sc == nil {
		return cfg
	}
	out := cfg
	out.CStart, _ = blockVal(sc.Block, cfg.CStart)
	out.Latest, _ = flagVal(sc.Latest, cfg.Latest, cfg.Fresh)
	out.Fresh, _ = flagVal(sc.Fresh, cfg.Latest, cfg.Fresh)
	return out
}

// startGrid: the start-block derivation on a complete small grid, per chain kind:
// (latest, fresh) x stored cursor absent / below / at / above the configured start block x configured
// start block 0 / aligned / unaligned x interval 1 / 3 x head at / far above every candidate start.
// Each relayer handles two ranges, is killed, restarts from the block store and handles two more
// (so a start-block rule that is wrong "only" on every restart shows as well).
func startGrid() []Case {
	var out []Case
	for _, kind := range kinds {
		for _, ival := range []int64{1, 3} {
			if kind == "btc" && ival != 1 {
				continue
			}
			for _, cstart := range []int64{0, 30, 40} {
				for _, rel := range []string{"absent", "below", "at", "above"} {
					var stored *int64
					switch rel {
					case "below":
						v := cstart - 7
						if v < 0 {
							continue
						}
						stored = &v
					case "at":
						v := cstart
						stored = &v
					case "above":
						v := cstart + 13
						stored = &v
					}
					for _, lf := range [][2]bool{{false, false}, {false, true}, {true, false}, {true, true}} {
						for _, far := range []bool{false, true} {
							cfg := scanstack.Cfg{Kind: kind, Ival: ival, Conf: 1, NH: 1, CStart: cstart, Latest: lf[0], Fresh: lf[1], Stored: stored}
							head := cstart + 13 + 4*ival + 2 // every candidate start has two ready ranges below it
							if far {
								head += 500
							}
							// the head moves on before every round, so a relayer that starts at the head gets
							// ranges to handle too
							var evs []scanstack.Ev
							round := func() {
								head += 2*ival + 2
								evs = append(evs, scanstack.Ev{T: "head", H: head}, scanstack.Ev{T: "handler", Ok: true}, scanstack.Ev{T: "store", Ok: true})
							}
							evs = append(evs, scanstack.Ev{T: "head", H: head})
							round()
							round()
							evs = append(evs, scanstack.Ev{T: "crash"}, scanstack.Ev{T: "head", H: head})
							round()
							round()
							out = append(out, Case{Type: "scan", Cfg: cfg, Evs: evs, Grid: true})
						}
					}
				}
			}
		}
	}
	return out
}

// describeStartCall: "" for the customary call.
func describeStartCall(kind string) string {
	sc := startCalls[kind]
	if sc == nil || sc.Canonical {
		return ""
	}
	compact := func(m json.RawMessage) string {
		var b bytes.Buffer
		if json.Compact(&b, m) != nil {
			return string(m)
		}
		return b.String()
	}
	d := fmt.Sprintf("app.go (%s): GetStartBlock(id, startBlock = %s, latest = %s, fresh = %s)", kind, compact(sc.Block), compact(sc.Latest), compact(sc.Fresh))
	if sc.Via != "" {
		d += " through " + sc.Via
	}
	return d
}
