package main

// Round 4: one HandleEvents call of every repository event handler over a node that CHECKS and RECORDS
// the arguments of every read and that serves a range the way the real clients do.
//
//   - a range read (Substrate connection.FetchEvents, eth_getLogs) is recorded with the bounds it was
//     given; bounds with from > to yield nothing and no error (sygma-core's connection loops
//     `for i := from; i <= to`; a log filter over an empty interval matches nothing); a read for
//     another contract than the handler's is not credited;
//   - Bitcoin: a block counts as asked for when its transactions were fetched with the hash the
//     node returned for that height (an unknown hash is an error, as on a node);
//   - Substrate GetBlockEvents / GetBlock for a hash the node never handed out is an error;
//   - the fault is "the node cannot serve block B" for one kind of read (Point): every range read
//     whose interval holds B fails, GetBlockHash(B) fails, GetBlockEvents(hash of B) fails, ... - as
//     often as it is asked (a handler that retries does not get through either).  A range can hold
//     several retry events (each with its own GetBlockHash / GetBlockEvents), several logs, several
//     deposits: B is the block of ANY of them, not only of the last one.
//
// Observed: did a read fail (fired), the credited range reads (asked), did the handler return an
// error.  Judge (Coq, reads_ok): fired -> error, and no error -> the asked ranges cover [S, E].

import (
	"context"
	"errors"
	"fmt"
	"math/big"
	"strings"
	"time"

	btcconfig "github.com/ChainSafe/sygma-relayer/chains/btc/config"
	btclistener "github.com/ChainSafe/sygma-relayer/chains/btc/listener"
	"github.com/ChainSafe/sygma-relayer/chains/evm/calls/consts"
	evmevents "github.com/ChainSafe/sygma-relayer/chains/evm/calls/events"
	"github.com/ChainSafe/sygma-relayer/chains/evm/listener/eventHandlers"
	sublistener "github.com/ChainSafe/sygma-relayer/chains/substrate/listener"
	"github.com/ChainSafe/sygma-relayer/relayer/transfer"
	"github.com/btcsuite/btcd/btcjson"
	"github.com/btcsuite/btcd/btcutil"
	"github.com/btcsuite/btcd/chaincfg/chainhash"
	"github.com/centrifuge/go-substrate-rpc-client/v4/registry"
	"github.com/centrifuge/go-substrate-rpc-client/v4/registry/parser"
	"github.com/centrifuge/go-substrate-rpc-client/v4/types"
	"github.com/ethereum/go-ethereum/accounts/abi"
	"github.com/ethereum/go-ethereum/common"
	ethTypes "github.com/ethereum/go-ethereum/core/types"
	"github.com/rs/zerolog"
	"github.com/sygmaprotocol/sygma-core/relayer/message"

	"verifharness/scanstack"
	"verifharness/vgen"
)

// Item is one event of the range of a `reads` case.
type Item struct {
	Blk int64 `json:"blk"` // the block of the range that holds it
	// retry (Substrate): the retried block; NotFinal: that block is above the finalized head (the
	// handler skips the event without reading anything)
	Retried  int64 `json:"retried,omitempty"`
	NotFinal bool  `json:"notfinal,omitempty"`
	Deps     int   `json:"deps,omitempty"`  // retry: deposits in the retried block
	Other    bool  `json:"other,omitempty"` // an event / log the handler is not interested in
}

var (
	readsAddr  = common.HexToAddress("0x00000000000000000000000000000000000000b1")
	bridgeABI  = mustABI(consts.BridgeABI)
	retryV2ABI = mustABI(consts.RetryABI)
)

func mustABI(s string) abi.ABI {
	a, err := abi.JSON(strings.NewReader(s))
	if err != nil {
		panic(err)
	}
	return a
}

// node is the recording node of one case.
type node struct {
	c     Case
	head  int64 // finalized head (Substrate) / latest block
	fired bool
	asked [][2]int64
	bad   int // reads with arguments no correct handler produces (unknown hash, foreign contract)
	// Bitcoin / Substrate: hashes handed out
	btcHash map[chainhash.Hash]int64
	subHash map[types.Hash]int64
	res     []btcconfig.Resource
	fee     btcutil.Address
}

const tooWide = 100000

func (n *node) fail(point string, blk int64) error {
	if n.c.Point == point && (n.c.Blk == nil || *n.c.Blk == blk) {
		n.fired = true
		return scanstack.ErrClass(n.c.EC)
	}
	return nil
}

// rangeRead: the common part of FetchEvents / FetchEventLogs.  serve(i) is called for every block the
// node is really asked for.
func (n *node) rangeRead(point string, a, b *big.Int, credited bool, serve func(i int64)) error {
	if a == nil || b == nil || !a.IsInt64() || !b.IsInt64() {
		n.bad++
		return errors.New("invalid block number")
	}
	s, e := a.Int64(), b.Int64()
	if credited {
		n.asked = append(n.asked, [2]int64{s, e})
	} else {
		n.bad++
	}
	if e-s > tooWide {
		return errors.New("block range too wide")
	}
	for i := s; i <= e; i++ {
		if i < 0 || i > n.head {
			return fmt.Errorf("block %d not found", i)
		}
		if err := n.fail(point, i); err != nil {
			return err
		}
		serve(i)
	}
	return nil
}

// ---- EVM ---------------------------------------------------------------------------------------------

type readsEvmClient struct {
	n   *node
	sig string // the event the handler under test is about: only that one gets the case's logs
}

func (c readsEvmClient) FetchEventLogs(ctx context.Context, addr common.Address, event string, a, b *big.Int) ([]ethTypes.Log, error) {
	var out []ethTypes.Log
	err := c.n.rangeRead("FetchEventLogs", a, b, addr == readsAddr, func(i int64) {
		if event != c.sig {
			return
		}
		for k, it := range c.n.c.Items {
			if it.Blk != i || it.Other {
				continue
			}
			switch event {
			case string(evmevents.DepositSig):
				lg := scanstack.DepositLog(bridgeABI, i, uint8(2+k%3), uint64(k+1), [32]byte{1})
				lg.Address, lg.TxHash, lg.Index = readsAddr, common.BigToHash(big.NewInt(int64(0x100+k))), uint(k)
				out = append(out, lg)
			case string(evmevents.RetryV2Sig):
				data, err := retryV2ABI.Events["Retry"].Inputs.NonIndexed().Pack(uint8(3), uint8(2), big.NewInt(int64(k+1)), [32]byte{31: 1})
				if err != nil {
					panic(err)
				}
				out = append(out, ethTypes.Log{Address: readsAddr, Topics: []common.Hash{evmevents.RetryV2Sig.GetTopic()}, Data: data, BlockNumber: uint64(i)})
			case string(evmevents.RetryV1Sig):
				data, err := bridgeABI.Events["Retry"].Inputs.NonIndexed().Pack(fmt.Sprintf("0x%064x", k+1))
				if err != nil {
					panic(err)
				}
				out = append(out, ethTypes.Log{Address: readsAddr, Topics: []common.Hash{evmevents.RetryV1Sig.GetTopic()}, Data: data, BlockNumber: uint64(i)})
			}
		}
	})
	if err != nil {
		return nil, err
	}
	return out, nil
}

// the receipt lookup of a RetryV1 event and the block-timestamp lookup are reads whose failure the
// code tolerates by design (see propagatePoints): served without fault
func (c readsEvmClient) WaitAndReturnTxReceipt(common.Hash) (*ethTypes.Receipt, error) {
	return &ethTypes.Receipt{BlockNumber: big.NewInt(1), Logs: nil}, nil
}
func (c readsEvmClient) LatestBlock() (*big.Int, error) { return big.NewInt(c.n.head), nil }
func (c readsEvmClient) BlockByNumber(ctx context.Context, n *big.Int) (*ethTypes.Block, error) {
	return ethTypes.NewBlockWithHeader(&ethTypes.Header{Number: n, Time: 1700000000}), nil
}

type plainEvmDepositHandler struct{}

func (plainEvmDepositHandler) HandleDeposit(sourceID, destID uint8, nonce uint64, resourceID [32]byte, calldata, handlerResponse []byte, messageID string, timestamp time.Time) (*message.Message, error) {
	return message.NewMessage(sourceID, destID, transfer.TransferMessageData{DepositNonce: nonce, ResourceId: resourceID}, messageID, transfer.TransferMessageType, timestamp), nil
}

// ---- Substrate -----------------------------------------------------------------------------------------

type readsSub struct{ n *node }

func subHashOf(blk int64, tag byte) types.Hash {
	var h types.Hash
	h[0] = tag
	big.NewInt(blk).FillBytes(h[8:16])
	return h
}

func (c readsSub) GetFinalizedHead() (types.Hash, error) {
	if err := c.n.fail("GetFinalizedHead", c.n.head); err != nil {
		return types.Hash{}, err
	}
	h := subHashOf(c.n.head, 0xf1)
	c.n.subHash[h] = c.n.head
	return h, nil
}

func (c readsSub) GetBlock(h types.Hash) (*types.SignedBlock, error) {
	blk, ok := c.n.subHash[h]
	if !ok {
		c.n.bad++
		return nil, errors.New("block not found")
	}
	if err := c.n.fail("GetBlock", blk); err != nil {
		return nil, err
	}
	return &types.SignedBlock{Block: types.Block{Header: types.Header{Number: types.BlockNumber(uint32(blk))}}}, nil
}

func (c readsSub) GetBlockHash(blk uint64) (types.Hash, error) {
	if blk > uint64(c.n.head) {
		c.n.bad++
		return types.Hash{}, errors.New("block not found")
	}
	if err := c.n.fail("GetBlockHash", int64(blk)); err != nil {
		return types.Hash{}, err
	}
	h := subHashOf(int64(blk), 0xb1)
	c.n.subHash[h] = int64(blk)
	return h, nil
}

func subDeposit(dest uint8, nonce uint64) *parser.Event {
	return &parser.Event{Name: "SygmaBridge.Deposit", Fields: registry.DecodedFields{
		&registry.DecodedField{Name: "dest_domain_id", Value: types.NewU8(dest)},
		&registry.DecodedField{Name: "resource_id", Value: types.Bytes32{1}},
		&registry.DecodedField{Name: "deposit_nonce", Value: types.NewU64(nonce)},
		&registry.DecodedField{Name: "sygma_traits_TransferType", Value: types.NewU8(0)},
		&registry.DecodedField{Name: "deposit_data", Value: []byte{}},
		&registry.DecodedField{Name: "handler_response", Value: [1]byte{0}},
	}}
}

func (c readsSub) GetBlockEvents(h types.Hash) ([]*parser.Event, error) {
	blk, ok := c.n.subHash[h]
	if !ok {
		c.n.bad++
		return nil, errors.New("block not found")
	}
	if err := c.n.fail("GetBlockEvents", blk); err != nil {
		return nil, err
	}
	var out []*parser.Event
	for k, it := range c.n.c.Items {
		if it.Retried == blk && !it.Other {
			for d := 0; d < it.Deps; d++ {
				out = append(out, subDeposit(uint8(2+d%2), uint64(100*k+d+1)))
			}
			break
		}
	}
	return out, nil
}

// the metadata refresh after a runtime upgrade is a read of the node too
func (c readsSub) UpdateMetatdata() error { return c.n.fail("UpdateMetatdata", c.n.head) }

func (c readsSub) FetchEvents(a, b *big.Int) ([]*parser.Event, error) {
	var out []*parser.Event
	err := c.n.rangeRead("FetchEvents", a, b, true, func(i int64) {
		for k, it := range c.n.c.Items {
			if it.Blk != i {
				continue
			}
			if it.Other {
				out = append(out, &parser.Event{Name: "System.ExtrinsicSuccess"})
				continue
			}
			switch c.n.c.Handler {
			case "sub-retry":
				out = append(out, &parser.Event{Name: "SygmaBridge.Retry", Fields: registry.DecodedFields{
					&registry.DecodedField{Name: "deposit_on_block_height", Value: types.NewU128(*big.NewInt(it.Retried))},
					&registry.DecodedField{Name: "dest_domain_id", Value: types.NewU8(2)},
				}})
			case "sub-sysupdate":
				out = append(out, &parser.Event{Name: "ParachainSystem.ValidationFunctionApplied"})
			default:
				out = append(out, subDeposit(uint8(2+k%3), uint64(k+1)))
			}
		}
	})
	if err != nil {
		return nil, err
	}
	return out, nil
}

type plainSubDepositHandler struct{}

func (plainSubDepositHandler) HandleDeposit(sourceID uint8, destID types.U8, nonce types.U64, resourceID types.Bytes32, calldata []byte, transferType types.U8, messageID string, timestamp time.Time) (*message.Message, error) {
	return message.NewMessage(sourceID, uint8(destID), transfer.TransferMessageData{DepositNonce: uint64(nonce), ResourceId: resourceID}, messageID, transfer.TransferMessageType, timestamp), nil
}

// ---- Bitcoin -------------------------------------------------------------------------------------------

type readsBtc struct{ n *node }

func (c readsBtc) GetRawTransactionVerbose(*chainhash.Hash) (*btcjson.TxRawResult, error) {
	return nil, errors.New("unused")
}
func (c readsBtc) GetBestBlockHash() (*chainhash.Hash, error) { return &chainhash.Hash{0xff}, nil }
func (c readsBtc) GetBlockHash(blk int64) (*chainhash.Hash, error) {
	if blk < 0 || blk > c.n.head {
		c.n.bad++
		return nil, &btcjson.RPCError{Code: btcjson.ErrRPCOutOfRange, Message: "Block height out of range"}
	}
	if err := c.n.fail("GetBlockHash", blk); err != nil {
		return nil, err
	}
	var h chainhash.Hash
	h[0] = 0xb1
	big.NewInt(blk).FillBytes(h[8:16])
	c.n.btcHash[h] = blk
	return &h, nil
}
func (c readsBtc) GetBlockVerboseTx(h *chainhash.Hash) (*btcjson.GetBlockVerboseTxResult, error) {
	if h == nil {
		c.n.bad++
		return nil, errors.New("nil hash")
	}
	blk, ok := c.n.btcHash[*h]
	if !ok {
		c.n.bad++
		return nil, &btcjson.RPCError{Code: btcjson.ErrRPCBlockNotFound, Message: "Block not found"}
	}
	if err := c.n.fail("GetBlockVerboseTx", blk); err != nil {
		return nil, err
	}
	c.n.asked = append(c.n.asked, [2]int64{blk, blk})
	out := &btcjson.GetBlockVerboseTxResult{Height: blk}
	for k, it := range c.n.c.Items {
		if it.Blk != blk {
			continue
		}
		pay := []int{0}
		if it.Other {
			pay = nil
		}
		out.Tx = append(out.Tx, scanstack.BtcTx(scanstack.TxHash(uint64(k+1)), uint8(2+k%3), pay, c.n.res, c.n.fee))
	}
	return out, nil
}

// ---- driving -------------------------------------------------------------------------------------------

func driveReads(c Case) Obs {
	n := &node{c: c, btcHash: map[chainhash.Hash]int64{}, subHash: map[types.Hash]int64{}}
	n.head = c.E + 30
	for _, it := range c.Items {
		if !it.NotFinal && it.Retried+5 > n.head {
			n.head = it.Retried + 5
		}
	}
	logC := zerolog.Nop().With()
	ch := make(chan []*message.Message, 256)
	s, e := big.NewInt(c.S), big.NewInt(c.E)
	evm := func(sig evmevents.EventSig) *evmevents.Listener {
		return evmevents.NewListener(readsEvmClient{n: n, sig: string(sig)})
	}
	var err error
	switch c.Handler {
	case "evm-deposit":
		err = eventHandlers.NewDepositEventHandler(evm(evmevents.DepositSig), plainEvmDepositHandler{}, readsAddr, 1, ch).HandleEvents(s, e)
	case "evm-retryv1":
		err = eventHandlers.NewRetryV1EventHandler(logC, evm(evmevents.RetryV1Sig), plainEvmDepositHandler{}, nil, readsAddr, 1, big.NewInt(1), ch).HandleEvents(s, e)
	case "evm-retryv2":
		err = eventHandlers.NewRetryV2EventHandler(logC, evm(evmevents.RetryV2Sig), readsAddr, 1, ch).HandleEvents(s, e)
	case "evm-keygen":
		err = eventHandlers.NewKeygenEventHandler(logC, evm("none"), nil, nil, nil, noKeyshare{}, readsAddr, 2).HandleEvents(s, e)
	case "evm-frostkeygen":
		err = eventHandlers.NewFrostKeygenEventHandler(logC, evm("none"), nil, nil, nil, nil, readsAddr, 2).HandleEvents(s, e)
	case "evm-refresh":
		err = eventHandlers.NewRefreshEventHandler(logC, nil, nil, evm("none"), nil, nil, nil, nil, nil, nil, readsAddr).HandleEvents(s, e)
	case "sub-fungible":
		err = sublistener.NewFungibleTransferEventHandler(logC, 1, plainSubDepositHandler{}, ch, readsSub{n}).HandleEvents(s, e)
	case "sub-retry":
		err = sublistener.NewRetryEventHandler(logC, readsSub{n}, plainSubDepositHandler{}, 1, ch).HandleEvents(s, e)
	case "sub-sysupdate":
		err = sublistener.NewSystemUpdateEventHandler(readsSub{n}).HandleEvents(s, e)
	case "btc":
		n.res, n.fee = scanstack.BtcResources([]byte{1})
		err = btclistener.NewFungibleTransferEventHandler(logC, 1, &btclistener.BtcDepositHandler{}, ch, readsBtc{n},
			map[[32]byte]btcconfig.Resource{n.res[0].ResourceID: n.res[0]}, n.fee).HandleEvents(s)
	default:
		panic("handler " + c.Handler)
	}
	o := Obs{Err: err != nil, Fired: n.fired, Asked: n.asked, Bad: n.bad}
	if o.Asked == nil {
		o.Asked = [][2]int64{}
	}
	if n.fired {
		o.Name = scanstack.ErrClassName(c.EC)
	}
	return o
}

// ---- generation ----------------------------------------------------------------------------------------

var readsHandlers = []struct {
	Name  string
	Point string // the range-level read
	Items bool   // the range may hold events of interest (handlers that start a TSS process on one: no)
}{
	{"evm-deposit", "FetchEventLogs", true}, {"evm-retryv1", "FetchEventLogs", true}, {"evm-retryv2", "FetchEventLogs", true},
	{"evm-keygen", "FetchEventLogs", false}, {"evm-frostkeygen", "FetchEventLogs", false}, {"evm-refresh", "FetchEventLogs", false},
	{"sub-fungible", "FetchEvents", true}, {"sub-sysupdate", "FetchEvents", true}, {"sub-retry", "FetchEvents", true},
	{"btc", "", true},
}

func readsRange(r *vgen.Rng, btc bool, width int64) (int64, int64) {
	var s int64
	switch r.Intn(4) {
	case 0:
		s = int64(r.Intn(30))
	case 1:
		s = width * int64(r.Intn(1000))
	case 2:
		s = int64(r.U64() % (1 << 30))
	default:
		s = 100 + int64(r.Intn(100000))
	}
	if btc {
		return s, s
	}
	return s, s + width - 1
}

func blkp(b int64) *int64 { return &b }

func genReads(r *vgen.Rng, tier string) []Case {
	var out []Case
	nec := scanstack.NumErrClasses()
	reps := 1
	if tier == "thorough" {
		reps = 12
	}
	for rep := 0; rep < reps; rep++ {
		for _, h := range readsHandlers {
			btc := h.Name == "btc"
			widths := []int64{1, 2, 5, int64(r.Range(3, 7))}
			if btc {
				widths = []int64{1, 1}
			}
			for _, w := range widths {
				s, e := readsRange(r, btc, w)
				mk := func() Case {
					c := Case{Type: "reads", Handler: h.Name, S: s, E: e}
					if h.Items {
						for i, n := 0, r.Intn(5); i < n; i++ {
							it := Item{Blk: s + int64(r.Intn(int(w))), Other: r.Chance(1, 4)}
							if h.Name == "sub-retry" {
								it.Retried, it.Deps = int64(r.Intn(int(s)+1)), r.Intn(3)
							}
							c.Items = append(c.Items, it)
						}
					}
					return c
				}
				// no fault: the whole range is asked for
				out = append(out, mk(), mk())
				// the node cannot serve block B of the range, for every B
				if !btc {
					for b := s; b <= e; b++ {
						c := mk()
						c.Point, c.Blk, c.EC = h.Point, blkp(b), r.Intn(nec)
						out = append(out, c)
					}
				} else {
					for _, pt := range []string{"GetBlockHash", "GetBlockVerboseTx"} {
						c := mk()
						c.Point, c.Blk, c.EC = pt, blkp(s), r.Intn(nec)
						out = append(out, c)
					}
				}
			}
		}
		// Substrate retry: 1..4 retry events per range, the node failing at the retried block of EVERY
		// one of them in turn (GetBlockHash, GetBlockEvents), the others being served; retried blocks
		// named twice; events that are not final yet; other events in between.  And the head reads.
		for nev := 1; nev <= 4; nev++ {
			for _, pt := range []string{"GetBlockHash", "GetBlockEvents"} {
				for j := 0; j < nev; j++ {
					w := int64(vgen.Pick(r, []int{1, 5, 5, 3}))
					s, e := readsRange(r, false, w)
					s, e = s+50, e+50
					c := Case{Type: "reads", Handler: "sub-retry", S: s, E: e, Point: pt, EC: r.Intn(nec)}
					used := map[int64]bool{}
					for k := 0; k < nev; k++ {
						ret := int64(r.Intn(int(s)))
						for used[ret] {
							ret = int64(r.Intn(int(s)))
						}
						used[ret] = true
						c.Items = append(c.Items, Item{Blk: s + int64(r.Intn(int(w))), Retried: ret, Deps: r.Intn(3)})
					}
					// the events arrive in block order
					for a := 1; a < len(c.Items); a++ {
						for b := a; b > 0 && c.Items[b].Blk < c.Items[b-1].Blk; b-- {
							c.Items[b], c.Items[b-1] = c.Items[b-1], c.Items[b]
						}
					}
					c.Blk = blkp(c.Items[j].Retried)
					switch r.Intn(4) {
					case 0: // the failing block is named by a second retry event too
						c.Items = append(c.Items, Item{Blk: e, Retried: c.Items[j].Retried, Deps: 1})
					case 1: // a retry event that is not final yet and other events around
						at := r.Intn(len(c.Items) + 1)
						nf := Item{Blk: s, Retried: e + 1000, NotFinal: true}
						if at < len(c.Items) {
							nf.Blk = c.Items[at].Blk
						} else {
							nf.Blk = e
						}
						c.Items = append(c.Items[:at], append([]Item{nf}, c.Items[at:]...)...)
					case 2:
						at := r.Intn(len(c.Items) + 1)
						ot := Item{Blk: e, Other: true}
						if at < len(c.Items) {
							ot.Blk = c.Items[at].Blk
						}
						c.Items = append(c.Items[:at], append([]Item{ot}, c.Items[at:]...)...)
					}
					out = append(out, c)
				}
			}
		}
		// Substrate system-update handler: 1..3 runtime-upgrade events, the metadata cannot be fetched
		for nev := 1; nev <= 3; nev++ {
			s, e := readsRange(r, false, int64(vgen.Pick(r, []int{1, 5})))
			c := Case{Type: "reads", Handler: "sub-sysupdate", S: s, E: e, Point: "UpdateMetatdata", EC: r.Intn(nec)}
			for k := 0; k < nev; k++ {
				c.Items = append(c.Items, Item{Blk: s + (e-s)*int64(k)/int64(nev)})
			}
			if r.Bool() {
				c.Items = append([]Item{{Blk: s, Other: true}}, c.Items...)
			}
			out = append(out, c)
		}
		for _, pt := range []string{"GetFinalizedHead", "GetBlock"} {
			for nev := 0; nev <= 2; nev++ {
				s, e := readsRange(r, false, 5)
				c := Case{Type: "reads", Handler: "sub-retry", S: s + 50, E: e + 50, Point: pt, EC: r.Intn(nec)}
				for k := 0; k < nev; k++ {
					c.Items = append(c.Items, Item{Blk: c.S + int64(k), Retried: int64(k + 1), Deps: 1})
				}
				out = append(out, c)
			}
		}
	}
	return out
}

func coqReads(c Case, o Obs) string {
	return "Reads " + vgen.Z(c.S) + " " + vgen.Z(c.E) + " " + vgen.Bool(o.Fired) + " " +
		vgen.ListOf(o.Asked, func(a [2]int64) string { return vgen.Pair(vgen.Z(a[0]), vgen.Z(a[1])) }) + " " + vgen.Bool(o.Err)
}
