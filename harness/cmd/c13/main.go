// C13 correspondence runner.  Drives the REAL
//   - comm/p2p.ConnectionGate (all five Intercept* methods),
//   - topology.TopologyProvider.NetworkTopology over a fake Fetcher,
//   - chains/evm/listener/eventHandlers.RefreshEventHandler.HandleEvents with a fake event listener,
//     the real TopologyStore on a temp file, the real ConnectionGate, p2p.LoadPeers on a fake host with
//     a real in-memory peerstore and a real tss.Coordinator (millisecond timeouts),
//   - comm/p2p.Libp2pCommunication.ProcessMessagesFromStream with payloads that claim a sender.
//
// Ciphertexts are built by the generator with the Go standard library's AES-CTR; the expected
// topology of every fetched body is recomputed here with the standard library and a reference parser.
package main

import (
	"bytes"
	"context"
	"crypto/aes"
	"crypto/cipher"
	"crypto/sha256"
	"encoding/hex"
	"encoding/json"
	"errors"
	"fmt"
	"io"
	"math/big"
	"net"
	"net/http"
	"os"
	"path/filepath"
	"runtime"
	"runtime/debug"
	"runtime/pprof"
	"sort"
	"strconv"
	"strings"
	"time"

	"github.com/ChainSafe/sygma-relayer/chains/evm/calls/events"
	"github.com/ChainSafe/sygma-relayer/chains/evm/listener/eventHandlers"
	"github.com/ChainSafe/sygma-relayer/comm"
	"github.com/ChainSafe/sygma-relayer/comm/elector"
	"github.com/ChainSafe/sygma-relayer/comm/p2p"
	"github.com/ChainSafe/sygma-relayer/config/relayer"
	"github.com/ChainSafe/sygma-relayer/keyshare"
	"github.com/ChainSafe/sygma-relayer/topology"
	"github.com/ChainSafe/sygma-relayer/tss"
	"github.com/ethereum/go-ethereum/common"
	"github.com/ethereum/go-ethereum/core/types"
	"github.com/libp2p/go-libp2p/core/host"
	"github.com/libp2p/go-libp2p/core/network"
	"github.com/libp2p/go-libp2p/core/peer"
	ma "github.com/multiformats/go-multiaddr"
	"github.com/rs/zerolog"

	"verifharness/p2pfakes"
	"verifharness/vgen"
)

const aesKey = "qwertyuiopasdfgh"
const nFamily = 8 // peer ids 0..7 may be members; 8 and 9 never are

// ---- case -------------------------------------------------------------------------------------------

type PeerSpec struct {
	ID   int    `json:"id"`
	Addr string `json:"addr,omitempty"` // transport part; "" = a bare /p2p/<id> address
}

type TopoSpec struct {
	Peers     []PeerSpec `json:"peers"`
	Threshold int        `json:"threshold"`
}

type Event struct {
	Hashes    []string `json:"hashes"`
	FetchFail bool     `json:"fetch_fail,omitempty"`
	BodyHex   string   `json:"body_hex"` // hex of the raw bytes the topology URL returns
	Note      string   `json:"note,omitempty"`
	// a LARGE body is not spelled out: it is rebuilt from this description (big.go); BodyHex is empty then
	Big *BigSpec `json:"big,omitempty"`
	// the response body hands out its first FirstRead bytes without ever crossing that offset in one
	// Read call (a reader that takes what one Read returns sees exactly the first part)
	FirstRead int `json:"first_read,omitempty"`
	// what the URL serves from the second Get of this event on (hex of the bytes); "" = the same body
	SecondBody string `json:"second_body,omitempty"`
}

type Case struct {
	Kind        string   `json:"kind"` // gate | refresh | prov | provseq | attr | hosts
	Topo        TopoSpec `json:"topo"` // gate: the gate's topology; refresh: the initial topology
	Probe       int      `json:"probe,omitempty"`
	StoreBroken bool     `json:"store_broken,omitempty"`
	Events      []Event  `json:"events,omitempty"`
	Hash        string   `json:"hash,omitempty"` // prov
	// refresh: the relayer starts without a topology file, as app.go does: the initial topology is
	// what the (long-lived) provider returns for the unchecked start-up call NetworkTopology("") when
	// the URL serves these bytes (hex); they encode Topo
	StartBody  string `json:"start_body,omitempty"`
	Remote     int    `json:"remote,omitempty"`
	ClaimKey   string `json:"claim_key,omitempty"`
	ClaimVal   string `json:"claim_val,omitempty"` // raw JSON value
	ClaimFirst bool   `json:"claim_first,omitempty"`
	Members    []int  `json:"members,omitempty"` // hosts: which of the three real hosts are in the topology
	Dialer     int    `json:"dialer,omitempty"`
	Target     int    `json:"target,omitempty"`
}

type PeerObs struct {
	ID   string `json:"id"`
	Addr string `json:"addr,omitempty"`
	Has  bool   `json:"has_addr"`
}
type TopoObs struct {
	Peers     []PeerObs `json:"peers"`
	Threshold int       `json:"threshold"`
}
type View struct {
	Stored  *TopoObs    `json:"stored"`
	Dial    []bool      `json:"dial"`
	Secured []bool      `json:"secured"`
	Pstore  [][2]string `json:"pstore"`
}
type StepObs struct {
	Code   int      `json:"code"` // 0 returned, 1 panicked
	Panic  string   `json:"panic,omitempty"`
	View   View     `json:"view"`
	Oracle *TopoObs `json:"expected_topology"` // reference decrypt+parse of the fetched body
	// large bodies: what the Coq side gets instead of the body, and the reference SHA-256 of the
	// served ciphertext (Go standard library over ALL served bytes)
	StandIn string `json:"stand_in,omitempty"`
	Digest  string `json:"served_sha256,omitempty"`
	Gets    int    `json:"gets,omitempty"`
}
type ProvObs struct {
	Code    int      `json:"code"` // 0 topology, 1 error, 2 panic
	Panic   string   `json:"panic,omitempty"`
	Topo    *TopoObs `json:"topo,omitempty"`
	Oracle  *TopoObs `json:"expected_topology,omitempty"`
	StandIn string   `json:"stand_in,omitempty"`
	Digest  string   `json:"served_sha256,omitempty"`
}
type Obs struct {
	Calls     []ProvObs `json:"calls,omitempty"`
	StartNote string    `json:"start_note,omitempty"`
	Bools     []bool    `json:"bools,omitempty"`
	Init      *View     `json:"init,omitempty"`
	Steps     []StepObs `json:"steps,omitempty"`
	Code      int       `json:"code,omitempty"`
	Panic     string    `json:"panic,omitempty"`
	Topo      *TopoObs  `json:"topo,omitempty"`
	Oracle    *TopoObs  `json:"expected_topology,omitempty"`
	StandIn   string    `json:"stand_in,omitempty"`
	Digest    string    `json:"served_sha256,omitempty"`
	Delivered bool      `json:"delivered,omitempty"`
	From      string    `json:"from,omitempty"`
	Connected bool      `json:"connected,omitempty"`
	DialErr   string    `json:"dial_err,omitempty"`
}

// ---- helpers ----------------------------------------------------------------------------------------

var pids []peer.ID

func pid(i int) peer.ID { return pids[i] }

func fullAddr(p PeerSpec) string { return p.Addr + "/p2p/" + pid(p.ID).String() }

func netTopo(t TopoSpec) *topology.NetworkTopology {
	nt := &topology.NetworkTopology{Threshold: t.Threshold}
	for _, p := range t.Peers {
		ai := &peer.AddrInfo{ID: pid(p.ID)}
		if p.Addr != "" {
			a, err := ma.NewMultiaddr(p.Addr)
			if err != nil {
				panic(err)
			}
			ai.Addrs = []ma.Multiaddr{a}
		}
		nt.Peers = append(nt.Peers, ai)
	}
	return nt
}

func obsTopo(nt *topology.NetworkTopology) *TopoObs {
	if nt == nil {
		return nil
	}
	o := &TopoObs{Threshold: nt.Threshold, Peers: []PeerObs{}}
	for _, p := range nt.Peers {
		po := PeerObs{ID: p.ID.String()}
		if len(p.Addrs) > 0 {
			po.Addr, po.Has = p.Addrs[0].String(), true
		}
		o.Peers = append(o.Peers, po)
	}
	return o
}

func plaintext(peers []string, threshold string) []byte {
	type rp struct {
		PeerAddress string `json:"peerAddress"`
	}
	raw := struct {
		Peers     []rp   `json:"peers"`
		Threshold string `json:"threshold"`
	}{Threshold: threshold, Peers: []rp{}}
	for _, a := range peers {
		raw.Peers = append(raw.Peers, rp{a})
	}
	b, err := json.Marshal(raw)
	if err != nil {
		panic(err)
	}
	return b
}

// stdlib AES-CTR, iv || ciphertext (the format of cli/topology encrypt)
func encrypt(iv, pt []byte) []byte {
	block, err := aes.NewCipher([]byte(aesKey))
	if err != nil {
		panic(err)
	}
	out := make([]byte, len(pt))
	cipher.NewCTR(block, iv).XORKeyStream(out, pt)
	return append(append([]byte{}, iv...), out...)
}

// the expected topology of a fetched body: trim one newline, hex, stdlib AES-CTR, reference parser
func expected(body []byte) *TopoObs {
	s := strings.TrimSuffix(string(body), "\n")
	ct, err := hex.DecodeString(s)
	if err != nil || len(ct) < aes.BlockSize {
		return nil
	}
	block, _ := aes.NewCipher([]byte(aesKey))
	pt := make([]byte, len(ct)-aes.BlockSize)
	cipher.NewCTR(block, ct[:aes.BlockSize]).XORKeyStream(pt, ct[aes.BlockSize:])
	var raw struct {
		Peers []struct {
			PeerAddress string `json:"peerAddress"`
		} `json:"peers"`
		Threshold string `json:"threshold"`
	}
	if json.Unmarshal(pt, &raw) != nil {
		return nil
	}
	nt := &topology.NetworkTopology{}
	for _, p := range raw.Peers {
		ai, err := peer.AddrInfoFromString(p.PeerAddress)
		if err != nil {
			return nil
		}
		nt.Peers = append(nt.Peers, ai)
	}
	thr, err := strconv.ParseInt(raw.Threshold, 0, 0)
	if err != nil || thr < 1 {
		return nil
	}
	nt.Threshold = int(thr)
	return obsTopo(nt)
}

// ---- fakes ------------------------------------------------------------------------------------------

type fetcher struct {
	body   []byte
	fail   bool
	first  int    // the body's first part is handed out without crossing this offset in one Read
	second []byte // served from the second Get on (nil = the same body)
	gets   int
}

// serve sets what the URL returns for the event
func (f *fetcher) serve(ev Event, body []byte) {
	f.body, f.fail, f.first, f.second, f.gets = body, ev.FetchFail, ev.FirstRead, nil, 0
	if ev.SecondBody != "" {
		b, err := hex.DecodeString(ev.SecondBody)
		if err != nil {
			panic("case second_body is not hex")
		}
		f.second = b
	}
}

// partReader never crosses offset `first` within one Read call
type partReader struct {
	b     []byte
	first int
}

func (p *partReader) Read(q []byte) (int, error) {
	if len(p.b) == 0 {
		return 0, io.EOF
	}
	n := len(p.b)
	if n > len(q) {
		n = len(q)
	}
	if p.first > 0 {
		if n > p.first {
			n = p.first
		}
		p.first -= n
	}
	copy(q, p.b[:n])
	p.b = p.b[n:]
	return n, nil
}

func (f *fetcher) Get(url string) (*http.Response, error) {
	if f.fail {
		return &http.Response{}, errors.New("fetch failed")
	}
	f.gets++
	b := f.body
	if f.gets > 1 && f.second != nil {
		b = f.second
	}
	var rd io.Reader = bytes.NewReader(b)
	if f.first > 0 && f.first < len(b) {
		rd = &partReader{b: b, first: f.first}
	}
	return &http.Response{Status: "200 OK", StatusCode: 200, Proto: "HTTP/1.1", ProtoMajor: 1, ProtoMinor: 1,
		Header: http.Header{}, ContentLength: int64(len(b)), Body: io.NopCloser(rd)}, nil
}

// the bytes the URL serves for an event
func eventBody(ev Event) []byte {
	if ev.Big != nil {
		return buildBig(ev.Big).body
	}
	body, err := hex.DecodeString(ev.BodyHex)
	if err != nil {
		panic("case body_hex is not hex")
	}
	return body
}

// standIn: what the Coq side is shown of a LARGE served body (the kernel neither decodes nor hashes
// megabytes): the reference SHA-256 (Go standard library) of the ciphertext the WHOLE served body
// stands for, as 64 hex digits - the stand-in ciphertext is the digest itself -, or a non-hex text
// when the served body is not hex.
func standIn(body []byte) (sur string, digest string) {
	ct, err := hex.DecodeString(strings.TrimSuffix(string(body), "\n"))
	if err != nil {
		return "not-hex:" + sha(body)[:16], ""
	}
	if len(ct) < 2*aes.BlockSize {
		panic("stand-ins are for large bodies only")
	}
	d := sha(ct)
	return d, d
}

type listener struct{ hashes []string }

func (l *listener) FetchKeygenEvents(context.Context, common.Address, *big.Int, *big.Int) ([]types.Log, error) {
	return nil, nil
}
func (l *listener) FetchFrostKeygenEvents(context.Context, common.Address, *big.Int, *big.Int) ([]types.Log, error) {
	return nil, nil
}
func (l *listener) FetchRefreshEvents(context.Context, common.Address, *big.Int, *big.Int) ([]*events.Refresh, error) {
	var out []*events.Refresh
	for _, h := range l.hashes {
		out = append(out, &events.Refresh{Hash: h})
	}
	return out, nil
}
func (l *listener) FetchDeposits(context.Context, common.Address, *big.Int, *big.Int) ([]*events.Deposit, error) {
	return nil, nil
}
func (l *listener) FetchRetryV1Events(context.Context, common.Address, *big.Int, *big.Int) ([]events.RetryV1Event, error) {
	return nil, nil
}
func (l *listener) FetchRetryV2Events(context.Context, common.Address, *big.Int, *big.Int) ([]events.RetryV2Event, error) {
	return nil, nil
}
func (l *listener) FetchRetryDepositEvents(events.RetryV1Event, common.Address, *big.Int) ([]events.Deposit, error) {
	return nil, nil
}

type nopComm struct{}

func (nopComm) CloseSession(string)                                            {}
func (nopComm) Broadcast(peer.IDSlice, []byte, comm.MessageType, string) error { return nil }
func (nopComm) Subscribe(s string, t comm.MessageType, c chan *comm.WrappedMessage) comm.SubscriptionID {
	return comm.SubscriptionID("x-0-0")
}
func (nopComm) UnSubscribe(comm.SubscriptionID) {}

type nopStorer struct{}

func (nopStorer) GetKeyshare() (keyshare.ECDSAKeyshare, error) {
	return keyshare.ECDSAKeyshare{}, errors.New("no key")
}
func (nopStorer) StoreKeyshare(keyshare.ECDSAKeyshare) error { return nil }
func (nopStorer) LockKeyshare()                              {}
func (nopStorer) UnlockKeyshare()                            {}

// ---- driving the real code --------------------------------------------------------------------------

var caseSeq int

func probes() []peer.ID { return pids[:nFamily+2] }

func takeView(store *topology.TopologyStore, cg *p2p.ConnectionGate, h *p2pfakes.Host) View {
	v := View{Pstore: [][2]string{}}
	if t, err := store.Topology(); err == nil {
		v.Stored = obsTopo(t)
	}
	for _, p := range probes() {
		v.Dial = append(v.Dial, cg.InterceptPeerDial(p))
		v.Secured = append(v.Secured, cg.InterceptSecured(network.DirInbound, p, nil))
	}
	for _, p := range h.Peerstore().PeersWithAddrs() {
		for _, a := range h.Peerstore().Addrs(p) {
			v.Pstore = append(v.Pstore, [2]string{p.String(), a.String()})
		}
	}
	sort.Slice(v.Pstore, func(i, j int) bool {
		if v.Pstore[i][0] != v.Pstore[j][0] {
			return v.Pstore[i][0] < v.Pstore[j][0]
		}
		return v.Pstore[i][1] < v.Pstore[j][1]
	})
	return v
}

func runRefresh(c Case) Obs {
	caseSeq++
	dir := filepath.Join(os.Getenv("VERIF_WORK"), "store", fmt.Sprintf("case%d", caseSeq))
	if os.Getenv("VERIF_WORK") == "" {
		dir = filepath.Join(os.TempDir(), "verif-c13", fmt.Sprintf("case%d", caseSeq))
	}
	if err := os.MkdirAll(dir, 0o755); err != nil {
		panic(err)
	}
	defer os.RemoveAll(dir)
	path := filepath.Join(dir, "topology.json")
	if c.StoreBroken {
		path = dir // a directory: StoreTopology fails, Topology() fails
	}
	// ONE provider, store, gate, host, handler for the whole sequence, wired as in app.go
	store := topology.NewTopologyStore(path)
	f := &fetcher{}
	prov, err := topology.NewNetworkTopologyProvider(relayer.TopologyConfiguration{Url: "http://topology.invalid", EncryptionKey: aesKey}, f)
	if err != nil {
		panic(err)
	}
	init := netTopo(c.Topo)
	startNote := ""
	if c.StartBody != "" {
		// app.go: no topology file yet -> topologyProvider.NetworkTopology("") -> StoreTopology
		body, err := hex.DecodeString(c.StartBody)
		if err != nil {
			panic("case start_body is not hex")
		}
		f.body = body
		func() {
			defer func() {
				if r := recover(); r != nil {
					startNote = "start-up fetch panicked: " + fmt.Sprint(r)
				}
			}()
			if nt, err := prov.NetworkTopology(""); err == nil {
				init = nt // what is observed below as the initial state must be c.Topo
			} else {
				startNote = "start-up fetch refused"
			}
		}()
	}
	if !c.StoreBroken {
		if err := store.StoreTopology(init); err != nil {
			panic(err)
		}
	}
	cg := p2p.NewConnectionGate(init)
	h := p2pfakes.NewHost(pid(nFamily + 1))
	p2p.LoadPeers(h, init.Peers)
	l := &listener{}
	cm := nopComm{}
	coord := tss.NewCoordinator(h, cm, elector.NewCoordinatorElectorFactory(h, relayer.BullyConfig{}))
	coord.TssTimeout = time.Millisecond
	coord.CoordinatorTimeout = time.Millisecond
	coord.InitiatePeriod = time.Hour
	handler := eventHandlers.NewRefreshEventHandler(zerolog.Nop().With(), prov, store, l, coord, h, cm, cg, nopStorer{}, nil, common.Address{})

	iv := takeView(store, cg, h)
	o := Obs{Init: &iv, StartNote: startNote}
	for _, ev := range c.Events {
		body := eventBody(ev)
		f.serve(ev, body)
		l.hashes = ev.Hashes
		so := StepObs{Oracle: expected(body)}
		if ev.Big != nil {
			so.StandIn, so.Digest = standIn(body)
		}
		func() {
			defer func() {
				if r := recover(); r != nil {
					so.Code, so.Panic = 1, fmt.Sprint(r)
				}
			}()
			if err := handler.HandleEvents(big.NewInt(100), big.NewInt(105)); err != nil {
				so.Code = 2
			}
		}()
		so.View = takeView(store, cg, h)
		so.Gets = f.gets
		f.body = nil
		o.Steps = append(o.Steps, so)
	}
	return o
}

func run(c Case) Obs {
	switch c.Kind {
	case "gate":
		cg := p2p.NewConnectionGate(netTopo(c.Topo))
		p := pid(c.Probe)
		addr, _ := ma.NewMultiaddr("/ip4/10.9.9.9/tcp/1")
		up, _ := cg.InterceptUpgraded(nil)
		return Obs{Bools: []bool{
			cg.InterceptPeerDial(p),
			cg.InterceptSecured(network.DirInbound, p, nil),
			cg.InterceptSecured(network.DirOutbound, p, nil),
			cg.InterceptAddrDial(p, addr),
			cg.InterceptAccept(nil),
			up,
		}}
	case "refresh":
		return runRefresh(c)
	case "prov":
		ev := c.Events[0]
		body := eventBody(ev)
		f := &fetcher{}
		f.serve(ev, body)
		prov, err := topology.NewNetworkTopologyProvider(relayer.TopologyConfiguration{Url: "u", EncryptionKey: aesKey}, f)
		if err != nil {
			panic(err)
		}
		o := Obs{Oracle: expected(body)}
		if ev.Big != nil {
			o.StandIn, o.Digest = standIn(body)
		}
		func() {
			defer func() {
				if r := recover(); r != nil {
					o.Code, o.Panic = 2, fmt.Sprint(r)
				}
			}()
			t, err := prov.NetworkTopology(c.Hash)
			if err != nil {
				o.Code = 1
				return
			}
			o.Topo = obsTopo(t)
		}()
		return o
	case "provseq":
		// a history of calls through ONE provider; Hashes[0] of every event is the hash demanded ("" = start-up call)
		f := &fetcher{}
		prov, err := topology.NewNetworkTopologyProvider(relayer.TopologyConfiguration{Url: "u", EncryptionKey: aesKey}, f)
		if err != nil {
			panic(err)
		}
		o := Obs{}
		for _, ev := range c.Events {
			body := eventBody(ev)
			f.serve(ev, body)
			po := ProvObs{Oracle: expected(body)}
			if ev.Big != nil {
				po.StandIn, po.Digest = standIn(body)
			}
			func() {
				defer func() {
					if r := recover(); r != nil {
						po.Code, po.Panic = 2, fmt.Sprint(r)
					}
				}()
				t, err := prov.NetworkTopology(ev.Hashes[0])
				if err != nil {
					po.Code = 1
					return
				}
				po.Topo = obsTopo(t)
			}()
			o.Calls = append(o.Calls, po)
		}
		return o
	case "attr":
		h := p2pfakes.NewHost(pid(0))
		cm := p2p.NewCommunication(h, "p2p/sygma")
		ch := make(chan *comm.WrappedMessage, 4)
		cm.Subscribe("s-1", comm.TssKeySignMsg, ch)
		fields := []string{`"message_type":1`, `"message_id":"s-1"`, `"payload":"bQ=="`}
		if c.ClaimKey != "" {
			claim := strconv.Quote(c.ClaimKey) + ":" + c.ClaimVal
			if c.ClaimFirst {
				fields = append([]string{claim}, fields...)
			} else {
				fields = append(fields, claim)
			}
		}
		line := "{" + strings.Join(fields, ",") + "}\n"
		base := runtime.NumGoroutine()
		cm.ProcessMessagesFromStream(p2pfakes.NewStream(pid(c.Remote), []byte(line)))
		deadline := time.Now().Add(20 * time.Second)
		for runtime.NumGoroutine() > base && time.Now().Before(deadline) {
			time.Sleep(50 * time.Microsecond)
		}
		o := Obs{}
		if len(ch) > 0 {
			m := <-ch
			o.Delivered, o.From = true, m.From.String()
		}
		return o
	case "hosts":
		return runHosts(c)
	}
	panic("unknown kind " + c.Kind)
}

func freePorts(n int) []uint16 {
	var ls []net.Listener
	var ports []uint16
	for i := 0; i < n; i++ {
		l, err := net.Listen("tcp4", "127.0.0.1:0")
		if err != nil {
			panic(err)
		}
		ls = append(ls, l)
		ports = append(ports, uint16(l.Addr().(*net.TCPAddr).Port))
	}
	for _, l := range ls {
		l.Close()
	}
	return ports
}

// three REAL libp2p hosts built by p2p.NewHost (tcp on 127.0.0.1, Noise, the real ConnectionGate),
// all holding the topology of c.Members; host c.Dialer connects to host c.Target and, if that
// works, broadcasts one message to it through the real Libp2pCommunication.
func runHosts(c Case) Obs {
	const first = 20 // identities 20,21,22 (not in the P0..P9 family)
	var hosts []host.Host
	var comms []p2p.Libp2pCommunication
	var infos []peer.AddrInfo
	defer func() {
		for _, h := range hosts {
			h.Close()
		}
	}()
	// a port found free can be taken by another process before NewHost binds it: try again
	for attempt := 0; ; attempt++ {
		ports := freePorts(3)
		infos = make([]peer.AddrInfo, 3)
		for i := range infos {
			_, id := p2pfakes.Key(first + i)
			a, _ := ma.NewMultiaddr(fmt.Sprintf("/ip4/127.0.0.1/tcp/%d", ports[i]))
			infos[i] = peer.AddrInfo{ID: id, Addrs: []ma.Multiaddr{a}}
		}
		nt := &topology.NetworkTopology{Threshold: 1}
		for _, m := range c.Members {
			ai := infos[m]
			nt.Peers = append(nt.Peers, &ai)
		}
		var err error
		for i := 0; i < 3 && err == nil; i++ {
			priv, _ := p2pfakes.Key(first + i)
			var h host.Host
			h, err = p2p.NewHost(priv, nt, p2p.NewConnectionGate(nt), ports[i])
			if err == nil {
				hosts = append(hosts, h)
				comms = append(comms, p2p.NewCommunication(h, "/p2p/verif"))
			}
		}
		if err == nil {
			break
		}
		for _, h := range hosts {
			h.Close()
		}
		hosts, comms = nil, nil
		if attempt >= 4 {
			panic(err)
		}
	}
	d, t := hosts[c.Dialer], hosts[c.Target]
	ctx, cancel := context.WithTimeout(context.Background(), 30*time.Second)
	defer cancel()
	o := Obs{}
	err := d.Connect(ctx, infos[c.Target])
	if err != nil {
		o.DialErr = "error"
	} else {
		// the target registers the inbound connection asynchronously
		deadline := time.Now().Add(10 * time.Second)
		for time.Now().Before(deadline) {
			if len(t.Network().ConnsToPeer(d.ID())) > 0 && len(d.Network().ConnsToPeer(t.ID())) > 0 {
				o.Connected = true
				break
			}
			if len(d.Network().ConnsToPeer(t.ID())) == 0 {
				break // closed by the remote gate
			}
			time.Sleep(time.Millisecond)
		}
	}
	if o.Connected {
		ch := make(chan *comm.WrappedMessage, 1)
		comms[c.Target].Subscribe("s-1", comm.TssKeySignMsg, ch)
		payload := []byte(`{"From":"` + hosts[3-c.Dialer-c.Target].ID().String() + `"}`)
		if err := comms[c.Dialer].Broadcast(peer.IDSlice{t.ID()}, payload, comm.TssKeySignMsg, "s-1"); err == nil {
			select {
			case m := <-ch:
				o.Delivered, o.From = true, m.From.String()
			case <-time.After(10 * time.Second):
			}
		}
	}
	return o
}

// ---- generation -------------------------------------------------------------------------------------

func genTopo(r *vgen.Rng, minPeers int) TopoSpec {
	n := r.Range(minPeers, 5)
	perm := []int{0, 1, 2, 3, 4, 5, 6, 7}
	r.Shuffle(len(perm), func(i, j int) { perm[i], perm[j] = perm[j], perm[i] })
	t := TopoSpec{Threshold: r.Range(1, 4), Peers: []PeerSpec{}}
	for _, id := range perm[:n] {
		addr := fmt.Sprintf("/ip4/10.0.0.%d/tcp/%d", id+1, 9000+id)
		if r.Bool() {
			addr = fmt.Sprintf("/dns4/relayer%d/tcp/%d", id, 9000+id)
		}
		t.Peers = append(t.Peers, PeerSpec{ID: id, Addr: addr})
	}
	return t
}

func topoPlain(t TopoSpec, threshold string) []byte {
	var addrs []string
	for _, p := range t.Peers {
		addrs = append(addrs, fullAddr(p))
	}
	return plaintext(addrs, threshold)
}

func sha(b []byte) string { h := sha256.Sum256(b); return hex.EncodeToString(h[:]) }

func hexBody(ct []byte) []byte { return []byte(hex.EncodeToString(ct)) }

func mkEvent(note string, body []byte, hashes ...string) Event {
	return Event{Note: note, BodyHex: hex.EncodeToString(body), Hashes: hashes}
}

// one refresh event of a random class; cur is a ciphertext known to be valid (for "other valid ct")
func genEvent(r *vgen.Rng) Event {
	t := genTopo(r, 0)
	thr := strconv.Itoa(t.Threshold)
	pt := topoPlain(t, thr)
	ct := encrypt(r.Bytes(16), pt)
	h := sha(ct)
	switch r.Intn(33) {
	case 30, 31, 32:
		if len(catPool) > 0 {
			return vgen.Pick(r, catPool) // what counts as a valid topology (catalogue.go)
		}
		return mkEvent("genuine", hexBody(ct), h)
	case 0, 1, 2, 3, 4, 5:
		return mkEvent("genuine", hexBody(ct), h)
	case 6:
		return mkEvent("genuine, body ends with newline", append(hexBody(ct), '\n'), h)
	case 7:
		return mkEvent("genuine, upper-case hex body", []byte(strings.ToUpper(hex.EncodeToString(ct))), h)
	case 8:
		return mkEvent("wrong hash", hexBody(ct), sha(r.Bytes(8)))
	case 9:
		return mkEvent("upper-case hash", hexBody(ct), strings.ToUpper(h))
	case 10:
		return mkEvent("empty hash", hexBody(ct), "")
	case 11:
		return mkEvent("malformed hash (prefix / blank / 0x / non-hex digit)", hexBody(ct),
			vgen.Pick(r, []string{h[:62], h + " ", "0x" + h, " " + h, h[:63] + "g"}))
	case 12, 13:
		i := 16 * r.Intn((len(ct)+15)/16)
		if i >= len(ct) {
			i = len(ct) - 1
		}
		m := append([]byte{}, ct...)
		m[i] ^= 1 << uint(r.Intn(8))
		if r.Bool() {
			return mkEvent(fmt.Sprintf("bit flip at byte %d, announced hash of the original", i), hexBody(m), h)
		}
		return mkEvent(fmt.Sprintf("bit flip at byte %d, announced hash of the flipped ciphertext", i), hexBody(m), sha(m))
	case 14, 15:
		n := vgen.Pick(r, []int{0, 1, 15, 16, 17, 31, 32, 33, len(ct) - 1, len(ct) / 2})
		m := ct[:n]
		if r.Chance(1, 3) {
			return mkEvent(fmt.Sprintf("truncated to %d bytes, hash of the original", n), hexBody(m), h)
		}
		return mkEvent(fmt.Sprintf("truncated to %d bytes, its own hash", n), hexBody(m), sha(m))
	case 16:
		t2 := genTopo(r, 1)
		ct2 := encrypt(r.Bytes(16), topoPlain(t2, strconv.Itoa(t2.Threshold)))
		return mkEvent("another valid topology's ciphertext under the first one's hash", hexBody(ct2), h)
	case 17:
		b := vgen.Pick(r, [][]byte{[]byte("zz" + hex.EncodeToString(ct)), hexBody(ct)[:2*len(ct)-1], append(hexBody(ct), '\n', '\n'),
			append(hexBody(ct), '\r', '\n'), []byte("not hex at all"), append([]byte(" "), hexBody(ct)...)})
		return mkEvent("body is not hex", b, h)
	case 18:
		g := r.Bytes(r.Range(16, 200))
		return mkEvent("garbage with its own correct hash", hexBody(g), sha(g))
	case 19, 20:
		bad := vgen.Pick(r, []string{"0", "-1", "", "abc", "1.5", " 2", "99999999999999999999"})
		m := encrypt(r.Bytes(16), topoPlain(t, bad))
		return mkEvent("invalid threshold "+strconv.Quote(bad)+", correct hash", hexBody(m), sha(m))
	case 21:
		addrs := []string{fullAddr(PeerSpec{ID: 1, Addr: "/ip4/10.0.0.2/tcp/9001"}),
			vgen.Pick(r, []string{"/dns4/relayer2/tcp/9001/p2p/", "/ip4/10.0.0.3/tcp/9002", "relayer", "/p2p/notapeerid", ""})}
		m := encrypt(r.Bytes(16), plaintext(addrs, "1"))
		return mkEvent("invalid peer address, correct hash", hexBody(m), sha(m))
	case 22:
		p := vgen.Pick(r, [][]byte{[]byte("[]"), []byte("{"), []byte(`{"peers":"x","threshold":"1"}`), []byte(`{"peers":[],"threshold":2}`), {}})
		m := encrypt(r.Bytes(16), p)
		return mkEvent("plaintext is not a topology document, correct hash", hexBody(m), sha(m))
	case 23:
		good := vgen.Pick(r, []string{"0x2", "1", "0b11", "1_0"})
		m := encrypt(r.Bytes(16), topoPlain(t, good))
		return mkEvent("threshold "+strconv.Quote(good)+" (base-0 syntax), correct hash", hexBody(m), sha(m))
	case 24:
		addrs := []string{fullAddr(PeerSpec{ID: 2, Addr: "/ip4/10.0.0.3/tcp/9002"}), "/p2p/" + pid(3).String(), fullAddr(PeerSpec{ID: 4, Addr: "/ip4/10.0.0.5/tcp/9004"})}
		if r.Bool() {
			addrs = addrs[1:]
		}
		m := encrypt(r.Bytes(16), plaintext(addrs, "1"))
		return mkEvent("valid topology with a peer that has no transport address, correct hash", hexBody(m), sha(m))
	case 25:
		return mkEvent("two events, the last hash is wrong", hexBody(ct), h, sha(r.Bytes(4)))
	case 26:
		return mkEvent("two events, the last hash is right", hexBody(ct), sha(r.Bytes(4)), h)
	case 27:
		return Event{Note: "no refresh event in the range", BodyHex: hex.EncodeToString(hexBody(ct)), Hashes: []string{}}
	case 28:
		return Event{Note: "fetch fails", BodyHex: hex.EncodeToString(hexBody(ct)), Hashes: []string{h}, FetchFail: true}
	default:
		dup := append(append([]PeerSpec{}, t.Peers...), t.Peers...)
		m := encrypt(r.Bytes(16), topoPlain(TopoSpec{Peers: dup}, "2"))
		return mkEvent("every peer listed twice, correct hash", hexBody(m), sha(m))
	}
}

// ---- histories through the long-lived objects: what was fetched / adopted earlier must not matter ----

// an earlier event of the sequence: the raw bytes served, the ciphertext's own hash, whether that
// ciphertext stands for a valid topology (and which), the hash that was announced with it
type served struct {
	body      []byte
	own       string
	valid     bool
	topo      TopoSpec
	announced string
}

func genuine(r *vgen.Rng) (Event, served) {
	t := genTopo(r, 1)
	ct := encrypt(r.Bytes(16), topoPlain(t, strconv.Itoa(t.Threshold)))
	body := hexBody(ct)
	if r.Chance(1, 8) {
		body = append(body, '\n')
	}
	return mkEvent("genuine", body, sha(ct)), served{body: body, own: sha(ct), valid: true, topo: t, announced: sha(ct)}
}

func servedOf(ev Event) served {
	body, _ := hex.DecodeString(ev.BodyHex)
	sv := served{body: body}
	if ct, err := hex.DecodeString(strings.TrimSuffix(string(body), "\n")); err == nil {
		sv.own = sha(ct)
	}
	sv.valid = expected(body) != nil
	if len(ev.Hashes) > 0 {
		sv.announced = ev.Hashes[len(ev.Hashes)-1]
	}
	return sv
}

// the next event of a history: a fresh one, or one that re-serves / re-announces something earlier.
// cur = index in pool of the body whose topology is the current one (-1 unknown): bodies other than
// that one are preferred for replays, so that a wrong adoption is visible.
func nextEvent(r *vgen.Rng, pool []served, cur int) (Event, served) {
	if len(pool) == 0 || r.Chance(1, 4) {
		if r.Chance(1, 2) {
			return genuine(r)
		}
		ev := genEvent(r)
		return ev, servedOf(ev)
	}
	pick := func() served {
		for k := 0; k < 4; k++ {
			i := r.Intn(len(pool))
			if i != cur && pool[i].valid {
				return pool[i]
			}
		}
		return pool[r.Intn(len(pool))]
	}
	old := pick()
	other := pool[r.Intn(len(pool))]
	var ev Event
	switch r.Intn(14) {
	case 12:
		ev = mkEvent("fetch fails; the hash of an earlier body is announced", old.body, old.own)
		ev.FetchFail = true
	case 13:
		cut := old.body
		if len(cut) > 1 {
			cut = cut[:(len(cut)/2)|1] // odd length: not hex
		}
		bad := vgen.Pick(r, [][]byte{[]byte("not hex at all"), cut, append([]byte("zz"), old.body...), {}})
		ev = mkEvent("no usable body (not hex / cut / empty); the hash of an earlier body is announced", bad, old.own)
	case 0, 1, 2:
		ev = mkEvent("an earlier body again, under a hash that is not its own", old.body, sha(r.Bytes(8)))
	case 3:
		ev = mkEvent("an earlier body again, under the hash announced with another earlier event", old.body, other.announced)
	case 4:
		ev = mkEvent("an earlier body again, under another earlier body's hash", old.body, other.own)
	case 5, 6:
		ev = mkEvent("an earlier body again, under its own hash", old.body, old.own)
	case 7:
		ev = mkEvent("an earlier body again, empty hash", old.body, "")
	case 8:
		ev = mkEvent("an earlier body again, two events: right hash then a wrong one", old.body, old.own, sha(r.Bytes(8)))
	case 9:
		// something new under a hash that was announced (and accepted) before
		nev, _ := genuine(r)
		nev.Hashes = []string{old.announced}
		nev.Note = "a new valid topology under an earlier announced hash"
		ev = nev
	case 10:
		// the same topology re-encrypted (other IV, other ciphertext) under the earlier ciphertext's hash
		t := old.topo
		if !old.valid || len(t.Peers) == 0 {
			t = genTopo(r, 1)
		}
		ct := encrypt(r.Bytes(16), topoPlain(t, strconv.Itoa(t.Threshold)))
		ev = mkEvent("an earlier topology re-encrypted, under the earlier ciphertext's hash", hexBody(ct), old.own)
	default:
		b := append([]byte{}, old.body...)
		if len(b) > 40 {
			i := 32 + r.Intn(len(b)-40)
			if b[i] == '0' {
				b[i] = '1'
			} else {
				b[i] = '0'
			}
		}
		ev = mkEvent("an earlier body with one hex digit changed, under the original's hash", b, old.own)
	}
	sv := servedOf(ev)
	sv.topo = old.topo
	return ev, sv
}

// would the event be adopted by the specification? (to keep track of the current topology's body)
func adopts(ev Event, sv served) bool {
	return len(ev.Hashes) > 0 && !ev.FetchFail && sv.valid && sv.announced != "" && sv.announced == sv.own
}

func genHistory(r *vgen.Rng, i int) Case {
	c := Case{Kind: "refresh", Topo: genTopo(r, 1), StoreBroken: r.Chance(1, 20)}
	var pool []served
	cur := -1
	if r.Chance(1, 2) {
		// start-up fetch through the same provider (hash "", unchecked)
		ct := encrypt(r.Bytes(16), topoPlain(c.Topo, strconv.Itoa(c.Topo.Threshold)))
		c.StartBody = hex.EncodeToString(hexBody(ct))
		pool = append(pool, served{body: hexBody(ct), own: sha(ct), valid: true, topo: c.Topo})
		cur = 0
	}
	push := func(ev Event, sv served) {
		c.Events = append(c.Events, ev)
		pool = append(pool, sv)
		if adopts(ev, sv) && !c.StoreBroken {
			cur = len(pool) - 1
			for k, p := range pool {
				if bytes.Equal(p.body, sv.body) {
					cur = k
					break
				}
			}
		}
	}
	wrong := func(sv served, note string) Event { return mkEvent(note, sv.body, sha(r.Bytes(8))) }
	switch i % 8 {
	case 0: // adopt A, adopt B, then A again under another hash
		ea, a := genuine(r)
		eb, b := genuine(r)
		push(ea, a)
		push(eb, b)
		push(wrong(a, "the first topology's body again, under a hash that is not its own"), a)
	case 1: // A, B, A, B genuinely, then each once more under a wrong hash
		ea, a := genuine(r)
		eb, b := genuine(r)
		push(ea, a)
		push(eb, b)
		push(ea, a)
		push(eb, b)
		push(wrong(a, "alternating topologies, then the first again under a hash that is not its own"), a)
	case 2: // the same body twice, then another, then the first under the second's hash
		ea, a := genuine(r)
		eb, b := genuine(r)
		push(ea, a)
		push(ea, a)
		push(eb, b)
		push(mkEvent("the first body again under the second one's hash", a.body, b.own), a)
	case 3: // rejected events in between
		ea, a := genuine(r)
		eb, b := genuine(r)
		push(ea, a)
		x := genEvent(r)
		push(x, servedOf(x))
		push(eb, b)
		push(wrong(b, "the current body under a hash that is not its own"), b)
		push(wrong(a, "the first body again, under a hash that is not its own"), a)
	case 5: // two adoptions, then events that must all be rejected although they name earlier hashes
		ea, a := genuine(r)
		eb, b := genuine(r)
		push(ea, a)
		push(eb, b)
		for k := 0; k < 3; k++ {
			var ev Event
			switch r.Intn(5) {
			case 0:
				ev = mkEvent("fetch fails; the first topology's hash is announced", a.body, a.own)
				ev.FetchFail = true
			case 1:
				ev = mkEvent("fetch fails; the current topology's hash is announced", b.body, b.own)
				ev.FetchFail = true
			case 2:
				ev = mkEvent("body is not hex; the first topology's hash is announced", []byte("not hex at all"), a.own)
			case 3:
				ev = mkEvent("empty body; the first topology's hash is announced", []byte{}, a.own)
			default:
				ev = mkEvent("the first body cut in half; its hash is announced", a.body[:(len(a.body)/4)*2], a.own)
			}
			push(ev, servedOf(ev))
		}
	case 4: // start-up body replayed after one genuine refresh
		if c.StartBody == "" {
			ct := encrypt(r.Bytes(16), topoPlain(c.Topo, strconv.Itoa(c.Topo.Threshold)))
			c.StartBody = hex.EncodeToString(hexBody(ct))
			pool = append(pool, served{body: hexBody(ct), own: sha(ct), valid: true, topo: c.Topo})
		}
		eb, b := genuine(r)
		push(eb, b)
		push(wrong(pool[0], "the start-up body again, under a hash that is not its own"), pool[0])
	default:
		n := r.Range(2, 6)
		for j := 0; j < n; j++ {
			ev, sv := nextEvent(r, pool, cur)
			push(ev, sv)
		}
	}
	if len(c.Events) > 6 {
		c.Events = c.Events[:6]
	}
	return c
}

// calls through ONE provider, the hash demanded being any of: the body's own, a wrong one, "" (start-up)
func genProvSeq(r *vgen.Rng) Case {
	c := Case{Kind: "provseq"}
	var pool []served
	n := r.Range(2, 6)
	for j := 0; j < n; j++ {
		ev, sv := nextEvent(r, pool, -1)
		h := ""
		if len(ev.Hashes) > 0 {
			h = ev.Hashes[len(ev.Hashes)-1]
		}
		if r.Chance(1, 5) {
			h = ""
		}
		ev.Hashes = []string{h}
		sv.announced = sv.own // through the provider alone a body is "accepted" under "" as well
		c.Events = append(c.Events, ev)
		pool = append(pool, sv)
	}
	return c
}

// the catalogue items of moderate size, for the random sequences and histories
var catPool []Event

func gen(r *vgen.Rng, tier string) []Case {
	var out []Case
	nseq, nprov, nhist, npseq := 58, 28, 68, 28
	if tier == "thorough" {
		nseq, nprov, nhist, npseq = 3000, 1000, 3000, 1000
	}
	// what counts as a valid topology: the whole catalogue (catalogue.go) on every run, under the
	// ciphertext's own hash - through the refresh handler in sequences of five (a valid item is
	// adopted, the invalid ones after it must leave everything as it is), and through the provider
	// directly (quick: every third item, at a position that changes with the seed)
	var catCases []Case
	{
		cat := catalogueEvents(r)
		catPool = nil
		for _, ev := range cat {
			if len(ev.BodyHex) <= 4*1500 {
				catPool = append(catPool, ev)
			}
		}
		// sequences of five, taken with a stride (neighbouring items are of similar size: a sequence
		// of the five largest would be one very slow case)
		nseqs := (len(cat) + 4) / 5
		for i := 0; i < nseqs; i++ {
			c := Case{Kind: "refresh", Topo: genTopo(r, 1)}
			for j := i; j < len(cat); j += nseqs {
				c.Events = append(c.Events, cat[j])
			}
			catCases = append(catCases, c)
		}
		off := r.Intn(3)
		for i, ev := range cat {
			if tier == "thorough" || i%3 == off {
				h := ev.Hashes[0]
				if i%5 == 4 {
					h = "" // the start-up call: no hash demanded, validity still decides
				}
				catCases = append(catCases, Case{Kind: "prov", Hash: h, Events: []Event{ev}})
			}
		}
	}
	// gate: every probe against a few topologies (incl. empty and single)
	topos := []TopoSpec{{Peers: []PeerSpec{}, Threshold: 1}, genTopo(r, 1), genTopo(r, 3), genTopo(r, 5)}
	for _, t := range topos {
		for p := 0; p < nFamily+2; p++ {
			out = append(out, Case{Kind: "gate", Topo: t, Probe: p})
		}
	}
	// sender attribution
	other := pid(7).String()
	vals := []string{strconv.Quote(other), `"not a peer id"`, `123`, `null`, `{"ID":"x"}`, `["` + other + `"]`, `""`}
	for _, k := range []string{"", "From", "from", "FROM", "fRoM", "-", "from_peer"} {
		for i, v := range vals {
			if k == "" && i > 0 {
				continue
			}
			out = append(out, Case{Kind: "attr", Remote: 1 + (i+len(k))%6, ClaimKey: k, ClaimVal: v, ClaimFirst: i%2 == 0})
		}
	}
	// three real hosts: every ordered pair against every membership subset (thorough), a fixed
	// selection of them (quick)
	subsets := [][]int{{}, {0}, {1}, {2}, {0, 1}, {0, 2}, {1, 2}, {0, 1, 2}}
	k := 0
	for _, m := range subsets {
		for d := 0; d < 3; d++ {
			for t := 0; t < 3; t++ {
				if d == t {
					continue
				}
				k++
				both := false
				for _, x := range m {
					for _, y := range m {
						both = both || (x == d && y == t)
					}
				}
				if tier != "thorough" && k%4 != 1 && !(both && d < t) {
					continue
				}
				out = append(out, Case{Kind: "hosts", Members: m, Dialer: d, Target: t})
			}
		}
	}
	// provider directly (start-up path uses the empty hash)
	for i := 0; i < nprov; i++ {
		ev := genEvent(r)
		h := ""
		if len(ev.Hashes) > 0 && !r.Chance(1, 3) {
			h = ev.Hashes[len(ev.Hashes)-1]
		}
		out = append(out, Case{Kind: "prov", Hash: h, Events: []Event{ev}})
	}
	// refresh sequences
	for i := 0; i < nseq; i++ {
		c := Case{Kind: "refresh", Topo: genTopo(r, 1), StoreBroken: r.Chance(1, 12)}
		n := r.Range(1, 6)
		for j := 0; j < n; j++ {
			c.Events = append(c.Events, genEvent(r))
		}
		out = append(out, c)
	}
	// every way of writing the right hash wrongly, on a genuine body (each run, not sampled)
	{
		t := genTopo(r, 2)
		ct := encrypt(r.Bytes(16), topoPlain(t, strconv.Itoa(t.Threshold)))
		h := sha(ct)
		for _, bad := range []string{h[:62], h + " ", " " + h, "0x" + h, "0X" + h, "0x", "0X", h[:63] + "g", strings.ToUpper(h),
			h + "\n", "sha256:" + h, h + h, h[1:], "0" + h, strings.Repeat("0", 64)} {
			ev := mkEvent("the right hash written wrongly: "+strconv.Quote(bad), hexBody(ct), bad)
			out = append(out, Case{Kind: "refresh", Topo: genTopo(r, 1), Events: []Event{ev}})
			out = append(out, Case{Kind: "prov", Hash: bad, Events: []Event{ev}})
		}
	}
	// histories: later events re-serve / re-announce what was fetched or adopted earlier
	for i := 0; i < nhist; i++ {
		out = append(out, genHistory(r, i))
	}
	for i := 0; i < npseq; i++ {
		out = append(out, genProvSeq(r))
	}
	// what is hash-checked must be all that was served (big.go): bodies that end a valid announced
	// ciphertext exactly on a boundary and go on; two-part bodies; a URL that serves something else
	// on a second Get; degenerate announced topologies (file and gate must agree afterwards)
	out = append(out, genBig(r, tier)...)
	out = append(out, genParts(r)...)
	out = append(out, genDegenerate(r)...)
	// the shards are evaluated in parallel: the cases are dealt out so that every shard gets about
	// the same number of kernel-hashed bytes (the order of the cases carries no meaning)
	return balance(append(out, catCases...), shardSize)
}

const shardSize = 28

// what a case costs the kernel: SHA-256 and hex decoding of every spelled-out body
func kernelCost(c Case) int {
	n := 300
	for _, ev := range c.Events {
		n += 200
		if ev.Big == nil {
			n += len(ev.BodyHex) / 2
		}
	}
	return n + len(c.StartBody)/2
}

func balance(cases []Case, shard int) []Case {
	k := (len(cases) + shard - 1) / shard
	idx := make([]int, len(cases))
	for i := range idx {
		idx[i] = i
	}
	sort.SliceStable(idx, func(a, b int) bool { return kernelCost(cases[idx[a]]) > kernelCost(cases[idx[b]]) })
	bins := make([][]Case, k)
	for j, i := range idx {
		pos := j % k
		if (j/k)%2 == 1 {
			pos = k - 1 - pos
		}
		bins[pos] = append(bins[pos], cases[i])
	}
	var out []Case
	for _, b := range bins {
		out = append(out, b...)
	}
	return out
}

// ---- printing ---------------------------------------------------------------------------------------

// short renders a peer id for the Coq side: the ten ids of the fixed family are renamed P0..P9 (an
// injective renaming applied to inputs and observations alike; it keeps the case files small),
// any other id - e.g. one produced by a tampered ciphertext - is printed in full.
func short(id string) string {
	for i, p := range pids {
		if p.String() == id {
			return fmt.Sprintf("P%d", i)
		}
	}
	return id
}

// cstr renders any Go string as a Coq string term (a tampered ciphertext can decrypt to a topology
// whose dns name holds arbitrary bytes)
func cstr(s string) string {
	for i := 0; i < len(s); i++ {
		if s[i] < 0x20 || s[i] > 0x7e {
			return `(string_of_bytes (unhex "` + hex.EncodeToString([]byte(s)) + `"%string))`
		}
	}
	return vgen.Str(s)
}

func coqTopo(t *TopoObs) string {
	return "(mk_topo " + vgen.ListOf(t.Peers, func(p PeerObs) string {
		a := "None"
		if p.Has {
			a = vgen.Some(cstr(p.Addr))
		}
		return "(mk_peer " + cstr(short(p.ID)) + " " + a + ")"
	}) + " " + vgen.Z(int64(t.Threshold)) + ")"
}

func coqOptTopo(t *TopoObs) string {
	if t == nil {
		return "None"
	}
	return vgen.Some(coqTopo(t))
}

func coqBools(b []bool) string { return vgen.ListOf(b, vgen.Bool) }

func coqView(v View) string {
	return "(mk_view " + coqOptTopo(v.Stored) + " " + coqBools(v.Dial) + " " + coqBools(v.Secured) + " " +
		vgen.ListOf(v.Pstore, func(p [2]string) string { return vgen.Pair(cstr(short(p[0])), cstr(p[1])) }) + ")"
}

// a printable body (the usual hex text) is passed as text, anything else as hex of its bytes
func coqDigest(d string) string {
	if d == "" {
		return "None"
	}
	return vgen.Some(vgen.Str(d))
}

// the body of an event as the Coq side gets it: the bytes themselves, or the stand-in of a large body
func coqEvBody(ev Event, standIn string) string {
	if ev.Big != nil {
		return "(bytes_of_string " + vgen.Str(standIn) + ")"
	}
	return coqBody(ev.BodyHex)
}

func coqBody(hexOfBody string) string {
	b, _ := hex.DecodeString(hexOfBody)
	for _, x := range b {
		if x < 0x20 || x > 0x7e || x == '"' {
			return `(unhex "` + hexOfBody + `"%string)`
		}
	}
	return "(bytes_of_string " + vgen.Str(string(b)) + ")"
}

func coq(c Case, o Obs) string {
	switch c.Kind {
	case "gate":
		return "Gate " + vgen.ListOf(obsTopo(netTopo(c.Topo)).Peers, func(p PeerObs) string {
			return "(mk_peer " + vgen.Str(short(p.ID)) + " " + vgen.Some(vgen.Str(p.Addr)) + ")"
		}) + " " + vgen.Str(short(pid(c.Probe).String())) + " " + coqBools(o.Bools)
	case "prov":
		ev := c.Events[0]
		return "Prov " + cstr(c.Hash) + " " + vgen.Bool(!ev.FetchFail) + " " + coqEvBody(ev, o.StandIn) + " " +
			coqOptTopo(o.Oracle) + " " + coqDigest(o.Digest) + " " + vgen.N(uint64(o.Code)) + " " + coqOptTopo(o.Topo)
	case "provseq":
		calls := make([]string, len(c.Events))
		for i, ev := range c.Events {
			po := o.Calls[i]
			calls[i] = "(mk_call " + cstr(ev.Hashes[0]) + " " + vgen.Bool(!ev.FetchFail) + " " + coqEvBody(ev, po.StandIn) + " " +
				coqOptTopo(po.Oracle) + " " + coqDigest(po.Digest) + " " + vgen.N(uint64(po.Code)) + " " + coqOptTopo(po.Topo) + ")"
		}
		return "ProvSeq " + vgen.List(calls)
	case "attr":
		claimed := "None"
		if c.ClaimKey != "" {
			claimed = vgen.Some(vgen.Str(c.ClaimKey + "=" + c.ClaimVal))
		}
		return "Attr " + vgen.Str(short(pid(c.Remote).String())) + " " + claimed + " " + vgen.Bool(o.Delivered) + " " + cstr(short(o.From))
	}
	if c.Kind == "hosts" {
		name := func(i int) string { return vgen.Str(fmt.Sprintf("H%d", i)) }
		from := "None"
		if o.Delivered {
			from = vgen.Some(vgen.Str("other"))
			for i := 0; i < 3; i++ {
				if _, id := p2pfakes.Key(20 + i); id.String() == o.From {
					from = vgen.Some(name(i))
				}
			}
		}
		return "Hosts " + vgen.ListOf(c.Members, name) + " " + name(c.Dialer) + " " + name(c.Target) + " " + vgen.Bool(o.Connected) + " " + from
	}
	pr := vgen.ListOf(probes(), func(p peer.ID) string { return vgen.Str(short(p.String())) })
	evs := make([]string, len(c.Events))
	steps := make([]string, len(c.Events))
	for i, ev := range c.Events {
		evs[i] = "(mk_event " + vgen.ListOf(ev.Hashes, cstr) + " " + vgen.Bool(!ev.FetchFail) + " " + coqEvBody(ev, o.Steps[i].StandIn) + " " +
			vgen.Bool(!c.StoreBroken) + ", " + coqOptTopo(o.Steps[i].Oracle) + ", " + coqDigest(o.Steps[i].Digest) + ")"
		steps[i] = "(mk_step_obs " + vgen.N(uint64(o.Steps[i].Code)) + " " + coqView(o.Steps[i].View) + ")"
	}
	stored := "None"
	if !c.StoreBroken {
		stored = vgen.Some(coqTopo(obsTopo(netTopo(c.Topo))))
	}
	return "Refresh " + pr + " " + stored + " " + coqTopo(obsTopo(netTopo(c.Topo))) + " " + vgen.List(evs) + " " + coqView(*o.Init) + " " + vgen.List(steps)
}

func main() {
	if pf := os.Getenv("C13_CPUPROFILE"); pf != "" { // development aid: where the runner spends its time
		if f, err := os.Create(pf); err == nil {
			_ = pprof.StartCPUProfile(f)
			defer pprof.StopCPUProfile()
		}
	}
	// the large bodies make the collector run (and rescan the libp2p heap) every few cases: collect
	// only when the heap approaches 768 MiB
	debug.SetGCPercent(-1)
	debug.SetMemoryLimit(3 << 28)
	zerolog.SetGlobalLevel(zerolog.Disabled)
	for i := 0; i < nFamily+2; i++ {
		pids = append(pids, p2pfakes.PeerID(i))
	}
	vgen.Main(vgen.Spec[Case, Obs]{
		Property:  "C13",
		RunModule: "C13",
		Gen:       gen,
		Run:       run,
		Coq:       coq,
		ShardSize: shardSize,
		Kind: func(c Case) string {
			if hasBig(c) {
				return c.Kind + "-large-body"
			}
			if c.Kind == "refresh" {
				if c.StoreBroken {
					return "refresh-store-broken"
				}
				if c.StartBody != "" {
					return fmt.Sprintf("refresh-startup-%d", len(c.Events))
				}
				return fmt.Sprintf("refresh-%d", len(c.Events))
			}
			return c.Kind
		},
		NonTrivial: func(c Case, o Obs) bool {
			switch c.Kind {
			case "gate":
				return len(c.Topo.Peers) > 0
			case "attr":
				return c.ClaimKey != ""
			case "prov":
				return o.Oracle != nil || o.Code == 2
			case "hosts":
				return true
			case "provseq":
				for _, po := range o.Calls {
					if po.Oracle != nil || po.Code == 2 {
						return true
					}
				}
				return false
			}
			// a sequence is non-trivial if some event carries a decodable ciphertext of at least one block
			for _, s := range o.Steps {
				if s.Oracle != nil || s.Code == 1 {
					return true
				}
			}
			return false
		},
		Rule: "hosts: three real libp2p hosts built by p2p.NewHost on 127.0.0.1 (dialer, target, membership subset of the shared topology), connection result and sender of one broadcast; gate: every probe peer (8 possible members, 2 outsiders) against empty/1/3/5-peer topologies; attr: sender-claiming JSON members (From/from/FROM/... x string/number/null/object) before or after the real fields; catalogue (every run, complete): about 270 plaintexts under the ciphertext's own hash whose validity the reference parser decides - threshold texts around 0 / 2^31 / 2^63 / 2^64 in decimal, hex, octal, binary, with signs, underscores, blanks, exponents, non-ASCII digits, as JSON number / null / bool / array / object, missing, duplicated, differently-cased or escaped key; threshold above / equal to the number of peers; peer lists empty / null / missing / of wrong JSON type, 25 malformed multiaddrs first or last in the list, null / {} / wrongly typed entries, duplicated and differently-cased members, duplicated peers, 24 peers; extra members, other member order, wrapped / nested / truncated / single-quoted documents, deep nesting (300 levels), 2 KB members; 17 kinds of bytes before and 30 after the document (blanks incl. 1 KB, BOM, NUL, \v, \f, NBSP, braces, commas, comments, JSON values, invalid UTF-8), PKCS#7-style padding of 1..16 bytes, zero padding, a second document (equal, different, invalid first / second, unterminated) - through the refresh handler in sequences of five and through the provider (quick: every third; every fifth of those with the empty start-up hash); prov and refresh: events drawn from 31 classes (a catalogue item; genuine; newline / upper-case body; wrong, upper-case, empty, truncated, padded hash; bit flips at 16-byte strides and truncations 0,1,15,16,17,31,32,33,.. with the original or the recomputed hash; another topology's ciphertext; non-hex bodies; garbage with its own hash; invalid thresholds, peer addresses, documents with correct hash; base-0 thresholds; address-less peers; several events per range; no event; fetch failure; duplicated peers), refresh sequences of 1..6 events from a random initial topology, 1 in 12 with an unwritable topology file; histories through ONE provider / handler / store / gate per sequence (half of them starting with the unchecked start-up fetch through that provider): fixed patterns (A, B, A under a foreign hash; A, B, A, B, A under a foreign hash; A, A, B, A under B's hash; rejected events in between; start-up body replayed; two adoptions then fetch failures / unusable bodies announcing earlier hashes) and random histories whose later events re-serve earlier bodies (foreign hash, another event's announced hash, another body's hash, own hash, empty hash, right-then-wrong announcements), re-announce an accepted hash with a new valid body, re-encrypt an earlier topology, change one digit of an earlier body, fail the fetch or serve an unusable body while announcing an earlier hash; provseq: 2..6 direct NetworkTopology calls through one provider over the same event kinds with the hash own / foreign / earlier / empty; 15 wrong spellings of the right hash (cut, padded, 0x / 0X prefixed, bare 0x, upper case, doubled, shifted, newline, scheme prefix, zeros) on a genuine body, through the handler and the provider; large / two-part bodies (big.go, every run): a complete valid ciphertext stretched (blanks after / before / inside the document, a long extra member) to end exactly on 512 B .. 16 MiB (powers of two, 5 and 10 MiB), 10^4, 10^5, 10^6 (body characters, ciphertext bytes or plaintext bytes) followed by junk hex, a second complete ciphertext, a second document / junk / blanks in the same ciphertext, one more digit, newline + second ciphertext, a non-hex footer, the first part again, a newline, nothing (15 variants, the three legitimate ones only up to 64 KiB; quick: 7 per boundary up to 64 KiB, 5 up to 1 MiB, 1-3 from 1 MiB to 16 MiB), announced hash = that of the first part / of all served / of the tail / foreign, the response handing out the first part without crossing its end in one Read, bodies above 1400 characters rebuilt from a description and shown to the kernel as stand-in + standard-library digest; 13 small two-part bodies (two ciphertexts concatenated / on two lines / blank-separated, zero bytes before / after, 16 junk bytes after, the same ciphertext twice, a URL serving another valid ciphertext from the second Get on); 14 degenerate announced topologies (0..5 peers, threshold = / > number of peers, 10^6, 2^31-1, peers listed twice), alone or re-announced after a usual one, and 4 sequences whose announced topology includes the relayer itself; distinct = distinct input JSON; non-trivial = gate on a non-empty topology, a claimed sender, a body that decrypts to a valid topology or panics",
	})
}
