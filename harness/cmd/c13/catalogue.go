// What counts as a VALID topology: a catalogue of plaintexts whose ciphertext carries the announced
// hash (so the hash check passes) and whose validity is decided by the runner's reference parser
// (`expected` in main.go: encoding/json Unmarshal of the WHOLE plaintext, peer.AddrInfoFromString on
// every peer, threshold = strconv.ParseInt(text, 0, 0) >= 1).  The specification the Coq judge applies
// is "adopted only if valid by that reference"; that the reference says what the unchanged
// ProcessRawTopology / NetworkTopology say is checked on every item as correspondence.
//
// The catalogue is enumerated completely on every run (not sampled): threshold spellings around every
// boundary (0, negative, 2^31, 2^63-1, 2^63, 2^64-1, 2^64; hex / octal / binary / underscore / signed /
// float / blank-padded / non-ASCII spellings; JSON number, null, bool, array, object instead of the
// string; missing, duplicated, differently-cased key), peer lists (invalid multiaddrs, missing /p2p
// part, bad peer ids, wrong JSON types, null entries, duplicated keys, differently-cased keys, threshold
// above the number of peers, no peers), document shape (extra fields, nested / wrapped documents, deep
// nesting, many peers, escapes, invalid UTF-8) and what surrounds the document (leading / trailing
// blanks, BOM, NUL, PKCS#7-style padding of every length 1..16, a second document, garbage, a lone
// brace, comments).
package main

import (
	"encoding/json"
	"fmt"
	"strings"

	"verifharness/vgen"
)

type catItem struct {
	note string
	pt   []byte
}

func jstr(s string) string {
	b, err := json.Marshal(s)
	if err != nil {
		panic(err)
	}
	return string(b)
}

// peersJSON renders a peer list as the JSON array the topology document holds
func peersJSON(addrs []string) string {
	parts := make([]string, len(addrs))
	for i, a := range addrs {
		parts[i] = `{"peerAddress":` + jstr(a) + `}`
	}
	return "[" + strings.Join(parts, ",") + "]"
}

func topoAddrs(t TopoSpec) []string {
	var addrs []string
	for _, p := range t.Peers {
		addrs = append(addrs, fullAddr(p))
	}
	return addrs
}

// doc builds {"peers":<peers>,"threshold":<thr>} from raw JSON fragments
func doc(peers, thr string) string { return `{"peers":` + peers + `,"threshold":` + thr + `}` }

// catalogue: every item gets a topology of its own (t()), so that a wrong adoption changes what is
// observed
func catalogue(r *vgen.Rng) []catItem {
	var out []catItem
	t := func() TopoSpec { // small ones (1..3 peers): the kernel hashes every ciphertext
		x := genTopo(r, 1)
		if len(x.Peers) > 3 {
			x.Peers = x.Peers[:3]
		}
		x.Threshold = r.Range(1, len(x.Peers))
		return x
	}
	peers := func() string { return peersJSON(topoAddrs(t())) }
	add := func(note string, pt string) { out = append(out, catItem{note, []byte(pt)}) }
	good := func() string { x := t(); return doc(peersJSON(topoAddrs(x)), jstr(fmt.Sprint(x.Threshold))) }

	// ---- the threshold text (a JSON string in the document)
	for _, th := range []string{
		// not above zero
		"0", "-0", "+0", "00", "0x0", "0b0", "0o0", "-1", "-2", "-0x1", "-9223372036854775808", "-9223372036854775809",
		// boundaries of int32 / int64 / uint64
		"1", "+1", "2147483647", "2147483648", "4294967295", "4294967296", "9223372036854775806", "9223372036854775807",
		"9223372036854775808", "9223372036854775809", "18446744073709551614", "18446744073709551615", "18446744073709551616",
		"18446744073709551617", "36893488147419103233", "99999999999999999999", "340282366920938463463374607431768211456", "340282366920938463463374607431768211457",
		// other bases and digit separators (ParseInt base 0)
		"0x1", "0X2", "+0x2", "0x7fffffffffffffff", "0x8000000000000000", "0xffffffffffffffff", "0xFFFFFFFFFFFFFFFF", "0x10000000000000000",
		"0b11", "0B1", "0b2", "0o17", "017", "08", "09", "0o8", "0777777777777777777777", "01000000000000000000000", "01777777777777777777777",
		"0b111111111111111111111111111111111111111111111111111111111111111", "0b1111111111111111111111111111111111111111111111111111111111111111",
		"1_0", "_1", "1_", "1__0", "0x_1", "0_1", "1_000_000",
		// not integers
		"", " ", "abc", "1.5", "1.0", "1e3", "1e0", "0x1p3", "1,5", "2/1", "two", "NaN", "Inf", "true", "null",
		" 2", "2 ", "\t1", "1\n", "1\u0000", "\u00002", "1 2", "--1", "+-1", "++1", "-+1", "+", "-", "0x", "0b", "0o",
		"\uff11", "\u0661", "\u00b2", "1\u200b", "\ufeff1", "\u00a01",
	} {
		add("threshold "+fmt.Sprintf("%q", th), doc(peers(), jstr(th)))
	}
	// threshold written with JSON escapes: the same text after decoding
	add(`threshold "2" (digit written as \u0032)`, doc(peers(), `"\u0032"`))
	add(`threshold "-1" (minus written as \u002d)`, doc(peers(), `"\u002d1"`))
	add(`threshold "1" followed by the escape \n`, doc(peers(), `"1\n"`))
	add("threshold with an invalid UTF-8 byte", doc(peers(), "\"1\xff\""))
	// ---- the threshold member: other JSON types, missing, duplicated, other case
	for _, raw := range []string{"2", "0", "-1", "1.5", "18446744073709551615", "null", "true", "false", `["2"]`, `{"value":"2"}`, `[]`, `{}`} {
		add("threshold is the JSON value "+raw+" (not a string)", doc(peers(), raw))
	}
	add("no threshold member", `{"peers":`+peers()+`}`)
	add("threshold member twice: invalid then valid", `{"peers":`+peers()+`,"threshold":"0","threshold":"2"}`)
	add("threshold member twice: valid then invalid", `{"peers":`+peers()+`,"threshold":"2","threshold":"0"}`)
	add("threshold member twice: valid then out of range", `{"peers":`+peers()+`,"threshold":"2","threshold":"18446744073709551615"}`)
	add("threshold member twice: valid then null", `{"peers":`+peers()+`,"threshold":"2","threshold":null}`)
	add("key Threshold", `{"peers":`+peers()+`,"Threshold":"2"}`)
	add("key THRESHOLD", `{"peers":`+peers()+`,"THRESHOLD":"2"}`)
	add("keys threshold (valid) and Threshold (invalid)", `{"peers":`+peers()+`,"threshold":"2","Threshold":"0"}`)
	add("keys Threshold (invalid) and threshold (valid)", `{"peers":`+peers()+`,"Threshold":"-1","threshold":"3"}`)
	add(`key written with an escape (thr\u0065shold)`, `{"peers":`+peers()+`,"thr\u0065shold":"2"}`)
	add("key threshold_ (another member)", `{"peers":`+peers()+`,"threshold_":"2"}`)
	add("key mpcThreshold", `{"peers":`+peers()+`,"mpcThreshold":"2"}`)
	// ---- threshold against the number of peers (the code has no such rule)
	{
		x := t()
		add("threshold above the number of peers", doc(peersJSON(topoAddrs(x)), jstr(fmt.Sprint(len(x.Peers)+1))))
		add("threshold far above the number of peers", doc(peersJSON(topoAddrs(x)), `"1000000"`))
		add("threshold equal to the number of peers", doc(peersJSON(topoAddrs(x)), jstr(fmt.Sprint(len(x.Peers)))))
	}
	// ---- the peer list
	add("no peers: empty list", doc("[]", `"1"`))
	add("no peers: null", doc("null", `"1"`))
	add("no peers member", `{"threshold":"1"}`)
	add("no peers member, invalid threshold", `{"threshold":"0"}`)
	add("peers is a string", doc(`"x"`, `"1"`))
	add("peers is an object", doc(`{"peerAddress":`+jstr(fullAddr(PeerSpec{ID: 1, Addr: "/ip4/10.0.0.2/tcp/9001"}))+`}`, `"1"`))
	add("peers is a number", doc(`3`, `"1"`))
	ok1 := fullAddr(PeerSpec{ID: 1, Addr: "/ip4/10.0.0.2/tcp/9001"})
	ok2 := fullAddr(PeerSpec{ID: 2, Addr: "/dns4/relayer2/tcp/9002"})
	id3 := pid(3).String()
	nbad := 0
	for _, bad := range []string{
		"", " ", "relayer", "/", "/ip4/10.0.0.3/tcp/9002", "/dns4/relayer2/tcp/9001/p2p/", "/p2p/notapeerid", "/p2p/",
		"/ip4/10.0.0.3/tcp/9002/p2p/notapeerid", "/ip4/999.0.0.1/tcp/1/p2p/" + id3, "/ip4/10.0.0.3/tcp/70000/p2p/" + id3,
		"/ip4/10.0.0.3/tcp/-1/p2p/" + id3, "/ip4/10.0.0.3/tcp/p2p/" + id3, "/ip4/10.0.0.3/p2p", "ip4/10.0.0.3/tcp/9002/p2p/" + id3,
		"/p2p/" + id3 + "/ip4/10.0.0.3/tcp/9002", "/ip4/10.0.0.3/tcp/9002/p2p/" + id3 + " ", " /ip4/10.0.0.3/tcp/9002/p2p/" + id3,
		"/ip4/10.0.0.3/tcp/9002/p2p/" + id3[:len(id3)-1], "/ip4/10.0.0.3/tcp/9002/p2p/" + id3 + "x", "/ip4/10.0.0.3/tcp/9002/P2P/" + id3,
		"/unknownproto/1/p2p/" + id3, "/ip6/zz/tcp/1/p2p/" + id3, id3, "http://relayer3:9002/" + id3,
	} {
		add(fmt.Sprintf("invalid peer address %q first", bad), doc(peersJSON([]string{bad, ok1, ok2}), `"1"`))
		if nbad++; nbad%3 == 0 {
			add(fmt.Sprintf("invalid peer address %q last", bad), doc(peersJSON([]string{ok1, ok2, bad}), `"1"`))
		}
	}
	add("peer entry null", doc(`[{"peerAddress":`+jstr(ok1)+`},null]`, `"1"`))
	add("peer entry {}", doc(`[{},{"peerAddress":`+jstr(ok1)+`}]`, `"1"`))
	add("peer entry is a string", doc(`[`+jstr(ok1)+`]`, `"1"`))
	add("peer entry is a list", doc(`[[`+jstr(ok1)+`]]`, `"1"`))
	add("peerAddress null", doc(`[{"peerAddress":null}]`, `"1"`))
	add("peerAddress is a number", doc(`[{"peerAddress":1}]`, `"1"`))
	add("peerAddress is a list", doc(`[{"peerAddress":[`+jstr(ok1)+`]}]`, `"1"`))
	add("key PeerAddress", doc(`[{"PeerAddress":`+jstr(ok1)+`},{"peeraddress":`+jstr(ok2)+`}]`, `"2"`))
	add("key peer_address (another member)", doc(`[{"peer_address":`+jstr(ok1)+`}]`, `"1"`))
	add("peerAddress twice: invalid then valid", doc(`[{"peerAddress":"x","peerAddress":`+jstr(ok1)+`}]`, `"1"`))
	add("peerAddress twice: valid then invalid", doc(`[{"peerAddress":`+jstr(ok1)+`,"peerAddress":"x"}]`, `"1"`))
	add("peer entry with extra members", doc(`[{"peerAddress":`+jstr(ok1)+`,"name":"r1","weight":2}]`, `"1"`))
	add("the same peer id twice, different addresses", doc(peersJSON([]string{ok1, fullAddr(PeerSpec{ID: 1, Addr: "/ip4/10.9.9.9/tcp/1"})}), `"1"`))
	add("the same peer twice", doc(peersJSON([]string{ok2, ok2}), `"2"`))
	add("peers member twice: full then empty", `{"peers":`+peers()+`,"threshold":"1","peers":[]}`)
	add("peers member twice: invalid then valid", `{"peers":[{"peerAddress":"x"}],"threshold":"1","peers":`+peers()+`}`)
	add("peers member twice: valid then invalid", `{"peers":`+peers()+`,"threshold":"1","peers":[{"peerAddress":"x"}]}`)
	add("key Peers", `{"Peers":`+peers()+`,"threshold":"2"}`)
	add("/ipfs/ instead of /p2p/", doc(peersJSON([]string{"/ip4/10.0.0.4/tcp/9003/ipfs/" + id3, ok1}), `"1"`))
	// ---- the document
	add("extra members", `{"version":7,"peers":`+peers()+`,"comment":"x","threshold":"2","nested":{"threshold":"0"}}`)
	add("members in the other order", `{"threshold":"2","peers":`+peers()+`}`)
	add("blanks inside", "{ \"peers\" :\n"+peers()+" ,\t\"threshold\" : \"2\" }")
	add("wrapped: {\"topology\": document}", `{"topology":`+good()+`}`)
	add("wrapped: [document]", `[`+good()+`]`)
	add("wrapped: \"document\" as a JSON string", jstr(good()))
	add("empty object", `{}`)
	add("empty plaintext", ``)
	add("null", `null`)
	add("a number", `1`)
	add("a string", `"x"`)
	add("an unterminated document", good()[:20])
	add("a document without the closing brace", strings.TrimSuffix(good(), "}"))
	add("single quotes", strings.ReplaceAll(good(), `"`, `'`))
	add("trailing comma", strings.TrimSuffix(good(), "}")+",}")
	add("deeply nested extra member", `{"x":`+strings.Repeat("[", 300)+strings.Repeat("]", 300)+`,"peers":`+peers()+`,"threshold":"2"}`)
	{
		var many []string
		for i := 0; i < 24; i++ {
			many = append(many, fullAddr(PeerSpec{ID: i % nFamily, Addr: fmt.Sprintf("/ip4/10.0.%d.%d/tcp/%d", i/8, i%8+1, 9000+i)}))
		}
		add("24 peers (every id three times), valid threshold", doc(peersJSON(many), `"24"`))
		add("24 peers, threshold 2^64-1", doc(peersJSON(many), `"18446744073709551615"`))
		add("24 peers, then one invalid address", doc(peersJSON(append(many, "/ip4/10.0.0.3/tcp/9002")), `"3"`))
	}
	add("a large extra member (2 KB)", `{"pad":"`+strings.Repeat("0123456789abcdef", 128)+`","peers":`+peers()+`,"threshold":"2"}`)
	// ---- around the document
	for _, pre := range []string{" ", "\n", "\t\r\n ", "\xef\xbb\xbf", "\x00", "\x00\x00\x00\x00", "\v", "\f", "\u00a0", "\u2028", "//c\n", "/**/", "0", ",", "{}", "null", "[]"} {
		add(fmt.Sprintf("%q before the document", pre), pre+good())
	}
	for _, post := range []string{" ", "\n", "\r\n", "\t \n\r", strings.Repeat(" ", 1024), "\x00", "\x00\x00\x00\x00\x00\x00\x00\x00", "\v", "\f", "\u00a0", "\ufeff",
		"}", "]", ",", ";", "0", "x", "garbage", "//c", "/**/", "null", "{}", "[]", `""`, "\n{}", "\nnull", " \x00", "\n\x01", "\x80", "\xff"} {
		add(fmt.Sprintf("%q after the document", post), good()+post)
	}
	for k := 1; k <= 16; k++ { // PKCS#7-style padding: k bytes of value k (9, 10 and 13 are JSON blanks)
		add(fmt.Sprintf("PKCS#7-style padding of %d bytes after the document", k), good()+strings.Repeat(string(rune(k)), k))
	}
	add("zero padding to a multiple of 16 after the document", func() string { g := good(); return g + strings.Repeat("\x00", 16-len(g)%16) }())
	add("the same document twice", func() string { g := good(); return g + g }())
	add("two different valid documents", good()+good())
	add("two different valid documents, newline between", good()+"\n"+good())
	add("a valid document, then an invalid one", good()+doc(peers(), `"0"`))
	add("an invalid document (threshold 0), then a valid one", doc(peers(), `"0"`)+good())
	add("an invalid document (bad peer), then a valid one", doc(`[{"peerAddress":"x"}]`, `"1"`)+"\n"+good())
	add("an empty object, then a valid document", `{}`+good())
	add("a valid document, then an unterminated one", func() string { g := good(); return g + g[:15] }())
	return out
}

// the catalogue as events (the announced hash is the ciphertext's own)
func catalogueEvents(r *vgen.Rng) []Event {
	var evs []Event
	for _, it := range catalogue(r) {
		ct := encrypt(r.Bytes(16), it.pt)
		evs = append(evs, mkEvent("catalogue: "+it.note+", correct hash", hexBody(ct), sha(ct)))
	}
	return evs
}
