// What is hash-checked must be what was SERVED - all of it.  Bodies built as
//
//	<a complete ciphertext of a valid topology, stretched to end exactly on a boundary> + <a tail>
//
// where the boundary is a length at which a reader, a buffer or a slice may plausibly stop (powers of
// two from 512 B to 16 MiB, 10^4, 10^5, 10^6, 5 and 10 MiB; thorough: also 3, 20, 32 MiB, 10^7) measured in body characters, ciphertext bytes or
// plaintext bytes, and the tail is junk, a second complete ciphertext, a second document in the same
// ciphertext, one more digit, a newline and more, the first part again, or nothing (a legitimately
// large document).  The announced hash is that of the first part, of everything served, of the tail, or
// a foreign one.  The specification does not care how a body is built: a topology is adopted only if
// ALL served bytes decode to a ciphertext that has the announced hash and decrypts to a valid topology
// as a whole.  An implementation that reads, hashes, decodes or parses only a part is seen adopting a
// topology that was not announced.
//
// Bodies up to 1400 characters are spelled out in the case and hashed by the kernel as every other body;
// larger ones are described by a BigSpec, rebuilt deterministically by the runner, and shown to the
// Coq side as a stand-in with the Go standard library's digest (see standIn in main.go).
package main

import (
	"crypto/aes"
	"crypto/cipher"
	"encoding/binary"
	"encoding/hex"
	"fmt"
	"strconv"
	"strings"

	"verifharness/vgen"
)

type BigSpec struct {
	Align    string   `json:"align"`    // body | ct | pt: the length of the first part that equals N (characters / bytes)
	N        int      `json:"n"`        // the boundary
	Fill     string   `json:"fill"`     // how the first document is stretched: space | ws | lead | member | inner
	Tail     string   `json:"tail"`     // "" | junk | doc2 | ctr-junk | ctr-doc2 | ctr-ws | digit | nl | nl-doc2 | zz | again
	Announce string   `json:"announce"` // first | whole | tail | other
	Seed     uint64   `json:"seed"`
	Topo     TopoSpec `json:"topo"`  // the first document
	Topo2    TopoSpec `json:"topo2"` // the second document (doc2 tails)
}

type bigBody struct {
	body     []byte
	hash     string // the announced hash
	firstLen int    // length of the first part in body characters
	ok       bool   // false: the document does not fit below the boundary
}

// keystream: deterministic pseudo-random bytes (AES-CTR of zeros under a key derived from the seed)
func keystream(seed uint64, lane byte, n int) []byte {
	var key [16]byte
	binary.LittleEndian.PutUint64(key[:8], seed)
	key[8] = lane
	key[15] = 0x5a
	block, err := aes.NewCipher(key[:])
	if err != nil {
		panic(err)
	}
	out := make([]byte, n)
	var iv [16]byte
	cipher.NewCTR(block, iv[:]).XORKeyStream(out, out)
	return out
}

// stretch makes a valid topology document of exactly p bytes out of doc (nil if it does not fit)
func stretch(doc []byte, p int, fill string) []byte {
	k := p - len(doc)
	if k < 0 {
		return nil
	}
	blanks := func(n int, alphabet string) []byte {
		b := make([]byte, n)
		for i := range b {
			b[i] = alphabet[i%len(alphabet)]
		}
		return b
	}
	switch fill {
	case "space":
		return append(append([]byte{}, doc...), blanks(k, " ")...)
	case "ws":
		return append(append([]byte{}, doc...), blanks(k, " \n\t \r\n")...)
	case "lead":
		return append(blanks(k, " \n"), doc...)
	case "inner": // blanks after the opening brace
		out := append([]byte{doc[0]}, blanks(k, " ")...)
		return append(out, doc[1:]...)
	case "member": // a long extra member before the closing brace
		const frame = `,"note":""`
		if k < len(frame) {
			return append(append([]byte{}, doc...), blanks(k, " ")...)
		}
		out := append([]byte{}, doc[:len(doc)-1]...)
		out = append(out, `,"note":"`...)
		out = append(out, blanks(k-len(frame), "topology ")...)
		return append(out, '"', '}')
	}
	panic("unknown fill " + fill)
}

func buildBig(s *BigSpec) bigBody {
	p := 0 // plaintext bytes of the first part
	switch s.Align {
	case "body":
		p = s.N/2 - aes.BlockSize
	case "ct":
		p = s.N - aes.BlockSize
	case "pt":
		p = s.N
	default:
		panic("unknown align " + s.Align)
	}
	doc1 := topoPlain(s.Topo, strconv.Itoa(s.Topo.Threshold))
	pt := stretch(doc1, p, s.Fill)
	if pt == nil || (s.Align == "body" && s.N%2 != 0) {
		return bigBody{}
	}
	doc2 := topoPlain(s.Topo2, strconv.Itoa(s.Topo2.Threshold))
	// what follows the first document inside the same ciphertext
	switch s.Tail {
	case "ctr-junk":
		pt = append(pt, keystream(s.Seed, 1, 48)...)
	case "ctr-doc2":
		pt = append(pt, doc2...)
	case "ctr-ws":
		pt = append(pt, "  \n \n"...)
	}
	ct := encrypt(keystream(s.Seed, 0, 16), pt)
	first := ct[:aes.BlockSize+p]
	ct2 := encrypt(keystream(s.Seed, 2, 16), doc2)
	body := make([]byte, 0, 2*len(ct)+2*len(first)+16)
	body = append(body, hex.EncodeToString(ct)...)
	switch s.Tail {
	case "junk":
		body = append(body, hex.EncodeToString(keystream(s.Seed, 3, 64))...)
	case "doc2":
		body = append(body, hex.EncodeToString(ct2)...)
	case "digit":
		body = append(body, 'a')
	case "nl":
		body = append(body, '\n')
	case "nl-doc2":
		body = append(body, '\n')
		body = append(body, hex.EncodeToString(ct2)...)
	case "zz":
		body = append(body, "zz<!-- served by gateway -->"...)
	case "again":
		body = append(body, hex.EncodeToString(first)...)
	case "", "ctr-junk", "ctr-doc2", "ctr-ws":
	default:
		panic("unknown tail " + s.Tail)
	}
	b := bigBody{body: body, firstLen: 2 * len(first), ok: true}
	switch s.Announce {
	case "first":
		b.hash = sha(first)
	case "whole":
		if all, err := hex.DecodeString(strings.TrimSuffix(string(body), "\n")); err == nil {
			b.hash = sha(all)
		} else {
			b.hash = sha(first)
		}
	case "tail":
		b.hash = sha(ct2)
	case "other":
		b.hash = sha(keystream(s.Seed, 4, 8))
	default:
		panic("unknown announce " + s.Announce)
	}
	return b
}

// the largest body that is spelled out in the case (and hashed by the kernel)
const spelledOut = 1400

type bigVariant struct{ align, fill, tail, announce string }

var bigVariants = []bigVariant{
	{"body", "ws", "junk", "first"},       // 0: cut at N characters before the hash check
	{"body", "space", "doc2", "first"},    // 1: ... with a second complete ciphertext behind
	{"body", "member", "digit", "first"},  // 2: N+1 characters
	{"body", "space", "nl-doc2", "first"}, // 3: first line only
	{"ct", "ws", "junk", "first"},         // 4: cut at N ciphertext bytes
	{"ct", "space", "ctr-doc2", "whole"},  // 5: everything hashed, N ciphertext bytes decrypted / parsed
	{"pt", "space", "ctr-junk", "whole"},  // 6: everything hashed, N plaintext bytes parsed
	{"body", "lead", "doc2", "tail"},      // 7: the hash of the last part is announced
	{"body", "space", "", "whole"},        // 8: a legitimate document of exactly N characters
	{"body", "ws", "ctr-ws", "whole"},     // 9: a legitimate document a little longer than N
	{"body", "space", "again", "first"},   // 10: the first part twice
	{"body", "inner", "zz", "first"},      // 11: non-hex tail
	{"pt", "member", "ctr-doc2", "first"}, // 12: a second document in the same ciphertext, hash of the first part
	{"body", "ws", "nl", "first"},         // 13: a legitimate document of N characters and a newline
	{"body", "space", "junk", "other"},    // 14: a foreign hash
}

// topology whose members differ from those of every topology in avoid
func otherTopo(r *vgen.Rng, maxPeers int, avoid ...TopoSpec) TopoSpec {
	key := func(t TopoSpec) string {
		var m [nFamily + 2]bool
		for _, p := range t.Peers {
			m[p.ID] = true
		}
		return fmt.Sprint(m)
	}
	for {
		t := genTopo(r, 1)
		if len(t.Peers) > maxPeers {
			t.Peers = t.Peers[:maxPeers]
		}
		clash := false
		for _, a := range avoid {
			clash = clash || key(a) == key(t)
		}
		if !clash {
			return t
		}
	}
}

// one event of the family; init = the topology in force before it (the first document differs from it)
func bigEvent(r *vgen.Rng, v bigVariant, n int, init TopoSpec) (Event, bool) {
	maxPeers := 3
	if n <= 1024 {
		maxPeers = 1
	}
	t1 := otherTopo(r, maxPeers, init)
	t2 := otherTopo(r, 2, init, t1)
	s := &BigSpec{Align: v.align, N: n, Fill: v.fill, Tail: v.tail, Announce: v.announce, Seed: r.U64(), Topo: t1, Topo2: t2}
	b := buildBig(s)
	if !b.ok {
		return Event{}, false
	}
	ev := Event{Hashes: []string{b.hash}, FirstRead: b.firstLen,
		Note: fmt.Sprintf("a valid ciphertext stretched (%s) to end on %d %s bytes, then tail %q; the hash announced is that of: %s; %d characters served",
			v.fill, n, v.align, v.tail, v.announce, len(b.body))}
	if len(b.body) <= spelledOut {
		ev.BodyHex = hex.EncodeToString(b.body)
	} else {
		ev.Big = s
	}
	return ev, true
}

func hasBig(c Case) bool {
	for _, ev := range c.Events {
		if ev.Big != nil {
			return true
		}
	}
	return false
}

// the cases of the family
func genBig(r *vgen.Rng, tier string) []Case {
	small := []int{512, 1024, 2048, 4096, 8192, 16384, 32768, 65536}
	mid := []int{10000, 100000, 1 << 17, 1 << 18, 1 << 19, 1000000, 1 << 20}
	type pick struct {
		n  int
		vs []int
	}
	var plan []pick
	all := make([]int, len(bigVariants))
	for i := range all {
		all[i] = i
	}
	// legitimately large documents (which must be adopted) are kept to 64 KiB: a relayer that refuses
	// an oversized response with an error does nothing the property forbids
	legit := func(v int) bool {
		return bigVariants[v].announce == "whole" && (bigVariants[v].tail == "" || bigVariants[v].tail == "ctr-ws") ||
			bigVariants[v].tail == "nl"
	}
	rot := r.Intn(len(bigVariants))
	some := func(k, n int, always ...int) []int {
		out := append([]int{}, always...)
		for j := 0; len(out) < k; j++ {
			x := (rot + 7*j) % len(bigVariants) // 7 is coprime to the number of variants
			dup := n > 65536 && legit(x)
			for _, y := range out {
				dup = dup || x == y
			}
			if !dup {
				out = append(out, x)
			}
		}
		rot++
		return out
	}
	if tier == "thorough" {
		for _, n := range append(append(small, mid...), 2<<20, 3<<20, 4<<20, 5<<20, 8<<20, 10<<20, 10000000, 16<<20, 20<<20, 32<<20) {
			var vs []int
			for _, v := range all {
				if n <= 65536 || !legit(v) {
					vs = append(vs, v)
				}
			}
			plan = append(plan, pick{n, vs})
		}
	} else {
		for _, n := range small {
			plan = append(plan, pick{n, some(7, n, 0, 1)})
		}
		for _, n := range mid {
			plan = append(plan, pick{n, some(5, n, 0, 1, 2)})
		}
		plan = append(plan, pick{1 << 20, []int{4, 5, 6}}, pick{2 << 20, []int{1, 4}}, pick{4 << 20, []int{0, 2}},
			pick{5 << 20, []int{1}}, pick{8 << 20, []int{0}}, pick{10 << 20, []int{0}}, pick{16 << 20, []int{1}})
	}
	var out []Case
	k := 0
	for _, p := range plan {
		for _, vi := range p.vs {
			init := genTopo(r, 1)
			ev, ok := bigEvent(r, bigVariants[vi], p.n, init)
			if !ok {
				continue
			}
			k++
			switch k % 3 {
			case 0:
				h := ev.Hashes[0]
				if k%15 == 0 {
					h = "" // the start-up call
				}
				out = append(out, Case{Kind: "prov", Hash: h, Events: []Event{ev}})
			case 1:
				out = append(out, Case{Kind: "refresh", Topo: init, Events: []Event{ev}})
			default:
				// after a genuine refresh: the topology in force is the one of that event
				g := otherTopo(r, 3)
				gct := encrypt(r.Bytes(16), topoPlain(g, strconv.Itoa(g.Threshold)))
				ev2, ok := bigEvent(r, bigVariants[vi], p.n, g)
				if !ok {
					continue
				}
				out = append(out, Case{Kind: "refresh", Topo: init, Events: []Event{mkEvent("genuine", hexBody(gct), sha(gct)), ev2}})
			}
		}
	}
	return out
}

// small bodies made of two parts, neither aligned to anything: the response hands out the first part
// in one Read; and events whose URL serves something else from the second Get on.  All of these are
// hashed by the kernel.
func genParts(r *vgen.Rng) []Case {
	var out []Case
	mk := func(t TopoSpec) []byte { return encrypt(r.Bytes(16), topoPlain(t, strconv.Itoa(t.Threshold))) }
	for i := 0; i < 13; i++ {
		init := genTopo(r, 1)
		ta := otherTopo(r, 2, init)
		tb := otherTopo(r, 2, init, ta)
		a, b := mk(ta), mk(tb)
		ha, hb := hex.EncodeToString(a), hex.EncodeToString(b)
		var ev Event
		switch i {
		case 0:
			ev = mkEvent("two complete ciphertexts one after the other, hash of the first", []byte(ha+hb), sha(a))
		case 1:
			ev = mkEvent("two complete ciphertexts one after the other, hash of the second", []byte(ha+hb), sha(b))
		case 2:
			ev = mkEvent("two complete ciphertexts one after the other, hash of both together", []byte(ha+hb), sha(append(append([]byte{}, a...), b...)))
		case 3:
			ev = mkEvent("two complete ciphertexts on two lines, hash of the first", []byte(ha+"\n"+hb), sha(a))
		case 4:
			ev = mkEvent("two complete ciphertexts on two lines (second ends with newline), hash of the second", []byte(ha+"\n"+hb+"\n"), sha(b))
		case 5:
			ev = mkEvent("two complete ciphertexts separated by a blank, hash of the first", []byte(ha+" "+hb), sha(a))
		case 6:
			ev = mkEvent("a complete ciphertext and 16 more bytes, hash of the first part", []byte(ha+hex.EncodeToString(r.Bytes(16))), sha(a))
		case 7:
			ev = mkEvent("a complete ciphertext and two zero bytes, hash of the first part", []byte(ha+"0000"), sha(a))
		case 8:
			ev = mkEvent("two zero bytes and a complete ciphertext, hash of the ciphertext", []byte("0000"+ha), sha(a))
		case 9:
			ev = mkEvent("the same complete ciphertext on two lines, its hash", []byte(ha+"\n"+ha), sha(a))
		default:
			// the URL serves A first and B on every later Get (or the other way round); the hash of A is announced
			first, second, note := []byte(ha), []byte(hb), "the URL serves the announced ciphertext first and another valid one on every later Get"
			if i%2 == 0 {
				first, second, note = []byte(hb), []byte(ha), "the URL serves another valid ciphertext first and the announced one on every later Get"
			}
			ev = mkEvent(note, first, sha(a))
			ev.SecondBody = hex.EncodeToString(second)
		}
		if i <= 9 && i != 8 {
			ev.FirstRead = len(ha)
		}
		if i%3 == 2 {
			out = append(out, Case{Kind: "prov", Hash: ev.Hashes[0], Events: []Event{ev}})
		} else {
			out = append(out, Case{Kind: "refresh", Topo: init, Events: []Event{ev}})
		}
	}
	return out
}

// degenerate topologies, announced and valid: file and gate must both follow (or both stay)
func genDegenerate(r *vgen.Rng) []Case {
	type shape struct {
		n, thr int
		dup    bool
	}
	shapes := []shape{{0, 1, false}, {1, 1, false}, {1, 2, false}, {2, 2, false}, {2, 5, false}, {3, 3, false}, {3, 4, false},
		{5, 5, false}, {4, 1000000, false}, {2, 2, true}, {2, 4, true}, {1, 2147483647, false}, {3, 1, false}, {4, 2, false}}
	var out []Case
	for i, sh := range shapes {
		init := genTopo(r, 2)
		t := TopoSpec{Peers: []PeerSpec{}, Threshold: sh.thr}
		if sh.n > 0 {
			for {
				g := genTopo(r, 5)
				g.Peers = g.Peers[:sh.n]
				t.Peers = g.Peers
				if otherTopoKey(t) != otherTopoKey(init) {
					break
				}
			}
		}
		if sh.dup {
			t.Peers = append(append([]PeerSpec{}, t.Peers...), t.Peers...)
		}
		ct := encrypt(r.Bytes(16), topoPlain(t, strconv.Itoa(t.Threshold)))
		ev := mkEvent(fmt.Sprintf("announced valid topology with %d peers (listed twice: %v) and threshold %d", sh.n, sh.dup, sh.thr), hexBody(ct), sha(ct))
		c := Case{Kind: "refresh", Topo: init, Events: []Event{ev}}
		if i%2 == 1 {
			// a usual one after it, then the degenerate one again
			g, _ := genuine(r)
			c.Events = append(c.Events, g, ev)
		}
		out = append(out, c)
	}
	// the relayer itself (the host of the refresh handler, probe 9) is a member of the announced
	// topology, as it normally is; then of the next one it is not
	for i := 0; i < 4; i++ {
		init := genTopo(r, 2)
		t := otherTopo(r, 3, init)
		t.Peers = append(t.Peers, PeerSpec{ID: nFamily + 1, Addr: "/ip4/10.0.0.10/tcp/9009"})
		t.Threshold = 1 + i
		ct := encrypt(r.Bytes(16), topoPlain(t, strconv.Itoa(t.Threshold)))
		ev := mkEvent(fmt.Sprintf("announced valid topology of %d peers that includes the relayer itself, threshold %d", len(t.Peers), t.Threshold), hexBody(ct), sha(ct))
		g, _ := genuine(r)
		out = append(out, Case{Kind: "refresh", Topo: init, Events: []Event{ev, g, ev}})
	}
	return out
}

func otherTopoKey(t TopoSpec) string {
	var m [nFamily + 2]bool
	for _, p := range t.Peers {
		m[p.ID] = true
	}
	return fmt.Sprint(m)
}
