// C07 correspondence runner.  Drives, on generated cases,
//
//	elect   the REAL staticCoordinatorElector and util.SortPeersForSession on a peer list and on a
//	        permutation of it
//	params  the REAL ECDSA / FROST Signing.Ready and StartParams (key share with a chosen committee)
//	subset  the REAL tss.Coordinator (Execute, or the unexported start through the verif hook when the
//	        excluded list is not empty) in the coordinator role, fed a stream of ready messages
//	wait    the REAL tss.Coordinator.Execute in a non-coordinator role, fed genuine and forged
//	        initiate / start / fail messages in a scripted order
//	retry   the REAL tss.Coordinator.Execute whose first attempt fails retryably (silent coordinator,
//	        or the first Run returns a typed error); the REAL bully elector (over a scripted
//	        Communication, verif constructor) determines the coordinator of the retried attempt - this
//	        relayer (nobody answers) or a scripted earlier candidate; during the retried attempt the
//	        relayer is fed ready / initiate / start messages and FORGED fail messages from peers that
//	        are not the retried attempt's coordinator (handleError's watcher is told the empty id)
//	multi   ONE real tss.Coordinator object serving two or three overlapping sessions (Execute once per
//	        session, concurrently) whose elected coordinators differ; every session is fed initiate /
//	        start / fail messages of the OTHER sessions' coordinators and of its own; also with every
//	        session in its retried attempt (scripted bully winners)
//
// Peer tables may hold LOOK-ALIKE ids (twins.go): peers whose ids agree with the id of a coordinator / key
// holder / excluded peer / this relayer under a lossy projection (same first and last characters, case
// folding, prefix, extension, one byte changed, ...).  They send the forged messages, report ready, are
// listed as key holders, or are this relayer itself (which then must not take the coordinator's part).
//
// and reports what the implementation did.  The session sort keys handed to the Coq model are
// computed here from the specification (tssfakes.C07SortKey), not taken from the code under test.
package main

import (
	"context"
	"encoding/json"
	"errors"
	"fmt"
	"os"
	"sort"
	"sync"
	"time"

	"github.com/ChainSafe/sygma-relayer/comm"
	"github.com/ChainSafe/sygma-relayer/comm/elector"
	"github.com/ChainSafe/sygma-relayer/config/relayer"
	"github.com/ChainSafe/sygma-relayer/tss"
	"github.com/ChainSafe/sygma-relayer/tss/ecdsa/common"
	"github.com/ChainSafe/sygma-relayer/tss/util"
	tsslib "github.com/binance-chain/tss-lib/tss"
	"github.com/libp2p/go-libp2p/core/peer"
	"github.com/rs/zerolog"

	fk "verifharness/tssfakes"
	"verifharness/vgen"
)

type Msg struct {
	Type   string `json:"type"` // initiate | start | fail; multi: also launch (Execute of session S is called)
	S      int    `json:"s,omitempty"` // multi: the session (index into Sids) the message is for
	From   int    `json:"from"`
	Params []int  `json:"params,omitempty"`
	Bad    bool   `json:"bad,omitempty"` // start: payload is not a start message
	At     int    `json:"at,omitempty"`  // timed cases: not delivered earlier than this many ms after the wait began
}

type Case struct {
	Kind     string   `json:"kind"`  // elect | params | subset | wait | retry | timed | multi
	Peers    []string `json:"peers"` // peer table; everything else refers to it by index (base58 text, or raw:<hex>, see twins.go)
	Twins    []Twin   `json:"twins,omitempty"` // which peers of the table are look-alikes of which (the ids themselves are the input)
	Sids     []string `json:"sids,omitempty"`  // multi: the session ids of the overlapping sessions of one Coordinator object
	Sid      string   `json:"sid"`
	Holders  []int    `json:"holders"`
	Perm     []int    `json:"perm,omitempty"`
	T        int      `json:"t"`
	Proc     string   `json:"proc,omitempty"` // ecdsa | frost
	Ready    []int    `json:"ready,omitempty"`
	Self     int      `json:"self"`
	Excluded []int    `json:"excluded,omitempty"`
	Via      string   `json:"via,omitempty"` // execute | hook
	Msgs     []Msg    `json:"msgs,omitempty"`
	// retry: the first attempt and the bully outcome
	Cause  string `json:"cause,omitempty"`  // silent | comm | tss | coord
	Ready1 []int  `json:"ready1,omitempty"` // first attempt, coordinator role: senders of ready messages
	Start1 []int  `json:"start1,omitempty"` // first attempt, other role: params of the coordinator's start message
	Winner *int   `json:"winner,omitempty"` // an earlier candidate announces itself; nil = nobody answers, this relayer coordinates
	// multi with Cause = comm: every session's first attempt fails with a CommunicationError and the scripted
	// bully election of session k is won by Winners[k]; the script is that of the retried attempts
	Winners []int `json:"winners,omitempty"`
	Evs    []Ev   `json:"evs,omitempty"`    // retried attempt, coordinator role: ready and fail messages
	// timed: Coordinator.CoordinatorTimeout / TssTimeout in ms (0 = one hour) and how long the relayer is
	// watched (ms after its wait began); Msgs carry arrival times.  Winner == nil: the first attempt's
	// wait; otherwise the retried attempt's wait for the scripted winner (Cause = comm).
	CTO     int `json:"cto_ms,omitempty"`
	TTO     int `json:"tto_ms,omitempty"`
	Horizon int `json:"horizon_ms,omitempty"`
}

type Ev struct {
	Ready bool `json:"ready"` // true: ready message, false: fail message
	From  int  `json:"from"`
}

type Out struct {
	Kind   string `json:"kind"` // ready | run | badstart | abort
	Peer   int    `json:"peer"`
	Params []int  `json:"params,omitempty"`
}

// TObs is what a timed wait did and how it ended: waiting | running (at the horizon) | finished |
// coord-timeout | watch-timeout.
type TObs struct {
	Outs  []Out  `json:"outs"`
	End   string `json:"end"`
	Tries int    `json:"tries,omitempty"`
}

type Obs struct {
	TAll       *TObs    `json:"t_all,omitempty"` // timed: fed every message
	TOwn       *TObs    `json:"t_own,omitempty"` // timed: fed the coordinator's own messages only
	Keys       []uint64 `json:"keys"`
	Sorted     []int    `json:"sorted,omitempty"`
	SortedPerm []int    `json:"sorted_perm,omitempty"`
	Coord      int      `json:"coord"`
	CoordPerm  int      `json:"coord_perm"`
	ReadyOK    bool     `json:"ready_ok,omitempty"`
	Params     []int    `json:"params,omitempty"`
	Calls      [][]int  `json:"calls,omitempty"`
	ExclOK     bool     `json:"excl_ok,omitempty"`
	Announced  *[]int   `json:"announced,omitempty"`
	Run        *[]int   `json:"run,omitempty"`
	Outs       []Out    `json:"outs,omitempty"`
	Aborted    bool     `json:"aborted,omitempty"`
	// wait / multi: the relayer was seen doing the coordinator's side (ready subscription, initiate broadcast)
	Coordinates bool       `json:"coordinates,omitempty"`
	SKeys       [][]uint64 `json:"skeys,omitempty"` // multi: sort keys per session
	SOuts       [][]Out    `json:"souts,omitempty"` // multi: actions per session
	// wait / retry (other role) / multi: the messages of the script (indices) that did NOT ARRIVE: their
	// session was over before they could be handed over (never offered, or the offer ended unconsumed
	// because the session function returned).  The model and the judge are given the messages that arrived.
	Dropped []int `json:"dropped,omitempty"`
	OtherError string   `json:"other_error,omitempty"`
	// the RUNNER could not drive the case (a phase it scripts did not come about, it could not keep a
	// schedule, a wait ran into a shortened deadline): says nothing about the code under test - the case
	// is handed to Coq as Undriven: never judged, counted as broken correspondence
	Harness string `json:"harness_error,omitempty"`
}

// endsSession: the message types after which a session may end by itself (a fail message, an
// undecodable start message) - whoever sent them.
func endsSession(m Msg) bool { return m.Type == "fail" || m.Type == "start" && m.Bad }

// sessionEnd names what ended a session whose Execute returned ferr, from the error's TYPE and the
// recorded SEQUENCE (last = the last consumed message that can end a session; sawBad = an undecodable
// start message was consumed) - never from the error's text:
// "" (nil, or the runner's own cancellation) | coord | badstart | abort | other.
func sessionEnd(ferr error, last *Msg, sawBad bool) string {
	var syn *json.SyntaxError
	var ce *tss.CoordinatorError
	switch {
	case ferr == nil, errors.Is(ferr, context.Canceled):
		return ""
	case errors.As(ferr, &ce):
		return "coord"
	case errors.As(ferr, &syn) && sawBad:
		return "badstart"
	case last != nil && last.Type == "fail":
		return "abort"
	case last != nil:
		return "badstart"
	}
	return "other"
}

const unknownPeer = 9999

var repo = func() string {
	if r := os.Getenv("VERIF_REPO"); r != "" {
		return r
	}
	return "/repo"
}()

type tbl struct {
	ids []peer.ID
	ix  map[peer.ID]int
}

func table(c Case) tbl {
	t := tbl{ix: map[peer.ID]int{}}
	for i, s := range c.Peers {
		id, err := decodePeer(s)
		if err != nil {
			panic(fmt.Sprintf("case peer %d: %v", i, err))
		}
		t.ids = append(t.ids, id)
		t.ix[id] = i
	}
	return t
}

func (t tbl) pick(is []int) []peer.ID {
	out := make([]peer.ID, 0, len(is))
	for _, i := range is {
		out = append(out, t.ids[i])
	}
	return out
}

func (t tbl) index(p peer.ID) int {
	if i, ok := t.ix[p]; ok {
		return i
	}
	return unknownPeer
}

func (t tbl) indices(ps []peer.ID) []int {
	out := make([]int, 0, len(ps))
	for _, p := range ps {
		out = append(out, t.index(p))
	}
	return out
}

func keys(t tbl, sid string) []uint64 {
	out := make([]uint64, len(t.ids))
	for i, p := range t.ids {
		out[i] = fk.C07SortKey(p, sid)
	}
	return out
}

func sameInts(a, b []int) bool {
	if len(a) != len(b) {
		return false
	}
	for i := range a {
		if a[i] != b[i] {
			return false
		}
	}
	return true
}

// ---- driving the real code -----------------------------------------------------------------------

// guarded runs the code under test and turns its panic (the conc pools re-raise the panics of their
// tasks in Wait, i.e. in the goroutine that called Execute) into a value the driver re-raises in the
// goroutine that runs THIS case - whichever case the runner's foreground is busy with.
type crashBox struct {
	mu sync.Mutex
	v  interface{}
}

func (b *crashBox) guard() {
	if x := recover(); x != nil {
		b.mu.Lock()
		b.v = x
		b.mu.Unlock()
	}
}

func (b *crashBox) rethrow() {
	b.mu.Lock()
	v := b.v
	b.mu.Unlock()
	if v != nil {
		panic(fmt.Sprintf("the code under test panicked: %v", v))
	}
}

func newCoordinator(h *fk.ScriptHost, cm *fk.ScriptComm) *tss.Coordinator {
	c := tss.NewCoordinator(h, cm, elector.NewCoordinatorElectorFactory(h, relayer.BullyConfig{}))
	c.CoordinatorTimeout = time.Hour
	c.TssTimeout = time.Hour
	c.InitiatePeriod = time.Hour
	return c
}

func runElect(c Case, t tbl, o *Obs) {
	one := func(is []int) ([]int, int) {
		ps := t.pick(is)
		sorted := util.SortPeersForSession(ps, c.Sid).GetPeerIDs()
		co, _ := elector.NewCoordinatorElector(c.Sid).Coordinator(context.Background(), ps)
		ci := -1
		if co != peer.ID("") {
			ci = t.index(co)
		}
		return t.indices(sorted), ci
	}
	o.Sorted, o.Coord = one(c.Holders)
	o.SortedPerm, o.CoordPerm = one(c.Perm)
}

func runParams(c Case, t tbl, o *Obs) {
	h := fk.NewScriptHost(t.ids[c.Self], t.ids)
	cm := fk.NewScriptComm()
	s, err := fk.C07Signing(c.Proc, repo, c.Sid, h, cm, t.pick(c.Holders), c.T)
	if err != nil {
		panic(err)
	}
	ready := t.pick(c.Ready)
	ok, err := s.Ready(ready, nil)
	if err != nil {
		o.OtherError = err.Error()
	}
	o.ReadyOK = ok
	ps, dec := fk.C07DecodeParams(s.StartParams(ready))
	if !dec {
		o.OtherError = "start params do not decode"
	}
	o.Params = t.indices(ps)
}

func runSubset(c Case, t tbl, o *Obs) {
	self := t.ids[c.Self]
	h := fk.NewScriptHost(self, t.ids)
	cm := fk.NewScriptComm()
	inner, err := fk.C07Signing(c.Proc, repo, c.Sid, h, cm, t.pick(c.Holders), c.T)
	if err != nil {
		panic(err)
	}
	proc := fk.NewScriptProcess(c.Sid, inner)
	co := newCoordinator(h, cm)
	ctx, cancel := context.WithCancel(context.Background())
	defer cancel()
	done := make(chan struct{})
	res := make(chan interface{}, 8)
	excluded := t.pick(c.Excluded)
	var box crashBox
	defer box.rethrow()
	go func() {
		defer close(done)
		defer box.guard()
		if c.Via == "hook" {
			_ = co.VerifStart(ctx, []tss.TssProcess{proc}, self, res, excluded)
		} else {
			_ = co.Execute(ctx, []tss.TssProcess{proc}, res)
		}
	}()
	d := &fk.C07Driver{Comm: cm, Proc: proc, Sid: c.Sid, Done: done}
	for _, s := range c.Ready {
		d.Deliver(comm.TssReadyMsg, 1, t.ids[s], nil)
	}
	cancel()
	if !d.WaitDone() {
		o.OtherError = "session did not return"
	}
	noteDriver(o, d)
	o.ExclOK = true
	for _, call := range proc.ReadyCalls() {
		o.Calls = append(o.Calls, t.indices(call.Ready))
		ex := t.indices(call.Excluded)
		want := append([]int{}, c.Excluded...)
		if !sameInts(ex, want) {
			o.ExclOK = false
		}
	}
	for _, s := range cm.Sent() {
		if s.Type == comm.TssStartMsg {
			ps, ok := fk.C07DecodeStart(s.Payload)
			a := t.indices(ps)
			if !ok {
				a = []int{unknownPeer}
			}
			if o.Announced != nil {
				o.OtherError = "more than one start message"
			}
			o.Announced = &a
		}
	}
	for _, r := range proc.Runs() {
		ps, ok := fk.C07DecodeParams(r.Params)
		a := t.indices(ps)
		if !ok || !r.Coordinator {
			a = []int{unknownPeer}
		}
		if o.Run != nil {
			o.OtherError = "more than one Run"
		}
		o.Run = &a
	}
}

func runWait(c Case, t tbl, o *Obs) {
	self := t.ids[c.Self]
	holders := t.pick(c.Holders)
	h := fk.NewScriptHost(self, t.ids)
	cm := fk.NewScriptComm()
	inner, err := fk.C07Signing(c.Proc, repo, c.Sid, h, cm, holders, c.T)
	if err != nil {
		panic(err)
	}
	proc := fk.NewScriptProcess(c.Sid, inner)
	proc.Behave = func(n int, ctx context.Context) error { <-ctx.Done(); return nil }
	co := newCoordinator(h, cm)
	// who the genuine coordinator is (only used to decide when the session is over: after its
	// fail message or its undecodable start message nothing more is delivered)
	genuine, _ := elector.NewCoordinatorElector(c.Sid).Coordinator(context.Background(), holders)
	ctx, cancel := context.WithCancel(context.Background())
	defer cancel()
	done := make(chan struct{})
	res := make(chan interface{}, 8)
	var ferr error
	var box crashBox
	defer box.rethrow()
	go func() {
		defer close(done)
		defer box.guard()
		ferr = co.Execute(ctx, []tss.TssProcess{proc}, res)
	}()
	d := &fk.C07Driver{Comm: cm, Proc: proc, Sid: c.Sid, Done: done}
	var last *Msg // the last consumed message that can end a session
	sawBad := false
	// which side of the attempt does the relayer take?  waitForStart subscribes to start messages, the
	// coordinator's ready loop to ready messages
	o.Coordinates = sawCoordinatorSide(cm, d, c.Sid)
	offered := 0
loop:
	for i := range c.Msgs {
		if o.Coordinates {
			break // it does not wait for anybody's messages: nothing to feed
		}
		m := c.Msgs[i]
		from := t.ids[m.From]
		consumed := false
		offered = i + 1
		switch m.Type {
		case "initiate":
			consumed = d.Deliver(comm.TssInitiateMsg, 1, from, []byte{})
		case "start":
			payload := []byte("{not a start message")
			if !m.Bad {
				payload = fk.C07StartPayload(t.pick(m.Params))
			}
			consumed = d.Deliver(comm.TssStartMsg, 1, from, payload)
			if consumed && from == genuine && !m.Bad {
				proc.WaitRuns(1, done, fk.C07Settle)
			}
		case "fail":
			consumed = d.Deliver(comm.TssFailMsg, 1, from, []byte{})
		default:
			panic("unknown message type " + m.Type)
		}
		if !consumed && d.Finished() {
			o.Dropped = append(o.Dropped, i)
		}
		if consumed && endsSession(m) {
			last = &c.Msgs[i]
			sawBad = sawBad || m.Type == "start"
			// does the session end on it?  As the code stands it does on the coordinator's; whether it
			// does is an observation either way, and the case goes on if it does not
			settle := fk.C07Quiet
			if from == genuine {
				settle = fk.C07Settle
			}
			if d.Settled(settle) {
				break loop
			}
		}
		if d.Finished() {
			break loop
		}
	}
	for j := offered; j < len(c.Msgs); j++ {
		o.Dropped = append(o.Dropped, j)
	}
	cancel()
	if !d.WaitDone() {
		o.OtherError = "Execute did not return"
		noteDriver(o, d)
		return
	}
	noteDriver(o, d)
	if cm.CountSent(comm.TssInitiateMsg) > 0 || cm.CountSent(comm.TssStartMsg) > 0 {
		o.Coordinates = true // only the coordinator of an attempt broadcasts initiate / start messages
	}
	var other string
	o.Outs, other = sessionOuts(t, cm, proc, c.Sid, ferr, last, sawBad)
	if other != "" {
		o.OtherError = other
	}
}

// sawCoordinatorSide waits until the session shows which side of its attempt the relayer takes and
// reports whether it is the coordinator's (a subscription to ready messages).
func sawCoordinatorSide(cm *fk.ScriptComm, d *fk.C07Driver, sid string) bool {
	limit := fk.C07Deadline()
	sub := cm.WaitAnySub(sid, []fk.ScriptWant{{Type: comm.TssStartMsg, Ordinal: 1}, {Type: comm.TssReadyMsg, Ordinal: 1}}, d.Done, limit)
	if sub == nil {
		if !d.Finished() {
			d.Expired(limit)
		}
		return false
	}
	return sub.Type == comm.TssReadyMsg
}

// sessionOuts: what the relayer did in one session, in the order ready messages, Run calls, end.
func sessionOuts(t tbl, cm *fk.ScriptComm, proc *fk.ScriptProcess, sid string, ferr error, last *Msg, sawBad bool) (outs []Out, other string) {
	return sessionOutsFrom(t, cm, proc, sid, ferr, last, sawBad, 0, 0)
}

// sessionOutsFrom: the same without the first skipReady ready messages and the first skipRuns Run calls of
// the session (those of a scripted first attempt).
func sessionOutsFrom(t tbl, cm *fk.ScriptComm, proc *fk.ScriptProcess, sid string, ferr error, last *Msg, sawBad bool,
	skipReady, skipRuns int) (outs []Out, other string) {
	k := 0
	for _, s := range cm.Sent() {
		if s.Type == comm.TssReadyMsg && s.Session == sid {
			k++
			if k <= skipReady {
				continue
			}
			p := unknownPeer
			if len(s.To) == 1 {
				p = t.index(s.To[0])
			}
			outs = append(outs, Out{Kind: "ready", Peer: p})
		}
	}
	for i, r := range proc.Runs() {
		if i < skipRuns {
			continue
		}
		ps, ok := fk.C07DecodeParams(r.Params)
		a := t.indices(ps)
		if !ok || r.Coordinator {
			a = []int{unknownPeer}
		}
		outs = append(outs, Out{Kind: "run", Params: a})
	}
	switch sessionEnd(ferr, last, sawBad) {
	case "":
	case "abort":
		outs = append(outs, Out{Kind: "abort"})
	case "badstart":
		outs = append(outs, Out{Kind: "badstart"})
	default:
		other = ferr.Error()
	}
	return outs, other
}

// ---- several sessions on one Coordinator object ------------------------------------------------------

// runMulti drives ONE real tss.Coordinator through several overlapping sessions: Execute is called once
// per session (at the scripted "launch" events, each in its own goroutine, as the relayer's job
// handlers do), all sessions share the host, the Communication and the Coordinator object.  The
// messages of the script are handed over one at a time, each to the subscriptions of its own session.
//
// Cause = comm: the scripted launch of a session also plays its FIRST attempt (the elected coordinator's
// initiate and start message, the process fails with a CommunicationError) and the bully election of the
// retry (the REAL bully elector over a second scripted Communication; Winners[k] announces itself in
// session k); the messages of the script are those of the retried attempts.
func runMulti(c Case, t tbl, o *Obs) {
	wait := 300 * time.Millisecond
	if driveMulti(c, t, o, wait) {
		*o = Obs{Keys: o.Keys, Coord: -1, CoordPerm: -1}
		if driveMulti(c, t, o, 1500*time.Millisecond) {
			o.Harness = "a scripted winner of a bully election lost the race twice"
		}
	}
}

func driveMulti(c Case, t tbl, o *Obs, bullyWait time.Duration) (raceLost bool) {
	self := t.ids[c.Self]
	holders := t.pick(c.Holders)
	h := fk.NewScriptHost(self, t.ids)
	cm := fk.NewScriptComm()
	co := newCoordinator(h, cm)
	retried := c.Cause != ""
	if retried {
		if c.Cause != "comm" || len(c.Winners) != len(c.Sids) {
			panic("multi case: retried attempts need cause comm and one winner per session")
		}
		bully := fk.NewScriptComm()
		winner := map[string]peer.ID{}
		for k, sid := range c.Sids {
			winner[sid] = t.ids[c.Winners[k]]
		}
		bully.OnSubscribe = func(s *fk.ScriptSub) {
			if w, ok := winner[s.Session]; ok && s.Type == comm.CoordinatorSelectMsg {
				fk.ScriptPush(s, w, []byte{}, fk.C07Deadline(), s.Dead)
			}
		}
		co = tss.NewCoordinator(h, cm, elector.NewCoordinatorElectorFactoryWithComm(h, bully, relayer.BullyConfig{
			PingWaitTime: time.Second, PingBackOff: time.Second, PingInterval: time.Second,
			ElectionWaitTime: 5 * time.Millisecond, BullyWaitTime: bullyWait,
		}))
		co.CoordinatorTimeout = time.Hour
		co.TssTimeout = time.Hour
		co.InitiatePeriod = time.Hour
	}
	type sess struct {
		expected    peer.ID // whose messages the session is to obey
		ord         int     // which subscription of the session the attempt under observation reads
		skipReady   int
		skipRuns    int
		sid         string
		proc        *fk.ScriptProcess
		done        chan struct{}
		res         chan interface{}
		ferr        error
		d           *fk.C07Driver
		genuine     peer.ID
		last        *Msg
		sawBad      bool
		launched    bool
		coordinates bool
	}
	ctx, cancel := context.WithCancel(context.Background())
	defer cancel()
	var box crashBox
	defer box.rethrow()
	ss := make([]*sess, len(c.Sids))
	seen := map[string]bool{}
	for i, sid := range c.Sids {
		if seen[sid] {
			panic("multi case: the session ids must differ")
		}
		seen[sid] = true
		inner, err := fk.C07Signing(c.Proc, repo, sid, h, cm, holders, c.T)
		if err != nil {
			panic(err)
		}
		proc := fk.NewScriptProcess(sid, inner)
		genuine, _ := elector.NewCoordinatorElector(sid).Coordinator(context.Background(), holders)
		proc.Behave = func(n int, ctx context.Context) error {
			if retried && n == 0 {
				return &comm.CommunicationError{Peer: genuine, Err: errors.New("stream reset")}
			}
			<-ctx.Done()
			return nil
		}
		done := make(chan struct{})
		ss[i] = &sess{sid: sid, proc: proc, done: done, res: make(chan interface{}, 8), genuine: genuine,
			expected: genuine, ord: 1, d: &fk.C07Driver{Comm: cm, Proc: proc, Sid: sid, Done: done}}
		if retried {
			if genuine == self {
				panic("multi case: retried attempts need the non-coordinator role")
			}
			ss[i].expected = t.ids[c.Winners[i]]
		}
		o.SKeys = append(o.SKeys, keys(t, sid))
	}
	for i := range c.Msgs {
		m := c.Msgs[i]
		if m.S < 0 || m.S >= len(ss) {
			panic("multi case: no such session")
		}
		s := ss[m.S]
		if m.Type == "launch" {
			if s.launched {
				panic("multi case: a session is launched once")
			}
			s.launched = true
			go func() {
				defer close(s.done)
				defer box.guard()
				s.ferr = co.Execute(ctx, []tss.TssProcess{s.proc}, s.res)
			}()
			// the next event is handed over when the session exists (its attempt has chosen its side)
			s.coordinates = sawCoordinatorSide(cm, s.d, s.sid)
			if retried && !s.coordinates {
				// the first attempt, and the retry up to the wait for the re-elected coordinator
				s.d.Deliver(comm.TssInitiateMsg, 1, s.genuine, []byte{})
				s.d.Deliver(comm.TssStartMsg, 1, s.genuine, fk.C07StartPayload(t.pick(c.Start1)))
				if !s.d.WaitRuns(1) {
					o.Harness = "first attempt did not reach Run"
					break
				}
				s.skipRuns, s.ord = 1, 2
				limit := fk.C07Deadline()
				sub := cm.WaitAnySub(s.sid, []fk.ScriptWant{{Type: comm.TssStartMsg, Ordinal: 2}, {Type: comm.TssReadyMsg, Ordinal: 1}}, s.done, limit)
				if sub == nil {
					if !s.d.Finished() {
						s.d.Expired(limit)
					}
					o.Harness = "no retried attempt"
					break
				}
				if sub.Type == comm.TssReadyMsg {
					raceLost = true
					break
				}
				for _, x := range cm.Sent() {
					if x.Type == comm.TssReadyMsg && x.Session == s.sid {
						s.skipReady++
					}
				}
			}
			continue
		}
		if !s.launched {
			panic("multi case: a message for a session that was not launched")
		}
		if s.coordinates {
			o.Dropped = append(o.Dropped, i)
			continue
		}
		from := t.ids[m.From]
		consumed := false
		switch m.Type {
		case "initiate":
			consumed = s.d.Deliver(comm.TssInitiateMsg, s.ord, from, []byte{})
		case "start":
			payload := []byte("{not a start message")
			if !m.Bad {
				payload = fk.C07StartPayload(t.pick(m.Params))
			}
			consumed = s.d.Deliver(comm.TssStartMsg, s.ord, from, payload)
			if consumed && from == s.expected && !m.Bad {
				s.proc.WaitRuns(s.skipRuns+1, s.done, fk.C07Settle)
			}
		case "fail":
			consumed = s.d.Deliver(comm.TssFailMsg, s.ord, from, []byte{})
		default:
			panic("unknown message type " + m.Type)
		}
		if !consumed && s.d.Finished() {
			o.Dropped = append(o.Dropped, i)
		}
		if consumed && endsSession(m) {
			s.last = &c.Msgs[i]
			s.sawBad = s.sawBad || m.Type == "start"
			// whether the session ends on it is an observation; the script goes on either way
			// (as the code stands a retried attempt ignores every fail message)
			settle := fk.C07Quiet
			if from == s.expected && !(retried && m.Type == "fail") {
				settle = fk.C07Settle
			}
			s.d.Settled(settle)
		}
	}
	cancel()
	for _, s := range ss {
		if !s.launched {
			o.SOuts = append(o.SOuts, nil)
			continue
		}
		if !s.d.WaitDone() {
			o.OtherError = "Execute did not return"
			noteDriver(o, s.d)
			o.SOuts = append(o.SOuts, nil)
			continue
		}
		noteDriver(o, s.d)
		outs, other := sessionOutsFrom(t, cm, s.proc, s.sid, s.ferr, s.last, s.sawBad, s.skipReady, s.skipRuns)
		if other != "" && o.OtherError == "" {
			o.OtherError = other
		}
		o.SOuts = append(o.SOuts, outs)
		if s.coordinates {
			o.Coordinates = true
		}
	}
	if cm.CountSent(comm.TssInitiateMsg) > 0 || cm.CountSent(comm.TssStartMsg) > 0 {
		o.Coordinates = true
	}
	return raceLost
}

// noteDriver: a wait of the driver ran into a SHORTENED deadline (the run is degraded after three stuck
// waits): the case was not driven.
func noteDriver(o *Obs, d *fk.C07Driver) {
	if d.Unsure && o.Harness == "" {
		o.Harness = "a wait ran into the shortened deadline"
	}
}


// ---- the retried attempt ---------------------------------------------------------------------------

// driveRetry runs one retry case with the given bully window.  raceLost: a winner was scripted but
// its announcement came too late for the election window (machine under load) - this relayer took
// the coordinator role instead; the caller repeats the case with a longer window.
func driveRetry(c Case, t tbl, o *Obs, bullyWait time.Duration) (raceLost bool) {
	self := t.ids[c.Self]
	holders := t.pick(c.Holders)
	h := fk.NewScriptHost(self, t.ids)
	cm := fk.NewScriptComm()
	bully := fk.NewScriptComm()
	inner, err := fk.C07Signing(c.Proc, repo, c.Sid, h, cm, holders, c.T)
	if err != nil {
		panic(err)
	}
	proc := fk.NewScriptProcess(c.Sid, inner)
	genuine, _ := elector.NewCoordinatorElector(c.Sid).Coordinator(context.Background(), holders)
	role1 := genuine == self
	var injected error
	switch c.Cause {
	case "silent":
	case "comm":
		injected = &comm.CommunicationError{Peer: genuine, Err: errors.New("stream reset")}
	case "coord":
		if len(c.Excluded) != 1 {
			panic("retry case: cause coord needs exactly one excluded peer")
		}
		injected = &tss.CoordinatorError{Peer: t.ids[c.Excluded[0]]}
	case "tss":
		var culprits []*tsslib.PartyID
		for _, x := range c.Excluded {
			culprits = append(culprits, common.CreatePartyID(t.ids[x].String()))
		}
		injected = tsslib.NewError(errors.New("round failed"), "signing", 3, nil, culprits...)
	default:
		panic("retry case: unknown cause " + c.Cause)
	}
	proc.Behave = func(n int, ctx context.Context) error {
		if n == 0 && injected != nil {
			return injected
		}
		<-ctx.Done() // the retried attempt's process keeps running until the session ends
		return nil
	}
	factory := elector.NewCoordinatorElectorFactoryWithComm(h, bully, relayer.BullyConfig{
		PingWaitTime: time.Second, PingBackOff: time.Second, PingInterval: time.Second,
		ElectionWaitTime: 5 * time.Millisecond, BullyWaitTime: bullyWait,
	})
	co := tss.NewCoordinator(h, cm, factory)
	co.CoordinatorTimeout = time.Hour
	co.TssTimeout = time.Hour
	co.InitiatePeriod = time.Hour
	if c.Cause == "silent" {
		if role1 || c.Winner != nil {
			panic("retry case: a silent coordinator needs the non-coordinator role and no scripted winner")
		}
		co.CoordinatorTimeout = 40 * time.Millisecond
	}
	c2 := self
	if c.Winner != nil {
		c2 = t.ids[*c.Winner]
	}

	ctx, cancel := context.WithCancel(context.Background())
	defer cancel()
	done := make(chan struct{})
	res := make(chan interface{}, 8)
	var ferr error
	var box crashBox
	defer box.rethrow()
	go func() {
		defer close(done)
		defer box.guard()
		ferr = co.Execute(ctx, []tss.TssProcess{proc}, res)
	}()
	d := &fk.C07Driver{Comm: cm, Proc: proc, Sid: c.Sid, Done: done}
	if c.Winner != nil {
		w := t.ids[*c.Winner]
		bully.OnSubscribe = func(s *fk.ScriptSub) {
			if s.Type == comm.CoordinatorSelectMsg {
				fk.ScriptPush(s, w, []byte{}, fk.C07Deadline(), done)
			}
		}
	}

	// ---- first attempt
	nfirst := 0
	if c.Cause != "silent" {
		if role1 {
			for _, s := range c.Ready1 {
				d.Deliver(comm.TssReadyMsg, 1, t.ids[s], nil)
			}
		} else {
			d.Deliver(comm.TssInitiateMsg, 1, genuine, []byte{})
			d.Deliver(comm.TssStartMsg, 1, genuine, fk.C07StartPayload(t.pick(c.Start1)))
		}
		if !d.WaitRuns(1) {
			o.Harness = "first attempt did not reach Run"
			cancel()
			d.WaitDone()
			return false
		}
		nfirst = 1
	}
	ready1 := cm.CountSent(comm.TssReadyMsg)
	init1 := cm.CountSent(comm.TssInitiateMsg)
	var last *Msg // the last consumed message that can end a session
	sawBad := false
	failMsg := Msg{Type: "fail"}

	// ---- retried attempt
	readyOrd, startOrd := 1, 1
	if c.Cause != "silent" && role1 {
		readyOrd = 2
	}
	if c.Cause == "silent" || !role1 {
		startOrd = 2
	}
	limit := fk.C07Deadline()
	sub := cm.WaitAnySub(c.Sid, []fk.ScriptWant{{Type: comm.TssReadyMsg, Ordinal: readyOrd}, {Type: comm.TssStartMsg, Ordinal: startOrd}}, done, limit)
	switch {
	case sub == nil:
		if !d.Finished() {
			d.Expired(limit)
		}
		// the retried attempt these cases are about did not come about (whether the relayer retries is
		// C11's subject): nothing to feed
		o.Harness = "no retried attempt"
	case sub.Type == comm.TssReadyMsg && c.Winner != nil:
		raceLost = true
	case sub.Type == comm.TssStartMsg && c.Winner == nil:
		o.OtherError = "nobody answered the election, yet this relayer waits for somebody's start"
	case sub.Type == comm.TssReadyMsg:
		for _, e := range c.Evs {
			from := t.ids[e.From]
			if e.Ready {
				// once the process runs the ready loop is over: further ready messages are not read
				if _, active, _ := proc.RunState(); active {
					continue
				}
				d.Deliver(comm.TssReadyMsg, readyOrd, from, nil)
			} else if d.Deliver(comm.TssFailMsg, 2, from, []byte{}) {
				last = &failMsg
				if d.Settled(fk.C07Quiet) {
					break
				}
			}
		}
	default:
		offered := 0
	loop:
		for i := range c.Msgs {
			m := c.Msgs[i]
			from := t.ids[m.From]
			consumed := false
			offered = i + 1
			switch m.Type {
			case "initiate":
				consumed = d.Deliver(comm.TssInitiateMsg, startOrd, from, []byte{})
			case "start":
				payload := []byte("{not a start message")
				if !m.Bad {
					payload = fk.C07StartPayload(t.pick(m.Params))
				}
				consumed = d.Deliver(comm.TssStartMsg, startOrd, from, payload)
				if consumed && from == c2 && !m.Bad {
					proc.WaitRuns(nfirst+1, done, fk.C07Settle)
				}
			case "fail":
				// handleError's watcher: the second fail subscription of the session
				consumed = d.Deliver(comm.TssFailMsg, 2, from, []byte{})
			default:
				panic("unknown message type " + m.Type)
			}
			if !consumed && d.Finished() {
				o.Dropped = append(o.Dropped, i)
			}
			if consumed && endsSession(m) {
				last = &c.Msgs[i]
				sawBad = sawBad || m.Type == "start"
				// whether the session ends on it is an observation; the case goes on if it does not
				settle := fk.C07Quiet
				if from == c2 && m.Type == "start" {
					settle = fk.C07Settle
				}
				if d.Settled(settle) {
					break loop
				}
			}
			if d.Finished() {
				break loop
			}
		}
		for j := offered; j < len(c.Msgs); j++ {
			o.Dropped = append(o.Dropped, j)
		}
	}
	cancel()
	if !d.WaitDone() {
		o.OtherError = "Execute did not return"
		noteDriver(o, d)
		return false
	}
	noteDriver(o, d)
	if raceLost {
		return true
	}
	if c.Winner == nil && cm.CountSent(comm.TssInitiateMsg) == init1 && o.OtherError == "" && o.Harness == "" {
		// the coordinator of the retried attempt broadcasts initiate before anything else
		o.OtherError = "this relayer did not initiate the retried attempt"
	}
	k := 0
	for _, s := range cm.Sent() {
		if s.Type == comm.TssReadyMsg {
			if k >= ready1 {
				p := unknownPeer
				if len(s.To) == 1 {
					p = t.index(s.To[0])
				}
				o.Outs = append(o.Outs, Out{Kind: "ready", Peer: p})
			}
			k++
		}
	}
	for i, r := range proc.Runs() {
		if i < nfirst {
			continue
		}
		ps, ok := fk.C07DecodeParams(r.Params)
		a := t.indices(ps)
		if !ok || r.Coordinator != (c.Winner == nil) {
			a = []int{unknownPeer}
		}
		o.Outs = append(o.Outs, Out{Kind: "run", Params: a})
		if c.Winner == nil {
			if o.Run != nil {
				o.OtherError = "more than one Run in the retried attempt"
			}
			o.Run = &a
		}
	}
	switch sessionEnd(ferr, last, sawBad) {
	case "":
	case "abort":
		o.Outs = append(o.Outs, Out{Kind: "abort"})
		o.Aborted = true
	case "badstart":
		o.Outs = append(o.Outs, Out{Kind: "badstart"})
	default:
		o.OtherError = ferr.Error()
	}
	return false
}


// ---- waits with time --------------------------------------------------------------------------------

const hourMs = 3600000

func msOrHour(ms int) time.Duration {
	if ms <= 0 {
		ms = hourMs
	}
	return time.Duration(ms) * time.Millisecond
}

// timedCoordinator: whom the relayer of a timed case waits for.
func timedCoordinator(c Case, t tbl) peer.ID {
	if c.Winner != nil {
		return t.ids[*c.Winner]
	}
	co, _ := elector.NewCoordinatorElector(c.Sid).Coordinator(context.Background(), t.pick(c.Holders))
	return co
}

// driveTimed runs the real Coordinator.Execute once and feeds it msgs not earlier than their arrival
// times (counted from the moment the wait - the start-message subscription of the attempt - exists),
// then watches the relayer until the horizon.  late: the runner itself could not keep the schedule
// (machine stalled): the caller repeats the run.
func driveTimed(c Case, t tbl, msgs []Msg, bullyWait time.Duration) (o TObs, other, harness string, late, raceLost bool) {
	self := t.ids[c.Self]
	holders := t.pick(c.Holders)
	h := fk.NewScriptHost(self, t.ids)
	cm := fk.NewScriptComm()
	bully := fk.NewScriptComm()
	inner, err := fk.C07Signing(c.Proc, repo, c.Sid, h, cm, holders, c.T)
	if err != nil {
		panic(err)
	}
	retryVariant := c.Winner != nil
	proc := fk.NewScriptProcess(c.Sid, fk.C07Inner{ScriptInner: inner, Retry: retryVariant})
	genuine, _ := elector.NewCoordinatorElector(c.Sid).Coordinator(context.Background(), holders)
	expected := timedCoordinator(c, t)
	factory := elector.NewCoordinatorElectorFactoryWithComm(h, bully, relayer.BullyConfig{
		PingWaitTime: time.Second, PingBackOff: time.Second, PingInterval: time.Second,
		ElectionWaitTime: 5 * time.Millisecond, BullyWaitTime: bullyWait,
	})
	co := tss.NewCoordinator(h, cm, factory)
	co.InitiatePeriod = time.Hour
	co.TssTimeout = msOrHour(c.TTO)
	co.CoordinatorTimeout = msOrHour(c.CTO)
	injected := &comm.CommunicationError{Peer: genuine, Err: errors.New("stream reset")}
	if retryVariant {
		if genuine == self {
			panic("timed retry case: needs the non-coordinator role")
		}
		co.CoordinatorTimeout = time.Hour // the first attempt is scripted, not timed
	}
	proc.Behave = func(n int, ctx context.Context) error {
		if retryVariant && n == 0 {
			// ordered after the first attempt's read of the field and before handleError's reads
			co.CoordinatorTimeout = msOrHour(c.CTO)
			return injected
		}
		<-ctx.Done()
		return nil
	}
	ctx, cancel := context.WithCancel(context.Background())
	defer cancel()
	done := make(chan struct{})
	res := make(chan interface{}, 8)
	var ferr error
	var returned time.Time // when Execute returned
	var box crashBox
	defer box.rethrow()
	launched := time.Now() // the first attempt's watcher (TssTimeout) cannot have begun earlier
	go func() {
		defer close(done)
		defer box.guard()
		ferr = co.Execute(ctx, []tss.TssProcess{proc}, res)
		returned = time.Now()
	}()
	d := &fk.C07Driver{Comm: cm, Proc: proc, Sid: c.Sid, Done: done}
	finish := func() {
		cancel()
		if !d.WaitDone() {
			other = "Execute did not return"
		}
		if d.Unsure && harness == "" {
			harness = "a wait ran into the shortened deadline"
		}
	}
	nfirst, startOrd, failOrd := 0, 1, 1
	if retryVariant {
		w := t.ids[*c.Winner]
		bully.OnSubscribe = func(s *fk.ScriptSub) {
			if s.Type == comm.CoordinatorSelectMsg {
				fk.ScriptPush(s, w, []byte{}, fk.C07Deadline(), done)
			}
		}
		d.Deliver(comm.TssInitiateMsg, 1, genuine, []byte{})
		d.Deliver(comm.TssStartMsg, 1, genuine, fk.C07StartPayload(t.pick(c.Start1)))
		if !d.WaitRuns(1) {
			finish()
			return o, "", "first attempt did not reach Run", false, false
		}
		nfirst, startOrd, failOrd = 1, 2, 2
	}
	ready1 := cm.CountSent(comm.TssReadyMsg)
	limit := fk.C07Deadline()
	sub := cm.WaitAnySub(c.Sid, []fk.ScriptWant{{Type: comm.TssStartMsg, Ordinal: startOrd}, {Type: comm.TssReadyMsg, Ordinal: 1}}, done, limit)
	if sub == nil {
		if !d.Finished() {
			d.Expired(limit)
		}
		finish()
		return o, "", "the wait did not begin", false, false
	}
	if sub.Type == comm.TssReadyMsg {
		// the scripted winner's announcement lost the race against BullyWaitTime: this relayer coordinates
		finish()
		return o, "", "", false, true
	}
	began := time.Now()
	const tolerance = 120 * time.Millisecond
	var last *Msg // the last consumed message that can end a session
	sawBad := false
	undelivered := false
	for i := range msgs {
		m := msgs[i]
		due := began.Add(time.Duration(m.At) * time.Millisecond)
		if wait := time.Until(due); wait > 0 {
			select {
			case <-time.After(wait):
			case <-done:
			}
		}
		if d.Stuck {
			// the rest of the schedule is not delivered: the two runs of the case cannot be compared
			undelivered = !d.Finished()
			break
		}
		from := t.ids[m.From]
		consumed := false
		switch m.Type {
		case "initiate":
			consumed = d.Deliver(comm.TssInitiateMsg, startOrd, from, []byte{})
		case "start":
			payload := []byte("{not a start message")
			if !m.Bad {
				payload = fk.C07StartPayload(t.pick(m.Params))
			}
			consumed = d.Deliver(comm.TssStartMsg, startOrd, from, payload)
			if consumed && from == expected && !m.Bad {
				// the Run follows at once; if it does not the schedule goes on (an offer ends when a Run begins)
				proc.WaitRuns(nfirst+1, done, 3*fk.C07Quiet)
			}
		case "fail":
			consumed = d.Deliver(comm.TssFailMsg, failOrd, from, []byte{})
		default:
			panic("unknown message type " + m.Type)
		}
		// only the coordinator's own messages have to be punctual: the others must not matter
		if consumed && from == expected && time.Since(due) > tolerance {
			late = true
		}
		if consumed && endsSession(m) {
			last = &msgs[i]
			sawBad = sawBad || m.Type == "start"
			// as the code stands the session ends on the coordinator's: nothing is offered while it does
			if from == expected && d.Settled(fk.C07Quiet) {
				break
			}
		}
	}
	// watch until the horizon
	endedBySelf := false
	if wait := time.Until(began.Add(time.Duration(c.Horizon) * time.Millisecond)); wait > 0 {
		select {
		case <-done:
			endedBySelf = true
		case <-time.After(wait):
		}
	}
	select {
	case <-done:
		endedBySelf = true
	default:
	}
	_, active, _ := proc.RunState()
	finish()
	if (undelivered || d.Stuck && !endedBySelf) && harness == "" {
		harness = "a wait of the runner ran into its deadline: the schedule was not delivered"
	}
	k := 0
	for _, s := range cm.Sent() {
		if s.Type == comm.TssReadyMsg {
			if k >= ready1 {
				p := unknownPeer
				if len(s.To) == 1 {
					p = t.index(s.To[0])
				}
				o.Outs = append(o.Outs, Out{Kind: "ready", Peer: p})
			}
			k++
		}
	}
	for i, r := range proc.Runs() {
		if i < nfirst {
			continue
		}
		ps, ok := fk.C07DecodeParams(r.Params)
		a := t.indices(ps)
		if !ok || r.Coordinator {
			a = []int{unknownPeer}
		}
		o.Outs = append(o.Outs, Out{Kind: "run", Params: a})
	}
	// How the wait ended, from the error's TYPE, the recorded SEQUENCE and the CLOCK - never from the
	// error's text.  The watcher's ticker (TssTimeout, finite in the first-attempt cases only) cannot fire
	// before launched + TssTimeout, and an Execute that returns an error of no particular type at or after
	// that moment was ended by it; earlier, by the last consumed message that can end a session.
	var ce *tss.CoordinatorError
	watchDue := c.TTO > 0 && !retryVariant && !returned.IsZero() && returned.Sub(launched) >= msOrHour(c.TTO)
	switch {
	case !endedBySelf:
		o.End = "waiting"
		if active {
			o.End = "running"
		}
		if sessionEnd(ferr, nil, false) != "" {
			other = "after the horizon: " + ferr.Error()
		}
	case ferr == nil:
		o.End = "finished"
		other = "Execute returned nil by itself"
	case errors.As(ferr, &ce):
		o.End = "coord-timeout"
		if ce.Peer != expected {
			other = "CoordinatorError blames " + ce.Peer.String()
		}
	default:
		var syn *json.SyntaxError
		switch end := sessionEnd(ferr, last, sawBad); {
		case errors.As(ferr, &syn) && sawBad:
			o.Outs = append(o.Outs, Out{Kind: "badstart"})
			o.End = "finished"
		case watchDue:
			o.End = "watch-timeout"
		case end == "abort":
			o.Outs = append(o.Outs, Out{Kind: "abort"})
			o.End = "finished"
		case end == "badstart":
			o.Outs = append(o.Outs, Out{Kind: "badstart"})
			o.End = "finished"
		default:
			o.End = "finished"
			other = ferr.Error()
		}
	}
	return o, other, harness, late, false
}

// runTimed drives the real relayer twice, concurrently: fed all messages, and fed only those of the
// coordinator it waits for.
func runTimed(c Case, t tbl, o *Obs) {
	expected := timedCoordinator(c, t)
	var own []Msg
	for _, m := range c.Msgs {
		if t.ids[m.From] == expected {
			own = append(own, m)
		}
	}
	// one run; harness != "": the RUNNER could not drive it (after 4 tries)
	one := func(msgs []Msg) (TObs, string, string) {
		wait := 300 * time.Millisecond
		var r TObs
		var other, harness string
		for try := 1; try <= 4; try++ {
			var late, lost bool
			r, other, harness, late, lost = driveTimed(c, t, msgs, wait)
			r.Tries = try
			if lost {
				wait = 1500 * time.Millisecond
				harness = "the scripted winner of the bully election lost the race"
				continue
			}
			if !late {
				return r, other, harness
			}
			harness = "the runner could not keep the schedule"
		}
		return r, other, harness
	}
	var wg sync.WaitGroup
	var a, b TObs
	var oa, ob, ha, hb string
	var crash interface{}
	guard := func() {
		if r := recover(); r != nil {
			crash = r
		}
		wg.Done()
	}
	wg.Add(2)
	go func() { defer guard(); a, oa, ha = one(c.Msgs) }()
	go func() { defer guard(); b, ob, hb = one(own) }()
	wg.Wait()
	if crash != nil {
		panic(crash)
	}
	o.TAll, o.TOwn = &a, &b
	if oa != "" {
		o.OtherError = "all: " + oa
	} else if ob != "" {
		o.OtherError = "own: " + ob
	}
	// the judge compares the two runs: if either could not be driven there is nothing to compare
	if ha != "" {
		o.Harness = "all: " + ha
	} else if hb != "" {
		o.Harness = "own: " + hb
	}
}

func runRetry(c Case, t tbl, o *Obs) {
	wait := 30 * time.Millisecond
	if c.Winner != nil {
		wait = 300 * time.Millisecond
	}
	// The bully election is exercised, not verified: if the scripted winner's announcement lost the
	// race against BullyWaitTime (machine under load), repeat once with a much longer window.
	if driveRetry(c, t, o, wait) {
		*o = Obs{Keys: o.Keys, Coord: -1, CoordPerm: -1}
		if driveRetry(c, t, o, 1500*time.Millisecond) {
			o.Harness = "the scripted winner of the bully election lost the race twice"
		}
	}
}

func runNow(c Case) Obs {
	t := table(c)
	o := Obs{Keys: keys(t, c.Sid), Coord: -1, CoordPerm: -1}
	switch c.Kind {
	case "elect":
		runElect(c, t, &o)
	case "params":
		runParams(c, t, &o)
	case "subset":
		runSubset(c, t, &o)
	case "wait":
		runWait(c, t, &o)
	case "retry":
		runRetry(c, t, &o)
	case "timed":
		runTimed(c, t, &o)
	case "multi":
		runMulti(c, t, &o)
	default:
		panic("unknown kind " + c.Kind)
	}
	return o
}

// ---- generation ------------------------------------------------------------------------------------

var pool = fk.C07PeerPool(12)

var sids = []string{"1-2-100", "0-3-1090377811-batch-4", "keygen", "resharing-7", "", "a",
	"signing-0xdeadbeef", "2-1-18446744073709551615"}

func genSid(r *vgen.Rng) string {
	if r.Chance(1, 3) {
		return fmt.Sprintf("%x", r.Bytes(r.Range(1, 32)))
	}
	if r.Chance(1, 4) {
		return fmt.Sprintf("%d-%d-%d", r.Intn(5), r.Intn(5), r.U64()%1000000)
	}
	return vgen.Pick(r, sids)
}

// genTable picks m distinct pool peers.
func genTable(r *vgen.Rng, m int) []string {
	idx := make([]int, len(pool))
	for i := range idx {
		idx[i] = i
	}
	r.Shuffle(len(idx), func(i, j int) { idx[i], idx[j] = idx[j], idx[i] })
	out := make([]string, m)
	for i := 0; i < m; i++ {
		out[i] = pool[idx[i]].String()
	}
	return out
}

func seq(n int) []int {
	out := make([]int, n)
	for i := range out {
		out[i] = i
	}
	return out
}

func shuffled(r *vgen.Rng, xs []int) []int {
	out := append([]int{}, xs...)
	r.Shuffle(len(out), func(i, j int) { out[i], out[j] = out[j], out[i] })
	return out
}

func permutations(xs []int) [][]int {
	if len(xs) <= 1 {
		return [][]int{append([]int{}, xs...)}
	}
	var out [][]int
	for i := range xs {
		rest := append(append([]int{}, xs[:i]...), xs[i+1:]...)
		for _, p := range permutations(rest) {
			out = append(out, append([]int{xs[i]}, p...))
		}
	}
	return out
}

// specCoordinator: index (into holders' table) of the holder with the largest key.
func specCoordinator(peers []string, sid string, holders []int) int {
	best, bk := -1, uint64(0)
	for _, h := range holders {
		k := fk.C07SortKey(mustPeer(peers[h]), sid)
		if best == -1 || k > bk {
			best, bk = h, k
		}
	}
	return best
}

func randList(r *vgen.Rng, m, n int) []int {
	out := make([]int, n)
	for i := range out {
		out[i] = r.Intn(m)
	}
	return out
}

func genElect(r *vgen.Rng, tier string) []Case {
	var out []Case
	reps := 2
	if tier == "thorough" {
		reps = 12
	}
	for n := 0; n <= 4; n++ {
		for k := 0; k < reps; k++ {
			peers, sid := genTable(r, n+1), genSid(r)
			for _, p := range permutations(seq(n)) {
				out = append(out, Case{Kind: "elect", Peers: peers, Sid: sid, Holders: seq(n), Perm: p})
			}
		}
	}
	for n := 5; n <= 7; n++ {
		for k := 0; k < 12*reps; k++ {
			peers, sid := genTable(r, n), genSid(r)
			hs := shuffled(r, seq(n))
			out = append(out, Case{Kind: "elect", Peers: peers, Sid: sid, Holders: hs, Perm: shuffled(r, hs)})
		}
	}
	// key holders with look-alike ids (all well-formed): the order and the coordinator follow the WHOLE id
	for k := 0; k < 10*reps; k++ {
		n := r.Range(2, 5)
		c := Case{Kind: "elect", Peers: genTable(r, n), Sid: genSid(r)}
		for j := r.Range(1, 3); j > 0; j-- {
			c.addTwin(r, r.Intn(len(c.Peers)), "", true)
		}
		c.Holders = shuffled(r, seq(len(c.Peers)))
		c.Perm = shuffled(r, c.Holders)
		out = append(out, c)
	}
	// a peer listed twice
	for k := 0; k < 4*reps; k++ {
		n := r.Range(2, 6)
		hs := append(seq(n), r.Intn(n))
		out = append(out, Case{Kind: "elect", Peers: genTable(r, n), Sid: genSid(r), Holders: hs, Perm: shuffled(r, hs)})
	}
	return out
}

func genParams(r *vgen.Rng, tier string) []Case {
	var out []Case
	n := 120
	if tier == "thorough" {
		n = 2500
	}
	for i := 0; i < n; i++ {
		nh := r.Range(1, 7)
		m := nh + r.Intn(3)
		t := r.Intn(nh + 1)
		lk := Case{Peers: genTable(r, m)}
		if i%4 == 3 {
			// peers without a key share whose ids look like a key holder's report ready
			for j := r.Range(1, 3); j > 0; j-- {
				lk.addTwin(r, r.Intn(nh), "", false)
			}
			m = len(lk.Peers)
		}
		var ready []int
		switch r.Intn(4) {
		case 0: // exactly t+1 holders plus outsiders
			ready = shuffled(r, seq(m))
			k := 0
			var keep []int
			for _, x := range ready {
				if x < nh {
					if k > t {
						continue
					}
					k++
				}
				keep = append(keep, x)
			}
			ready = keep
		case 1:
			ready = shuffled(r, seq(m))[:r.Intn(m+1)]
		case 2:
			ready = shuffled(r, seq(m))
		default:
			ready = randList(r, m, r.Intn(10)) // may hold duplicates
		}
		out = append(out, Case{Kind: "params", Peers: lk.Peers, Twins: lk.Twins, Sid: genSid(r), Holders: shuffled(r, seq(nh)),
			T: t, Proc: vgen.Pick(r, []string{"ecdsa", "frost"}), Ready: ready})
	}
	return out
}

func genSubset(r *vgen.Rng, tier string) []Case {
	var out []Case
	n := 110
	if tier == "thorough" {
		n = 2000
	}
	for i := 0; i < n; i++ {
		nh := r.Range(2, 7)
		m := nh + r.Intn(3)
		peers, sid := genTable(r, m), genSid(r)
		holders := shuffled(r, seq(nh))
		t := r.Range(1, nh-1)
		if nh == 2 {
			t = 1
		}
		if r.Chance(1, 10) {
			t = 0
		}
		c := Case{Kind: "subset", Peers: peers, Sid: sid, Holders: holders, T: t, Proc: vgen.Pick(r, []string{"ecdsa", "frost"})}
		if i%3 == 2 {
			// peers without a key share whose ids look like a key holder's (this relayer's too) send ready
			// messages (and, in the hook cases, may be excluded: their originals are not)
			for j := r.Range(1, 3); j > 0; j-- {
				c.addTwin(r, holders[r.Intn(nh)], "", false)
			}
			peers = c.Peers
			m = len(peers)
		}
		if i%2 == 0 {
			c.Via = "execute"
			c.Self = specCoordinator(peers, sid, holders)
		} else {
			c.Via = "hook"
			c.Self = holders[r.Intn(nh)]
			for p := 0; p < m; p++ {
				if p != c.Self && r.Chance(1, 3) {
					c.Excluded = append(c.Excluded, p)
				}
			}
		}
		switch r.Intn(3) {
		case 0: // everybody answers once, in some order
			c.Ready = shuffled(r, seq(m))
		case 1: // duplicates, outsiders, excluded peers, the coordinator itself
			c.Ready = randList(r, m, r.Range(0, 14))
		default: // everybody, with repetitions mixed in
			c.Ready = shuffled(r, append(seq(m), randList(r, m, r.Intn(6))...))
		}
		out = append(out, c)
	}
	return out
}

func genWait(r *vgen.Rng, tier string) []Case {
	var out []Case
	n := 156
	if tier == "thorough" {
		n = 1800
	}
	for i := 0; i < n; i++ {
		nh := r.Range(2, 7)
		m := nh + r.Intn(3)
		peers, sid := genTable(r, m), genSid(r)
		holders := shuffled(r, seq(nh))
		co := specCoordinator(peers, sid, holders)
		self := holders[r.Intn(nh)]
		for self == co {
			self = holders[r.Intn(nh)]
		}
		// look-alikes of the coordinator: other peers (some of them key holders) whose ids agree with the
		// coordinator's under a lossy projection send the forged messages (2 cases of 6), or ARE this
		// relayer, which then must not take the coordinator's part (1 case of 6)
		lk := Case{Peers: peers}
		var twins []int
		mode := [6]int{0, 1, 0, 2, 1, 0}[i%6]
		coTwin := func(wellFormed bool) int {
			tw := lk.addTwin(r, co, "", wellFormed)
			if tw >= 0 && !isRawPeer(lk.Peers[tw]) && r.Chance(1, 2) {
				// the look-alike holds a key share too (a legitimate committee member); if it out-ranks the
				// peer it was derived from the two swap parts
				at := r.Intn(len(holders) + 1)
				holders = append(holders[:at], append([]int{tw}, holders[at:]...)...)
				if nc := specCoordinator(lk.Peers, sid, holders); nc != co {
					tw, co = co, nc
				}
			}
			return tw
		}
		if mode == 2 {
			if tw := coTwin(r.Chance(1, 2)); tw >= 0 {
				self = tw
			}
		}
		if mode >= 1 {
			for k := r.Range(1, 3); k > 0; k-- {
				if tw := coTwin(r.Chance(1, 3)); tw >= 0 {
					twins = append(twins, tw)
				}
			}
		}
		peers = lk.Peers
		m = len(peers)
		var wellFormed []int
		for p := range peers {
			if !isRawPeer(peers[p]) {
				wellFormed = append(wellFormed, p)
			}
		}
		params := func() []int { return shuffled(r, wellFormed)[:r.Range(0, len(wellFormed))] }
		I := Msg{Type: "initiate", From: co}
		S := func() Msg { return Msg{Type: "start", From: co, Params: params()} }
		B := Msg{Type: "start", From: co, Bad: true}
		F := Msg{Type: "fail", From: co}
		var genuine []Msg
		switch r.Intn(8) {
		case 0:
			genuine = []Msg{I, S()}
		case 1:
			genuine = []Msg{I, I, F}
		case 2:
			genuine = []Msg{I, B}
		case 3:
			genuine = nil
		case 4:
			genuine = []Msg{S(), F}
		case 5:
			genuine = []Msg{I, S(), I, S(), F}
		case 6:
			genuine = []Msg{I, I, I}
		default:
			genuine = []Msg{I, S()}
		}
		forged := func() Msg {
			from := r.Intn(m)
			for from == co {
				from = r.Intn(m)
			}
			if len(twins) > 0 && r.Chance(2, 3) {
				from = vgen.Pick(r, twins)
			}
			switch r.Intn(4) {
			case 0:
				return Msg{Type: "initiate", From: from}
			case 1:
				return Msg{Type: "start", From: from, Params: params()}
			case 2:
				return Msg{Type: "start", From: from, Bad: true}
			default:
				return Msg{Type: "fail", From: from}
			}
		}
		// interleave: forged messages go anywhere up to the terminal genuine message; once the
		// process runs, at most two more initiate/start messages are offered (each costs a quiet window)
		nf := r.Range(1, 12)
		if r.Chance(1, 12) {
			nf = 0
		}
		var msgs []Msg
		gi := 0
		running, quietLeft := false, 2
		termDone := false
		for (gi < len(genuine) || nf > 0) && !termDone {
			takeGenuine := gi < len(genuine) && (nf == 0 || r.Chance(1, 3))
			var mm Msg
			if takeGenuine {
				mm = genuine[gi]
				gi++
			} else if nf > 0 {
				mm = forged()
				nf--
			} else {
				break
			}
			if running && mm.Type != "fail" {
				if quietLeft == 0 {
					continue
				}
				quietLeft--
			}
			msgs = append(msgs, mm)
			if mm.From == co {
				if mm.Type == "start" && !mm.Bad {
					running = true
				}
				if mm.Type == "fail" || (mm.Type == "start" && mm.Bad && !running) {
					termDone = true
				}
			}
		}
		// every look-alike sends one message of every type the relayer reacts to: initiate and start while
		// the relayer waits, fail at any time before the session ends
		for _, tw := range twins {
			for _, ty := range []string{"initiate", "start", "fail"} {
				upto := len(msgs)
				for k, mm := range msgs {
					if mm.From != co {
						continue
					}
					ends := mm.Type == "fail" || mm.Type == "start" && mm.Bad
					if ends || ty != "fail" && mm.Type == "start" {
						upto = k
						break
					}
				}
				mm := Msg{Type: ty, From: tw}
				if ty == "start" {
					mm.Params = params()
				}
				at := r.Intn(upto + 1)
				msgs = append(msgs[:at], append([]Msg{mm}, msgs[at:]...)...)
			}
		}
		out = append(out, Case{Kind: "wait", Peers: peers, Twins: lk.Twins, Sid: sid, Holders: holders, T: r.Range(1, nh-1), Self: self,
			Proc: vgen.Pick(r, []string{"ecdsa", "frost"}), Msgs: msgs})
	}
	return out
}


func sortedByKey(peers []string, sid string, is []int) []int {
	out := append([]int{}, is...)
	key := func(i int) uint64 { return fk.C07SortKey(mustPeer(peers[i]), sid) }
	for i := 1; i < len(out); i++ {
		for j := i; j > 0 && key(out[j]) > key(out[j-1]); j-- {
			out[j], out[j-1] = out[j-1], out[j]
		}
	}
	return out
}

// genRetry: the first attempt fails retryably; during the retried attempt forged fail messages
// arrive from peers that are not its coordinator.
func genRetry(r *vgen.Rng, tier string) []Case {
	var out []Case
	n := 36
	if tier == "thorough" {
		n = 300
	}
	for i := 0; i < n; i++ {
		nh := r.Range(4, 6)
		m := nh + r.Intn(2)
		peers, sid := genTable(r, m), genSid(r)
		holders := shuffled(r, seq(nh))
		order := sortedByKey(peers, sid, holders)
		t := r.Range(1, nh-3)
		c := Case{Kind: "retry", Peers: peers, Sid: sid, Holders: holders, T: t, Proc: vgen.Pick(r, []string{"ecdsa", "frost"})}
		// a third each: coordinator of the first attempt (then nobody ranks earlier: it also coordinates
		// the retried one), other role with a scripted winner, other role winning the election itself
		role1 := i%3 == 0
		wantWinner := i%3 == 1
		switch {
		case role1:
			c.Self = order[0]
		case wantWinner:
			c.Self = order[r.Range(2, nh-1)]
		default:
			c.Self = order[r.Range(1, nh-1)]
		}
		others := func() []int {
			var xs []int
			for _, h := range holders {
				if h != c.Self {
					xs = append(xs, h)
				}
			}
			return shuffled(r, xs)
		}
		c.Ready1 = others()
		c.Start1 = shuffled(r, holders)[:t+1]
		causes := []string{"comm", "tss", "coord"}
		if !role1 && !wantWinner {
			causes = append(causes, "silent")
		}
		c.Cause = causes[(i/3)%len(causes)]
		switch c.Cause {
		case "tss":
			c.Excluded = others()[:r.Range(1, 2)]
		case "coord":
			c.Excluded = []int{others()[0]}
			if !role1 {
				c.Excluded = []int{order[0]}
			}
		case "silent":
			c.Excluded = []int{order[0]}
		}
		excluded := map[int]bool{}
		for _, x := range c.Excluded {
			excluded[x] = true
		}
		// the scripted winner: an earlier candidate than this relayer that is not a culprit
		if wantWinner {
			var cands []int
			for _, p := range order {
				if p == c.Self {
					break
				}
				if !excluded[p] {
					cands = append(cands, p)
				}
			}
			if len(cands) > 0 {
				w := vgen.Pick(r, cands)
				c.Winner = &w
			}
		}
		// every other case: peers that hold no key share and whose ids look like the id of the retried
		// attempt's coordinator (the scripted winner, or this relayer itself), of the first attempt's
		// coordinator or of an excluded peer take part: they are the preferred senders of forged messages
		var twins []int
		m0 := m // start params name peers of the original table only (raw ids do not survive their encoding)
		if i%2 == 1 {
			bases := []int{c.Self, order[0]}
			if c.Winner != nil {
				bases = []int{*c.Winner, *c.Winner, order[0]}
			}
			bases = append(bases, c.Excluded...)
			for j := r.Range(1, 3); j > 0; j-- {
				if tw := c.addTwin(r, vgen.Pick(r, bases), "", false); tw >= 0 {
					twins = append(twins, tw)
				}
			}
			m = len(c.Peers)
		}
		forger := func(not int) int { // any peer of the table except this relayer and [not]
			if len(twins) > 0 && r.Chance(1, 2) {
				return vgen.Pick(r, twins)
			}
			for {
				p := r.Intn(m)
				if p != c.Self && p != not {
					return p
				}
			}
		}
		if c.Winner == nil {
			// this relayer coordinates the retried attempt: ready stream (everybody, culprits too, a
			// repetition) with forged fail messages at random places, also after the process started
			var evs []Ev
			for _, p := range shuffled(r, append(seq(m), r.Intn(m))) {
				if p != c.Self {
					evs = append(evs, Ev{Ready: true, From: p})
				}
			}
			nf := r.Range(1, 4)
			for k := 0; k < nf; k++ {
				from := forger(-1)
				if k == 0 && order[0] != c.Self {
					from = order[0] // the first attempt's coordinator is not the retried attempt's
				}
				at := r.Intn(len(evs) + 1)
				evs = append(evs[:at], append([]Ev{{Ready: false, From: from}}, evs[at:]...)...)
			}
			c.Evs = evs
		} else {
			co := *c.Winner
			params := func() []int { return shuffled(r, seq(m0))[:r.Range(0, m0)] }
			I := Msg{Type: "initiate", From: co}
			S := func() Msg { return Msg{Type: "start", From: co, Params: params()} }
			B := Msg{Type: "start", From: co, Bad: true}
			F := Msg{Type: "fail", From: co} // as coded the retry-phase watcher ignores it too
			var genuine []Msg
			switch r.Intn(6) {
			case 0:
				genuine = []Msg{I, S()}
			case 1:
				genuine = []Msg{I, I, S()}
			case 2:
				genuine = []Msg{I, B}
			case 3:
				genuine = []Msg{S()}
			case 4:
				genuine = []Msg{I, S(), F}
			default:
				genuine = []Msg{I, F, S()}
			}
			forged := func() Msg {
				from := forger(co)
				switch r.Intn(6) {
				case 0:
					return Msg{Type: "initiate", From: from}
				case 1:
					return Msg{Type: "start", From: from, Params: params()}
				case 2:
					return Msg{Type: "start", From: from, Bad: true}
				default:
					return Msg{Type: "fail", From: from}
				}
			}
			nf := r.Range(2, 8)
			var msgs []Msg
			gi := 0
			running, quietLeft, termDone := false, 2, false
			for (gi < len(genuine) || nf > 0) && !termDone {
				takeGenuine := gi < len(genuine) && (nf == 0 || r.Chance(1, 3))
				var mm Msg
				if takeGenuine {
					mm = genuine[gi]
					gi++
				} else if nf > 0 {
					mm = forged()
					nf--
				} else {
					break
				}
				if running && mm.Type != "fail" {
					if quietLeft == 0 {
						continue
					}
					quietLeft--
				}
				msgs = append(msgs, mm)
				if mm.From == co {
					if mm.Type == "start" && !mm.Bad {
						running = true
					}
					if mm.Type == "start" && mm.Bad && !running {
						termDone = true
					}
				}
			}
			// at least one forged fail message while the process runs (or at the end)
			msgs = append(msgs, Msg{Type: "fail", From: forger(co)})
			if order[0] != co && order[0] != c.Self {
				// the first attempt's coordinator is not the retried attempt's
				at := r.Intn(len(msgs) + 1)
				msgs = append(msgs[:at], append([]Msg{{Type: "fail", From: order[0]}}, msgs[at:]...)...)
			}
			c.Msgs = msgs
		}
		out = append(out, c)
	}
	return out
}


// genTimed: a relayer waits for its coordinator while other peers keep sending initiate / start / fail
// messages at intervals much shorter than the timeouts.  The coordinator is silent, or sends an
// initiate message (which does re-arm the ticker) and then nothing, or starts / aborts the attempt.
func genTimed(r *vgen.Rng, tier string) []Case {
	var out []Case
	reps := 1
	if tier == "thorough" {
		reps = 6
	}
	for k := 0; k < reps; k++ {
		for v := 0; v < 15; v++ {
			nh := r.Range(3, 6)
			m := nh + r.Intn(2)
			peers, sid := genTable(r, m), genSid(r)
			holders := shuffled(r, seq(nh))
			order := sortedByKey(peers, sid, holders)
			t := r.Range(1, nh-2)
			si := r.Range(1, nh-1)
			c := Case{Kind: "timed", Peers: peers, Sid: sid, Holders: holders, T: t, Self: order[si],
				Proc: vgen.Pick(r, []string{"ecdsa", "frost"})}
			co := order[0]
			if v == 11 || v == 12 {
				w := order[r.Intn(si)]
				c.Winner, c.Cause, co = &w, "comm", w
				c.Start1 = shuffled(r, holders)[:t+1]
			}
			var forgers []int
			for _, p := range shuffled(r, seq(m)) {
				if p != c.Self && p != co {
					forgers = append(forgers, p)
				}
			}
			if (v == 11 || v == 12) && order[0] != co {
				forgers = append([]int{order[0]}, forgers...) // the first attempt's coordinator keeps talking
			}
			if (k+v)%2 == 1 {
				// a peer whose id looks like the awaited coordinator's does the talking
				if tw := c.addTwin(r, co, "", false); tw >= 0 {
					forgers = append([]int{tw}, forgers...)
				}
			}
			if len(forgers) > 2 {
				forgers = forgers[:2]
			}
			params := func() []int { return shuffled(r, seq(m))[:r.Range(1, m)] }
			var msgs []Msg
			traffic := func(from, until, lo, hi int, types []string) {
				for at := from; at < until; at += r.Range(lo, hi) {
					mm := Msg{Type: vgen.Pick(r, types), From: vgen.Pick(r, forgers), At: at}
					if mm.Type == "start" {
						mm.Params = params()
						mm.Bad = r.Chance(1, 4)
					}
					msgs = append(msgs, mm)
				}
			}
			mixed := []string{"initiate", "start", "fail", "initiate", "start"}
			own := func(ty string, at int) Msg {
				mm := Msg{Type: ty, From: co, At: at}
				if ty == "start" {
					mm.Params = params()
				}
				return mm
			}
			first := r.Range(20, 50)
			switch v {
			case 0:
				c.CTO, c.Horizon = 250, 1500
				traffic(first, c.Horizon-70, 40, 70, []string{"initiate"})
			case 1:
				c.CTO, c.Horizon = 250, 1500
				traffic(first, c.Horizon-70, 40, 70, []string{"start"})
			case 2:
				c.CTO, c.Horizon = 250, 1500
				traffic(first, c.Horizon-70, 40, 70, []string{"fail"})
			case 3:
				c.CTO, c.Horizon = 200, 1400
				traffic(first, c.Horizon-60, 30, 60, mixed)
			case 4:
				c.CTO, c.Horizon = 300, 1800
				traffic(first, c.Horizon-90, 50, 90, mixed)
			case 5: // its own initiate message re-arms; then silence
				c.CTO, c.Horizon = 600, 3000
				traffic(first, c.Horizon-90, 50, 90, mixed)
				msgs = append(msgs, own("initiate", 60))
			case 6: // the coordinator starts the attempt in the middle of the traffic
				c.CTO, c.Horizon = 400, 700
				traffic(first, 150, 30, 50, mixed)
				msgs = append(msgs, own("initiate", 50), own("start", 150))
				traffic(170, c.Horizon-60, 40, 60, []string{"fail", "fail", "fail", "initiate"})
			case 7: // the watcher's ticker, relayer waiting
				c.TTO, c.Horizon = 350, 1800
				traffic(first, c.Horizon-70, 40, 70, []string{"fail", "initiate", "fail", "start"})
			case 14:
				c.TTO, c.Horizon = 300, 1500
				traffic(first, c.Horizon-70, 40, 70, []string{"fail"})
			case 8: // the watcher's ticker, process running
				c.TTO, c.Horizon = 450, 1800
				msgs = append(msgs, own("start", 80))
				traffic(first, 80, 20, 30, mixed)
				traffic(100, c.Horizon-70, 40, 70, []string{"fail"})
			case 9: // the coordinator aborts
				c.CTO, c.Horizon = 500, 1200
				traffic(first, c.Horizon-70, 40, 70, mixed)
				msgs = append(msgs, own("initiate", 40), own("fail", 150))
			case 10: // the coordinator's undecodable start message
				c.CTO, c.Horizon = 500, 1200
				traffic(first, c.Horizon-70, 40, 70, mixed)
				bad := own("start", 120)
				bad.Params, bad.Bad = nil, true
				msgs = append(msgs, bad)
			case 11: // the retried attempt: the re-elected coordinator is silent
				c.CTO, c.Horizon = 250, 1500
				traffic(first, c.Horizon-70, 40, 70, mixed)
			case 12: // ... after one initiate message of its own
				c.CTO, c.Horizon = 600, 3000
				traffic(first, c.Horizon-90, 50, 90, mixed)
				msgs = append(msgs, own("initiate", 60))
			case 13: // dense traffic
				c.CTO, c.Horizon = 200, 1200
				traffic(10, c.Horizon-30, 12, 25, mixed)
			}
			sort.SliceStable(msgs, func(i, j int) bool { return msgs[i].At < msgs[j].At })
			c.Msgs = msgs
			out = append(out, c)
		}
	}
	return out
}

// genMulti: two or three sessions with DIFFERENT elected coordinators overlap on one Coordinator object of a
// relayer that coordinates none of them.  While they overlap every session is sent fail (and initiate /
// start) messages by the coordinators of the OTHER sessions - for it they are just peers that are not its
// coordinator - and by its own.  One case in four runs its first session to the end before the next one is
// launched (a long-lived Coordinator must not remember the coordinator of a session that is over).
func genMulti(r *vgen.Rng, tier string) []Case {
	var out []Case
	n := 24
	if tier == "thorough" {
		n = 260
	}
	for i := 0; i < n; i++ {
		ns := 2
		if i%3 == 2 {
			ns = 3
		}
		nh := r.Range(ns+1, 6)
		m := nh + r.Intn(2)
		c := Case{Kind: "multi", Peers: genTable(r, m), Holders: shuffled(r, seq(nh)), T: r.Range(1, nh-1),
			Proc: vgen.Pick(r, []string{"ecdsa", "frost"})}
		// session ids whose elected coordinators differ (the third of three sessions may share one)
		var cos []int
		for tries := 0; len(c.Sids) < ns && tries < 400; tries++ {
			sid := genSid(r)
			co := specCoordinator(c.Peers, sid, c.Holders)
			fresh := true
			for k := range c.Sids {
				if c.Sids[k] == sid {
					fresh = false
				} else if cos[k] == co && !(len(c.Sids) == 2 && r.Chance(1, 4)) {
					fresh = false
				}
			}
			if fresh {
				c.Sids, cos = append(c.Sids, sid), append(cos, co)
			}
		}
		if len(c.Sids) < ns {
			continue
		}
		isCo := func(p int) bool {
			for _, x := range cos {
				if x == p {
					return true
				}
			}
			return false
		}
		var cand []int
		for _, h := range c.Holders {
			if !isCo(h) {
				cand = append(cand, h)
			}
		}
		c.Self = vgen.Pick(r, cand)
		// one case in four: every session is in its RETRIED attempt (the first one failed with a
		// CommunicationError); the scripted bully elections are won by earlier candidates, different ones in
		// different sessions where there are any.  From here on cos = the coordinators of the attempts under
		// observation, firsts = those of the failed first attempts
		sequential := i%4 == 3
		retried := i%4 == 2
		firsts := append([]int{}, cos...)
		if retried {
			c.Cause = "comm"
			c.Start1 = shuffled(r, c.Holders)[:c.T+1]
			for k := range c.Sids {
				var earlier, unused []int
				for _, p := range sortedByKey(c.Peers, c.Sids[k], c.Holders) {
					if p == c.Self {
						break
					}
					earlier = append(earlier, p)
					used := false
					for _, w := range c.Winners {
						used = used || w == p
					}
					if !used {
						unused = append(unused, p)
					}
				}
				if len(unused) > 0 {
					earlier = unused
				}
				w := vgen.Pick(r, earlier)
				c.Winners = append(c.Winners, w)
				cos[k] = w
			}
		}
		// every other case: a look-alike of a session's coordinator (not a key holder) takes part too
		twinOf, twin := -1, -1
		if (i/3)%2 == 1 {
			twinOf = r.Intn(ns)
			twin = c.addTwin(r, cos[twinOf], "", false)
		}
		m = len(c.Peers)
		var wellFormed []int
		for p := range c.Peers {
			if !isRawPeer(c.Peers[p]) {
				wellFormed = append(wellFormed, p)
			}
		}
		params := func() []int { return shuffled(r, wellFormed)[:r.Range(0, len(wellFormed))] }
		order := shuffled(r, seq(ns))
		build := func(s int) (q []Msg, nEarly int) {
			co := cos[s]
			var foreign []int // the coordinators of the relayer's other sessions
			for k, x := range cos {
				if k != s && x != co {
					foreign = append(foreign, x)
				}
			}
			if retried && firsts[s] != co {
				foreign = append(foreign, firsts[s]) // and the coordinator of the session's failed first attempt
			}
			running, quiet, ended := false, 2, false
			push := func(mm Msg) {
				if ended {
					return
				}
				mm.S = s
				if running && mm.Type != "fail" {
					if quiet == 0 {
						return
					}
					quiet--
				}
				q = append(q, mm)
				if mm.From == co {
					if mm.Type == "start" && !mm.Bad {
						running = true
					}
					// (as the code stands a retried attempt ignores its coordinator's fail message too)
					if mm.Type == "fail" && !retried || (mm.Type == "start" && mm.Bad && !running) {
						ended = true
					}
				}
			}
			shaped := func(from int, ty int) Msg {
				switch ty {
				case 0:
					return Msg{Type: "initiate", From: from}
				case 1:
					return Msg{Type: "start", From: from, Params: params()}
				case 2:
					return Msg{Type: "start", From: from, Bad: true}
				default:
					return Msg{Type: "fail", From: from}
				}
			}
			forged := func() Msg {
				var from int
				switch {
				case len(foreign) > 0 && r.Chance(2, 3):
					from = vgen.Pick(r, foreign)
				case twin >= 0 && twinOf == s && r.Chance(2, 3):
					from = twin
				default:
					from = r.Intn(m)
					for from == co {
						from = r.Intn(m)
					}
				}
				return shaped(from, r.Intn(5))
			}
			// before the overlap is complete: some of the coordinator's own messages, some forged ones
			ownEarly := vgen.Pick(r, [][]int{{0, 1}, {0}, {1}, {0, 0, 1}, {}, {}})
			oe := 0
			for k := r.Range(0, 4); k > 0; k-- {
				if oe < len(ownEarly) && r.Chance(1, 2) {
					push(shaped(co, ownEarly[oe]))
					oe++
				} else {
					push(forged())
				}
			}
			nEarly = len(q)
			// during the overlap: a fail message from the coordinator of every other session (and more), merged
			// with how the session's own coordinator ends it
			var must, cross []Msg // must: they arrive before the session's own coordinator ends it
			for _, f := range foreign {
				must = append(must, shaped(f, 3))
				if r.Chance(1, 2) {
					cross = append(cross, shaped(f, r.Intn(4)))
				}
			}
			if twin >= 0 && twinOf == s {
				must = append(must, shaped(twin, 3))
				cross = append(cross, shaped(twin, r.Intn(4)))
			}
			for k := r.Range(0, 3); k > 0; k-- {
				cross = append(cross, forged())
			}
			r.Shuffle(len(must), func(a, b int) { must[a], must[b] = must[b], must[a] })
			r.Shuffle(len(cross), func(a, b int) { cross[a], cross[b] = cross[b], cross[a] })
			// the rest of the cross traffic goes anywhere among and after them
			for _, x := range cross {
				at := r.Intn(len(must) + 1)
				must = append(must[:at], append([]Msg{x}, must[at:]...)...)
			}
			nMust := 0
			for k, x := range must {
				if x.Type == "fail" {
					nMust = k + 1
				}
			}
			cross = must
			ownLate := vgen.Pick(r, [][]int{{3}, {2}, {}, {1, 3}, {0, 1}, {0, 3}, {1}, {0, 1, 3}})
			if sequential && s == order[0] {
				ownLate = vgen.Pick(r, [][]int{{3}, {1, 3}, {0, 1, 3}})
			}
			ci, oi := 0, 0
			for ci < len(cross) || oi < len(ownLate) {
				ownEnds := oi < len(ownLate) && (ownLate[oi] == 3 && !retried || ownLate[oi] == 2 && !running)
				if oi < len(ownLate) && (ci == len(cross) || r.Chance(1, 3)) && !(ownEnds && ci < nMust && r.Chance(5, 6)) {
					push(shaped(co, ownLate[oi]))
					oi++
				} else {
					push(cross[ci])
					ci++
				}
			}
			return q, nEarly
		}
		qs := make([][]Msg, ns)
		early := make([]int, ns) // how many messages of a session may precede the launch of the last session
		for s := 0; s < ns; s++ {
			qs[s], early[s] = build(s)
		}
		var script []Msg
		var launched []int
		pop := func(s int) {
			script = append(script, qs[s][0])
			qs[s] = qs[s][1:]
			early[s]--
		}
		some := func(k int) {
			for ; k > 0; k-- {
				var live []int
				for _, s := range launched {
					if len(qs[s]) > 0 && (early[s] > 0 || len(launched) == ns) {
						live = append(live, s)
					}
				}
				if len(live) == 0 {
					return
				}
				pop(vgen.Pick(r, live))
			}
		}
		for idx, s := range order {
			script = append(script, Msg{Type: "launch", S: s})
			launched = append(launched, s)
			if sequential && idx == 0 {
				for len(qs[s]) > 0 {
					pop(s)
				}
			} else if idx < ns-1 {
				some(r.Range(0, 3))
			}
		}
		some(1 << 20)
		c.Msgs = script
		out = append(out, c)
	}
	return out
}

func gen(r *vgen.Rng, tier string) []Case {
	var out []Case
	out = append(out, genElect(r, tier)...)
	out = append(out, genParams(r, tier)...)
	out = append(out, genSubset(r, tier)...)
	out = append(out, genWait(r, tier)...)
	out = append(out, genRetry(r, tier)...)
	out = append(out, genTimed(r, tier)...)
	out = append(out, genMulti(r, tier)...)
	prefetch(out, 4)
	return out
}

// ---- prefetch ----------------------------------------------------------------------------------------
// The cases that spend their time waiting (timeouts, election windows, quiet windows) are run by a few
// workers in the background as soon as they are generated; run() then only picks up the result.  Every
// case is independent of every other; corpus and replay cases are run in the foreground as before.

type future struct {
	done  chan struct{}
	obs   Obs
	crash interface{}
}

var (
	preMu sync.Mutex
	pre   = map[string]*future{}
)

func caseKey(c Case) string {
	b, _ := json.Marshal(c)
	return string(b)
}

func prefetch(cases []Case, workers int) {
	var todo []Case
	preMu.Lock()
	for _, c := range cases {
		if c.Kind != "timed" && c.Kind != "retry" && c.Kind != "wait" && c.Kind != "multi" {
			continue
		}
		k := caseKey(c)
		if _, ok := pre[k]; ok {
			continue
		}
		pre[k] = &future{done: make(chan struct{})}
		todo = append(todo, c)
	}
	preMu.Unlock()
	ch := make(chan Case)
	for w := 0; w < workers; w++ {
		go func() {
			for c := range ch {
				preMu.Lock()
				f := pre[caseKey(c)]
				preMu.Unlock()
				func() {
					defer func() {
						if r := recover(); r != nil {
							f.crash = r
						}
						close(f.done)
					}()
					f.obs = runNow(c)
				}()
			}
		}()
	}
	go func() {
		for _, c := range todo {
			ch <- c
		}
		close(ch)
	}()
}

func run(c Case) Obs {
	preMu.Lock()
	f := pre[caseKey(c)]
	preMu.Unlock()
	if f == nil {
		return runNow(c)
	}
	<-f.done
	if f.crash != nil {
		panic(f.crash)
	}
	return f.obs
}

// ---- Coq terms ---------------------------------------------------------------------------------------

func P(i int) string {
	if i < 0 {
		i = unknownPeer
	}
	return vgen.N(uint64(i))
}
func PL(xs []int) string { return vgen.ListOf(xs, P) }
func OptP(i int) string {
	if i < 0 {
		return "None"
	}
	return vgen.Some(P(i))
}
func OptPL(xs *[]int) string {
	if xs == nil {
		return "None"
	}
	return vgen.Some(PL(*xs))
}
func KL(ks []uint64) string { return vgen.ListOf(ks, vgen.N) }

func coqMsg(m Msg) string {
	switch m.Type {
	case "initiate":
		return "MInitiate " + P(m.From)
	case "start":
		if m.Bad {
			return "MStart " + P(m.From) + " None"
		}
		return "MStart " + P(m.From) + " " + vgen.Some(PL(m.Params))
	default:
		return "MFail " + P(m.From)
	}
}

func coqOut(x Out) string {
	switch x.Kind {
	case "ready":
		return "OReady " + P(x.Peer)
	case "run":
		return "ORun " + PL(x.Params)
	case "badstart":
		return "OBadStart"
	default:
		return "OAbort"
	}
}

func coqTObs(x *TObs) string {
	if x == nil {
		return "([], TFinished)"
	}
	end := map[string]string{"waiting": "TWaiting", "running": "TRunning", "finished": "TFinished",
		"coord-timeout": "TCoordTimeout", "watch-timeout": "TWatchTimeout"}[x.End]
	if end == "" {
		end = "TFinished"
	}
	return vgen.Pair(vgen.ListOf(x.Outs, coqOut), end)
}

func msN(ms int) string {
	if ms <= 0 {
		ms = hourMs
	}
	return vgen.N(uint64(ms))
}

// arrived: the messages of the script that arrived (see Obs.Dropped), launches left out.
func arrived(c Case, o Obs) []Msg {
	gone := map[int]bool{}
	for _, i := range o.Dropped {
		gone[i] = true
	}
	out := []Msg{}
	for i, m := range c.Msgs {
		if !gone[i] && m.Type != "launch" {
			out = append(out, m)
		}
	}
	return out
}

func coq(c Case, o Obs) string {
	if o.Harness != "" {
		// the runner could not drive the case: never judged, counted as broken correspondence
		o2 := o
		o2.Harness = ""
		return "Undriven (" + coq(c, o2) + ")"
	}
	switch c.Kind {
	case "timed":
		c2 := "None"
		if c.Winner != nil {
			c2 = vgen.Some(P(*c.Winner))
		}
		return "Timed " + KL(o.Keys) + " " + PL(c.Holders) + " " + P(c.Self) + " " + c2 + " " + msN(c.CTO) + " " + msN(c.TTO) + " " +
			vgen.N(uint64(c.Horizon)) + " " + vgen.ListOf(c.Msgs, func(m Msg) string { return vgen.Pair(vgen.N(uint64(m.At)), coqMsg(m)) }) + " " +
			coqTObs(o.TAll) + " " + coqTObs(o.TOwn) + " " + vgen.Bool(o.OtherError != "")
	case "retry":
		if c.Winner != nil {
			return "RetryWait " + KL(o.Keys) + " " + PL(c.Holders) + " " + P(c.Self) + " " + P(*c.Winner) + " " +
				vgen.ListOf(arrived(c, o), coqMsg) + " " + vgen.ListOf(o.Outs, coqOut) + " " + vgen.Bool(o.OtherError != "")
		}
		return "RetryCoord " + KL(o.Keys) + " " + PL(c.Holders) + " " + vgen.Z(int64(c.T)) + " " + PL(c.Excluded) + " " + P(c.Self) + " " +
			vgen.ListOf(c.Evs, func(e Ev) string { return vgen.Pair(vgen.Bool(e.Ready), P(e.From)) }) + " " +
			OptPL(o.Run) + " " + vgen.Bool(o.Aborted) + " " + vgen.Bool(o.OtherError != "")
	case "elect":
		return "Elect " + KL(o.Keys) + " " + PL(c.Holders) + " " + PL(c.Perm) + " " + PL(o.Sorted) + " " + PL(o.SortedPerm) +
			" " + OptP(o.Coord) + " " + OptP(o.CoordPerm)
	case "params":
		return "Params " + KL(o.Keys) + " " + PL(c.Holders) + " " + vgen.Z(int64(c.T)) + " " + PL(c.Ready) + " " +
			vgen.Bool(o.ReadyOK && o.OtherError == "") + " " + PL(o.Params)
	case "subset":
		return "Subset " + KL(o.Keys) + " " + PL(c.Holders) + " " + vgen.Z(int64(c.T)) + " " + PL(c.Excluded) + " " + P(c.Self) + " " +
			vgen.Bool(c.Via != "hook") + " " + PL(c.Ready) + " " + vgen.ListOf(o.Calls, PL) + " " +
			vgen.Bool(o.ExclOK && o.OtherError == "") + " " + OptPL(o.Announced) + " " + OptPL(o.Run)
	case "wait":
		msg := func(m Msg) string {
			switch m.Type {
			case "initiate":
				return "MInitiate " + P(m.From)
			case "start":
				if m.Bad {
					return "MStart " + P(m.From) + " None"
				}
				return "MStart " + P(m.From) + " " + vgen.Some(PL(m.Params))
			default:
				return "MFail " + P(m.From)
			}
		}
		out := func(x Out) string {
			switch x.Kind {
			case "ready":
				return "OReady " + P(x.Peer)
			case "run":
				return "ORun " + PL(x.Params)
			case "badstart":
				return "OBadStart"
			default:
				return "OAbort"
			}
		}
		return "Wait " + KL(o.Keys) + " " + PL(c.Holders) + " " + P(c.Self) + " " + vgen.ListOf(arrived(c, o), msg) + " " +
			vgen.ListOf(o.Outs, out) + " " + vgen.Bool(o.Coordinates) + " " + vgen.Bool(o.OtherError != "")
	case "multi":
		script := arrived(c, o)
		souts := o.SOuts
		for len(souts) < len(c.Sids) {
			souts = append(souts, nil)
		}
		skeys := o.SKeys
		for len(skeys) < len(c.Sids) {
			skeys = append(skeys, nil)
		}
		winners := make([]string, len(c.Sids))
		for k := range winners {
			winners[k] = "None"
			if c.Cause != "" && k < len(c.Winners) {
				winners[k] = vgen.Some(P(c.Winners[k]))
			}
		}
		return "Multi " + vgen.ListOf(skeys, KL) + " " + vgen.List(winners) + " " + PL(c.Holders) + " " + P(c.Self) + " " +
			vgen.ListOf(script, func(m Msg) string { return vgen.Pair(vgen.N(uint64(m.S)), coqMsg(m)) }) + " " +
			vgen.ListOf(souts, func(l []Out) string { return vgen.ListOf(l, coqOut) }) + " " +
			vgen.Bool(o.Coordinates) + " " + vgen.Bool(o.OtherError != "")
	}
	panic("unknown kind")
}

// alike: ":alike" for a case whose peer table holds look-alike ids.
func alike(c Case) string {
	if len(c.Twins) > 0 {
		return ":alike"
	}
	return ""
}

func kind(c Case) string {
	switch c.Kind {
	case "multi":
		att := ""
		if c.Cause != "" {
			att = ":retried"
		}
		return fmt.Sprintf("multi:%dsessions", len(c.Sids)) + att + alike(c)
	case "elect":
		return "elect" + alike(c)
	case "timed":
		role := "first"
		if c.Winner != nil {
			role = "retry"
		}
		return "timed:" + role + alike(c)
	case "retry":
		role := "coord"
		if c.Winner != nil {
			role = "wait"
		}
		return "retry:" + role + ":" + c.Cause + alike(c)
	case "subset":
		ex := "noexcl"
		if len(c.Excluded) > 0 {
			ex = "excl"
		}
		return "subset:" + c.Via + ":" + c.Proc + ":" + ex + alike(c)
	case "params":
		return "params:" + c.Proc + alike(c)
	case "wait":
		forged, genuine := 0, 0
		// the coordinator is not part of the input; classify by message mix only
		froms := map[int]bool{}
		for _, m := range c.Msgs {
			froms[m.From] = true
		}
		_ = forged
		_ = genuine
		for _, tw := range c.Twins {
			if tw.Peer == c.Self || tw.Of == c.Self {
				return fmt.Sprintf("wait:%dsenders:self-alike", len(froms))
			}
		}
		return fmt.Sprintf("wait:%dsenders", len(froms)) + alike(c)
	}
	return c.Kind
}

func main() {
	zerolog.SetGlobalLevel(zerolog.Disabled)
	_ = sort.Ints
	vgen.Main(vgen.Spec[Case, Obs]{
		Property:  "C07",
		RunModule: "C07",
		Gen:       gen,
		Run:       run,
		Coq:       coq,
		Kind:      kind,
		NonTrivial: func(c Case, o Obs) bool {
			if o.Harness != "" {
				return false
			}
			switch c.Kind {
			case "elect":
				return len(c.Holders) >= 2
			case "params":
				return len(c.Ready) > 0
			case "subset":
				return o.Announced != nil
			case "wait":
				return len(c.Msgs) >= 2
			case "multi":
				n := 0
				for _, m := range c.Msgs {
					if m.Type == "fail" {
						n++
					}
				}
				return len(c.Sids) >= 2 && n >= 1 && o.OtherError == ""
			case "timed":
				for _, m := range c.Msgs {
					if m.At > 0 && o.OtherError == "" && o.TAll != nil {
						return true
					}
				}
			case "retry":
				for _, m := range c.Msgs {
					if m.Type == "fail" {
						return o.OtherError == ""
					}
				}
				for _, e := range c.Evs {
					if !e.Ready {
						return o.OtherError == ""
					}
				}
			}
			return false
		},
		Rule: "elect: every permutation of 0..4 listed peers (random ones for 5..7, lists with a repeated peer) x session ids; " +
			"params: random committees / thresholds / ready lists on the real ECDSA and FROST Signing.Ready+StartParams; " +
			"subset: real Coordinator in the coordinator role fed ready streams with duplicates, outsiders, excluded peers; " +
			"wait: real Coordinator.Execute in a non-coordinator role fed genuine and 0..12 forged initiate/start/fail messages in random interleavings; which side of the attempt the relayer takes is observed too; " +
			"in a third of the wait cases the forged messages come from 1..3 LOOK-ALIKES of the coordinator (ids that agree with the coordinator's under a lossy projection: one or all middle base58 characters changed, only first 2 + last 6 kept, last characters changed, case of one / all letters changed, one byte changed, strict prefix / extension byte-wise and in the printed form; some of them key holders), each of which sends an initiate, a start and a fail message; in a sixth this relayer's OWN id is such a look-alike; " +
			"look-alikes of holders / excluded peers / coordinators also in elect, params, subset, retry and timed cases; " +
			"multi: ONE real Coordinator object, 2..3 overlapping sessions (Execute once per session) with different elected coordinators, this relayer coordinates none; launches interleaved with messages; during the overlap every session gets a fail message (and initiate / start) from every OTHER session's coordinator before its own coordinator ends it; one case in four runs its first session to the end before the next is launched, one in four has every session in its RETRIED attempt (CommunicationError in the first, scripted bully winners, different per session where possible); judged per session; " +
			"retry: real Coordinator.Execute whose first attempt fails retryably ({silent coordinator, CommunicationError, tss.Error with culprits, CoordinatorError} x {coordinator, other} role), " +
			"real bully election won by this relayer or by a scripted earlier candidate, retried attempt fed ready / initiate / start messages and forged fail messages from non-coordinators (before and while the process runs); " +
			"timed: real Coordinator.Execute waiting for its coordinator (first attempt; retried attempt after a scripted bully winner) with CoordinatorTimeout 200..600 ms or TssTimeout 350..450 ms " +
			"while one or two other peers send forged initiate-only / start-only / fail-only / mixed messages every 12..90 ms until the horizon (1.2..3 s): silent coordinator, coordinator with one initiate message of its own, coordinator that starts / aborts / sends an undecodable start; " +
			"every such case drives the relayer twice (all messages / the coordinator's own messages only) and compares actions and how the wait ended (which ticker, or still waiting / running at the horizon); " +
			"wait / retry / multi: the model and the judge are given the messages that ARRIVED (a message that could not be handed over because its session was over is left out); " +
			"distinct = distinct input JSON; non-trivial = >= 2 listed peers / non-empty ready list / a subset was announced / >= 2 messages / a fail message during the retried attempt / a timed case whose runs kept the schedule / a multi case with >= 2 sessions and a fail message",
		ShardSize: 200,
	})
}
