// Look-alike peer ids.
//
// A peer id is a byte string (for the peers of the pool: the identity multihash of an ed25519 public
// key, 38 bytes, printed as 52 base58 characters "12D3KooW...").  The code under test has to tell peers
// apart by the WHOLE id.  The generators below derive, from the id of a peer that matters (the
// coordinator of an attempt, a key holder, an excluded peer, this relayer itself), ids of OTHER peers that
// agree with it under projections that lose information:
//
//	mid1     one base58 character in the middle replaced           (equal first k / last k characters, e.g.
//	midN     all characters between the first 8 and the last 8     peer.ID.ShortString: first 2 + last 6)
//	short    everything but the first 2 and the last 6 characters
//	tail     only the last 6..10 characters kept (after the common header)
//	head     the last 1..6 characters replaced                     (equal prefixes)
//	last     the last character replaced
//	fold1    the case of one letter changed                        (equal under case folding)
//	foldN    the case of every letter that has both cases in the base58 alphabet changed
//	byte     one byte of the id changed                            (equal length, equal byte prefix / suffix)
//	bprefix  the id without its last 1..4 bytes                    (strict prefix, byte-wise)
//	bext     the id followed by 1..3 more bytes                    (strict extension, byte-wise)
//	sprefix  the base58 text without its last 1..8 characters      (strict prefix of the printed id)
//	sext     the base58 text followed by 1..4 more characters      (strict extension of the printed id)
//
// Every such id is a different peer.  Where the result still is a well-formed multihash it is written
// as its base58 text like every other peer of a case (and may be a key holder, be named in start
// params, ...); otherwise as "raw:<hex of the bytes>" - such a peer only ever appears as the sender of
// a message or as this relayer's own host id.
package main

import (
	"encoding/hex"
	"fmt"
	"strings"

	"github.com/libp2p/go-libp2p/core/peer"
	b58 "github.com/mr-tron/base58/base58"

	"verifharness/vgen"
)

const b58Alphabet = "123456789ABCDEFGHJKLMNPQRSTUVWXYZabcdefghijkmnopqrstuvwxyz"

const rawPrefix = "raw:"

// decodePeer reads a peer of a case's peer table.
func decodePeer(s string) (peer.ID, error) {
	if strings.HasPrefix(s, rawPrefix) {
		b, err := hex.DecodeString(s[len(rawPrefix):])
		if err != nil {
			return "", err
		}
		if len(b) == 0 {
			return "", fmt.Errorf("empty raw peer id")
		}
		return peer.ID(b), nil
	}
	return peer.Decode(s)
}

func mustPeer(s string) peer.ID {
	id, err := decodePeer(s)
	if err != nil {
		panic(fmt.Sprintf("peer %q: %v", s, err))
	}
	return id
}

// peerText writes an id the way the peer table holds it; wellFormed: it is a multihash that the
// libp2p decoder reads back (so it survives JSON encoding of start params).
func peerText(id peer.ID) (text string, wellFormed bool) {
	s := id.String()
	if back, err := peer.Decode(s); err == nil && back == id {
		return s, true
	}
	return rawPrefix + hex.EncodeToString([]byte(id)), false
}

func isRawPeer(s string) bool { return strings.HasPrefix(s, rawPrefix) }

var twinKinds = []string{"mid1", "midN", "short", "tail", "head", "last", "fold1", "foldN", "byte",
	"bprefix", "bext", "sprefix", "sext"}

// the kinds that usually stay well-formed multihashes
var twinKindsWellFormed = []string{"mid1", "midN", "tail", "head", "last", "fold1", "foldN", "byte"}

func otherChar(r *vgen.Rng, c byte) byte {
	for {
		d := b58Alphabet[r.Intn(len(b58Alphabet))]
		if d != c {
			return d
		}
	}
}

func flipCase(c byte) (byte, bool) {
	var d byte
	switch {
	case c >= 'a' && c <= 'z':
		d = c - 'a' + 'A'
	case c >= 'A' && c <= 'Z':
		d = c - 'A' + 'a'
	default:
		return c, false
	}
	if strings.IndexByte(b58Alphabet, d) < 0 {
		return c, false
	}
	return d, true
}

// twinOnce makes one candidate of the kind; ok = false: not possible for this id.
func twinOnce(r *vgen.Rng, base peer.ID, kind string) (peer.ID, bool) {
	s := []byte(base.String())
	n := len(s)
	fromText := func(t []byte) (peer.ID, bool) {
		b, err := b58.Decode(string(t))
		if err != nil || len(b) == 0 {
			return "", false
		}
		return peer.ID(b), true
	}
	// the ids of the pool share their first 8 characters (multihash header + key type)
	lo, hi := 8, n-8
	if hi <= lo {
		lo, hi = n/3, n-n/3
	}
	if hi <= lo {
		return "", false
	}
	switch kind {
	case "mid1":
		i := r.Range(lo, hi-1)
		s[i] = otherChar(r, s[i])
		return fromText(s)
	case "midN":
		for i := lo; i < hi; i++ {
			s[i] = b58Alphabet[r.Intn(len(b58Alphabet))]
		}
		return fromText(s)
	case "short":
		if n <= 10 {
			return "", false
		}
		for i := 2; i < n-6; i++ {
			s[i] = b58Alphabet[r.Intn(len(b58Alphabet))]
		}
		return fromText(s)
	case "tail":
		keep := r.Range(6, 10)
		if n-keep <= lo {
			return "", false
		}
		for i := lo; i < n-keep; i++ {
			s[i] = b58Alphabet[r.Intn(len(b58Alphabet))]
		}
		return fromText(s)
	case "head":
		k := r.Range(1, 6)
		if k >= n {
			return "", false
		}
		for i := n - k; i < n; i++ {
			s[i] = otherChar(r, s[i])
		}
		return fromText(s)
	case "last":
		s[n-1] = otherChar(r, s[n-1])
		return fromText(s)
	case "fold1":
		var at []int
		for i := lo; i < n; i++ {
			if _, ok := flipCase(s[i]); ok {
				at = append(at, i)
			}
		}
		if len(at) == 0 {
			return "", false
		}
		i := vgen.Pick(r, at)
		s[i], _ = flipCase(s[i])
		return fromText(s)
	case "foldN":
		changed := false
		for i := lo; i < n; i++ {
			if d, ok := flipCase(s[i]); ok {
				s[i], changed = d, true
			}
		}
		if !changed {
			return "", false
		}
		return fromText(s)
	case "byte":
		b := []byte(base)
		if len(b) < 8 {
			return "", false
		}
		i := r.Range(6, len(b)-1)
		b[i] ^= byte(1 << uint(r.Intn(8)))
		return peer.ID(b), true
	case "bprefix":
		b := []byte(base)
		k := r.Range(1, 4)
		if len(b) <= k {
			return "", false
		}
		return peer.ID(b[:len(b)-k]), true
	case "bext":
		b := append([]byte(base), r.Bytes(r.Range(1, 3))...)
		return peer.ID(b), true
	case "sprefix":
		k := r.Range(1, 8)
		if n <= k+2 {
			return "", false
		}
		return fromText(s[:n-k])
	case "sext":
		for k := r.Range(1, 4); k > 0; k-- {
			s = append(s, b58Alphabet[r.Intn(len(b58Alphabet))])
		}
		return fromText(s)
	}
	panic("unknown twin kind " + kind)
}

// twinOf returns a look-alike of the peer written as base (peer-table text) that differs from base
// and from every peer of taken.  needWellFormed: only a well-formed multihash will do.
func twinOf(r *vgen.Rng, base string, kind string, needWellFormed bool, taken []string) (string, bool) {
	id := mustPeer(base)
	for try := 0; try < 40; try++ {
		tw, ok := twinOnce(r, id, kind)
		if !ok {
			return "", false
		}
		if tw == id || len(tw) == 0 {
			continue
		}
		text, wf := peerText(tw)
		if needWellFormed && !wf {
			continue
		}
		dup := false
		for _, t := range taken {
			if t == text {
				dup = true
			}
		}
		if !dup {
			return text, true
		}
	}
	return "", false
}

// Twin records, in the input of a case, that peer Peer of the table is a look-alike of peer Of.
type Twin struct {
	Peer int    `json:"peer"`
	Of   int    `json:"of"`
	Kind string `json:"kind"`
}

var twinTurn int

// addTwin appends a look-alike of peers[of] (a random kind, or the given one) to the peer table of the
// case and returns its index (-1: none found).
func (c *Case) addTwin(r *vgen.Rng, of int, kind string, needWellFormed bool) int {
	for try := 0; try < 6; try++ {
		k := kind
		if k == "" {
			// the kinds take turns, so that every kind occurs in every part a look-alike plays
			kinds := twinKinds
			if needWellFormed {
				kinds = twinKindsWellFormed
			}
			k = kinds[twinTurn%len(kinds)]
			twinTurn++
		}
		if text, ok := twinOf(r, c.Peers[of], k, needWellFormed, c.Peers); ok {
			c.Peers = append(c.Peers, text)
			c.Twins = append(c.Twins, Twin{Peer: len(c.Peers) - 1, Of: of, Kind: k})
			return len(c.Peers) - 1
		}
		if kind != "" && try >= 1 {
			break
		}
	}
	return -1
}
