package main

// Round 4: wider poison shapes for the EVM and Substrate paths (cheap ones: built from a healthy
// deposit).  The quick tier takes a small sample of each list per catalogue built (a catalogue is built several
// times per path and run), the thorough tier a six times larger one.

import (
	"bytes"
	"encoding/hex"
	"fmt"
	"math/big"
	"strconv"
	"strings"

	"github.com/centrifuge/go-substrate-rpc-client/v4/registry"
	"github.com/centrifuge/go-substrate-rpc-client/v4/types"

	"verifharness/vgen"
)

func sample[T any](r *vgen.Rng, l []T, n int) []T {
	if thoroughTier {
		n *= 6
	}
	if len(l) <= n {
		return l
	}
	l = append([]T{}, l...)
	r.Shuffle(len(l), func(i, j int) { l[i], l[j] = l[j], l[i] })
	return l[:n]
}

// moreEvm: calldata lengths around every word boundary (zeros / 0xff / a healthy prefix), a hostile
// first word, very long calldata, handler responses of odd lengths for every kind, and Deposit logs
// whose ABI head (offsets of the two dynamic fields, their length words) is hostile.
func moreEvm(r *vgen.Rng, kind string, base Dep) []Dep {
	cd, _ := hex.DecodeString(base.Data)
	var out []Dep
	mk := func(b []byte, hr []byte) {
		out = append(out, Dep{Kind: kind, Dest: base.Dest, Data: hex.EncodeToString(b), HR: hex.EncodeToString(hr)})
	}
	for _, n := range []int{31, 32, 33, 63, 64, 65, 83, 84, 85, 95, 96, 97, 127, 128, 129} {
		mk(make([]byte, n), nil)
		mk(bytes.Repeat([]byte{0xff}, n), nil)
		if n < len(cd) {
			mk(cd[:n], nil)
		}
	}
	for _, w := range hostileWords {
		mk(setWord(cd, 0, w), nil)
	}
	mk(cat(cd, r.Bytes(5000)), nil)
	mk(r.Bytes(5000), nil)
	mk(bytes.Repeat([]byte{0xff}, 4096), nil)
	for _, n := range []int{1, 31, 33, 5000} {
		mk(cd, r.Bytes(n))
	}
	// the log itself (kind badlog): the Deposit log of the healthy deposit - with the nonce and the
	// destination the case gives it - with one word replaced: the resource id, the offsets of the two
	// dynamic fields, the length word of the calldata (not the nonce word: the proposal store of the
	// retry path is keyed by the nonce of the case); or cut short
	for _, off := range []int{32, 96, 128, 160} {
		for _, w := range hostileWords {
			out = append(out, badLog(kind, base, off, w.Text(16)))
		}
		for _, v := range []int64{31, 33, 159, 161, 192, 1 << 20} {
			out = append(out, badLog(kind, base, off, big.NewInt(v).Text(16)))
		}
	}
	for _, cut := range []int{1, 31, 32, 33, 64} {
		out = append(out, badLog(kind, base, -cut, "0"))
	}
	return out
}

// badLog: Kind "badlog", Data = "<offset>:<hex word>:<kind>:<calldata hex>:<handler response hex>"
// (not hex as a whole).  offset < 0: the log is cut by that many bytes instead.
func badLog(kind string, base Dep, off int, wordHex string) Dep {
	return Dep{Kind: "badlog", Dest: base.Dest, Data: fmt.Sprintf("%d:%s:%s:%s:%s", off, wordHex, kind, base.Data, base.HR)}
}

// badLogData: the log data of a badlog deposit with the given destination / nonce.
func badLogData(d Dep, nonce uint64) []byte {
	p := strings.Split(d.Data, ":")
	if len(p) != 5 {
		return nil
	}
	off, _ := strconv.Atoi(p[0])
	w, _ := new(big.Int).SetString(p[1], 16)
	if w == nil {
		w = new(big.Int)
	}
	data, err := bridgeABI.Events["Deposit"].Inputs.NonIndexed().Pack(d.Dest, resourceOf(p[2]), nonce, unhex(p[3]), unhex(p[4]))
	if err != nil {
		panic(err)
	}
	if off < 0 {
		if len(data) > -off {
			return data[:len(data)+off]
		}
		return nil
	}
	return setWord(data, off, w)
}

// ---- Substrate: ill-shaped event fields --------------------------------------------------------------
// Kind "subbad", Data = "<field>:<variant>" (not hex): the Deposit event of a healthy deposit with one
// field missing / nil / of another type / out of range.

var subFieldNames = []string{"dest_domain_id", "resource_id", "deposit_nonce", "sygma_traits_TransferType", "deposit_data", "handler_response"}

var subVariants = []string{"missing", "nil", "string", "list", "neg", "big", "float", "bytes", "bool", "map", "twice"}

func subBadValue(variant string) any {
	switch variant {
	case "nil":
		return nil
	case "string":
		return "not what is expected here"
	case "list":
		return []any{types.NewU8(1), "x", nil}
	case "neg":
		return int64(-1)
	case "big":
		return types.NewU128(*new(big.Int).Lsh(big.NewInt(1), 127))
	case "float":
		return 1.5e300
	case "bytes":
		return []byte{1, 2, 3}
	case "bool":
		return true
	case "map":
		return map[string]any{"a": 1}
	}
	return nil
}

// subBadFields: the fields of the event of `subbad` deposit d (nonce as given).
func subBadFields(d Dep, nonce uint64) registry.DecodedFields {
	spec := strings.SplitN(d.Data, ":", 2)
	if len(spec) != 2 {
		spec = []string{"", ""}
	}
	healthyData := cat(pad32(big.NewInt(1000)), pad32(big.NewInt(20)), bytes.Repeat([]byte{0xab}, 20))
	all := registry.DecodedFields{
		&registry.DecodedField{Name: "dest_domain_id", Value: types.NewU8(d.Dest)},
		&registry.DecodedField{Name: "resource_id", Value: types.Bytes32{1}},
		&registry.DecodedField{Name: "deposit_nonce", Value: types.NewU64(nonce)},
		&registry.DecodedField{Name: "sygma_traits_TransferType", Value: types.NewU8(0)},
		&registry.DecodedField{Name: "deposit_data", Value: healthyData},
		&registry.DecodedField{Name: "handler_response", Value: [1]byte{0}},
	}
	var out registry.DecodedFields
	for _, f := range all {
		if f.Name != spec[0] {
			out = append(out, f)
			continue
		}
		switch spec[1] {
		case "missing":
		case "twice": // the field a second time, with another value (the later one wins in a loop over the fields)
			out = append(out, f, &registry.DecodedField{Name: f.Name, Value: "second"})
		default:
			out = append(out, &registry.DecodedField{Name: f.Name, Value: subBadValue(spec[1])})
		}
	}
	return out
}

func moreSub(r *vgen.Rng, base Dep) []Dep {
	cd, _ := hex.DecodeString(base.Data)
	var out []Dep
	mk := func(b []byte) { out = append(out, Dep{Kind: "sub", Dest: base.Dest, Data: hex.EncodeToString(b)}) }
	for _, n := range []int{31, 32, 33, 63, 64, 65, 85, 95, 96, 97} {
		mk(make([]byte, n))
		mk(bytes.Repeat([]byte{0xff}, n))
	}
	for _, w := range hostileWords {
		mk(setWord(cd, 0, w))
	}
	mk(cat(cd, r.Bytes(1)))
	mk(cat(cd, r.Bytes(5000)))
	mk(r.Bytes(5000))
	for _, f := range subFieldNames {
		for _, v := range subVariants {
			out = append(out, Dep{Kind: "subbad", Dest: base.Dest, Data: f + ":" + v})
		}
	}
	return out
}
