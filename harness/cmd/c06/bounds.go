package main

// Round 5: calldata that ends exactly at a field boundary.  The deposit handlers build the payload of
// the message field by field, the destination-side message handlers index that payload (down.go runs
// them on every message): a payload that is one element shorter because the calldata stopped right
// after a field is the input that matters for the pair.  For every handler kind:
//   - a healthy deposit with every variable-length field present, cut exactly at the end of each field,
//     one byte before and one byte after it (the length fields in front are left as they were), and
//   - CONSISTENT deposits in which each variable-length field in turn is empty / one byte long and the
//     length fields say so (many of them are well-formed deposits: a permissionless-generic deposit
//     without execution data, an ERC721 deposit without metadata, an ERC1155 deposit of no tokens, ...).
// They are packed several to a range among healthy deposits (boundaryCases).

import (
	"encoding/hex"
	"fmt"
	"math/big"
	"sort"

	"github.com/ChainSafe/sygma-relayer/chains/evm/listener/depositHandlers"

	"verifharness/vgen"
)

func cutsAt(cd []byte, ends []int, r *vgen.Rng) [][]byte {
	seen := map[int]bool{}
	var out [][]byte
	add := func(n int) {
		if n < 0 || seen[n] {
			return
		}
		seen[n] = true
		if n <= len(cd) {
			out = append(out, append([]byte{}, cd[:n]...))
		} else {
			out = append(out, cat(cd, r.Bytes(n-len(cd))))
		}
	}
	sort.Ints(ends)
	for _, e := range ends {
		add(e - 1)
		add(e)
		add(e + 1)
	}
	return out
}

func u16(n int) []byte { return []byte{byte(n >> 8), byte(n)} }

func boundaryDeps(r *vgen.Rng, kind string) []Dep {
	var out []Dep
	dest := func() uint8 { return uint8(vgen.Pick(r, []int{2, 3, 4})) }
	mk := func(b []byte) { out = append(out, Dep{Kind: kind, Dest: dest(), Data: hex.EncodeToString(b)}) }
	w := func(n int) []byte { return pad32(big.NewInt(int64(n))) }
	switch kind {
	case "erc20":
		rl := vgen.Pick(r, []int{20, 32})
		cd := cat(pad32(amount(r)), w(rl), r.Bytes(rl), pad32(r.BigBits(40)), r.Bytes(9))
		for _, b := range cutsAt(cd, []int{32, 64, 64 + rl, 96 + rl, len(cd)}, r) {
			mk(b)
		}
		for _, n := range []int{0, 1, 19, 20, 21, 32} { // consistent: recipient of n bytes, no tail / fee word only / fee word and one byte
			core := cat(pad32(amount(r)), w(n), r.Bytes(n))
			mk(core)
			if n >= 20 {
				mk(cat(core, pad32(r.BigBits(40))))
				mk(cat(core, pad32(r.BigBits(40)), r.Bytes(1)))
			}
		}
	case "erc721":
		rl, ml := vgen.Pick(r, []int{20, 32}), vgen.Pick(r, []int{1, 33})
		cd := cat(pad32(amount(r)), w(rl), r.Bytes(rl), w(ml), r.Bytes(ml))
		for _, b := range cutsAt(cd, []int{32, 64, 64 + rl, 96 + rl, len(cd)}, r) {
			mk(b)
		}
		for _, n := range []int{0, 1, 20} {
			for _, m := range []int{0, 1} {
				mk(cat(pad32(amount(r)), w(n), r.Bytes(n), w(m), r.Bytes(m)))
			}
		}
	case "generic":
		fs, ca, dp := 4, 20, 20
		cd := cat(pad32(r.BigBits(40)), u16(fs), r.Bytes(fs), []byte{byte(ca)}, r.Bytes(ca), []byte{byte(dp)}, r.Bytes(dp), r.Bytes(7))
		e := 34 + fs
		for _, b := range cutsAt(cd, []int{32, 34, e, e + 1, e + 1 + ca, e + 2 + ca, e + 2 + ca + dp, len(cd)}, r) {
			mk(b)
		}
		for _, fs := range []int{0, 4} { // consistent: each field empty or not, with and without execution data
			for _, ca := range []int{0, 20} {
				for _, dp := range []int{0, 20, 40} {
					for _, ex := range []int{0, 1} {
						mk(cat(pad32(r.BigBits(40)), u16(fs), r.Bytes(fs), []byte{byte(ca)}, r.Bytes(ca), []byte{byte(dp)}, r.Bytes(dp), r.Bytes(ex)))
					}
				}
			}
		}
	case "erc1155":
		t, err := depositHandlers.GetErc1155Type()
		if err != nil {
			panic(err)
		}
		pack := func(n, td int) []byte {
			ids, ams := make([]*big.Int, n), make([]*big.Int, n)
			for i := range ids {
				ids[i], ams[i] = amount(r), amount(r)
			}
			b, err := t.Pack(ids, ams, r.Bytes(20), r.Bytes(td))
			if err != nil {
				panic(err)
			}
			return b
		}
		cd := pack(2, 5)
		ends := []int{32, 64, 96, 128, len(cd)}
		for i := 0; i < 4; i++ { // every dynamic field: its length word and its end
			off := int(word(cd[32*i : 32*i+32]).Int64())
			ends = append(ends, off, off+32)
		}
		for _, b := range cutsAt(cd, ends, r) {
			mk(b)
		}
		for _, n := range []int{0, 1} {
			for _, td := range []int{0, 1, 32} {
				mk(pack(n, td))
			}
		}
	case "sub":
		rl := vgen.Pick(r, []int{20, 32})
		cd := cat(pad32(r.BigBits(64)), w(rl), r.Bytes(rl))
		for _, b := range cutsAt(cd, []int{32, 64, len(cd)}, r) {
			mk(b)
		}
		for _, n := range []int{0, 1, 19, 20, 21} {
			mk(cat(pad32(r.BigBits(64)), w(n), r.Bytes(n)))
		}
	case "btc":
		// the payload is text: "0x" + 40 hex digits + "_" + domain; cut at the end of each part
		text := []byte(fmt.Sprintf("0x%x_%d", r.Bytes(20), 2+r.Intn(3)))
		for _, b := range cutsAt(text, []int{2, 42, 43, len(text)}, r) {
			out = append(out, Dep{Kind: "btc", Dest: 2, Data: btcScript(string(b))})
		}
	}
	return out
}

// boundaryCases: the boundary deposits of every kind of the chain, `per` to a range among 2..3 healthy ones.
func boundaryCases(r *vgen.Rng, path, chain string, per int) []Case {
	var deps []Dep
	switch chain {
	case "evm":
		for _, k := range evmKinds {
			deps = append(deps, boundaryDeps(r, k)...)
		}
		r.Shuffle(len(deps), func(i, j int) { deps[i], deps[j] = deps[j], deps[i] }) // the kinds mixed within a range
	default:
		deps = boundaryDeps(r, chain)
	}
	var out []Case
	for len(deps) > 0 {
		n := per
		if n > len(deps) {
			n = len(deps)
		}
		ds := append([]Dep{}, deps[:n]...)
		deps = deps[n:]
		for i, h := 0, r.Range(2, 3); i < h; i++ {
			at := r.Intn(len(ds) + 1)
			ds = append(ds[:at], append([]Dep{healthy(r, chain, "")}, ds[at:]...)...)
		}
		out = append(out, Case{Path: path, Events: []Event{{Deps: ds}}})
	}
	return out
}

// concCase: the range of a concurrent case (conc.go): poisoned deposits of every outcome - handlers
// that panic (recovered per deposit), that fail, logs / events that are filtered out, garbage that
// yields a message - among healthy ones, for several destinations.
func concCase(r *vgen.Rng, path, chain string) Case {
	cat := poisons(r, chain)
	var ds []Dep
	maxU := new(big.Int).Sub(two256, big.NewInt(1))
	switch chain { // poisons whose handling panics
	case "evm":
		for _, k := range []string{"erc20", "erc721"} {
			h := healthy(r, chain, k)
			cd, _ := hex.DecodeString(h.Data)
			h.Data = hex.EncodeToString(setWord(cd, 32, vgen.Pick(r, []*big.Int{maxU, hostileWords[0], hostileWords[2]})))
			ds = append(ds, h)
		}
		ds = append(ds, Dep{Kind: "generic", Dest: 2, Data: hex.EncodeToString(bytesOf(0xff, 76))})
		// ... fails (no handler for the resource, calldata below the guard), is filtered out (the log does not unpack)
		h := healthy(r, chain, "erc20")
		ds = append(ds, Dep{Kind: "unknownres", Dest: h.Dest, Data: h.Data}, Dep{Kind: "erc20", Dest: 3, Data: hex.EncodeToString(r.Bytes(40))},
			Dep{Kind: "rawlog", Dest: 2, Data: hex.EncodeToString(r.Bytes(31))})
	case "sub":
		for i := 0; i < 2; i++ {
			h := healthy(r, chain, "")
			cd, _ := hex.DecodeString(h.Data)
			h.Data = hex.EncodeToString(setWord(cd, 32, vgen.Pick(r, []*big.Int{hostileWords[0], hostileWords[2]})))
			ds = append(ds, h)
		}
		h := healthy(r, chain, "")
		ds = append(ds, Dep{Kind: "subtt", Dest: h.Dest, Data: h.Data}, Dep{Kind: "sub", Dest: 3, Data: hex.EncodeToString(r.Bytes(40))},
			Dep{Kind: "subother", Dest: 2}, Dep{Kind: "subbad", Dest: 2, Data: "deposit_data:missing"})
	case "btc":
		addr := fmt.Sprintf("0x%x", r.Bytes(20))
		ds = append(ds, Dep{Kind: "btc", Dest: 2, Data: "6a92"}, Dep{Kind: "btc", Dest: 2, Data: ""}, Dep{Kind: "btcnoopret", Dest: 2},
			Dep{Kind: "btc", Dest: 2, Data: btcScript(addr + "_x")}, Dep{Kind: "btc", Dest: 2, Data: "zz"},
			Dep{Kind: "btcnopay", Dest: 2, Data: btcScript(addr + "_2")}, Dep{Kind: "btclowfee", Dest: 2, Data: btcScript(addr + "_2")})
	}
	for i := 0; i < 2; i++ {
		ds = append(ds, vgen.Pick(r, cat))
	}
	r.Shuffle(len(ds), func(i, j int) { ds[i], ds[j] = ds[j], ds[i] })
	for i := 0; i < 5; i++ {
		at := r.Intn(len(ds) + 1)
		ds = append(ds[:at], append([]Dep{healthy(r, chain, "")}, ds[at:]...)...)
	}
	return Case{Path: path, Events: []Event{{Deps: ds}}, Conc: true}
}

func bytesOf(b byte, n int) []byte {
	out := make([]byte, n)
	for i := range out {
		out[i] = b
	}
	return out
}
