package main

import (
	"bytes"
	"encoding/hex"
	"fmt"
	"math/big"
	"regexp"
	"strconv"

	"github.com/ChainSafe/sygma-relayer/chains/evm/listener/depositHandlers"
	"github.com/ethereum/go-ethereum/common"

	"verifharness/vgen"
)

// ---- wire formats (wf): which deposits are "well-formed" -------------------------------------------------
// Written independently of the handlers under test (ERC1155: canonical = what go-ethereum's ABI
// packer produces for the decoded values).

var two256 = new(big.Int).Lsh(big.NewInt(1), 256)

func word(b []byte) *big.Int { return new(big.Int).SetBytes(b) }

func fits(x *big.Int, max int) bool { return max >= 0 && x.IsInt64() && x.Int64() <= int64(max) }

func wfEvm(d Dep) bool {
	cd, err := hex.DecodeString(d.Data)
	if err != nil {
		return false
	}
	hr, err := hex.DecodeString(d.HR)
	if err != nil {
		return false
	}
	n := len(cd)
	switch d.Kind {
	case "erc20":
		if n < 84 || !(len(hr) == 0 || len(hr) >= 32) {
			return false
		}
		rl := word(cd[32:64])
		if !fits(rl, n-64) {
			return false
		}
		r := int(rl.Int64())
		if n == 64+r {
			return true
		}
		if n > 96+r {
			fee := word(cd[64+r : 96+r])
			return fee.Add(fee, big.NewInt(100000)).Cmp(two256) < 0
		}
		return false
	case "erc721":
		if n < 96 {
			return false
		}
		rl := word(cd[32:64])
		if !fits(rl, n-96) {
			return false
		}
		r := int(rl.Int64())
		ml := word(cd[64+r : 96+r])
		return fits(ml, n-96-r) && n == 96+r+int(ml.Int64())
	case "generic":
		if n < 76 {
			return false
		}
		p := 34 + int(cd[32])<<8 + int(cd[33])
		if p+1 > n {
			return false
		}
		q := p + 1 + int(cd[p])
		if q+1 > n {
			return false
		}
		return q+1+int(cd[q]) <= n
	case "erc1155":
		t, err := depositHandlers.GetErc1155Type()
		if err != nil {
			return false
		}
		vals, err := t.UnpackValues(cd)
		if err != nil {
			return false
		}
		re, err := t.Pack(vals...)
		return err == nil && bytes.Equal(re, cd)
	}
	return false
}

func wfSub(d Dep) bool {
	if d.Kind != "sub" {
		return false
	}
	cd, err := hex.DecodeString(d.Data)
	if err != nil || len(cd) < 84 {
		return false
	}
	rl := word(cd[32:64])
	return fits(rl, len(cd)-64) && len(cd) == 64+int(rl.Int64())
}

var btcData = regexp.MustCompile(`^0x[0-9a-fA-F]{40}_([0-9]{1,3})$`)

func wfBtc(d Dep) (uint8, bool) {
	if d.Kind != "btc" {
		return 0, false
	}
	script, err := hex.DecodeString(d.Data)
	if err != nil || !canonicalBtc(script) {
		return 0, false
	}
	m := btcData.FindStringSubmatch(string(script[2:]))
	if m == nil {
		return 0, false
	}
	v, err := strconv.ParseUint(m[1], 10, 8)
	if err != nil {
		return 0, false
	}
	return uint8(v), true
}

// ---- healthy deposits ----------------------------------------------------------------------------------

func pad32(x *big.Int) []byte { return common.LeftPadBytes(x.Bytes(), 32) }

func cat(parts ...[]byte) []byte { return bytes.Join(parts, nil) }

func amount(r *vgen.Rng) *big.Int {
	return r.BigBits(vgen.Pick(r, []int{1, 8, 63, 64, 65, 128, 255, 256}))
}

func erc20Data(r *vgen.Rng) (cd, hr []byte) {
	rec := r.Bytes(vgen.Pick(r, []int{20, 20, 20, 21, 32, 33, 64}))
	cd = cat(pad32(amount(r)), pad32(big.NewInt(int64(len(rec)))), rec)
	if r.Chance(1, 3) {
		cd = cat(cd, pad32(r.BigBits(vgen.Pick(r, []int{16, 40, 64}))), r.Bytes(r.Range(1, 80)))
	}
	if r.Chance(1, 4) {
		hr = pad32(amount(r))
	}
	return
}

func erc721Data(r *vgen.Rng) []byte {
	rec := r.Bytes(vgen.Pick(r, []int{0, 20, 20, 32, 33}))
	meta := r.Bytes(vgen.Pick(r, []int{0, 0, 1, 31, 32, 70}))
	return cat(pad32(amount(r)), pad32(big.NewInt(int64(len(rec)))), rec, pad32(big.NewInt(int64(len(meta)))), meta)
}

func genericData(r *vgen.Rng) []byte {
	fs := r.Bytes(vgen.Pick(r, []int{4, 4, 0, 5}))
	ca := r.Bytes(vgen.Pick(r, []int{20, 20, 32}))
	dp := r.Bytes(vgen.Pick(r, []int{20, 20, 32}))
	ex := r.Bytes(r.Range(0, 90))
	return cat(pad32(r.BigBits(40)), []byte{byte(len(fs) >> 8), byte(len(fs))}, fs, []byte{byte(len(ca))}, ca, []byte{byte(len(dp))}, dp, ex)
}

func erc1155Data(r *vgen.Rng) []byte {
	t, err := depositHandlers.GetErc1155Type()
	if err != nil {
		panic(err)
	}
	n := r.Intn(4)
	ids, ams := make([]*big.Int, n), make([]*big.Int, n)
	for i := range ids {
		ids[i], ams[i] = amount(r), amount(r)
	}
	b, err := t.Pack(ids, ams, r.Bytes(20), r.Bytes(vgen.Pick(r, []int{0, 1, 32, 40})))
	if err != nil {
		panic(err)
	}
	return b
}

func subData(r *vgen.Rng) []byte {
	rec := r.Bytes(vgen.Pick(r, []int{20, 32, 34, 64}))
	return cat(pad32(r.BigBits(vgen.Pick(r, []int{8, 64, 128}))), pad32(big.NewInt(int64(len(rec)))), rec)
}

func btcScript(data string) string {
	return hex.EncodeToString(cat([]byte{0x6a, byte(len(data))}, []byte(data)))
}

func btcGood(r *vgen.Rng, dest uint8) Dep {
	return Dep{Kind: "btc", Dest: dest, Data: btcScript(fmt.Sprintf("0x%x_%d", r.Bytes(20), dest))}
}

var evmKinds = []string{"erc20", "erc721", "erc1155", "generic"}

func healthy(r *vgen.Rng, chain string, kind string) Dep {
	dest := uint8(vgen.Pick(r, []int{2, 2, 3, 4}))
	switch chain {
	case "sub":
		return Dep{Kind: "sub", Dest: dest, Data: hex.EncodeToString(subData(r))}
	case "btc":
		return btcGood(r, dest)
	}
	if kind == "" {
		kind = vgen.Pick(r, evmKinds)
	}
	d := Dep{Kind: kind, Dest: dest}
	switch kind {
	case "erc20":
		cd, hr := erc20Data(r)
		d.Data, d.HR = hex.EncodeToString(cd), hex.EncodeToString(hr)
	case "erc721":
		d.Data = hex.EncodeToString(erc721Data(r))
	case "erc1155":
		d.Data = hex.EncodeToString(erc1155Data(r))
	case "generic":
		d.Data = hex.EncodeToString(genericData(r))
	}
	return d
}

// elsewhere: a healthy deposit for a destination other than the one the poisoned deposit names.
func elsewhere(r *vgen.Rng, chain string, bad Dep) Dep {
	avoid := bad.Dest
	if chain == "btc" { // the destination is what follows the '_' of the OP_RETURN data, if it is a number
		avoid = 2
		if script, err := hex.DecodeString(bad.Data); err == nil && len(script) >= 2 {
			if m := regexp.MustCompile(`_([0-9]{1,3})$`).FindStringSubmatch(string(script[2:])); m != nil {
				if v, err := strconv.ParseUint(m[1], 10, 8); err == nil {
					avoid = uint8(v)
				}
			}
		}
	}
	for {
		d := healthy(r, chain, "")
		dest := d.Dest
		if dest != avoid {
			return d
		}
	}
}

// ---- the poison catalogue -------------------------------------------------------------------------------

var hostileWords = func() []*big.Int {
	p := func(e uint, d int64) *big.Int {
		x := new(big.Int).Lsh(big.NewInt(1), e)
		return x.Add(x, big.NewInt(d))
	}
	return []*big.Int{p(63, -1), p(63, 0), p(64, -20), p(64, 20), p(255, 0), p(256, -1), p(31, 0), p(32, 5)}
}()

func setWord(cd []byte, off int, w *big.Int) []byte {
	out := append([]byte{}, cd...)
	if off+32 <= len(out) {
		copy(out[off:off+32], pad32(w))
	}
	return out
}

// poisonsEvm: the catalogue for one handler kind, built from a healthy deposit of that kind.
func poisonsEvm(r *vgen.Rng, kind string) []Dep {
	base := healthy(r, "evm", kind)
	cd, _ := hex.DecodeString(base.Data)
	guard := map[string]int{"erc20": 84, "erc721": 64, "generic": 76, "erc1155": 256}[kind]
	var out []Dep
	mk := func(b []byte, hr []byte) {
		out = append(out, Dep{Kind: kind, Dest: base.Dest, Data: hex.EncodeToString(b), HR: hex.EncodeToString(hr)})
	}
	mk(nil, nil)
	mk([]byte{7}, nil)
	mk(make([]byte, guard-1), nil)
	mk(make([]byte, guard), nil)
	mk(bytes.Repeat([]byte{0xff}, guard), nil)
	for _, w := range hostileWords {
		switch kind {
		case "erc1155":
			for _, off := range []int{0, 32, 64, 96, 128} { // the four head offsets and the first array length
				mk(setWord(cd, off, w), nil)
			}
		case "generic":
			// the length prefixes are 2 / 1 / 1 bytes wide: take the low bytes of the hostile word
			b := append([]byte{}, cd...)
			lw := pad32(w)
			b[32], b[33] = lw[30], lw[31]
			mk(b, nil)
		default:
			mk(setWord(cd, 32, w), nil)
			if kind == "erc721" {
				rl := int(word(cd[32:64]).Int64())
				mk(setWord(cd, 64+rl, w), nil) // the metadata length word
			}
		}
	}
	// length word = what is there + 1, and exactly the calldata length
	if kind == "erc20" || kind == "erc721" {
		mk(setWord(cd, 32, big.NewInt(int64(len(cd)-64+1))), nil)
		mk(setWord(cd, 32, big.NewInt(int64(len(cd)))), nil)
		mk(setWord(cd, 32, big.NewInt(int64(len(cd)-64))), nil)
	}
	if kind == "generic" {
		for _, v := range []byte{0xff, 0x80} {
			b := append([]byte{}, cd...)
			b[32], b[33] = v, v
			mk(b, nil)
			b = append([]byte{}, cd...)
			b[34+int(cd[33])] = v // contract address length
			mk(b, nil)
			b = append([]byte{}, cd...)
			p := 34 + int(cd[33])
			b[p+1+int(cd[p])] = v // depositor length
			mk(b, nil)
		}
	}
	// truncated tails
	for _, cut := range []int{1, 2, 31, 32, 33} {
		if len(cd) > cut {
			mk(cd[:len(cd)-cut], nil)
		}
	}
	mk(cd[:len(cd)/2], nil)
	// short handler responses (only the ERC20 handler looks at it)
	if kind == "erc20" {
		for _, n := range []int{1, 2, 16, 31} {
			mk(cd, r.Bytes(n))
		}
		// optional-message tail of exactly 1..32 bytes, and a fee word that overflows
		rl := int(word(cd[32:64]).Int64())
		core := cd[:64+rl]
		mk(cat(core, r.Bytes(1)), nil)
		mk(cat(core, r.Bytes(32)), nil)
		mk(cat(core, bytes.Repeat([]byte{0xff}, 32), r.Bytes(8)), nil)
	}
	out = append(out,
		Dep{Kind: "unknownres", Dest: base.Dest, Data: base.Data},
		Dep{Kind: "noreg", Dest: base.Dest, Data: base.Data},
		Dep{Kind: "rawlog", Dest: base.Dest, Data: hex.EncodeToString(r.Bytes(vgen.Pick(r, []int{0, 1, 31, 32, 95, 160})))},
		Dep{Kind: "rawlog", Dest: base.Dest, Data: hex.EncodeToString(cat(make([]byte, 96), pad32(hostileWords[r.Intn(len(hostileWords))]), make([]byte, 64)))},
	)
	out = append(out, sample(r, moreEvm(r, kind, base), 3)...)
	return out
}

func poisonsSub(r *vgen.Rng) []Dep {
	base := healthy(r, "sub", "")
	cd, _ := hex.DecodeString(base.Data)
	var out []Dep
	mk := func(b []byte) { out = append(out, Dep{Kind: "sub", Dest: base.Dest, Data: hex.EncodeToString(b)}) }
	mk(nil)
	mk([]byte{7})
	mk(make([]byte, 83))
	mk(make([]byte, 84))
	mk(bytes.Repeat([]byte{0xff}, 84))
	for _, w := range hostileWords {
		mk(setWord(cd, 32, w))
	}
	mk(setWord(cd, 32, big.NewInt(int64(len(cd)-64+1))))
	mk(setWord(cd, 32, big.NewInt(int64(len(cd)))))
	for _, cut := range []int{1, 2, 31, 32, 33} {
		mk(cd[:len(cd)-cut])
	}
	out = append(out,
		Dep{Kind: "subtt", Dest: base.Dest, Data: base.Data},
		Dep{Kind: "subfield", Dest: base.Dest, Data: base.Data},
		Dep{Kind: "subother", Dest: base.Dest, Data: ""},
	)
	out = append(out, sample(r, moreSub(r, base), 8)...)
	return out
}

func poisonsBtc(r *vgen.Rng) []Dep {
	addr := fmt.Sprintf("0x%x", r.Bytes(20))
	var out []Dep
	mk := func(script string) { out = append(out, Dep{Kind: "btc", Dest: 2, Data: script}) }
	mk("")     // OP_RETURN of 0 bytes
	mk("6a")   // 1 byte
	mk("6a00") // 2 bytes: empty data, no '_'
	mk("6a01" + hex.EncodeToString([]byte("_")))
	mk("zz")                     // ill-formed hex
	mk("6a2")                    // odd-length hex
	mk(btcScript(addr))          // no '_'
	mk(btcScript(addr + "_"))    // empty domain
	mk(btcScript(addr + "_x"))   // non-numeric domain
	mk(btcScript(addr + "_256")) // domain does not fit 8 bits
	mk(btcScript(addr + "_-1"))
	mk(btcScript(addr + "_1_2")) // a third part
	mk(btcScript(addr + "_18446744073709551616"))
	mk(btcScript("_"))
	mk(btcScript("nothex_2"))
	// scripts that are not OP_RETURN + one direct push (scripts.go): a fixed handful and a sample here
	// (the whole catalogue in the thorough tier; in the quick tier the whole catalogue goes through
	// the packed blocks of btcSweepCases)
	for _, s := range []string{"6a51", "6a4c", "6a4d0000", "6a4e", "6aff", "6a4f", "6a60", "6a6a", "6a4c00", "6a61" + btcScript(addr + "_2")[2:], "6a51" + btcScript(addr + "_2")[2:]} {
		mk(s)
	}
	shapes := btcScriptDeps(r, btcScriptShapes(r))
	if !thoroughTier {
		r.Shuffle(len(shapes), func(i, j int) { shapes[i], shapes[j] = shapes[j], shapes[i] })
		shapes = shapes[:8]
	}
	out = append(out, shapes...)
	out = append(out,
		Dep{Kind: "btcnopay", Dest: 2, Data: btcScript(addr + "_2")},
		Dep{Kind: "btcnopay", Dest: 2, Data: "6a51"},
		Dep{Kind: "btcnopay", Dest: 2, Data: "6a4d"},
		Dep{Kind: "btcnopay", Dest: 2, Data: "6aff00"},
		Dep{Kind: "btclowfee", Dest: 2, Data: btcScript(addr + "_2")},
		Dep{Kind: "btcnoopret", Dest: 2, Data: ""},
	)
	return out
}

// thoroughTier: set by gen (the catalogue functions have no tier argument).
var thoroughTier bool

func poisons(r *vgen.Rng, chain string) []Dep {
	switch chain {
	case "sub":
		return poisonsSub(r)
	case "btc":
		return poisonsBtc(r)
	}
	var out []Dep
	for _, k := range evmKinds {
		out = append(out, poisonsEvm(r, k)...)
	}
	return out
}

// ---- ranges ------------------------------------------------------------------------------------------------

var paths = []struct{ name, chain string }{
	{"EvmDeposits", "evm"}, {"SubDeposits", "sub"}, {"BtcDeposits", "btc"}, {"EvmRetryV1", "evm"}, {"SubRetry", "sub"},
}

func gen(r *vgen.Rng, tier string) []Case {
	var out []Case
	thoroughTier = tier == "thorough"
	// 0. BTC: every OP_RETURN script shape and every opcode after OP_RETURN, packed into blocks among
	// healthy deposits (scripts.go)
	{
		per := 10
		if thoroughTier {
			per = 3
		}
		all := append(btcScriptDeps(r, btcScriptShapes(r)), btcScriptDeps(r, btcOpcodeSweep(r))...)
		out = append(out, btcSweepCases(r, all, per)...)
	}
	// 0b. calldata ending exactly at every field boundary, one byte short / long, and consistent deposits
	// with each variable-length field empty (bounds.go), packed into ranges; 0c. the concurrent cases
	// (conc.go): one range per chain kind (thorough: three)
	for i, p := range paths {
		per := 8
		if thoroughTier {
			per = 3
		}
		out = append(out, boundaryCases(r, p.name, p.chain, per)...)
		if i < 3 {
			for k, n := 0, map[bool]int{false: 1, true: 3}[thoroughTier]; k < n; k++ {
				out = append(out, concCase(r, p.name, p.chain))
			}
		}
	}
	for _, p := range paths {
		retry := p.name == "EvmRetryV1" || p.name == "SubRetry"
		// 1. every poison at every position among three healthy neighbours
		for _, bad := range poisons(r, p.chain) {
			for pos := 0; pos < 4; pos++ {
				if tier != "thorough" && !retry && pos != r.Intn(4) && pos != 1 {
					continue // quick tier: the plain ranges get two of the four positions
				}
				ds := []Dep{}
				for i := 0; i < 4; i++ {
					if i == pos {
						ds = append(ds, bad)
					} else {
						ds = append(ds, healthy(r, p.chain, ""))
					}
				}
				out = append(out, Case{Path: p.name, Events: []Event{{Deps: ds}}})
			}
			// 1b. the poison ALONE at its destination (every deposit the range holds for that destination
			// is malformed), among healthy deposits for other destinations - and two of the same poison
			lonePos := r.Intn(4)
			for pos := 0; pos < 4; pos++ {
				if tier != "thorough" && pos != lonePos {
					continue
				}
				ds := []Dep{}
				for i := 0; i < 4; i++ {
					if i == pos || (i == (pos+2)%4 && r.Chance(1, 3)) {
						ds = append(ds, bad)
					} else {
						ds = append(ds, elsewhere(r, p.chain, bad))
					}
				}
				out = append(out, Case{Path: p.name, Events: []Event{{Deps: ds}}})
			}
		}
		// 1c. nothing but poison: every destination of the range has only malformed deposits
		{
			cat := poisons(r, p.chain)
			for k := 0; k < 12; k++ {
				ds := []Dep{}
				for i, n := 0, r.Range(1, 4); i < n; i++ {
					d := vgen.Pick(r, cat)
					if p.chain != "btc" {
						d.Dest = uint8(vgen.Pick(r, []int{2, 3, 4, 200}))
					}
					ds = append(ds, d)
				}
				out = append(out, Case{Path: p.name, Events: []Event{{Deps: ds}}})
			}
		}
		// 2. random ranges: 1..3 events of 0..6 deposits, several poisons, statuses, skipped events
		n := 60
		if tier == "thorough" {
			n = 1500
		}
		cat := poisons(r, p.chain)
		for k := 0; k < n; k++ {
			ne := 1
			if retry {
				ne = r.Range(1, 3)
			}
			var evs []Event
			for e := 0; e < ne; e++ {
				ev := Event{Deps: []Dep{}}
				if retry && r.Chance(1, 8) {
					ev.Skip = true
				}
				for i, nd := 0, r.Range(0, 6); i < nd; i++ {
					var d Dep
					if r.Chance(2, 5) {
						d = vgen.Pick(r, cat)
					} else {
						d = healthy(r, p.chain, "")
					}
					if p.name == "EvmRetryV1" {
						d.Status = vgen.Pick(r, []string{"", "", "", "pending", "failed", "executed", "storeerr"})
						if r.Chance(1, 20) && d.Kind != "badlog" {
							d.Kind = "otheraddr"
						}
					}
					ev.Deps = append(ev.Deps, d)
				}
				evs = append(evs, ev)
			}
			out = append(out, Case{Path: p.name, Events: evs})
		}
		// 3. deposits that share field values
		n3 := 60
		if tier == "thorough" {
			n3 = 600
		}
		for k := 0; k < n3; k++ {
			out = append(out, sharedCase(r, p.name, p.chain, cat))
		}
	}
	// 4. every poison with long fields (long.go); own stream: the cases above stay what they were
	{
		lr := vgen.NewRng(r.U64())
		for _, p := range paths {
			if p.chain != "btc" { // BTC: the 76..10000-byte payloads of scripts.go
				out = append(out, longCases(lr, p.name, p.chain)...)
			}
		}
	}
	for i := range out {
		out[i] = normalise(out[i])
	}
	prefetch(out)
	return out
}

// ---- deposits that share field values ---------------------------------------------------------------------
// Deposit nonces are counted per destination domain, a block can be named by several retry events,
// users send to the same recipient: the deposits of one range / retried transaction / retried block
// may carry the same nonce (for different destinations), the same destination, the same resource,
// the same recipient, the same calldata, or be byte-identical.  Each is a deposit of its own.

func healthyFor(r *vgen.Rng, chain string, dest uint8) Dep {
	if chain == "btc" {
		return btcGood(r, dest)
	}
	d := healthy(r, chain, "")
	d.Dest = dest
	return d
}

// realDest: the destination a deposit names (BTC: what follows the '_', if it is a number).
func realDest(chain string, d Dep) uint8 {
	if chain != "btc" {
		return d.Dest
	}
	if script, err := hex.DecodeString(d.Data); err == nil && len(script) >= 2 {
		if m := regexp.MustCompile(`_([0-9]{1,3})$`).FindStringSubmatch(string(script[2:])); m != nil {
			if v, err := strconv.ParseUint(m[1], 10, 8); err == nil {
				return uint8(v)
			}
		}
	}
	return 2
}

// otherAmount: the same deposit with another first word (amount / token id / max fee) - same
// recipient, same resource; ok=false where the kind has no such word.
func otherAmount(r *vgen.Rng, d Dep) (Dep, bool) {
	switch d.Kind {
	case "erc20", "erc721", "sub", "generic":
		cd, err := hex.DecodeString(d.Data)
		if err != nil || len(cd) < 32 {
			return d, false
		}
		w := r.BigBits(40)
		if d.Kind != "generic" {
			w = amount(r)
		}
		d.Data = hex.EncodeToString(setWord(cd, 0, w))
		return d, true
	}
	return d, false
}

func sharedCase(r *vgen.Rng, path, chain string, cat []Dep) Case {
	retry := path == "EvmRetryV1" || path == "SubRetry"
	var free []uint64 // distinct nonces for the deposits that do not share one
	for n := uint64(1); n <= 40; n++ {
		free = append(free, n)
	}
	r.Shuffle(len(free), func(i, j int) { free[i], free[j] = free[j], free[i] })
	fresh := func() uint64 { n := free[0]; free = free[1:]; return n }
	status := func(d *Dep) {
		if path == "EvmRetryV1" {
			d.Status = vgen.Pick(r, []string{"", "", "", "pending", "failed", "executed", "storeerr"})
		}
	}
	// the base range: 1..4 deposits, healthy or poisoned, pairwise distinct nonces
	var ds []Dep
	for i, n := 0, r.Range(1, 4); i < n; i++ {
		var d Dep
		if r.Chance(2, 5) {
			d = vgen.Pick(r, cat)
		} else {
			d = healthy(r, chain, "")
		}
		d.Nonce = fresh()
		status(&d)
		ds = append(ds, d)
	}
	// 1..3 deposits that share something with a deposit x already there, put before or after x
	for k, n := 0, r.Range(1, 3); k < n; k++ {
		xi := r.Intn(len(ds))
		if k == 0 && r.Chance(1, 2) { // half of the cases: x is the poisoned one, if there is one
			for i, d := range ds {
				_, okBtc := wfBtc(d)
				if !(wfEvm(d) || wfSub(d) || okBtc) {
					xi = i
					break
				}
			}
		}
		x := ds[xi]
		var y Dep
		switch r.Intn(7) {
		case 0, 1: // the same nonce for another destination
			y = elsewhere(r, chain, x)
			y.Nonce = x.Nonce
			status(&y)
		case 2: // the same destination and the same nonce, other bytes
			y = healthyFor(r, chain, realDest(chain, x))
			y.Nonce = x.Nonce
			y.Status = x.Status
		case 3: // the same bytes, another nonce (EVM, Substrate: possibly another destination)
			y = x
			y.Nonce = fresh()
			if chain != "btc" && r.Bool() {
				y.Dest = uint8(vgen.Pick(r, []int{2, 3, 4}))
			}
			status(&y)
		case 4: // the same recipient and resource, another amount; the same or another nonce / destination
			var ok bool
			if y, ok = otherAmount(r, x); !ok {
				y = x
			}
			switch r.Intn(3) {
			case 0:
				y.Nonce = fresh()
				status(&y)
			case 1:
				if chain != "btc" {
					y.Dest = x.Dest%3 + 2
					status(&y)
				}
			}
		case 5: // the same nonce, a poisoned deposit (named destination: the same or another)
			y = vgen.Pick(r, cat)
			y.Nonce = x.Nonce
			if chain != "btc" && r.Bool() {
				y.Dest = x.Dest
			}
			status(&y)
		default: // byte-identical
			y = x
		}
		at := xi
		if r.Bool() {
			at = xi + 1
		}
		if r.Chance(1, 4) {
			at = r.Intn(len(ds) + 1)
		}
		ds = append(ds[:at], append([]Dep{y}, ds[at:]...)...)
	}
	// one range / block / retried transaction, or (retry paths) cut into 2..3 retried transactions /
	// blocks; a retried transaction / block may be named by a second retry event of the range
	evs := []Event{{Deps: ds}}
	if retry && r.Chance(2, 3) {
		evs = nil
		cuts := r.Range(1, 2)
		rest := ds
		for c := 0; c < cuts && len(rest) > 0; c++ {
			at := r.Range(0, len(rest))
			evs = append(evs, Event{Deps: append([]Dep{}, rest[:at]...)})
			rest = rest[at:]
		}
		evs = append(evs, Event{Deps: append([]Dep{}, rest...)})
		if r.Chance(1, 3) {
			e := evs[r.Intn(len(evs))]
			evs = append(evs, Event{Deps: append([]Dep{}, e.Deps...)})
		}
		if r.Chance(1, 10) {
			evs[r.Intn(len(evs))].Skip = true
		}
	}
	return Case{Path: path, Events: evs}
}
