package main

import (
	"context"
	"encoding/hex"
	"errors"
	"fmt"
	"io"
	"math/big"
	"runtime/debug"
	"strings"
	"time"

	btcconfig "github.com/ChainSafe/sygma-relayer/chains/btc/config"
	btclistener "github.com/ChainSafe/sygma-relayer/chains/btc/listener"
	"github.com/ChainSafe/sygma-relayer/chains/evm/calls/consts"
	evmevents "github.com/ChainSafe/sygma-relayer/chains/evm/calls/events"
	"github.com/ChainSafe/sygma-relayer/chains/evm/listener/depositHandlers"
	"github.com/ChainSafe/sygma-relayer/chains/evm/listener/eventHandlers"
	sublistener "github.com/ChainSafe/sygma-relayer/chains/substrate/listener"
	"github.com/ChainSafe/sygma-relayer/relayer/transfer"
	"github.com/ChainSafe/sygma-relayer/store"
	"github.com/btcsuite/btcd/btcjson"
	"github.com/btcsuite/btcd/btcutil"
	"github.com/btcsuite/btcd/chaincfg"
	"github.com/btcsuite/btcd/chaincfg/chainhash"
	"github.com/centrifuge/go-substrate-rpc-client/v4/registry"
	"github.com/centrifuge/go-substrate-rpc-client/v4/registry/parser"
	"github.com/centrifuge/go-substrate-rpc-client/v4/types"
	"github.com/ethereum/go-ethereum/accounts/abi"
	"github.com/ethereum/go-ethereum/common"
	ethTypes "github.com/ethereum/go-ethereum/core/types"
	"github.com/rs/zerolog"
	zlog "github.com/rs/zerolog/log"
	"github.com/sygmaprotocol/sygma-core/relayer/message"
)

// silence: nothing is WRITTEN, but every log line is still formatted, as in a running relayer (log level
// debug): the failure paths of the handlers print the deposit / event / error they failed on, and that
// printing is part of processing the range - a log line whose formatting panics, hangs or overflows the
// stack on the field contents of a malformed deposit ends the relayer like any other crash.
func silence() {
	// endless recursion dies after 128 MB of stack (well above anything the handlers need), not after 1 GB
	debug.SetMaxStack(128 << 20)
	zerolog.SetGlobalLevel(zerolog.TraceLevel)
	zlog.Logger = zerolog.New(io.Discard).With().Timestamp().Logger()
}

// discardLog: the logger context handed to the event handlers (formats, writes nowhere)
func discardLog() zerolog.Context { return zerolog.New(io.Discard).With() }

const sourceDomain = uint8(1)

func unhex(s string) []byte {
	b, err := hex.DecodeString(s)
	if err != nil {
		panic("case holds ill-formed hex: " + s)
	}
	return b
}

func msgNonce(m *message.Message) (uint64, bool) {
	if m == nil {
		return 0, false
	}
	d, ok := m.Data.(transfer.TransferMessageData)
	if !ok {
		return 0, false
	}
	return d.DepositNonce, true
}

// guarded runs f; a panic is reported as "panic".
func guarded(t *fpTable, f func() (*message.Message, error, bool)) (out string, dest uint8, fp uint64, mn *uint64) {
	defer func() {
		if r := recover(); r != nil {
			out, dest, fp, mn = "panic", 0, 0, nil
		}
	}()
	m, err, skipped := f()
	switch {
	case skipped:
		return "skip", 0, 0, nil
	case err != nil || m == nil:
		return "err", 0, 0, nil
	}
	if k, ok := contentKey(m); ok {
		fp = t.id(k)
	}
	if n, ok := msgNonce(m); ok {
		mn = &n
	}
	return "ok", m.Destination, fp, mn
}

// =====================================================================================================
// EVM

var (
	bridgeAddr   = common.HexToAddress("0x00000000000000000000000000000000000000b1")
	otherAddr    = common.HexToAddress("0x00000000000000000000000000000000000000b2")
	erc20Addr    = "0x0000000000000000000000000000000000000020"
	erc721Addr   = "0x0000000000000000000000000000000000000721"
	erc1155Addr  = "0x0000000000000000000000000000000000001155"
	genericAddr  = "0x0000000000000000000000000000000000000aaa"
	unregistered = "0x0000000000000000000000000000000000000bad"
	bridgeABI    abi.ABI
)

func init() {
	a, err := abi.JSON(strings.NewReader(consts.BridgeABI))
	if err != nil {
		panic(err)
	}
	bridgeABI = a
}

func resourceOf(kind string) [32]byte {
	var r [32]byte
	switch kind {
	case "erc20":
		r[31] = 1
	case "erc721":
		r[31] = 2
	case "erc1155":
		r[31] = 3
	case "generic":
		r[31] = 4
	case "noreg":
		r[31] = 5
	default: // unknownres
		r[31] = 0xee
	}
	return r
}

// matcher is the fake HandlerMatcher (the bridge contract's resource -> handler lookup).
type matcher struct{}

func (matcher) GetHandlerAddressForResourceID(r [32]byte) (common.Address, error) {
	switch r[31] {
	case 1:
		return common.HexToAddress(erc20Addr), nil
	case 2:
		return common.HexToAddress(erc721Addr), nil
	case 3:
		return common.HexToAddress(erc1155Addr), nil
	case 4:
		return common.HexToAddress(genericAddr), nil
	case 5:
		return common.HexToAddress(unregistered), nil
	}
	return common.Address{}, errors.New("no handler for resource")
}

// newEthDepositHandler registers the handlers the way app.go does.
func newEthDepositHandler() *depositHandlers.ETHDepositHandler {
	dh := depositHandlers.NewETHDepositHandler(matcher{})
	dh.RegisterDepositHandler(erc20Addr, &depositHandlers.Erc20DepositHandler{})
	dh.RegisterDepositHandler(genericAddr, &depositHandlers.PermissionlessGenericDepositHandler{})
	dh.RegisterDepositHandler(erc721Addr, &depositHandlers.Erc721DepositHandler{})
	dh.RegisterDepositHandler(erc1155Addr, &depositHandlers.Erc1155DepositHandler{})
	return dh
}

// depositLog: the log of deposit d; tx / idx are the hash of its transaction and its index in the
// block (logs of a chain are pairwise distinct in that, also those of byte-identical deposits).
func depositLog(d Dep, nonce uint64, blk uint64, tx common.Hash, idx uint) ethTypes.Log {
	var data []byte
	if d.Kind == "rawlog" {
		data = unhex(d.Data)
	} else if d.Kind == "badlog" {
		data = badLogData(d, nonce)
	} else {
		var err error
		data, err = bridgeABI.Events["Deposit"].Inputs.NonIndexed().Pack(d.Dest, resourceOf(d.Kind), nonce, unhex(d.Data), unhex(d.HR))
		if err != nil {
			panic(err)
		}
	}
	addr := bridgeAddr
	if d.Kind == "otheraddr" {
		addr = otherAddr
	}
	return ethTypes.Log{
		Address:     addr,
		Topics:      []common.Hash{evmevents.DepositSig.GetTopic(), common.BytesToHash(common.HexToAddress("0x01").Bytes())},
		Data:        data,
		BlockNumber: blk,
		TxHash:      tx,
		Index:       idx,
	}
}

// evmClient is the fake chain client under the real events.Listener.
type evmClient struct {
	depositLogs []ethTypes.Log
	retryLogs   []ethTypes.Log
	retryV2Logs []ethTypes.Log
	receipts    map[common.Hash]*ethTypes.Receipt
}

func (c *evmClient) FetchEventLogs(ctx context.Context, a common.Address, ev string, s, e *big.Int) ([]ethTypes.Log, error) {
	switch ev {
	case string(evmevents.DepositSig):
		return c.depositLogs, nil
	case string(evmevents.RetryV1Sig):
		return c.retryLogs, nil
	case string(evmevents.RetryV2Sig):
		return c.retryV2Logs, nil
	}
	return nil, nil
}
func (c *evmClient) WaitAndReturnTxReceipt(h common.Hash) (*ethTypes.Receipt, error) {
	if r, ok := c.receipts[h]; ok {
		return r, nil
	}
	return nil, errors.New("receipt unavailable")
}
func (c *evmClient) LatestBlock() (*big.Int, error) { return big.NewInt(1000), nil }
func (c *evmClient) BlockByNumber(ctx context.Context, n *big.Int) (*ethTypes.Block, error) {
	return nil, errors.New("no block")
}

// propStore: keyed by (destination, nonce) like the real one (the source is the chain's own domain)
type propStore struct{ st map[[2]uint64]string }

func (p propStore) StorePropStatus(s, d uint8, n uint64, st store.PropStatus) error { return nil }
func (p propStore) PropStatus(s, d uint8, n uint64) (store.PropStatus, error) {
	if s != sourceDomain {
		return store.MissingProp, nil
	}
	switch p.st[[2]uint64{uint64(d), n}] {
	case "executed":
		return store.ExecutedProp, nil
	case "pending":
		return store.PendingProp, nil
	case "failed":
		return store.FailedProp, nil
	case "storeerr":
		return store.MissingProp, errors.New("store unavailable")
	}
	return store.MissingProp, nil
}

// measureEvm: what the real listener + deposit handler do with this one deposit alone.
func measureEvm(t *fpTable, d Dep, nonce uint64, retry bool) DepObs {
	out, dest, fp, mn := guarded(t, func() (*message.Message, error, bool) {
		if d.Kind == "otheraddr" && retry {
			return nil, nil, true
		}
		cl := &evmClient{depositLogs: []ethTypes.Log{depositLog(d, nonce, 10, common.BigToHash(big.NewInt(0xabc)), 0)}}
		ds, err := evmevents.NewListener(cl).FetchDeposits(context.Background(), bridgeAddr, big.NewInt(1), big.NewInt(2))
		if err != nil || len(ds) == 0 {
			return nil, nil, true
		}
		x := ds[0]
		m, err := newEthDepositHandler().HandleDeposit(sourceDomain, x.DestinationDomainID, x.DepositNonce, x.ResourceID, x.Data, x.HandlerResponse, "m", x.Timestamp)
		return m, err, false
	})
	return DepObs{Good: wfEvm(d), Out: out, Dest: dest, Fp: fp, MNonce: mn}
}

func driveEvm(c Case) Obs {
	rg := getRig()
	o := Obs{Deps: make([][]DepObs, len(c.Events))}
	retry := c.Path == "EvmRetryV1"
	fpt := newFpTable()
	lastFpt = fpt
	cl := &evmClient{receipts: map[common.Hash]*ethTypes.Receipt{}}
	ps := propStore{st: map[[2]uint64]string{}}
	retryEvent := bridgeABI.Events["Retry"]
	logIdx := uint(0)
	for i, e := range c.Events {
		o.Deps[i] = make([]DepObs, len(e.Deps))
		var logs []*ethTypes.Log
		for j, d := range e.Deps {
			nonce := d.Nonce
			if e.Skip {
				o.Deps[i][j] = DepObs{Out: "skip"}
				continue
			}
			o.Deps[i][j] = measureEvm(fpt, d, nonce, retry)
			if k := [2]uint64{uint64(d.Dest), nonce}; ps.st[k] == "" {
				ps.st[k] = d.Status
			}
			logIdx++
			txh := common.BigToHash(big.NewInt(int64(0x1000 + logIdx))) // plain range: one transaction per deposit
			if retry {
				txh = common.HexToHash(fmt.Sprintf("0x%064x", i+1)) // the retried transaction
			}
			lg := depositLog(d, nonce, 10, txh, logIdx)
			if retry {
				logs = append(logs, &lg)
			} else {
				cl.depositLogs = append(cl.depositLogs, lg)
			}
		}
		if retry {
			tx := fmt.Sprintf("0x%064x", i+1)
			data, err := retryEvent.Inputs.NonIndexed().Pack(tx)
			if err != nil {
				panic(err)
			}
			cl.retryLogs = append(cl.retryLogs, ethTypes.Log{Address: bridgeAddr, Topics: []common.Hash{evmevents.RetryV1Sig.GetTopic()}, Data: data})
			if !e.Skip {
				cl.receipts[common.HexToHash(tx)] = &ethTypes.Receipt{BlockNumber: big.NewInt(10), Logs: logs}
			}
		}
	}
	l := evmevents.NewListener(cl)
	dh := newEthDepositHandler()
	ch := make(chan []*message.Message, 512)
	var err error
	if retry {
		err = eventHandlers.NewRetryV1EventHandler(discardLog(), l, dh, ps, bridgeAddr, sourceDomain, big.NewInt(5), ch).HandleEvents(big.NewInt(100), big.NewInt(105))
	} else {
		err = eventHandlers.NewDepositEventHandler(l, dh, bridgeAddr, sourceDomain, ch).HandleEvents(big.NewInt(100), big.NewInt(105))
	}
	o.Failed = err != nil
	consume(&o, ch, sameNonce, fpt)
	if o.Crashed {
		return o
	}
	// the third EVM handler that feeds the message channel: retry requests (RetryV2), one per event;
	// what it pushes goes through the relayer too (nothing of it is part of the groups)
	cl.retryV2Logs = retryV2Logs(c)
	ch2 := make(chan []*message.Message, 512)
	_ = eventHandlers.NewRetryV2EventHandler(discardLog(), l, bridgeAddr, sourceDomain, ch2).HandleEvents(big.NewInt(100), big.NewInt(105))
	if _, ok := rg.routeAll(pushed(rg, ch2)); !ok {
		o.Crashed, o.Stuck, o.Note = true, true, "Relayer.route did not finish (retry v2)"
	}
	return o
}

var retryABI = func() abi.ABI {
	a, err := abi.JSON(strings.NewReader(consts.RetryABI))
	if err != nil {
		panic(err)
	}
	return a
}()

// retryV2Logs: one well-formed retry request per event of the case plus logs whose data is the
// calldata of the case's deposits (does not unpack / unpacks to anything).
func retryV2Logs(c Case) []ethTypes.Log {
	var out []ethTypes.Log
	for i, e := range c.Events {
		data, err := retryABI.Events["Retry"].Inputs.NonIndexed().Pack(uint8(3+i), uint8(2), big.NewInt(int64(10+i)), [32]byte{31: 1})
		if err != nil {
			panic(err)
		}
		out = append(out, ethTypes.Log{Address: bridgeAddr, Topics: []common.Hash{evmevents.RetryV2Sig.GetTopic()}, Data: data})
		for _, d := range e.Deps {
			if b, err := hex.DecodeString(d.Data); err == nil {
				out = append(out, ethTypes.Log{Address: bridgeAddr, Topics: []common.Hash{evmevents.RetryV2Sig.GetTopic()}, Data: b})
			}
		}
	}
	return out
}

// =====================================================================================================
// Substrate

func subEvent(d Dep, nonce uint64) *parser.Event {
	if d.Kind == "subother" {
		return &parser.Event{Name: "System.ExtrinsicSuccess"}
	}
	if d.Kind == "subbad" {
		return &parser.Event{Name: "SygmaBridge.Deposit", Fields: subBadFields(d, nonce)}
	}
	tt := types.NewU8(0)
	if d.Kind == "subtt" {
		tt = types.NewU8(1)
	}
	var nv any = types.NewU64(nonce)
	if d.Kind == "subfield" {
		nv = "not a number"
	}
	return &parser.Event{
		Name: "SygmaBridge.Deposit",
		Fields: registry.DecodedFields{
			&registry.DecodedField{Name: "dest_domain_id", Value: types.NewU8(d.Dest)},
			&registry.DecodedField{Name: "resource_id", Value: types.Bytes32{1}},
			&registry.DecodedField{Name: "deposit_nonce", Value: nv},
			&registry.DecodedField{Name: "sygma_traits_TransferType", Value: tt},
			&registry.DecodedField{Name: "deposit_data", Value: unhex(d.Data)},
			&registry.DecodedField{Name: "handler_response", Value: [1]byte{0}},
		},
	}
}

func newSubDepositHandler() *sublistener.SubstrateDepositHandler {
	dh := sublistener.NewSubstrateDepositHandler()
	dh.RegisterDepositHandler(transfer.FungibleTransfer, sublistener.FungibleTransferHandler)
	return dh
}

type subConn struct {
	range_ []*parser.Event
	blocks map[uint64][]*parser.Event
}

func (s *subConn) GetFinalizedHead() (types.Hash, error) { return types.Hash{}, nil }
func (s *subConn) GetBlock(types.Hash) (*types.SignedBlock, error) {
	return &types.SignedBlock{Block: types.Block{Header: types.Header{Number: 1000}}}, nil
}
func (s *subConn) GetBlockHash(n uint64) (types.Hash, error) {
	var h types.Hash
	big.NewInt(int64(n)).FillBytes(h[:])
	return h, nil
}
func (s *subConn) GetBlockEvents(h types.Hash) ([]*parser.Event, error) {
	return s.blocks[new(big.Int).SetBytes(h[:]).Uint64()], nil
}
func (s *subConn) UpdateMetatdata() error                             { return nil }
func (s *subConn) FetchEvents(a, b *big.Int) ([]*parser.Event, error) { return s.range_, nil }

func measureSub(t *fpTable, d Dep, nonce uint64) DepObs {
	out, dest, fp, mn := guarded(t, func() (*message.Message, error, bool) {
		ev := subEvent(d, nonce)
		if ev.Name != "SygmaBridge.Deposit" {
			return nil, nil, true
		}
		x, err := sublistener.DecodeDepositEvent(ev.Fields)
		if err != nil {
			return nil, err, false
		}
		m, err := newSubDepositHandler().HandleDeposit(sourceDomain, x.DestDomainID, x.DepositNonce, x.ResourceID, x.CallData, x.TransferType, "m", x.Timestamp)
		return m, err, false
	})
	return DepObs{Good: wfSub(d), Out: out, Dest: dest, Fp: fp, MNonce: mn}
}

func driveSub(c Case) Obs {
	getRig()
	o := Obs{Deps: make([][]DepObs, len(c.Events))}
	retry := c.Path == "SubRetry"
	conn := &subConn{blocks: map[uint64][]*parser.Event{}}
	fpt := newFpTable()
	lastFpt = fpt
	for i, e := range c.Events {
		o.Deps[i] = make([]DepObs, len(e.Deps))
		var evs []*parser.Event
		for j, d := range e.Deps {
			nonce := d.Nonce
			if e.Skip {
				o.Deps[i][j] = DepObs{Out: "skip"}
				continue
			}
			o.Deps[i][j] = measureSub(fpt, d, nonce)
			evs = append(evs, subEvent(d, nonce))
		}
		if retry {
			height := uint64(10 + i)
			if e.Skip {
				height = 5000 // above the finalized head: "not enough confirmations"
			}
			conn.blocks[height] = evs
			conn.range_ = append(conn.range_,
				&parser.Event{Name: "System.ExtrinsicSuccess"},
				&parser.Event{Name: "SygmaBridge.Retry", Fields: registry.DecodedFields{
					&registry.DecodedField{Name: "deposit_on_block_height", Value: types.NewU128(*new(big.Int).SetUint64(height))},
					&registry.DecodedField{Name: "dest_domain_id", Value: types.NewU8(2)},
				}})
		} else {
			conn.range_ = append(conn.range_, evs...)
		}
	}
	ch := make(chan []*message.Message, 512)
	var err error
	if retry {
		err = sublistener.NewRetryEventHandler(discardLog(), conn, newSubDepositHandler(), sourceDomain, ch).HandleEvents(big.NewInt(100), big.NewInt(105))
	} else {
		err = sublistener.NewFungibleTransferEventHandler(discardLog(), sourceDomain, newSubDepositHandler(), ch, conn).HandleEvents(big.NewInt(100), big.NewInt(105))
	}
	o.Failed = err != nil
	consume(&o, ch, sameNonce, fpt)
	return o
}

// =====================================================================================================
// BTC

const (
	btcBridge = "tb1pdf5c3q35ssem2l25n435fa69qr7dzwkc6gsqehuflr3euh905l2slafjvv"
	btcFee    = "tb1qln69zuhdunc9stwfh6t7adexxrcr04ppy6thgm"
)

func btcSetup() (map[[32]byte]btcconfig.Resource, btcutil.Address) {
	a, err := btcutil.DecodeAddress(btcBridge, &chaincfg.TestNet3Params)
	if err != nil {
		panic(err)
	}
	f, err := btcutil.DecodeAddress(btcFee, &chaincfg.TestNet3Params)
	if err != nil {
		panic(err)
	}
	// ONE resource: with several, the resource a transaction is attributed to depends on Go's map
	// iteration order (that is C19's subject)
	return map[[32]byte]btcconfig.Resource{{1}: {Address: a, ResourceID: [32]byte{1}, FeeAmount: big.NewInt(10000)}}, f
}

func btcTx(d Dep, idx uint64) btcjson.TxRawResult {
	tx := btcjson.TxRawResult{Hash: fmt.Sprintf("%064x", idx), Blocktime: 1700000000}
	if d.Kind != "btcnoopret" {
		scripts := []string{d.Data}
		if d.Kind == "btc2op" { // two nulldata outputs: "script|script"
			scripts = strings.Split(d.Data, "|")
		}
		for _, s := range scripts {
			tx.Vout = append(tx.Vout, btcjson.Vout{ScriptPubKey: btcjson.ScriptPubKeyResult{Type: "nulldata", Hex: s}})
		}
	}
	if d.Kind != "btcnopay" {
		tx.Vout = append(tx.Vout, btcjson.Vout{Value: 0.00019, ScriptPubKey: btcjson.ScriptPubKeyResult{Type: "witness_v1_taproot", Address: btcBridge}})
	}
	fee := 0.0002
	if d.Kind == "btclowfee" {
		fee = 0.00000001
	}
	tx.Vout = append(tx.Vout, btcjson.Vout{Value: fee, ScriptPubKey: btcjson.ScriptPubKeyResult{Type: "witness_v0_keyhash", Address: btcFee}})
	return tx
}

type btcConn struct{ txs []btcjson.TxRawResult }

func (c *btcConn) GetRawTransactionVerbose(*chainhash.Hash) (*btcjson.TxRawResult, error) {
	return nil, errors.New("unused")
}
func (c *btcConn) GetBlockHash(int64) (*chainhash.Hash, error) { return &chainhash.Hash{}, nil }
func (c *btcConn) GetBestBlockHash() (*chainhash.Hash, error)  { return &chainhash.Hash{}, nil }
func (c *btcConn) GetBlockVerboseTx(*chainhash.Hash) (*btcjson.GetBlockVerboseTxResult, error) {
	return &btcjson.GetBlockVerboseTxResult{Height: 100, Tx: c.txs}, nil
}

func measureBtc(t *fpTable, d Dep, idx uint64) DepObs {
	_, good := wfBtc(d)
	res, feeAddr := btcSetup()
	out, dest, fp, _ := guarded(t, func() (*message.Message, error, bool) {
		x, isDep, err := btclistener.DecodeDepositEvent(btcTx(d, idx), res[[32]byte{1}], feeAddr)
		if err != nil {
			return nil, err, false
		}
		if !isDep {
			return nil, nil, true
		}
		m, err := btclistener.NewBtcDepositHandler().HandleDeposit(sourceDomain, idx, x.ResourceID, x.Amount, x.Data, big.NewInt(100), time.Unix(0, 0))
		return m, err, false
	})
	return DepObs{Good: good, Out: out, Dest: dest, Fp: fp}
}

func driveBtc(c Case) Obs {
	getRig()
	o := Obs{Deps: make([][]DepObs, len(c.Events))}
	conn := &btcConn{}
	res, feeAddr := btcSetup()
	ch := make(chan []*message.Message, 512)
	h := btclistener.NewFungibleTransferEventHandler(discardLog(), sourceDomain, btclistener.NewBtcDepositHandler(), ch, conn, res, feeAddr)
	fpt := newFpTable()
	lastFpt = fpt
	back := map[uint64]uint64{} // the real nonce (hash of block number and tx hash) -> the transaction's number in the case
	for i, e := range c.Events {
		o.Deps[i] = make([]DepObs, len(e.Deps))
		for j, d := range e.Deps {
			idx := d.Nonce
			if e.Skip {
				o.Deps[i][j] = DepObs{Out: "skip"}
				continue
			}
			o.Deps[i][j] = measureBtc(fpt, d, idx)
			tx := btcTx(d, idx)
			n, _ := h.CalculateNonce(big.NewInt(100), tx.Hash)
			back[n] = idx
			conn.txs = append(conn.txs, tx)
		}
	}
	err := h.HandleEvents(big.NewInt(100))
	o.Failed = err != nil
	// an unknown nonce maps to 0, which no deposit has
	consume(&o, ch, func(n uint64) uint64 { return back[n] }, fpt)
	return o
}

// lastFpt: the content numbering of the last case driven in this process (conc.go numbers what its
// concurrent calls returned by the table of the sequential reference run).
var lastFpt *fpTable

func drive(c Case) Obs {
	c = normalise(c)
	switch c.Path {
	case "EvmDeposits", "EvmRetryV1":
		return driveEvm(c)
	case "SubDeposits", "SubRetry":
		return driveSub(c)
	case "BtcDeposits":
		return driveBtc(c)
	}
	panic("unknown path " + c.Path)
}
