package main

// Concurrent cases (round 5).  app.go builds ONE deposit event handler per chain and hands that same
// object to the chain's listener and to the chain's executor.RetryMessageHandler; the latter calls
// its ProcessDeposits from sygma-core's route goroutines (one per batch, any number at a time).  The
// ETHDepositHandler / SubstrateDepositHandler under it is shared with the RetryV1EventHandler /
// RetryEventHandler of the listener as well.  So the per-deposit recover of a poisoned deposit runs on
// several goroutines at once, on shared objects.  A conc case is ONE plain range (poisoned and healthy
// deposits): in a child process of its own (a fatal runtime error such as "concurrent map writes"
// cannot be recovered: the death of the child is the observation) the objects are wired as app.go
// wires them, and
//
//	one listener goroutine    runs every event handler of the chain over the range, pass after pass
//	                          (EVM: DepositEventHandler, RetryV1EventHandler of a transaction holding the
//	                          same deposits; Substrate: RetryEventHandler of a block holding the same
//	                          deposits, FungibleTransferEventHandler; BTC: FungibleTransferEventHandler),
//	several route goroutines  hand retry messages (every resource x destination of the case) to the
//	                          chain's real RetryMessageHandler -> ProcessDeposits of the shared handler,
//
// thousands of calls in all.  Every ProcessDeposits result (seen by a spy between the retry message
// handler and the shared handler) and every batch that arrives on the message channel is compared with
// what the same call gave sequentially on the same objects before the goroutines were started.  The
// observation handed to the kernel is aggregated: the sequential reference run of the range (fresh
// objects, through the relayer rig, like every other case) when nothing differed; otherwise the result of
// the first differing call / the range's groups without the batch that was lost; crashed = the child died.

import (
	"bufio"
	"bytes"
	"context"
	"encoding/json"
	"fmt"
	"math/big"
	"os"
	"os/exec"
	"runtime"
	"sort"
	"strings"
	"sync"
	"sync/atomic"
	"syscall"
	"time"

	btcexec "github.com/ChainSafe/sygma-relayer/chains/btc/executor"
	btclistener "github.com/ChainSafe/sygma-relayer/chains/btc/listener"
	evmevents "github.com/ChainSafe/sygma-relayer/chains/evm/calls/events"
	evmexec "github.com/ChainSafe/sygma-relayer/chains/evm/executor"
	"github.com/ChainSafe/sygma-relayer/chains/evm/listener/eventHandlers"
	subexec "github.com/ChainSafe/sygma-relayer/chains/substrate/executor"
	sublistener "github.com/ChainSafe/sygma-relayer/chains/substrate/listener"
	"github.com/ChainSafe/sygma-relayer/relayer/retry"
	"github.com/centrifuge/go-substrate-rpc-client/v4/registry"
	"github.com/centrifuge/go-substrate-rpc-client/v4/registry/parser"
	"github.com/centrifuge/go-substrate-rpc-client/v4/types"
	"github.com/ethereum/go-ethereum/common"
	ethTypes "github.com/ethereum/go-ethereum/core/types"
	"github.com/sygmaprotocol/sygma-core/relayer/message"
)

type ConcStats struct {
	Goroutines int    `json:"goroutines"`
	Procs      int    `json:"procs"`
	Calls      int    `json:"calls"`   // HandleEvents passes + retry messages handled on the shared objects
	Batches    int    `json:"batches"` // batches that arrived on the message channel
	Deviations int    `json:"deviations"`
	First      string `json:"first,omitempty"`
}

// how much: one listener goroutine + concRoutes route goroutines; the listener makes concPasses
// passes, every route goroutine handles concRetries retry messages
const (
	concRoutes  = 5
	concPasses  = 1500
	concRetries = 1500
	// the child first drives the range sequentially (milliseconds, as in every other case): no answer
	// to that within concRefDeadline = processing the range does not terminate; the concurrent phase
	// needs about two seconds
	concRefDeadline = 15 * time.Second
	concDeadline    = 60 * time.Second
)

// ---- parent side -----------------------------------------------------------------------------------

func runConc(c Case) Obs {
	c = normalise(c)
	exe, err := os.Executable()
	if err != nil {
		panic(err)
	}
	cmd := exec.Command(exe, "-conc")
	var stderr bytes.Buffer
	cmd.Stderr = &stderr
	in, _ := cmd.StdinPipe()
	outp, _ := cmd.StdoutPipe()
	if err := cmd.Start(); err != nil {
		panic(err)
	}
	line, _ := json.Marshal(c)
	_, _ = in.Write(append(line, '\n'))
	_ = in.Close()
	type res struct {
		ref, fin *Obs
	}
	ch := make(chan res, 1)
	gotRef := make(chan struct{})
	go func() {
		rd := bufio.NewReaderSize(outp, 1<<20)
		var r res
		for i := 0; i < 2; i++ {
			b, err := rd.ReadBytes('\n')
			if err != nil {
				break
			}
			var o Obs
			if json.Unmarshal(b, &o) != nil {
				break
			}
			if i == 0 {
				r.ref = &o
				close(gotRef)
			} else {
				r.fin = &o
			}
		}
		ch <- r
	}()
	var r res
	hung := false
	select {
	case <-gotRef:
		select {
		case r = <-ch:
		case <-time.After(concDeadline):
			hung = true
		}
	case r = <-ch: // the child died before its first answer
	case <-time.After(concRefDeadline):
		hung = true
	}
	_ = cmd.Process.Kill()
	_ = cmd.Wait()
	if r.fin != nil {
		return *r.fin
	}
	o := Obs{Deps: emptyDeps(c), Groups: []Group{}}
	if r.ref != nil {
		o = *r.ref
	}
	if hung {
		o.Hung = true
		o.Note = fmt.Sprintf("concurrent calls on the shared handler objects do not terminate (no answer from the child within %v)", concDeadline)
		return o
	}
	o.Crashed = true
	o.Note = "the process died while the listener and the retry message handler used the shared handler objects concurrently: " + firstLines(stderr.String(), 2)
	return o
}

func firstLines(s string, n int) string {
	ls := strings.Split(strings.TrimSpace(s), "\n")
	if len(ls) > n {
		ls = ls[:n]
	}
	out := strings.Join(ls, " | ")
	if len(out) > 300 {
		out = out[:300]
	}
	return out
}

// ---- child side ------------------------------------------------------------------------------------

func concMain() {
	lim := syscall.Rlimit{Cur: 6 << 30, Max: 6 << 30}
	_ = syscall.Setrlimit(syscall.RLIMIT_AS, &lim)
	silence()
	procs := runtime.NumCPU()
	if procs < 4 {
		procs = 4
	}
	if procs > 8 {
		procs = 8
	}
	runtime.GOMAXPROCS(procs)
	in := bufio.NewReaderSize(os.Stdin, 1<<20)
	line, _ := in.ReadBytes('\n')
	var c Case
	if e := json.Unmarshal(line, &c); e != nil {
		fmt.Fprintln(os.Stderr, "bad case:", e)
		os.Exit(3)
	}
	c = normalise(c)
	out := bufio.NewWriter(os.Stdout)
	put := func(o Obs) {
		b, _ := json.Marshal(o)
		out.Write(b)
		out.WriteByte('\n')
		out.Flush()
	}
	ref := drive(c) // the sequential reference: fresh objects, through the relayer rig
	put(ref)
	put(concDrive(c, ref, lastFpt, procs))
}

// sig: a message as compared between calls (the nonce mapped back to the case's numbering).
type sig struct {
	Dest  uint8
	Nonce uint64
	Key   string
	Nil   bool `json:",omitempty"`
}

type sgroups map[uint8][]sig

func (g sgroups) canon() string {
	ks := make([]int, 0, len(g))
	for k := range g {
		ks = append(ks, int(k))
	}
	sort.Ints(ks)
	var sb strings.Builder
	for _, k := range ks {
		b, _ := json.Marshal(g[uint8(k)])
		fmt.Fprintf(&sb, "%d:%s;", k, b)
	}
	return sb.String()
}

// world: the long-lived objects of one chain, wired as app.go wires them.
type world struct {
	msgChan  chan []*message.Message
	listener func()                                          // one pass of the chain's listener over the range
	process  func() (map[uint8][]*message.Message, error)    // ProcessDeposits of the shared deposit event handler, as the listener calls it
	retries  []func()                                        // the retry messages: each hands one to the chain's real RetryMessageHandler
	nonce    func(uint64) uint64                             // nonce of a message -> the case's numbering
	spied    func(m map[uint8][]*message.Message, err error) // set by concDrive: sees every ProcessDeposits result the retry message handler gets
}

func (w *world) sigOf(m *message.Message) sig {
	if m == nil {
		return sig{Nil: true}
	}
	s := sig{Dest: m.Destination}
	if n, ok := msgNonce(m); ok {
		s.Nonce = w.nonce(n)
		s.Key, _ = contentKey(m)
	} else {
		s.Key = "other:" + string(m.Type)
	}
	return s
}

func (w *world) sigs(b []*message.Message) []sig {
	out := make([]sig, len(b))
	for i, m := range b {
		out[i] = w.sigOf(m)
	}
	return out
}

func (w *world) groupsOf(m map[uint8][]*message.Message) sgroups {
	g := sgroups{}
	for k, l := range m {
		g[k] = w.sigs(l)
	}
	return g
}

// spy sits between the retry message handler and the shared deposit event handler (the handler itself
// is handed on unchanged: the spy only looks at what comes back).
type spy2 struct {
	w     *world
	inner interface {
		ProcessDeposits(a, b *big.Int) (map[uint8][]*message.Message, error)
	}
}

func (s spy2) ProcessDeposits(a, b *big.Int) (map[uint8][]*message.Message, error) {
	m, err := s.inner.ProcessDeposits(a, b)
	s.w.spied(m, err)
	return m, err
}

type spy1 struct {
	w     *world
	inner interface {
		ProcessDeposits(a *big.Int) (map[uint8][]*message.Message, error)
	}
}

func (s spy1) ProcessDeposits(a *big.Int) (map[uint8][]*message.Message, error) {
	m, err := s.inner.ProcessDeposits(a)
	s.w.spied(m, err)
	return m, err
}

func retryMsg(dest uint8, height int64, res [32]byte) *message.Message {
	return &message.Message{Source: 9, Destination: sourceDomain, Type: retry.RetryMessageType, ID: "retry",
		Data: retry.RetryMessageData{SourceDomainID: sourceDomain, DestinationDomainID: dest, BlockHeight: big.NewInt(height), ResourceID: res}}
}

var concDests = []uint8{2, 3, 4, 200}

// freshReceipts: a chain client that hands out a NEW receipt per request (events.Listener adds the
// confirmations to the receipt's block number in place).
type freshReceipts struct {
	*evmClient
	logs map[common.Hash][]*ethTypes.Log
}

func (c freshReceipts) WaitAndReturnTxReceipt(h common.Hash) (*ethTypes.Receipt, error) {
	if l, ok := c.logs[h]; ok {
		out := make([]*ethTypes.Log, len(l))
		for i, lg := range l {
			cp := *lg
			cp.Data = append([]byte{}, lg.Data...)
			out[i] = &cp
		}
		return &ethTypes.Receipt{BlockNumber: big.NewInt(10), Logs: out}, nil
	}
	return c.evmClient.WaitAndReturnTxReceipt(h)
}

// every answer of a node is a new copy of the log data: the ABI decoder hands out slices of it and the
// ERC20 deposit handler writes the fee word of an optional message back into its calldata
func (c freshReceipts) FetchEventLogs(ctx context.Context, a common.Address, ev string, s, e *big.Int) ([]ethTypes.Log, error) {
	l, err := c.evmClient.FetchEventLogs(ctx, a, ev, s, e)
	out := make([]ethTypes.Log, len(l))
	for i, lg := range l {
		out[i] = lg
		out[i].Data = append([]byte{}, lg.Data...)
	}
	return out, err
}

func evmWorld(c Case) *world {
	w := &world{msgChan: make(chan []*message.Message, 1<<14), nonce: sameNonce}
	cl := freshReceipts{evmClient: &evmClient{}, logs: map[common.Hash][]*ethTypes.Log{}}
	tx := common.HexToHash(fmt.Sprintf("0x%064x", 1))
	idx := uint(0)
	for _, e := range c.Events {
		if e.Skip {
			continue
		}
		for _, d := range e.Deps {
			idx++
			cl.depositLogs = append(cl.depositLogs, depositLog(d, d.Nonce, 10, common.BigToHash(big.NewInt(int64(0x1000+idx))), idx))
			lg := depositLog(d, d.Nonce, 10, tx, idx)
			cl.logs[tx] = append(cl.logs[tx], &lg)
		}
	}
	data, err := bridgeABI.Events["Retry"].Inputs.NonIndexed().Pack(tx.Hex())
	if err != nil {
		panic(err)
	}
	cl.retryLogs = []ethTypes.Log{{Address: bridgeAddr, Topics: []common.Hash{evmevents.RetryV1Sig.GetTopic()}, Data: data}}
	ps := propStore{st: map[[2]uint64]string{}}
	l := evmevents.NewListener(cl)
	dh := newEthDepositHandler()
	deh := eventHandlers.NewDepositEventHandler(l, dh, bridgeAddr, sourceDomain, w.msgChan)
	rv1 := eventHandlers.NewRetryV1EventHandler(discardLog(), l, dh, ps, bridgeAddr, sourceDomain, big.NewInt(5), w.msgChan)
	rmh := evmexec.NewRetryMessageHandler(spy2{w, deh}, cl, ps, big.NewInt(5), w.msgChan)
	w.listener = func() {
		_ = deh.HandleEvents(big.NewInt(100), big.NewInt(105))
		_ = rv1.HandleEvents(big.NewInt(100), big.NewInt(105))
	}
	w.process = func() (map[uint8][]*message.Message, error) {
		return deh.ProcessDeposits(big.NewInt(100), big.NewInt(105))
	}
	for _, k := range []string{"erc20", "erc721", "erc1155", "generic", "unknownres"} {
		for _, dest := range concDests {
			m := retryMsg(dest, 90, resourceOf(k))
			w.retries = append(w.retries, func() { _, _ = rmh.HandleMessage(m) })
		}
	}
	return w
}

func subWorld(c Case) *world {
	w := &world{msgChan: make(chan []*message.Message, 1<<14), nonce: sameNonce}
	conn := &subConn{blocks: map[uint64][]*parser.Event{}}
	for _, e := range c.Events {
		if e.Skip {
			continue
		}
		for _, d := range e.Deps {
			conn.range_ = append(conn.range_, subEvent(d, d.Nonce))
		}
	}
	conn.blocks[10] = append([]*parser.Event{}, conn.range_...)
	// the range also holds a Retry event that names block 10, which holds the same deposits
	conn.range_ = append(conn.range_, &parser.Event{Name: "SygmaBridge.Retry", Fields: registry.DecodedFields{
		&registry.DecodedField{Name: "deposit_on_block_height", Value: types.NewU128(*big.NewInt(10))},
		&registry.DecodedField{Name: "dest_domain_id", Value: types.NewU8(2)},
	}})
	ps := propStore{st: map[[2]uint64]string{}}
	dh := newSubDepositHandler()
	deh := sublistener.NewFungibleTransferEventHandler(discardLog(), sourceDomain, dh, w.msgChan, conn)
	reh := sublistener.NewRetryEventHandler(discardLog(), conn, dh, sourceDomain, w.msgChan)
	rmh := subexec.NewRetryMessageHandler(spy2{w, deh}, conn, ps, w.msgChan)
	w.listener = func() {
		_ = reh.HandleEvents(big.NewInt(100), big.NewInt(105))
		_ = deh.HandleEvents(big.NewInt(100), big.NewInt(105))
	}
	w.process = func() (map[uint8][]*message.Message, error) {
		return deh.ProcessDeposits(big.NewInt(100), big.NewInt(105))
	}
	for _, res := range [][32]byte{{1}, {2}} {
		for _, dest := range concDests {
			m := retryMsg(dest, 90, res)
			w.retries = append(w.retries, func() { _, _ = rmh.HandleMessage(m) })
		}
	}
	return w
}

func btcWorld(c Case) *world {
	w := &world{msgChan: make(chan []*message.Message, 1<<14)}
	conn := &btcConn{}
	res, feeAddr := btcSetup()
	deh := btclistener.NewFungibleTransferEventHandler(discardLog(), sourceDomain, btclistener.NewBtcDepositHandler(), w.msgChan, conn, res, feeAddr)
	back := map[uint64]uint64{}
	for _, e := range c.Events {
		if e.Skip {
			continue
		}
		for _, d := range e.Deps {
			tx := btcTx(d, d.Nonce)
			for _, blk := range []int64{100, 90} { // the listener's block and the retried one
				n, _ := deh.CalculateNonce(big.NewInt(blk), tx.Hash)
				back[n] = d.Nonce
			}
			conn.txs = append(conn.txs, tx)
		}
	}
	w.nonce = func(n uint64) uint64 { return back[n] }
	ps := propStore{st: map[[2]uint64]string{}}
	rmh := btcexec.NewRetryMessageHandler(spy1{w, deh}, conn, big.NewInt(5), ps, w.msgChan)
	w.listener = func() { _ = deh.HandleEvents(big.NewInt(100)) }
	w.process = func() (map[uint8][]*message.Message, error) { return deh.ProcessDeposits(big.NewInt(100)) }
	for _, r := range [][32]byte{{1}, {2}} {
		for _, dest := range concDests {
			m := retryMsg(dest, 90, r)
			w.retries = append(w.retries, func() { _, _ = rmh.HandleMessage(m) })
		}
	}
	return w
}

// drain takes what is on the message channel once the goroutines HandleEvents started to push its
// batches are gone.
func (w *world) drain() [][]*message.Message {
	quiet(inHandlers, 30*time.Second)
	var out [][]*message.Message
	for {
		select {
		case b := <-w.msgChan:
			out = append(out, b)
		default:
			return out
		}
	}
}

func concDrive(c Case, ref Obs, fpt *fpTable, procs int) Obs {
	var w *world
	switch c.Path {
	case "EvmDeposits":
		w = evmWorld(c)
	case "SubDeposits":
		w = subWorld(c)
	case "BtcDeposits":
		w = btcWorld(c)
	default:
		panic("concurrent case on path " + c.Path)
	}
	o := ref
	st := &ConcStats{Goroutines: 1 + concRoutes, Procs: procs}
	o.Conc = st

	// ---- sequential, on the shared objects: what every call is expected to give -------------------
	var mu sync.Mutex
	var devGroups sgroups // the result reported instead of the reference
	deviate := func(what string, g sgroups) {
		mu.Lock()
		defer mu.Unlock()
		st.Deviations++
		if st.Deviations == 1 {
			st.First, devGroups = what, g
		}
	}
	w.spied = func(map[uint8][]*message.Message, error) {}
	pm, perr := w.process()
	refProc := w.groupsOf(pm)
	refCanon := refProc.canon()
	batchKey := func(b []*message.Message) string { x, _ := json.Marshal(w.sigs(b)); return string(x) }
	w.listener()
	perPass := map[string]int{}
	for _, b := range w.drain() {
		perPass[batchKey(b)]++
	}
	perRetry := make([]map[string]int, len(w.retries))
	for i, f := range w.retries {
		f()
		perRetry[i] = map[string]int{}
		for _, b := range w.drain() {
			perRetry[i][batchKey(b)]++
		}
	}

	// ---- concurrently --------------------------------------------------------------------------------
	w.spied = func(m map[uint8][]*message.Message, err error) {
		if (err != nil) != (perr != nil) {
			deviate(fmt.Sprintf("ProcessDeposits (retry message) returned error %v, sequentially %v", err, perr), sgroups{})
			return
		}
		if g := w.groupsOf(m); g.canon() != refCanon {
			deviate("ProcessDeposits (retry message) returned other messages than sequentially", g)
		}
	}
	got := map[string]int{}
	stop := make(chan struct{})
	consumed := make(chan struct{})
	var arrived int64
	take := func(b []*message.Message) {
		got[batchKey(b)]++
		st.Batches++
		atomic.AddInt64(&arrived, 1)
	}
	go func() {
		defer close(consumed)
		for {
			select {
			case b := <-w.msgChan:
				take(b)
			case <-stop:
				for {
					select {
					case b := <-w.msgChan:
						take(b)
					default:
						return
					}
				}
			}
		}
	}()
	used := make([]int64, len(w.retries))
	var calls int64
	var wg sync.WaitGroup
	start := make(chan struct{})
	wg.Add(1)
	go func() {
		defer wg.Done()
		<-start
		for i := 0; i < concPasses; i++ {
			w.listener()
			atomic.AddInt64(&calls, 1)
		}
	}()
	for g := 0; g < concRoutes; g++ {
		wg.Add(1)
		go func(g int) {
			defer wg.Done()
			<-start
			for i := 0; i < concRetries; i++ {
				k := (g*7 + i) % len(w.retries)
				w.retries[k]()
				atomic.AddInt64(&used[k], 1)
				atomic.AddInt64(&calls, 1)
			}
		}(g)
	}
	close(start)
	wg.Wait()
	st.Calls = int(calls)

	// ---- every batch that was expected arrived, as often as expected, and nothing else ----------------
	want := map[string]int{}
	wantAll := int64(0)
	for k, n := range perPass {
		want[k] += n * concPasses
		wantAll += int64(n * concPasses)
	}
	for i, m := range perRetry {
		for k, n := range m {
			want[k] += n * int(used[i])
			wantAll += int64(n) * used[i]
		}
	}
	// HandleEvents pushes its batches from goroutines of its own: wait until as many batches have
	// arrived as are expected (a stalled machine is not a lost batch), then until no pusher is left
	for t0 := time.Now(); atomic.LoadInt64(&arrived) < wantAll && time.Since(t0) < 45*time.Second; {
		time.Sleep(time.Millisecond)
	}
	quiet(inHandlers, 10*time.Second)
	close(stop)
	<-consumed
	destOf := func(k string) (uint8, []sig) {
		var l []sig
		_ = json.Unmarshal([]byte(k), &l)
		if len(l) == 0 {
			return 0, l
		}
		return l[0].Dest, l
	}
	keys := make([]string, 0, len(got)+len(want))
	for k := range got {
		keys = append(keys, k)
	}
	for k := range want {
		if _, ok := got[k]; !ok {
			keys = append(keys, k)
		}
	}
	sort.Strings(keys)
	for _, k := range keys {
		switch {
		case want[k] == 0:
			// a batch no sequential call produces: the range's groups with this batch in the place of its destination's
			d, l := destOf(k)
			g := sgroups{}
			for kk, v := range refProc {
				g[kk] = v
			}
			g[d] = l
			deviate(fmt.Sprintf("a batch arrived on the message channel %d times that no sequential call produces", got[k]), g)
		case got[k] < want[k]:
			d, _ := destOf(k)
			g := sgroups{}
			for kk, v := range refProc {
				if kk != d {
					g[kk] = v
				}
			}
			deviate(fmt.Sprintf("a batch for destination %d arrived %d times, expected %d times: batches were lost", d, got[k], want[k]), g)
		case got[k] > want[k]:
			d, l := destOf(k)
			g := sgroups{}
			for kk, v := range refProc {
				g[kk] = v
			}
			g[d] = append(append([]sig{}, g[d]...), l...)
			deviate(fmt.Sprintf("a batch for destination %d arrived %d times, expected %d times", d, got[k], want[k]), g)
		}
	}
	if st.Deviations > 0 {
		o.Note = "concurrent use of the shared handler objects: " + st.First
		o.Groups, o.Sent = projectSigs(devGroups, fpt)
	}
	return o
}

// projectSigs: groups in the runner's terms, numbered by the reference run's content table.
func projectSigs(g sgroups, fpt *fpTable) ([]Group, [][]*SentMsg) {
	var keys []string
	for _, l := range g {
		for _, s := range l {
			if _, seen := fpt.ids[s.Key]; !seen && !s.Nil {
				keys = append(keys, s.Key)
			}
		}
	}
	fpt.addAll(keys)
	m := map[uint8][][2]uint64{}
	var sent [][]*SentMsg
	ds := make([]int, 0, len(g))
	for k := range g {
		ds = append(ds, int(k))
	}
	sort.Ints(ds)
	for _, d := range ds {
		var b []*SentMsg
		for _, s := range g[uint8(d)] {
			if s.Nil {
				b = append(b, nil)
				continue
			}
			x := [2]uint64{s.Nonce, fpt.id(s.Key)}
			m[uint8(d)] = append(m[uint8(d)], x)
			b = append(b, &SentMsg{Dest: s.Dest, Nonce: s.Nonce, Fp: x[1]})
		}
		sent = append(sent, b)
	}
	key := func(b []*SentMsg) string { x, _ := json.Marshal(b); return string(x) }
	sort.Slice(sent, func(i, j int) bool { return key(sent[i]) < key(sent[j]) })
	return sortedGroups(m), sent
}
